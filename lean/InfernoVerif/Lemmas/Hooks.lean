import InfernoVerif.Model.Hooks
/-!
Helper lemmas for C16 (`Props/C16.lean`): the well-formedness invariant `WF` of the code-shaped
hook machine (no dangling handle, handle ids unique, finaliser = current handles), its
preservation by every operation, the counting lemmas for module-call traces, and the one-step
refinement of the specification machine.  Core Lean only.
-/
namespace InfernoVerif.Hooks

def HookOK (s : State) (i : Nat) (hk : Hook) : Prop :=
  (∀ id, hk.preH = some id → (id, i) ∈ s.pre) ∧
  (∀ id, hk.postH = some id → (id, i) ∈ s.post) ∧
  hk.fin = (if hk.registered then some (hk.preH, hk.postH) else none) ∧
  (hk.registered = true → hk.preH.isSome = hk.cfg.hasPre ∧ hk.postH.isSome = hk.cfg.hasPost) ∧
  (hk.cfg.hasPre || hk.cfg.hasPost) = true

structure WF (s : State) : Prop where
  pre_ok : ∀ e ∈ s.pre, e.1 < s.nextId ∧ ∃ hk, s.hooks[e.2]? = some hk ∧ hk.alive = true ∧ hk.preH = some e.1
  post_ok : ∀ e ∈ s.post, e.1 < s.nextId ∧ ∃ hk, s.hooks[e.2]? = some hk ∧ hk.alive = true ∧ hk.postH = some e.1
  hook_ok : ∀ i hk, s.hooks[i]? = some hk → HookOK s i hk
  pre_nodup : s.pre.Pairwise (fun a b => a.1 ≠ b.1)
  post_nodup : s.post.Pairwise (fun a b => a.1 ≠ b.1)

theorem pairwise_fst_inj {l : List (Nat × Nat)} (h : l.Pairwise (fun a b => a.1 ≠ b.1))
    {a b : Nat × Nat} (ha : a ∈ l) (hb : b ∈ l) (hab : a.1 = b.1) : a = b := by
  induction l with
  | nil => cases ha
  | cons x xs ih =>
    rw [List.pairwise_cons] at h
    rcases List.mem_cons.mp ha with rfl | ha' <;> rcases List.mem_cons.mp hb with rfl | hb'
    · rfl
    · exact absurd hab (h.1 b hb')
    · exact absurd hab.symm (h.1 a ha')
    · exact ih h.2 ha' hb'

theorem mem_removeHandle {l : List (Nat × Nat)} {o : Option Nat} {e : Nat × Nat} :
    e ∈ removeHandle l o ↔ e ∈ l ∧ o ≠ some e.1 := by
  cases o with
  | none => simp [removeHandle]
  | some id => simp [removeHandle, List.mem_filter]; intro _; constructor <;> (intro h h'; exact h h'.symm)

theorem pairwise_removeHandle {l : List (Nat × Nat)} (o : Option Nat)
    (h : l.Pairwise (fun a b => a.1 ≠ b.1)) : (removeHandle l o).Pairwise (fun a b => a.1 ≠ b.1) := by
  cases o with
  | none => exact h
  | some id => exact h.filter _

/-- `deregister` and the finaliser: all handles of hook `i` removed, its handle fields cleared. -/
theorem wf_clear (s : State) (w : WF s) (i : Nat) (hk hk' : Hook) (hi : s.hooks[i]? = some hk)
    (h1 : hk'.preH = none) (h2 : hk'.postH = none) (h3 : hk'.fin = none) (h5 : hk'.cfg = hk.cfg) :
    WF (setHook (detach s (hk.preH, hk.postH)) i hk') := by
  obtain ⟨a, b, c, d, e⟩ := w
  have hlt : i < s.hooks.length := (List.getElem?_eq_some_iff.mp hi).1
  constructor
  · intro e he
    simp only [setHook, detach, mem_removeHandle] at he
    obtain ⟨h, k, hk1, hk2, hk3⟩ := a e he.1
    refine ⟨h, ?_⟩
    simp only [setHook, detach, List.getElem?_set]
    have hie : i ≠ e.2 := by
      intro hie; subst hie; rw [hi] at hk1; cases hk1; exact he.2 hk3
    simp [hie]; exact ⟨k, hk1, hk2, hk3⟩
  · intro e he
    simp only [setHook, detach, mem_removeHandle] at he
    obtain ⟨h, k, hk1, hk2, hk3⟩ := b e he.1
    refine ⟨h, ?_⟩
    simp only [setHook, detach, List.getElem?_set]
    have hie : i ≠ e.2 := by
      intro hie; subst hie; rw [hi] at hk1; cases hk1; exact he.2 hk3
    simp [hie]; exact ⟨k, hk1, hk2, hk3⟩
  · intro j k hj
    simp only [setHook, detach, List.getElem?_set] at hj
    by_cases hij : i = j
    · subst hij; simp [hlt] at hj; subst hj
      have := (c i hk hi).2.2.2.2
      simp [HookOK, h1, h2, h3, h5, Hook.registered, this]
    · simp [hij] at hj
      obtain ⟨c1, c2, c3, c4, c5⟩ := c j k hj
      obtain ⟨ci1, ci2, _⟩ := c i hk hi
      refine ⟨?_, ?_, c3, c4, c5⟩
      · intro id hid
        simp only [setHook, detach, mem_removeHandle]
        refine ⟨c1 id hid, ?_⟩
        intro hp
        have := pairwise_fst_inj d (c1 id hid) (ci1 id hp) rfl
        simp at this; exact hij this.symm
      · intro id hid
        simp only [setHook, detach, mem_removeHandle]
        refine ⟨c2 id hid, ?_⟩
        intro hp
        have := pairwise_fst_inj e (c2 id hid) (ci2 id hp) rfl
        simp at this; exact hij this.symm
  · exact pairwise_removeHandle _ d
  · exact pairwise_removeHandle _ e

theorem mem_insertHandle {l : List (Nat × Nat)} {id h : Nat} {b : Bool} {e : Nat × Nat} :
    e ∈ insertHandle l id h b ↔ e ∈ l ∨ e = (id, h) := by
  unfold insertHandle; split <;> simp [or_comm]

theorem pairwise_insertHandle {l : List (Nat × Nat)} {id h : Nat} {b : Bool}
    (hl : l.Pairwise (fun a b => a.1 ≠ b.1)) (hid : ∀ e ∈ l, e.1 < id) :
    (insertHandle l id h b).Pairwise (fun a b => a.1 ≠ b.1) := by
  unfold insertHandle; split
  · rw [List.pairwise_cons]; refine ⟨?_, hl⟩
    intro e he; have := hid e he; simp; omega
  · rw [List.pairwise_append]; refine ⟨hl, by simp, ?_⟩
    intro a ha b hb; simp at hb; subst hb; have := hid a ha; simp; omega

/-- generic shape of `Hook.register` on an unregistered, alive hook -/
theorem wf_register_generic (s : State) (w : WF s) (i : Nat) (hk : Hook) (hi : s.hooks[i]? = some hk)
    (hal : hk.alive = true) (hp0 : hk.preH = none) (hq0 : hk.postH = none)
    (pre' post' : List (Nat × Nat)) (n' : Nat) (ph qh : Option Nat)
    (hpre : ∀ e, e ∈ pre' ↔ e ∈ s.pre ∨ (ph = some e.1 ∧ e.2 = i))
    (hpost : ∀ e, e ∈ post' ↔ e ∈ s.post ∨ (qh = some e.1 ∧ e.2 = i))
    (dpre : pre'.Pairwise (fun a b => a.1 ≠ b.1)) (dpost : post'.Pairwise (fun a b => a.1 ≠ b.1))
    (hn : s.nextId ≤ n') (hpn : ∀ id, ph = some id → id < n') (hqn : ∀ id, qh = some id → id < n')
    (hps : ph.isSome = hk.cfg.hasPre) (hqs : qh.isSome = hk.cfg.hasPost) :
    WF (setHook ⟨s.training, n', pre', post', s.hooks⟩ i { hk with preH := ph, postH := qh, fin := some (ph, qh) }) := by
  obtain ⟨a, b, c, d, e⟩ := w
  have hlt : i < s.hooks.length := (List.getElem?_eq_some_iff.mp hi).1
  have c5 := (c i hk hi).2.2.2.2
  constructor
  · intro e he
    simp only [setHook] at he
    rcases (hpre e).mp he with he | ⟨he1, he2⟩
    · obtain ⟨h, k, hk1, hk2, hk3⟩ := a e he
      refine ⟨by simp [setHook]; omega, ?_⟩
      have hie : i ≠ e.2 := by
        intro hie; subst hie; rw [hi] at hk1; cases hk1; simp [hp0] at hk3
      simp [setHook, hie]; exact ⟨k, hk1, hk2, hk3⟩
    · refine ⟨by simpa [setHook] using hpn _ he1, ?_⟩
      simp [setHook, he2, hlt, hal, he1]
  · intro e he
    simp only [setHook] at he
    rcases (hpost e).mp he with he | ⟨he1, he2⟩
    · obtain ⟨h, k, hk1, hk2, hk3⟩ := b e he
      refine ⟨by simp [setHook]; omega, ?_⟩
      have hie : i ≠ e.2 := by
        intro hie; subst hie; rw [hi] at hk1; cases hk1; simp [hq0] at hk3
      simp [setHook, hie]; exact ⟨k, hk1, hk2, hk3⟩
    · refine ⟨by simpa [setHook] using hqn _ he1, ?_⟩
      simp [setHook, he2, hlt, hal, he1]
  · intro j k hj
    simp only [setHook, List.getElem?_set] at hj
    by_cases hij : i = j
    · subst hij; simp [hlt] at hj; subst hj
      refine ⟨?_, ?_, ?_, ?_, c5⟩
      · intro id hid; simp only [setHook]; exact (hpre _).mpr (Or.inr ⟨hid, rfl⟩)
      · intro id hid; simp only [setHook]; exact (hpost _).mpr (Or.inr ⟨hid, rfl⟩)
      · have : (ph.isSome || qh.isSome) = true := by rw [hps, hqs]; exact c5
        simp [Hook.registered, this]
      · intro _; exact ⟨hps, hqs⟩
    · simp [hij] at hj
      obtain ⟨c1, c2, c3, c4, c5'⟩ := c j k hj
      exact ⟨fun id hid => (hpre _).mpr (Or.inl (c1 id hid)), fun id hid => (hpost _).mpr (Or.inl (c2 id hid)), c3, c4, c5'⟩
  · exact dpre
  · exact dpost

theorem wf_register (s : State) (w : WF s) (i : Nat) (hk : Hook) (hi : s.hooks[i]? = some hk)
    (hal : hk.alive = true) (hr : hk.registered = false) : WF (registerHook s i hk) := by
  have hp0 : hk.preH = none := by
    simp [Hook.registered] at hr; exact hr.1
  have hq0 : hk.postH = none := by
    simp [Hook.registered] at hr; exact hr.2
  have c5 := (w.hook_ok i hk hi).2.2.2.2
  have lt1 : ∀ e ∈ s.pre, e.1 < s.nextId := fun e he => (w.pre_ok e he).1
  have lt2 : ∀ e ∈ s.post, e.1 < s.nextId := fun e he => (w.post_ok e he).1
  have lt2' : ∀ e ∈ s.post, e.1 < s.nextId + 1 := fun e he => Nat.lt_succ_of_lt (lt2 e he)
  unfold registerHook
  rcases hpre : hk.cfg.hasPre <;> rcases hpost : hk.cfg.hasPost
  · simp [hpre, hpost] at c5
  · simp only [Bool.false_eq_true, if_false, if_true]
    apply wf_register_generic s w i hk hi hal hp0 hq0
    · intro e; simp
    · intro e; rw [mem_insertHandle]; constructor
      · rintro (h | h); exact Or.inl h; right; subst h; simp
      · rintro (h | ⟨h1, h2⟩); exact Or.inl h; right; cases e; simp at h1 h2; simp [h1, h2]
    · exact w.pre_nodup
    · exact pairwise_insertHandle w.post_nodup lt2
    · first | omega | (simp; omega) | simp
    · first | omega | (simp; omega) | simp
    · first | omega | (simp; omega) | simp
    · simp [hpre]
    · simp [hpost]
  · simp only [Bool.false_eq_true, if_false, if_true]
    apply wf_register_generic s w i hk hi hal hp0 hq0
    · intro e; rw [mem_insertHandle]; constructor
      · rintro (h | h); exact Or.inl h; right; subst h; simp
      · rintro (h | ⟨h1, h2⟩); exact Or.inl h; right; cases e; simp at h1 h2; simp [h1, h2]
    · intro e; simp
    · exact pairwise_insertHandle w.pre_nodup lt1
    · exact w.post_nodup
    · first | omega | (simp; omega) | simp
    · first | omega | (simp; omega) | simp
    · first | omega | (simp; omega) | simp
    · simp [hpre]
    · simp [hpost]
  · simp only [if_true]
    apply wf_register_generic s w i hk hi hal hp0 hq0
    · intro e; rw [mem_insertHandle]; constructor
      · rintro (h | h); exact Or.inl h; right; subst h; simp
      · rintro (h | ⟨h1, h2⟩); exact Or.inl h; right; cases e; simp at h1 h2; simp [h1, h2]
    · intro e; rw [mem_insertHandle]; constructor
      · rintro (h | h); exact Or.inl h; right; subst h; simp
      · rintro (h | ⟨h1, h2⟩); exact Or.inl h; right; cases e; simp at h1 h2; simp [h1, h2]
    · exact pairwise_insertHandle w.pre_nodup lt1
    · exact pairwise_insertHandle w.post_nodup lt2'
    · first | omega | (simp; omega) | simp
    · first | omega | (simp; omega) | simp
    · first | omega | (simp; omega) | simp
    · simp [hpre]
    · simp [hpost]

/-- replacing hook `i` by one with the same handles, finaliser, liveness and configuration -/
theorem wf_setHook_same (s : State) (w : WF s) (i : Nat) (hk hk' : Hook) (hi : s.hooks[i]? = some hk)
    (h1 : hk'.preH = hk.preH) (h2 : hk'.postH = hk.postH) (h3 : hk'.fin = hk.fin)
    (h4 : hk'.alive = hk.alive) (h5 : hk'.cfg = hk.cfg) : WF (setHook s i hk') := by
  obtain ⟨a, b, c, d, e⟩ := w
  have hlt : i < s.hooks.length := (List.getElem?_eq_some_iff.mp hi).1
  constructor
  · intro e he
    obtain ⟨h, k, hk1, hk2, hk3⟩ := a e he
    refine ⟨h, ?_⟩
    simp only [setHook, List.getElem?_set]
    by_cases hie : i = e.2
    · subst hie; simp [hlt]; rw [hi] at hk1; cases hk1; simp [h1, h4, hk2, hk3]
    · simp [hie]; exact ⟨k, hk1, hk2, hk3⟩
  · intro e he
    obtain ⟨h, k, hk1, hk2, hk3⟩ := b e he
    refine ⟨h, ?_⟩
    simp only [setHook, List.getElem?_set]
    by_cases hie : i = e.2
    · subst hie; simp [hlt]; rw [hi] at hk1; cases hk1; simp [h2, h4, hk2, hk3]
    · simp [hie]; exact ⟨k, hk1, hk2, hk3⟩
  · intro j k hj
    simp only [setHook, List.getElem?_set] at hj
    by_cases hij : i = j
    · subst hij; simp [hlt] at hj; subst hj
      have := c i hk hi
      simpa [HookOK, setHook, h1, h2, h3, h5, Hook.registered] using this
    · simp [hij] at hj; simpa [HookOK, setHook] using c j k hj
  · exact d
  · exact e

theorem init_wf : WF init := by
  constructor <;> simp [init]

theorem wf_mk (s : State) (w : WF s) (hk : Hook) (h1 : hk.preH = none) (h2 : hk.postH = none)
    (h3 : hk.fin = none) (h4 : (hk.cfg.hasPre || hk.cfg.hasPost) = true) :
    WF { s with hooks := s.hooks ++ [hk] } := by
  obtain ⟨a, b, c, d, e⟩ := w
  constructor
  · intro e he
    obtain ⟨h, k, hk1, hk2⟩ := a e he
    refine ⟨h, k, ?_, hk2⟩
    grind
  · intro e he
    obtain ⟨h, k, hk1, hk2⟩ := b e he
    refine ⟨h, k, ?_, hk2⟩
    grind
  · intro i k hi
    simp only [List.getElem?_append] at hi
    split at hi
    · exact c i k hi
    · have : k = hk := by grind
      subst this
      simp [HookOK, h1, h2, h3, Hook.registered, h4]
  · exact d
  · exact e

theorem wf_setMode (s : State) (w : WF s) (b : Bool) : WF { s with training := b } := by
  obtain ⟨a, b', c, d, e⟩ := w
  exact ⟨a, b', c, d, e⟩

/-- a dead hook has no handles (its finaliser ran) -/
theorem dead_no_handles (s : State) (w : WF s) (i : Nat) (hk : Hook) (hi : s.hooks[i]? = some hk)
    (hd : hk.alive = false) : hk.preH = none ∧ hk.postH = none := by
  obtain ⟨c1, c2, _⟩ := w.hook_ok i hk hi
  constructor
  · cases hp : hk.preH with
    | none => rfl
    | some id =>
      obtain ⟨_, k, hk1, hk2, _⟩ := w.pre_ok _ (c1 id hp)
      simp only at hk1; rw [hi] at hk1; cases hk1; rw [hd] at hk2; cases hk2
  · cases hp : hk.postH with
    | none => rfl
    | some id =>
      obtain ⟨_, k, hk1, hk2, _⟩ := w.post_ok _ (c2 id hp)
      simp only at hk1; rw [hi] at hk1; cases hk1; rw [hd] at hk2; cases hk2

theorem step_wf (s : State) (w : WF s) (op : Op) : WF (step s op).1 := by
  cases op with
  | mk cfg tr ev =>
    simp only [step]
    cases hkind : cfg.kind <;> simp only
    · split
      · exact w
      · rename_i h; refine wf_mk s w _ rfl rfl rfl ?_
        simp only; revert h; cases cfg.hasPre <;> cases cfg.hasPost <;> simp
    · split
      · exact w
      · rename_i h; refine wf_mk s w _ rfl rfl rfl ?_
        simp only; revert h; cases cfg.hasPre <;> cases cfg.hasPost <;> simp
  | register i =>
    simp only [step]
    cases hi : s.hooks[i]? with
    | none => exact w
    | some hk =>
      simp only
      by_cases hal : hk.alive = true
      · simp only [hal, Bool.not_true, Bool.false_eq_true, if_false]
        by_cases hr : hk.registered = true
        · simp only [hr, if_true]; cases hk.cfg.kind <;> exact w
        · simp only [hr, Bool.false_eq_true, if_false]
          exact wf_register s w i hk hi hal (by simpa using hr)
      · simp only [hal]; exact w
  | deregister i =>
    simp only [step]
    cases hi : s.hooks[i]? with
    | none => exact w
    | some hk =>
      simp only
      by_cases hal : hk.alive = true
      · simp only [hal, Bool.not_true, Bool.false_eq_true, if_false]
        exact wf_clear s w i hk _ hi rfl rfl rfl rfl
      · simp only [hal]; exact w
  | setMode b => exact wf_setMode s w b
  | call => exact w
  | manual i f g =>
    simp only [step]
    cases hi : s.hooks[i]? with
    | none => exact w
    | some hk =>
      simp only
      split
      · exact w
      · cases hk.cfg.kind <;> simp only
        · exact w
        · repeat' split
          all_goals exact w
  | setTrainexec i v =>
    simp only [step]
    cases hi : s.hooks[i]? with
    | none => exact w
    | some hk =>
      simp only
      split
      · exact w
      · exact wf_setHook_same s w i hk _ hi rfl rfl rfl rfl rfl
  | setEvalexec i v =>
    simp only [step]
    cases hi : s.hooks[i]? with
    | none => exact w
    | some hk =>
      simp only
      split
      · exact w
      · exact wf_setHook_same s w i hk _ hi rfl rfl rfl rfl rfl
  | delete i =>
    simp only [step]
    cases hi : s.hooks[i]? with
    | none => exact w
    | some hk =>
      simp only
      by_cases hal : hk.alive = true
      · simp only [hal, Bool.not_true, Bool.false_eq_true, if_false]
        have hf := (w.hook_ok i hk hi).2.2.1
        by_cases hr : hk.registered = true
        · simp only [hr, if_true] at hf
          simp only [hf]
          exact wf_clear s w i hk _ hi rfl rfl rfl rfl
        · simp only [hr, Bool.false_eq_true, if_false] at hf
          simp only [hf]
          have hp0 : hk.preH = none := by simp [Hook.registered] at hr; exact hr.1
          have hq0 : hk.postH = none := by simp [Hook.registered] at hr; exact hr.2
          have := wf_clear s w i hk { hk with alive := false, fin := none, preH := none, postH := none } hi rfl rfl rfl rfl
          simpa only [hp0, hq0, detach, removeHandle] using this
      · simp only [hal]; exact w

/-! ### Counting: how often a hook occurs in a module-call trace -/

def State.dict (s : State) : Pos → List (Nat × Nat)
  | .pre => s.pre
  | .post => s.post

def Hook.handle (h : Hook) : Pos → Option Nat
  | .pre => h.preH
  | .post => h.postH

theorem WF.dict_ok {s : State} (w : WF s) (p : Pos) : ∀ e ∈ s.dict p,
    e.1 < s.nextId ∧ ∃ hk, s.hooks[e.2]? = some hk ∧ hk.alive = true ∧ hk.handle p = some e.1 := by
  cases p
  · exact w.pre_ok
  · exact w.post_ok

theorem WF.dict_nodup {s : State} (w : WF s) (p : Pos) : (s.dict p).Pairwise (fun a b => a.1 ≠ b.1) := by
  cases p
  · exact w.pre_nodup
  · exact w.post_nodup

theorem WF.handle_mem {s : State} (w : WF s) (p : Pos) {i : Nat} {hk : Hook} (hi : s.hooks[i]? = some hk)
    {id : Nat} (h : hk.handle p = some id) : (id, i) ∈ s.dict p := by
  cases p
  · exact (w.hook_ok i hk hi).1 id h
  · exact (w.hook_ok i hk hi).2.1 id h

theorem handle_isSome_of_reg {s : State} (w : WF s) (p : Pos) {i : Nat} {hk : Hook}
    (hi : s.hooks[i]? = some hk) (hr : hk.registered = true) : (hk.handle p).isSome = hk.cfg.has p := by
  have := (w.hook_ok i hk hi).2.2.2.1 hr
  cases p
  · exact this.1
  · exact this.2

theorem registered_of_handle {hk : Hook} {p : Pos} {id : Nat} (h : hk.handle p = some id) :
    hk.registered = true := by
  cases p <;> simp [Hook.handle] at h <;> simp [Hook.registered, h]

/-- distinct entries of one dictionary belong to distinct hook objects -/
theorem WF.dict_snd_nodup {s : State} (w : WF s) (p : Pos) :
    (s.dict p).Pairwise (fun a b => a.2 ≠ b.2) := by
  refine List.Pairwise.imp_of_mem ?_ (w.dict_nodup p)
  intro a b ha hb hab h2
  obtain ⟨_, ka, ha1, _, ha3⟩ := w.dict_ok p a ha
  obtain ⟨_, kb, hb1, _, hb3⟩ := w.dict_ok p b hb
  rw [h2, hb1] at ha1; cases ha1
  rw [hb3] at ha3; exact hab (Option.some.inj ha3).symm

theorem countP_snd_unique (l : List (Nat × Nat)) (hd : l.Pairwise (fun a b => a.2 ≠ b.2))
    (q : Nat × Nat → Bool) (h : Nat) :
    l.countP (fun e => e.2 == h && q e) = b2n (l.any (fun e => e.2 == h && q e)) := by
  induction l with
  | nil => simp [b2n]
  | cons x xs ih =>
    rw [List.pairwise_cons] at hd
    rw [List.countP_cons, List.any_cons, ih hd.2]
    by_cases hx : (x.2 == h && q x) = true
    · have hxh : x.2 = h := by simp at hx; exact hx.1
      have : xs.any (fun e => e.2 == h && q e) = false := by
        rw [List.any_eq_false]; intro e he; have := hd.1 e he; simp; intro h'; exact absurd (hxh.trans h'.symm) this
      simp [hx, this, b2n]
    · simp only [Bool.not_eq_true] at hx; simp [hx]

theorem count_firedOf (s : State) (l : List (Nat × Nat)) (p q : Pos) (h : Nat) :
    countEv (firedOf s l p) h q =
      if p = q then l.countP (fun e => e.2 == h && (entryFires s e == some true)) else 0 := by
  unfold countEv firedOf
  rw [List.count_eq_countP, List.countP_map, List.countP_filter]
  by_cases hpq : p = q
  · subst hpq; simp only [if_true]; congr 1; funext e
    have : (Ev.hook e.2 p == Ev.hook h p) = (e.2 == h) := by
      by_cases he : e.2 = h
      · simp [he]
      · have : Ev.hook e.2 p ≠ Ev.hook h p := by intro hc; injection hc with h1 _; exact he h1
        rw [beq_eq_false_iff_ne.mpr this, beq_eq_false_iff_ne.mpr he]
    show (Ev.hook e.2 p == Ev.hook h p && _) = _
    rw [this]
  · simp only [hpq, if_false]
    rw [List.countP_eq_zero]; intro e _; simp [Function.comp, hpq]

/-- the model's gate on one dictionary entry agrees with the specification's firing predicate -/
theorem any_fires (s : State) (w : WF s) (p : Pos) (h : Nat) :
    (s.dict p).any (fun e => e.2 == h && (entryFires s e == some true)) =
      match s.hooks[h]? with
      | some hk => hk.abs.fires s.training p
      | none => false := by
  cases hh : s.hooks[h]? with
  | none =>
    simp only
    rw [List.any_eq_false]; intro e he
    obtain ⟨_, k, hk1, _⟩ := w.dict_ok p e he
    simp; intro h'; rw [h', hh] at hk1; cases hk1
  | some hk =>
    simp only
    by_cases hf : hk.abs.fires s.training p = true
    · rw [hf, List.any_eq_true]
      simp only [SHook.fires, Hook.abs, Bool.and_eq_true] at hf
      obtain ⟨⟨⟨hr, hal⟩, hc⟩, hen⟩ := hf
      have hs := handle_isSome_of_reg w p hh hr
      rw [hc] at hs
      obtain ⟨id, hid⟩ := Option.isSome_iff_exists.mp hs
      refine ⟨(id, h), w.handle_mem p hh hid, ?_⟩
      simp [entryFires, hh, hal]
      simpa [SHook.enabled, Hook.enabled] using hen
    · simp only [Bool.not_eq_true] at hf
      rw [hf, List.any_eq_false]; intro e he
      obtain ⟨_, k, hk1, hk2, hk3⟩ := w.dict_ok p e he
      simp only [Bool.and_eq_true, beq_iff_eq, not_and]
      intro h'; rw [h', hh] at hk1; cases hk1
      have hr := registered_of_handle hk3
      have hs := handle_isSome_of_reg w p hh hr
      rw [hk3] at hs
      simp [entryFires, h', hh, hk2]
      simp only [SHook.fires, Hook.abs, hr, hk2, ← hs, Option.isSome_some, Bool.true_and] at hf
      simpa [SHook.enabled, Hook.enabled] using hf

theorem not_dangling (s : State) (w : WF s) (p : Pos) : dangling s (s.dict p) = false := by
  unfold dangling
  rw [List.any_eq_false]; intro e he
  obtain ⟨_, k, hk1, hk2, _⟩ := w.dict_ok p e he
  simp [entryFires, hk1, hk2]

/-- A module call in a well-formed state: the trace is `pre events, forward, post events`
and hook `h` occurs in position `q` exactly `b2n (fires h q)` times. -/
theorem callTrace_spec (s : State) (w : WF s) :
    callTrace s = .trace (firedOf s s.pre .pre ++ [Ev.fwd] ++ firedOf s s.post .post) ∧
    ∀ h q, countEv (firedOf s s.pre .pre ++ [Ev.fwd] ++ firedOf s s.post .post) h q =
      match s.hooks[h]? with
      | some hk => b2n (hk.abs.fires s.training q)
      | none => 0 := by
  have d1 := not_dangling s w .pre
  have d2 := not_dangling s w .post
  simp only [State.dict] at d1 d2
  refine ⟨by simp [callTrace, d1, d2], ?_⟩
  intro h q
  have key : ∀ p, (s.dict p).countP (fun e => e.2 == h && (entryFires s e == some true)) =
      match s.hooks[h]? with
      | some hk => b2n (hk.abs.fires s.training p)
      | none => 0 := by
    intro p
    rw [countP_snd_unique _ (w.dict_snd_nodup p), any_fires s w p h]
    cases s.hooks[h]? <;> simp [b2n]
  have k1 := key .pre
  have k2 := key .post
  simp only [State.dict] at k1 k2
  unfold countEv at *
  rw [List.count_append, List.count_append]
  have e1 := count_firedOf s s.pre .pre q h
  have e2 := count_firedOf s s.post .post q h
  unfold countEv at e1 e2
  rw [e1, e2]
  cases q
  · simp [k1]
  · simp [k2]

/-! ### Refinement of the specification machine -/

theorem sabs_getElem? (s : State) (i : Nat) : (sabs s).hooks[i]? = (s.hooks[i]?).map Hook.abs := by
  simp [sabs]

theorem sabs_setHook (s : State) (i : Nat) (hk : Hook) :
    sabs (setHook s i hk) = ssetHook (sabs s) i hk.abs := by
  simp [sabs, setHook, ssetHook, List.map_set]

theorem sabs_registerHook (s : State) (i : Nat) (hk : Hook)
    (h4 : (hk.cfg.hasPre || hk.cfg.hasPost) = true) :
    sabs (registerHook s i hk) = ssetHook (sabs s) i { hk.abs with registered := true } := by
  unfold registerHook
  rcases hpre : hk.cfg.hasPre <;> rcases hpost : hk.cfg.hasPost <;>
    simp [hpre, hpost] at h4 ⊢ <;>
    simp [sabs, setHook, ssetHook, List.map_set, Hook.abs, Hook.registered]

theorem counts_eq (s : State) (w : WF s) :
    (List.range s.hooks.length).map (fun h =>
      (countEv (firedOf s s.pre .pre ++ [Ev.fwd] ++ firedOf s s.post .post) h .pre,
       countEv (firedOf s s.pre .pre ++ [Ev.fwd] ++ firedOf s s.post .post) h .post)) = (sabs s).counts := by
  have key := (callTrace_spec s w).2
  apply List.ext_getElem
  · simp [SState.counts, sabs]
  · intro i h1 h2
    simp only [List.getElem_map, List.getElem_range, SState.counts, sabs]
    have hi : i < s.hooks.length := by simpa using h1
    have hh : s.hooks[i]? = some s.hooks[i] := List.getElem?_eq_getElem hi
    rw [key i .pre, key i .post, hh]

theorem step_refines (s : State) (w : WF s) (op : Op) :
    sabs (step s op).1 = (sstep (sabs s) op).1 ∧
    (step s op).2.abs s.hooks.length = (sstep (sabs s) op).2 := by
  cases op with
  | mk cfg tr ev =>
    simp only [step, sstep]
    cases hkind : cfg.kind <;> simp only <;> split <;>
      simp [sabs, Out.abs, Hook.abs, Hook.registered]
  | register i =>
    simp only [step, sstep, sabs_getElem?]
    cases hi : s.hooks[i]? with
    | none => simp [Out.abs]
    | some hk =>
      simp only [Option.map_some]
      by_cases hal : hk.alive = true
      · have hal' : hk.abs.alive = true := hal
        simp only [hal, hal', Bool.not_true, Bool.false_eq_true, if_false]
        by_cases hr : hk.registered = true
        · have hr' : hk.abs.registered = true := hr
          have hc : hk.abs.cfg = hk.cfg := rfl
          simp only [hr, hr', if_true, hc]; cases hk.cfg.kind <;> simp [Out.abs]
        · have hr' : hk.abs.registered = false := by simpa [Hook.abs] using hr
          simp only [hr, hr', Bool.false_eq_true, if_false]
          refine ⟨?_, rfl⟩
          rw [sabs_registerHook s i hk (w.hook_ok i hk hi).2.2.2.2]
          congr 1; simp [Hook.abs, hal]
      · have hal' : hk.abs.alive = false := by simpa [Hook.abs] using hal
        simp only [Bool.not_eq_true] at hal
        simp [hal, hal', Out.abs]
  | deregister i =>
    simp only [step, sstep, sabs_getElem?]
    cases hi : s.hooks[i]? with
    | none => simp [Out.abs]
    | some hk =>
      simp only [Option.map_some]
      by_cases hal : hk.alive = true
      · have hal' : hk.abs.alive = true := hal
        simp only [hal, hal', Bool.not_true, Bool.false_eq_true, if_false]
        refine ⟨?_, rfl⟩
        simp only [deregisterHook, sabs_setHook]
        show ssetHook (sabs s) i _ = _
        congr 1; simp [Hook.abs, Hook.registered, hal]
      · have hal' : hk.abs.alive = false := by simpa [Hook.abs] using hal
        simp only [Bool.not_eq_true] at hal
        simp [hal, hal', Out.abs]
  | setMode b => simp [step, sstep, sabs, Out.abs]
  | call =>
    simp only [step, sstep, (callTrace_spec s w).1, Out.abs, counts_eq s w, and_self]
  | manual i f g =>
    simp only [step, sstep, sabs_getElem?]
    cases hi : s.hooks[i]? with
    | none => simp [Out.abs]
    | some hk =>
      simp only [Option.map_some]
      by_cases hal : hk.alive = true
      · have hal' : hk.abs.alive = true := hal
        have hc : hk.abs.cfg = hk.cfg := rfl
        simp only [hal, hal', Bool.not_true, Bool.false_eq_true, if_false, hc]
        cases hk.cfg.kind
        · simp [Out.abs]
        · have e1 : hk.abs.registered = hk.registered := rfl
          have e2 : hk.abs.enabled (sabs s).training = ((hk.trainexec && s.training) || (hk.evalexec && !s.training)) := rfl
          rw [e1, e2]
          cases hk.registered <;> cases f <;> cases g <;> cases hk.trainexec <;> cases hk.evalexec <;>
            cases s.training <;> simp [Out.abs]
      · have hal' : hk.abs.alive = false := by simpa [Hook.abs] using hal
        simp only [Bool.not_eq_true] at hal
        simp [hal, hal', Out.abs]
  | setTrainexec i v =>
    simp only [step, sstep, sabs_getElem?]
    cases hi : s.hooks[i]? with
    | none => simp [Out.abs]
    | some hk =>
      simp only [Option.map_some]
      by_cases hal : hk.alive = true
      · have hal' : hk.abs.alive = true := hal
        simp only [hal, hal', Bool.not_true, Bool.false_eq_true, if_false]
        exact ⟨sabs_setHook _ _ _, rfl⟩
      · have hal' : hk.abs.alive = false := by simpa [Hook.abs] using hal
        simp only [Bool.not_eq_true] at hal
        simp [hal, hal', Out.abs]
  | setEvalexec i v =>
    simp only [step, sstep, sabs_getElem?]
    cases hi : s.hooks[i]? with
    | none => simp [Out.abs]
    | some hk =>
      simp only [Option.map_some]
      by_cases hal : hk.alive = true
      · have hal' : hk.abs.alive = true := hal
        simp only [hal, hal', Bool.not_true, Bool.false_eq_true, if_false]
        exact ⟨sabs_setHook _ _ _, rfl⟩
      · have hal' : hk.abs.alive = false := by simpa [Hook.abs] using hal
        simp only [Bool.not_eq_true] at hal
        simp [hal, hal', Out.abs]
  | delete i =>
    simp only [step, sstep, sabs_getElem?]
    cases hi : s.hooks[i]? with
    | none => simp [Out.abs]
    | some hk =>
      simp only [Option.map_some]
      by_cases hal : hk.alive = true
      · have hal' : hk.abs.alive = true := hal
        simp only [hal, hal', Bool.not_true, Bool.false_eq_true, if_false]
        refine ⟨?_, rfl⟩
        rw [sabs_setHook]
        cases hk.fin <;> rfl
      · have hal' : hk.abs.alive = false := by simpa [Hook.abs] using hal
        simp only [Bool.not_eq_true] at hal
        simp [hal, hal', Out.abs]

/-! ### No dangling handle: the dictionaries hold exactly one entry per registered, alive hook -/

theorem rev_ind {α : Type} {P : List α → Prop} (h0 : P []) (hs : ∀ l a, P l → P (l ++ [a])) (l : List α) : P l := by
  have : ∀ r : List α, P r.reverse := by
    intro r; induction r with
    | nil => exact h0
    | cons a r ih => rw [List.reverse_cons]; exact hs _ _ ih
  simpa using this l.reverse

theorem countP_range_eq {α : Type} (P : α → Bool) (l : List α) :
    (List.range l.length).countP (fun i => (l[i]?.map P).getD false) = l.countP P := by
  induction l using rev_ind with
  | h0 => simp
  | hs l a ih =>
    rw [List.length_append, List.length_singleton, List.range_succ, List.countP_append, List.countP_append]
    congr 1
    · rw [← ih]; apply List.countP_congr; intro i hi
      have : i < l.length := by simpa using hi
      simp [List.getElem?_append_left this]
    · simp

theorem length_eq_of_index_set {α : Type} (P : α → Bool) (l : List α) (idxs : List Nat) (hn : idxs.Nodup)
    (hm : ∀ i, i ∈ idxs ↔ ∃ a, l[i]? = some a ∧ P a = true) : idxs.length = (l.filter P).length := by
  rw [← List.countP_eq_length_filter, ← countP_range_eq, List.countP_eq_length_filter]
  apply List.Perm.length_eq
  rw [List.perm_ext_iff_of_nodup hn (List.nodup_range.filter _)]
  intro i
  rw [hm i, List.mem_filter, List.mem_range]
  constructor
  · rintro ⟨a, ha, hp⟩
    exact ⟨(List.getElem?_eq_some_iff.mp ha).1, by simp [ha, hp]⟩
  · rintro ⟨hi, hp⟩
    refine ⟨l[i], List.getElem?_eq_getElem hi, ?_⟩
    simpa [List.getElem?_eq_getElem hi] using hp

theorem dict_length (s : State) (w : WF s) (p : Pos) : (s.dict p).length = (sabs s).nHandles p := by
  have h := length_eq_of_index_set (fun h : SHook => h.registered && h.alive && h.cfg.has p)
    (sabs s).hooks ((s.dict p).map Prod.snd) (by
      rw [List.Nodup, List.pairwise_map]; exact w.dict_snd_nodup p) (by
      intro i
      simp only [sabs_getElem?, List.mem_map]
      constructor
      · rintro ⟨e, he, rfl⟩
        obtain ⟨_, k, hk1, hk2, hk3⟩ := w.dict_ok p e he
        refine ⟨k.abs, by simp [hk1], ?_⟩
        have hr := registered_of_handle hk3
        have hs := handle_isSome_of_reg w p hk1 hr
        rw [hk3] at hs
        simp [Hook.abs, hr, hk2, ← hs]
      · rintro ⟨a, ha, hp⟩
        cases hh : s.hooks[i]? with
        | none => simp [hh] at ha
        | some hk =>
          simp [hh] at ha; subst ha
          simp only [Hook.abs, Bool.and_eq_true] at hp
          have hs := handle_isSome_of_reg w p hh hp.1.1
          rw [hp.2] at hs
          obtain ⟨id, hid⟩ := Option.isSome_iff_exists.mp hs
          exact ⟨(id, i), w.handle_mem p hh hid, rfl⟩)
  simpa [SState.nHandles] using h

/-! ### Stability at the level of the specification machine -/
theorem sstep_unregistered_stable (s : SState) (h : Nat) (op : Op) (hop : op ≠ .register h)
    (hP : ∀ hk, s.hooks[h]? = some hk → hk.registered = false) :
    ∀ hk, (sstep s op).1.hooks[h]? = some hk → hk.registered = false := by
  cases op with
  | mk cfg tr ev =>
    simp only [sstep]
    cases cfg.kind <;> simp only <;> split <;> try exact hP
    all_goals
      intro hk hh
      simp only [List.getElem?_append] at hh
      split at hh
      · exact hP hk hh
      · have : hk = ⟨cfg, tr, ev, true, false⟩ := by grind
        subst this; rfl
  | register i =>
    have hih : i ≠ h := by intro e; subst e; exact hop rfl
    simp only [sstep]
    cases hi : s.hooks[i]? with
    | none => exact hP
    | some k =>
      simp only
      split
      · exact hP
      · split
        · cases k.cfg.kind <;> exact hP
        · intro hk hh; simp [ssetHook, hih] at hh; exact hP hk hh
  | deregister i =>
    simp only [sstep]
    cases hi : s.hooks[i]? with
    | none => exact hP
    | some k =>
      simp only
      split
      · exact hP
      · intro hk hh
        simp only [ssetHook, List.getElem?_set] at hh
        split at hh
        · split at hh
          · cases hh; rfl
          · cases hh
        · exact hP hk hh
  | setMode b => exact hP
  | call => exact hP
  | manual i f g =>
    simp only [sstep]
    cases hi : s.hooks[i]? with
    | none => exact hP
    | some k =>
      simp only
      split
      · exact hP
      · cases k.cfg.kind <;> exact hP
  | setTrainexec i v =>
    simp only [sstep]
    cases hi : s.hooks[i]? with
    | none => exact hP
    | some k =>
      simp only
      split
      · exact hP
      · intro hk hh
        simp only [ssetHook, List.getElem?_set] at hh
        split at hh
        · split at hh
          · rename_i e _; subst e; cases hh; exact hP k hi
          · cases hh
        · exact hP hk hh
  | setEvalexec i v =>
    simp only [sstep]
    cases hi : s.hooks[i]? with
    | none => exact hP
    | some k =>
      simp only
      split
      · exact hP
      · intro hk hh
        simp only [ssetHook, List.getElem?_set] at hh
        split at hh
        · split at hh
          · rename_i e _; subst e; cases hh; exact hP k hi
          · cases hh
        · exact hP hk hh
  | delete i =>
    simp only [sstep]
    cases hi : s.hooks[i]? with
    | none => exact hP
    | some k =>
      simp only
      split
      · exact hP
      · intro hk hh
        simp only [ssetHook, List.getElem?_set] at hh
        split at hh
        · split at hh
          · cases hh; rfl
          · cases hh
        · exact hP hk hh

/-- a collected hook object stays collected, unregistered, and keeps its index -/
theorem sstep_dead_stable (s : SState) (h : Nat) (op : Op) (hlt : h < s.hooks.length)
    (hP : ∀ hk, s.hooks[h]? = some hk → hk.alive = false ∧ hk.registered = false) :
    h < (sstep s op).1.hooks.length ∧
    ∀ hk, (sstep s op).1.hooks[h]? = some hk → hk.alive = false ∧ hk.registered = false := by
  have key : ∀ (i : Nat) (k k' : SHook), s.hooks[i]? = some k → (k.alive = true) →
      (h < (ssetHook s i k').hooks.length ∧
       ∀ hk, (ssetHook s i k').hooks[h]? = some hk → hk.alive = false ∧ hk.registered = false) := by
    intro i k k' hi hal
    refine ⟨by simpa [ssetHook] using hlt, ?_⟩
    intro hk hh
    have hih : i ≠ h := by
      intro e; subst e; have := (hP k hi).1; rw [hal] at this; cases this
    simp [ssetHook, hih] at hh
    exact hP hk hh
  cases op with
  | mk cfg tr ev =>
    simp only [sstep]
    cases cfg.kind <;> simp only <;> split <;> try exact ⟨hlt, hP⟩
    all_goals
      refine ⟨by simp; omega, ?_⟩
      intro hk hh
      rw [List.getElem?_append_left hlt] at hh
      exact hP hk hh
  | register i =>
    simp only [sstep]
    cases hi : s.hooks[i]? with
    | none => exact ⟨hlt, hP⟩
    | some k =>
      simp only
      split
      · exact ⟨hlt, hP⟩
      · rename_i hal
        split
        · cases k.cfg.kind <;> exact ⟨hlt, hP⟩
        · exact key i k _ hi (by simpa using hal)
  | deregister i =>
    simp only [sstep]
    cases hi : s.hooks[i]? with
    | none => exact ⟨hlt, hP⟩
    | some k =>
      simp only
      split
      · exact ⟨hlt, hP⟩
      · rename_i hal; exact key i k _ hi (by simpa using hal)
  | setMode b => exact ⟨hlt, hP⟩
  | call => exact ⟨hlt, hP⟩
  | manual i f g =>
    simp only [sstep]
    cases hi : s.hooks[i]? with
    | none => exact ⟨hlt, hP⟩
    | some k =>
      simp only
      split
      · exact ⟨hlt, hP⟩
      · cases k.cfg.kind <;> exact ⟨hlt, hP⟩
  | setTrainexec i v =>
    simp only [sstep]
    cases hi : s.hooks[i]? with
    | none => exact ⟨hlt, hP⟩
    | some k =>
      simp only
      split
      · exact ⟨hlt, hP⟩
      · rename_i hal; exact key i k _ hi (by simpa using hal)
  | setEvalexec i v =>
    simp only [sstep]
    cases hi : s.hooks[i]? with
    | none => exact ⟨hlt, hP⟩
    | some k =>
      simp only
      split
      · exact ⟨hlt, hP⟩
      · rename_i hal; exact key i k _ hi (by simpa using hal)
  | delete i =>
    simp only [sstep]
    cases hi : s.hooks[i]? with
    | none => exact ⟨hlt, hP⟩
    | some k =>
      simp only
      split
      · exact ⟨hlt, hP⟩
      · rename_i hal; exact key i k _ hi (by simpa using hal)

end InfernoVerif.Hooks
