import InfernoVerif.Lemmas.Select
import InfernoVerif.Lemmas.SelectQ
import Mathlib.Data.Rat.Floor
/-!
Transfer between instances of `Model/Select.lean`'s arithmetic: if `c : α → β` carries `K` to `K'`
(`OpsHom`) and the kernels commute with `c`, then every code path of the model run over `β` on the
image of the inputs is the image of the run over `α` (`selectScalar_hom`, `selectTensor_hom`,
`insertScalar_hom`, `insertTensor_hom`).  `ratOps_hom`: the cast `ℚ → ℝ` carries `ratOps` (what the
driver executes in exact mode) to `realOps` (what the theorems of `Props/C02.lean` are about).
-/
namespace InfernoVerif.Select
open InfernoVerif.Ring

/-- `c` carries the arithmetic `K` on `α` to the arithmetic `K'` on `β`. -/
structure OpsHom {α β : Type} (K : Ops α) (K' : Ops β) (c : α → β) : Prop where
  add : ∀ a b, c (K.add a b) = K'.add (c a) (c b)
  sub : ∀ a b, c (K.sub a b) = K'.sub (c a) (c b)
  mul : ∀ a b, c (K.mul a b) = K'.mul (c a) (c b)
  div : ∀ a b, c (K.div a b) = K'.div (c a) (c b)
  neg : ∀ a, c (K.neg a) = K'.neg (c a)
  abs : ∀ a, c (K.abs a) = K'.abs (c a)
  ofInt : ∀ i, c (K.ofInt i) = K'.ofInt i
  floor : ∀ a, K.floor a = K'.floor (c a)
  ceil : ∀ a, K.ceil a = K'.ceil (c a)
  round : ∀ a, K.round a = K'.round (c a)
  le : ∀ a b, K.le a b = K'.le (c a) (c b)
  lt : ∀ a b, K.lt a b = K'.lt (c a) (c b)

variable {α β : Type}

/-- element-wise image of a storage column -/
def mapRing (c : α → β) (r : Ring.Ring α) : Ring.Ring β := ⟨r.n, r.ptr, r.data.map c⟩

theorem read_mapRing (c : α → β) (r : Ring.Ring α) (o : ℤ) :
    (mapRing c r).read o = (r.read o).map c := by
  simp [Ring.read, mapRing]

theorem writeInplace_mapRing (c : α → β) (r : Ring.Ring α) (x : α) (o : ℤ) :
    (mapRing c r).writeInplace (c x) o = mapRing c (r.writeInplace x o) := by
  simp [Ring.writeInplace, mapRing, List.map_set]

theorem write_mapRing (c : α → β) (r : Ring.Ring α) (x : α) (o : ℤ) (b : Bool) :
    (mapRing c r).write (c x) o b = mapRing c (r.write x o b) := by
  cases b
  · simp [Ring.write, Ring.writeSplice, mapRing, List.map_take, List.map_drop]
  · simp [Ring.write, Ring.writeInplace, mapRing, List.map_set]

theorem writerange2_mapRing (c : α → β) (r : Ring.Ring α) (a b : α) (o : ℤ) :
    (mapRing c r).writerangeScalar [c a, c b] o false = mapRing c (r.writerangeScalar [a, b] o false) := by
  by_cases hc : unwind r.ptr o r.n + 2 > r.n
  · simp [Ring.writerangeScalar, mapRing, hc, Ring.writerangeWrapped, slice, List.map_take, List.map_drop]
  · simp [Ring.writerangeScalar, mapRing, hc, Ring.writerangeContig, List.map_take, List.map_drop]

theorem withPair_map {γ γ' : Type} (c : α → β) (g : γ → γ') (a b : Option α)
    (f : α → α → Outcome γ) (f' : β → β → Outcome γ')
    (hf : ∀ p q, f' (c p) (c q) = (f p q).map g) :
    withPair (a.map c) (b.map c) f' = (withPair a b f).map g := by
  cases a <;> cases b <;> simp [withPair, Outcome.map, hf]

section Hom
variable {K : Ops α} {K' : Ops β} {c : α → β} (h : OpsHom K K' c)
include h

theorem inRange_hom (n : ℕ) (dt tol t : α) : inRange K' n (c dt) (c tol) (c t) = inRange K n dt tol t := by
  simp only [inRange, h.lt, h.neg, h.add, h.mul, h.ofInt]

theorem onGrid_hom (dt tol t : α) : onGrid K' (c dt) (c tol) (c t) = onGrid K dt tol t := by
  simp only [onGrid, h.le, h.abs, h.sub, h.mul, h.ofInt, h.round, h.div]

theorem shiftOf_hom (dt tol t : α) : shiftOf K' (c dt) (c tol) (c t) = c (shiftOf K dt tol t) := by
  simp only [shiftOf, onGrid_hom h]
  split
  · rw [h.ofInt, h.round, h.div]
  · rw [h.div]

theorem sampleAt_hom (dt s : α) : sampleAt K' (c dt) (c s) = c (sampleAt K dt s) := by
  simp only [sampleAt, mod1, h.sub, h.mul, h.ofInt, h.floor]

omit h in
theorem readO_hom (r : Ring.Ring α) (o : ℤ) : readO (mapRing c r) o = (readO r o).map c := by
  unfold readO; rw [read_mapRing]; cases r.read o <;> rfl

/-- The run of `selectScalar` over `β` on the image of the inputs is the image of the run over `α`. -/
theorem selectScalar_hom (interp : Interp α) (interp' : Interp β)
    (hi : ∀ p q s d, interp' (c p) (c q) (c s) (c d) = c (interp p q s d))
    (r : Ring.Ring α) (dt tol t : α) (offset : ℤ) :
    selectScalar K' interp' (mapRing c r) (c dt) (c tol) (c t) offset
      = (selectScalar K interp r dt tol t offset).map c := by
  unfold selectScalar
  rw [show (mapRing c r).n = r.n from rfl, inRange_hom h, onGrid_hom h]
  split
  · rfl
  · split
    · simp only [← h.div, ← h.round]; exact readO_hom r _
    · simp only [← h.div, ← h.ofInt, ← h.add, ← h.ceil, ← h.floor, read_mapRing]
      apply withPair_map
      intro p q
      rw [sampleAt_hom h, hi]; rfl

theorem selectTensor_hom (interp : Interp α) (interp' : Interp β)
    (hi : ∀ p q s d, interp' (c p) (c q) (c s) (c d) = c (interp p q s d))
    (r : Ring.Ring α) (dt tol t : α) (offset : ℤ) :
    selectTensor K' interp' (mapRing c r) (c dt) (c tol) (c t) offset
      = (selectTensor K interp r dt tol t offset).map c := by
  unfold selectTensor
  rw [show (mapRing c r).n = r.n from rfl, inRange_hom h]
  split
  · rfl
  · simp only [shiftOf_hom h, ← h.ofInt, ← h.add, ← h.ceil, ← h.floor, read_mapRing]
    apply withPair_map
    intro p q
    simp only [sampleAt_hom h, hi, Outcome.map]
    split <;> rfl

theorem insertScalar_hom (extrap : Extrap α) (extrap' : Extrap β)
    (he : ∀ o s p q d, extrap' (c o) (c s) (c p) (c q) (c d) = (c (extrap o s p q d).1, c (extrap o s p q d).2))
    (r : Ring.Ring α) (dt tol obs t : α) (offset : ℤ) (b : Bool) :
    insertScalar K' extrap' (mapRing c r) (c dt) (c tol) (c obs) (c t) offset b
      = (insertScalar K extrap r dt tol obs t offset b).map (mapRing c) := by
  unfold insertScalar
  rw [show (mapRing c r).n = r.n from rfl, inRange_hom h, onGrid_hom h]
  split
  · rfl
  · split
    · simp only [← h.div, ← h.round, write_mapRing]; rfl
    · simp only [← h.div, ← h.ofInt, ← h.add, ← h.ceil, ← h.floor, read_mapRing]
      apply withPair_map
      intro p q
      simp only [sampleAt_hom h, he]
      cases b
      · simp only [Bool.false_eq_true, if_false]
        split
        · rfl
        · rw [writerange2_mapRing]; rfl
      · simp only [if_true, writeInplace_mapRing]; rfl

theorem insertTensor_hom (extrap : Extrap α) (extrap' : Extrap β)
    (he : ∀ o s p q d, extrap' (c o) (c s) (c p) (c q) (c d) = (c (extrap o s p q d).1, c (extrap o s p q d).2))
    (r : Ring.Ring α) (dt tol obs t : α) (offset : ℤ) :
    insertTensor K' extrap' (mapRing c r) (c dt) (c tol) (c obs) (c t) offset
      = (insertTensor K extrap r dt tol obs t offset).map (mapRing c) := by
  unfold insertTensor
  rw [show (mapRing c r).n = r.n from rfl, inRange_hom h]
  split
  · rfl
  · simp only [shiftOf_hom h, ← h.ofInt, ← h.add, ← h.ceil, ← h.floor, read_mapRing]
    apply withPair_map
    intro p q
    simp only [sampleAt_hom h, he, Outcome.map]
    split <;> simp only [writeInplace_mapRing]

end Hom

/-! ### `ratOps` is carried to `realOps` by the cast -/

theorem rat_floor_eq (x : ℚ) : Rat.floor x = ⌊(x : ℝ)⌋ := by
  rw [Rat.floor_cast]; rfl

theorem rat_ceil_eq (x : ℚ) : Rat.ceil x = ⌈(x : ℝ)⌉ := by
  rw [Rat.ceil_cast, Rat.ceil_eq_neg_floor_neg]
  have e : (-x).floor = ⌊-x⌋ := rfl
  rw [e, Int.floor_neg, neg_neg]

theorem ratRound_eq (x : ℚ) : ratRound x = rhe (x : ℝ) := by
  unfold ratRound rhe
  simp only [← rat_floor_eq]
  have e : ((x : ℝ) - ((Rat.floor x : ℤ) : ℝ)) = ((x - (Rat.floor x : ℚ) : ℚ) : ℝ) := by push_cast; rfl
  rw [e]
  have h1 : (x - (Rat.floor x : ℚ) < 1 / 2) ↔ (((x - (Rat.floor x : ℚ) : ℚ) : ℝ) < 1 / 2) := by
    rw [show (1 / 2 : ℝ) = ((1 / 2 : ℚ) : ℝ) by norm_num, Rat.cast_lt]
  have h2 : (1 / 2 < x - (Rat.floor x : ℚ)) ↔ ((1 / 2 : ℝ) < ((x - (Rat.floor x : ℚ) : ℚ) : ℝ)) := by
    rw [show (1 / 2 : ℝ) = ((1 / 2 : ℚ) : ℝ) by norm_num, Rat.cast_lt]
  simp only [h1, h2]

theorem ratOps_hom : OpsHom ratOps realOps (fun q : ℚ => (q : ℝ)) where
  add := fun a b => by simp [ratOps, realOps]
  sub := fun a b => by simp [ratOps, realOps]
  mul := fun a b => by simp [ratOps, realOps]
  div := fun a b => by simp [ratOps, realOps]
  neg := fun a => by simp [ratOps, realOps]
  abs := fun a => by
    simp only [ratOps, realOps]
    split
    · rename_i h; rw [abs_of_neg (by exact_mod_cast h)]; push_cast; rfl
    · rename_i h; rw [abs_of_nonneg (by exact_mod_cast (not_lt.mp h))]
  ofInt := fun i => by simp [ratOps, realOps]
  floor := fun a => rat_floor_eq a
  ceil := fun a => rat_ceil_eq a
  round := fun a => ratRound_eq a
  le := fun a b => by simp [ratOps, realOps]
  lt := fun a b => by simp [ratOps, realOps]

end InfernoVerif.Select
