import InfernoVerif.Model.Hooks
import Mathlib.Analysis.SpecialFunctions.Pow.Real
import Mathlib.Algebra.BigOperators.Ring.List
/-!
Helper lemmas for the post-conditions of C16 over `ℝ`: the generic `pnormG` / `normalizeG` of
`Model/Hooks.lean` instantiated with real arithmetic (`realOps`), the closed form of the
finite-order norm, and its homogeneity.
-/
namespace InfernoVerif.Hooks
open Real

/-- the operations of `normalizeG` / `pnormG` read over `ℝ` -/
noncomputable def realOps : NormOps ℝ :=
  ⟨0, (· + ·), (· * ·), (· / ·), fun x => |x|, fun x p => x ^ p, fun p => 1 / p, max⟩

theorem foldl_add_eq (l : List ℝ) (a : ℝ) : l.foldl (· + ·) a = a + l.sum := by
  induction l generalizing a with
  | nil => simp
  | cons x xs ih => simp [ih, add_assoc]

/-- the finite-order norm of the model is `(Σ |xᵢ|^p)^(1/p)` -/
theorem pnorm_fin (p : ℝ) (xs : List ℝ) :
    pnormG realOps (.fin p) xs = ((xs.map fun x => |x| ^ p).sum) ^ (1 / p) := by
  simp [pnormG, realOps, foldl_add_eq]

theorem sum_abs_rpow_nonneg (p : ℝ) (xs : List ℝ) : 0 ≤ (xs.map fun x => |x| ^ p).sum := by
  apply List.sum_nonneg
  intro y hy
  obtain ⟨x, _, rfl⟩ := List.mem_map.mp hy
  exact rpow_nonneg (abs_nonneg x) p

theorem pnorm_fin_nonneg (p : ℝ) (xs : List ℝ) : 0 ≤ pnormG realOps (.fin p) xs := by
  rw [pnorm_fin]; exact rpow_nonneg (sum_abs_rpow_nonneg p xs) _

/-- homogeneity of the finite-order norm: `‖c • x‖_p = c · ‖x‖_p` for `c ≥ 0`, any real `p ≠ 0` -/
theorem pnorm_fin_smul (p : ℝ) (c : ℝ) (hc : 0 ≤ c) (hp : p ≠ 0) (xs : List ℝ) (f : ℝ → ℝ)
    (hf : ∀ x, |f x| = c * |x|) :
    pnormG realOps (.fin p) (xs.map f) = c * pnormG realOps (.fin p) xs := by
  rw [pnorm_fin, pnorm_fin, List.map_map]
  have : (xs.map ((fun x => |x| ^ p) ∘ f)) = xs.map (fun x => c ^ p * |x| ^ p) := by
    apply List.map_congr_left; intro x _
    simp only [Function.comp, hf x, mul_rpow hc (abs_nonneg x)]
  rw [this, List.sum_map_mul_left, mul_rpow (rpow_nonneg hc p) (sum_abs_rpow_nonneg p xs)]
  congr 1
  rw [one_div, rpow_rpow_inv hc hp]

theorem pnorm_one (xs : List ℝ) : pnormG realOps (.fin 1) xs = (xs.map fun x => |x|).sum := by
  rw [pnorm_fin]; simp

theorem pnorm_two (xs : List ℝ) : pnormG realOps (.fin 2) xs = √((xs.map fun x => x ^ 2).sum) := by
  rw [pnorm_fin, sqrt_eq_rpow]
  congr 2
  apply List.map_congr_left; intro x _
  rw [rpow_two, sq_abs]

theorem foldl_max_mul (c : ℝ) (hc : 0 ≤ c) (l : List ℝ) (a : ℝ) :
    (l.map (c * ·)).foldl max (c * a) = c * l.foldl max a := by
  induction l generalizing a with
  | nil => rfl
  | cons x xs ih =>
    simp only [List.map_cons, List.foldl_cons]
    rw [← mul_max_of_nonneg _ _ hc, ih]

theorem pnorm_inf_smul (c : ℝ) (hc : 0 ≤ c) (xs : List ℝ) (f : ℝ → ℝ) (hf : ∀ x, |f x| = c * |x|) :
    pnormG realOps .inf (xs.map f) = c * pnormG realOps .inf xs := by
  simp only [pnormG, realOps, List.map_map]
  have : xs.map ((fun x => |x|) ∘ f) = (xs.map fun x => |x|).map (c * ·) := by
    rw [List.map_map]; apply List.map_congr_left; intro x _; simp [Function.comp, hf x]
  rw [this]
  have := foldl_max_mul c hc (xs.map fun x => |x|) 0
  rwa [mul_zero] at this

end InfernoVerif.Hooks
