import InfernoVerif.Model.SelectQ
import InfernoVerif.Gen.InterpolationR
import InfernoVerif.Gen.ExtrapolationR
import Mathlib.Data.Rat.Cast.Order
import Mathlib.Tactic.NormNum
import Mathlib.Tactic.SplitIfs
/-!
The exact (`Rat`) kernels executed by `drivers/C02.lean` ARE the generated `ℝ` kernels on casts:
one lemma per kernel.  A change of a Python formula changes `Gen/*R.lean` and breaks the
corresponding lemma (reported as a broken proof by the runner).
-/
namespace InfernoVerif.Select.Q
open InfernoVerif.Gen

theorem cast_interp_previous (p q s d : ℚ) :
    ((interp_previous p q s d : ℚ) : ℝ) = InterpolationR.interp_previous p q s d := rfl

theorem cast_interp_next (p q s d : ℚ) :
    ((interp_next p q s d : ℚ) : ℝ) = InterpolationR.interp_next p q s d := rfl

theorem cast_interp_nearest (p q s d : ℚ) :
    ((interp_nearest p q s d : ℚ) : ℝ) = InterpolationR.interp_nearest p q s d := by
  unfold interp_nearest InterpolationR.interp_nearest
  have h : (s / d > 1 / 2) ↔ ((s : ℝ) / (d : ℝ) > (0.5 : ℝ)) := by
    rw [show (0.5 : ℝ) = ((1 / 2 : ℚ) : ℝ) by norm_num, ← Rat.cast_div, gt_iff_lt, gt_iff_lt, Rat.cast_lt]
  by_cases hc : s / d > 1 / 2
  · rw [if_pos hc, if_pos (h.mp hc)]
  · rw [if_neg hc, if_neg (fun e => hc (h.mpr e))]

theorem cast_interp_linear (p q s d : ℚ) :
    ((interp_linear p q s d : ℚ) : ℝ) = InterpolationR.interp_linear p q s d := by
  unfold interp_linear InterpolationR.interp_linear; push_cast; rfl

theorem cast_extrap_previous (o s p q d : ℚ) :
    (((extrap_previous o s p q d).1 : ℝ), ((extrap_previous o s p q d).2 : ℝ))
      = ExtrapolationR.extrap_previous o s p q d := rfl

theorem cast_extrap_next (o s p q d : ℚ) :
    (((extrap_next o s p q d).1 : ℝ), ((extrap_next o s p q d).2 : ℝ))
      = ExtrapolationR.extrap_next o s p q d := rfl

theorem cast_extrap_neighbors (o s p q d : ℚ) :
    (((extrap_neighbors o s p q d).1 : ℝ), ((extrap_neighbors o s p q d).2 : ℝ))
      = ExtrapolationR.extrap_neighbors o s p q d := rfl

theorem cast_extrap_nearest (o s p q d : ℚ) :
    (((extrap_nearest o s p q d).1 : ℝ), ((extrap_nearest o s p q d).2 : ℝ))
      = ExtrapolationR.extrap_nearest o s p q d := by
  unfold extrap_nearest ExtrapolationR.extrap_nearest
  have h : (s > d / 2) ↔ ((s : ℝ) > (d : ℝ) / (2 : ℝ)) := by
    rw [show ((d : ℝ) / 2) = ((d / 2 : ℚ) : ℝ) by push_cast; rfl, gt_iff_lt, gt_iff_lt, Rat.cast_lt]
  by_cases hc : s > d / 2
  · simp only [if_pos hc, if_pos (h.mp hc)]
  · simp only [if_neg hc, if_neg (fun e => hc (h.mpr e))]

theorem cast_extrap_linear_forward (o s p q d : ℚ) (adj : Option (ℚ → ℚ)) (adjR : Option (ℝ → ℝ))
    (hadj : match adj, adjR with
      | none, none => True
      | some f, some g => ∀ x : ℚ, ((f x : ℚ) : ℝ) = g x
      | _, _ => False) :
    (((extrap_linear_forward o s p q d adj).1 : ℝ), ((extrap_linear_forward o s p q d adj).2 : ℝ))
      = ExtrapolationR.extrap_linear_forward o s p q d adjR := by
  unfold extrap_linear_forward ExtrapolationR.extrap_linear_forward
  cases adj <;> cases adjR <;> simp only at hadj ⊢
  · push_cast; rfl
  · push_cast; rw [hadj]
  
theorem cast_extrap_linear_backward (o s p q d : ℚ) (adj : Option (ℚ → ℚ)) (adjR : Option (ℝ → ℝ))
    (hadj : match adj, adjR with
      | none, none => True
      | some f, some g => ∀ x : ℚ, ((f x : ℚ) : ℝ) = g x
      | _, _ => False) :
    (((extrap_linear_backward o s p q d adj).1 : ℝ), ((extrap_linear_backward o s p q d adj).2 : ℝ))
      = ExtrapolationR.extrap_linear_backward o s p q d adjR := by
  unfold extrap_linear_backward ExtrapolationR.extrap_linear_backward
  cases adj <;> cases adjR <;> simp only at hadj ⊢
  · push_cast; rfl
  · push_cast; rw [hadj]

end InfernoVerif.Select.Q
