import InfernoVerif.Model.DistR
import Mathlib.Probability.Distributions.Gaussian.Real
import Mathlib.Probability.Distributions.Poisson.Basic
/-!
# Helper lemmas for the distribution theorems of C20

`varNN σ = σ²` as `ℝ≥0`; `lgamma (k+1) = log k!`; `xlogy` on counts; the closed-form Poisson pmf
`poi r k = e^{−r} r^k / k!` with its first two (factorial) moments as `HasSum`s; integrability of
`g · gaussianPDFReal` from integrability of `g` under Mathlib's `gaussianReal`.
-/
namespace InfernoVerif.Dist.R
open ProbabilityTheory MeasureTheory NNReal Nat

/-- `σ²` as a non-negative real (the variance argument of Mathlib's Gaussian). -/
noncomputable def varNN (σ : ℝ) : ℝ≥0 := ⟨σ ^ 2, sq_nonneg σ⟩

@[simp] theorem coe_varNN (σ : ℝ) : (varNN σ : ℝ) = σ ^ 2 := rfl

theorem varNN_ne_zero {σ : ℝ} (hσ : 0 < σ) : varNN σ ≠ 0 := by
  intro h
  have : (varNN σ : ℝ) = 0 := by rw [h]; rfl
  rw [coe_varNN] at this
  have := pow_pos hσ 2
  linarith

theorem lgamma_nat (k : ℕ) : realSpecial.lgamma ((k : ℝ) + 1) = Real.log (k ! : ℝ) := by
  simp only [realSpecial]
  rw [Real.Gamma_nat_eq_factorial, abs_of_nonneg (by positivity)]

theorem xlogy_nat (k : ℕ) (r : ℝ) : xlogy (k : ℝ) r = (k : ℝ) * Real.log r := by
  unfold xlogy eqz
  by_cases h : (k : ℝ) = 0
  · simp [h]
  · simp [h]

/-- the closed form of the pmf -/
noncomputable def poi (r : ℝ) (k : ℕ) : ℝ := Real.exp (-r) * r ^ k / (k ! : ℝ)

theorem poi_hasSum {r : ℝ} (hr : 0 ≤ r) : HasSum (poi r) 1 := hasSum_one_poissonMeasure ⟨r, hr⟩

theorem poi_succ (r : ℝ) (k : ℕ) : ((k + 1 : ℕ) : ℝ) * poi r (k + 1) = r * poi r k := by
  unfold poi
  have hk : (0 : ℝ) < (k ! : ℝ) := by positivity
  rw [Nat.factorial_succ]; push_cast
  field_simp
  ring

theorem poi_first_moment {r : ℝ} (hr : 0 ≤ r) : HasSum (fun k : ℕ => (k : ℝ) * poi r k) r := by
  have h1 : HasSum (fun k : ℕ => ((k + 1 : ℕ) : ℝ) * poi r (k + 1)) (r * 1) := by
    simp_rw [poi_succ]
    exact (poi_hasSum hr).mul_left r
  have := (hasSum_nat_add_iff (f := fun k : ℕ => (k : ℝ) * poi r k) 1).mp h1
  simpa using this

theorem poi_second_factorial_moment {r : ℝ} (hr : 0 ≤ r) :
    HasSum (fun k : ℕ => (k : ℝ) * ((k : ℝ) - 1) * poi r k) (r ^ 2) := by
  have h1 : HasSum (fun k : ℕ => ((k + 1 : ℕ) : ℝ) * (((k + 1 : ℕ) : ℝ) - 1) * poi r (k + 1)) (r * r) := by
    have : ∀ k : ℕ, ((k + 1 : ℕ) : ℝ) * (((k + 1 : ℕ) : ℝ) - 1) * poi r (k + 1) = r * ((k : ℝ) * poi r k) := by
      intro k
      have := poi_succ r k
      push_cast at this ⊢
      linear_combination (k : ℝ) * this
    simp_rw [this]
    exact (poi_first_moment hr).mul_left r
  have := (hasSum_nat_add_iff (f := fun k : ℕ => (k : ℝ) * ((k : ℝ) - 1) * poi r k) 1).mp h1
  simpa [sq] using this

theorem poi_variance {r : ℝ} (hr : 0 ≤ r) : HasSum (fun k : ℕ => ((k : ℝ) - r) ^ 2 * poi r k) r := by
  have h := ((poi_second_factorial_moment hr).add ((poi_first_moment hr).mul_left (1 - 2 * r))).add
    ((poi_hasSum hr).mul_left (r ^ 2))
  have e : r ^ 2 + (1 - 2 * r) * r + r ^ 2 * 1 = r := by ring
  rw [e] at h
  convert h using 1
  funext k; ring

theorem exp_neg_half_log {a : ℝ} (ha : 0 < a) : Real.exp (-(0.5 * Real.log a)) = (√a)⁻¹ := by
  rw [Real.exp_neg, Real.sqrt_eq_rpow, Real.rpow_def_of_pos ha]
  congr 2; ring

theorem integrable_mul_gaussianPDFReal_of_gaussianReal {μ : ℝ} {v : ℝ≥0} (hv : v ≠ 0) {g : ℝ → ℝ}
    (hg : Integrable g (gaussianReal μ v)) : Integrable (fun x => g x * gaussianPDFReal μ v x) := by
  rw [gaussianReal_of_var_ne_zero μ hv,
    integrable_withDensity_iff (measurable_gaussianPDF μ v) (ae_of_all _ fun _ => gaussianPDF_lt_top)] at hg
  simpa using hg

theorem integrable_id_mul (μ : ℝ) {v : ℝ≥0} (hv : v ≠ 0) :
    Integrable (fun x => x * gaussianPDFReal μ v x) :=
  integrable_mul_gaussianPDFReal_of_gaussianReal hv
    (memLp_one_iff_integrable.mp (memLp_id_gaussianReal (μ := μ) (v := v) 1))

theorem integrable_sq_mul (μ : ℝ) {v : ℝ≥0} (hv : v ≠ 0) :
    Integrable (fun x => (x - μ) ^ 2 * gaussianPDFReal μ v x) := by
  apply integrable_mul_gaussianPDFReal_of_gaussianReal hv
  have h2 : MemLp (fun x : ℝ => x - μ) 2 (gaussianReal μ v) :=
    (memLp_id_gaussianReal (μ := μ) (v := v) 2).sub (memLp_const μ)
  exact h2.integrable_sq

end InfernoVerif.Dist.R
