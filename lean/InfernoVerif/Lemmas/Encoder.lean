import InfernoVerif.Model.Encoder
import Mathlib.Tactic.Linarith
import Mathlib.Tactic.Positivity
import Mathlib.Tactic.FieldSimp
import Mathlib.Algebra.Order.Field.Rat
namespace InfernoVerif.Enc

/-! ### plumbing -/

theorem scatter_length (n : Nat) (idx : List Nat) : (scatter n idx).length = n := by
  simp [scatter]

theorem scatter_succ_dropLast (n : Nat) (idx : List Nat) :
    (scatter (n + 1) idx).dropLast = scatter n idx := by
  simp [scatter, List.range_succ]

theorem scatter_getElem? (n : Nat) (idx : List Nat) (t : Nat) :
    (scatter n idx)[t]? = if t < n then some (decide (t ∈ idx)) else none := by
  unfold scatter
  by_cases h : t < n
  · rw [List.getElem?_map, List.getElem?_range h]; simp [h]
  · rw [List.getElem?_eq_none (by simp; omega)]; simp [h]

theorem allSome_eq_some {α : Type} (l : List (Option α)) (r : List α) :
    allSome l = some r ↔ l = r.map some := by
  induction l generalizing r with
  | nil => cases r <;> simp [allSome]
  | cons a l ih =>
    cases a with
    | none => cases r <;> simp [allSome]
    | some a =>
      cases r with
      | nil => simp [allSome]
      | cons b r => 
        simp only [allSome, Option.map_eq_some_iff, List.map_cons, List.cons.injEq, Option.some.injEq]
        constructor
        · rintro ⟨r', h1, h2, h3⟩
          exact ⟨h2, h3 ▸ (ih r').1 h1⟩
        · rintro ⟨h1, h2⟩
          exact ⟨r, (ih r).2 h2, h1, rfl⟩


/-- `e ≥ r` for an extended value (NaN and −∞ are not). -/
def GE (e : Ext) (r : Rat) : Prop :=
  match e with
  | .fin q => r ≤ q
  | .pinf => True
  | _ => False

theorem interval_ge (c : ExpCfg) (sc : Ext) (s : Rat) (hsc : GE sc 0) (hs : 0 < s) :
    GE (c.interval sc s) c.R := by
  cases sc with
  | fin q =>
    simp only [GE] at hsc
    simp only [ExpCfg.interval, Ext.mulFin, Ext.addFin, GE]
    have : 0 ≤ q * s := by positivity
    linarith
  | pinf => simp [ExpCfg.interval, Ext.mulFin, Ext.addFin, GE, hs]
  | ninf => simp [GE] at hsc
  | nan => simp [GE] at hsc

/-- exact cumulative sums of rationals -/
def cumsumQ (acc : Rat) : List Rat → List Rat
  | [] => []
  | x :: xs => (acc + x) :: cumsumQ (acc + x) xs

theorem cumsumFrom_fin (acc : Rat) (l : List Rat) :
    cumsumFrom (.fin acc) (l.map .fin) = (cumsumQ acc l).map .fin := by
  induction l generalizing acc with
  | nil => rfl
  | cons x xs ih => simp [cumsumFrom, cumsumQ, Ext.add, ih]

theorem cumsumFrom_pinf (acc : Ext) (hacc : acc = .pinf ∨ ∃ a, acc = .fin a) (l : List Ext)
    (hl : ∀ e ∈ l, e = .pinf) : ∀ t ∈ cumsumFrom acc l, t = .pinf := by
  induction l generalizing acc with
  | nil => simp [cumsumFrom]
  | cons x xs ih =>
    have hx : x = .pinf := hl x (by simp)
    subst hx
    have h1 : acc.add .pinf = .pinf := by
      rcases hacc with h | ⟨a, h⟩ <;> subst h <;> rfl
    intro t ht
    simp only [cumsumFrom, h1, List.mem_cons] at ht
    rcases ht with h | h
    · exact h
    · exact ih .pinf (Or.inl rfl) (fun e he => hl e (by simp [he])) t h

theorem cumsumQ_length (acc : Rat) (l : List Rat) : (cumsumQ acc l).length = l.length := by
  induction l generalizing acc with
  | nil => rfl
  | cons x xs ih => simp [cumsumQ, ih]

/-- every running sum is at least `acc + R`, and later sums exceed earlier ones by at least `R` -/
theorem cumsumQ_sep (R : Rat) (hR : 0 ≤ R) (acc : Rat) (l : List Rat) (hl : ∀ x ∈ l, R ≤ x) :
    (∀ t ∈ cumsumQ acc l, acc + R ≤ t) ∧ (cumsumQ acc l).Pairwise (fun a b => a + R ≤ b) := by
  induction l generalizing acc with
  | nil => simp [cumsumQ]
  | cons x xs ih =>
    have hx : R ≤ x := hl x (by simp)
    obtain ⟨h1, h2⟩ := ih (acc + x) (fun y hy => hl y (by simp [hy]))
    constructor
    · intro t ht
      simp only [cumsumQ, List.mem_cons] at ht
      rcases ht with h | h
      · subst h; linarith
      · have := h1 t h; linarith
    · simp only [cumsumQ, List.pairwise_cons]
      exact ⟨fun b hb => h1 b hb, h2⟩

theorem pairwise_mem {α : Type} {r : α → α → Prop} {l : List α} (h : l.Pairwise r) {a b : α}
    (ha : a ∈ l) (hb : b ∈ l) : a = b ∨ r a b ∨ r b a := by
  induction l with
  | nil => simp at ha
  | cons x xs ih =>
    rw [List.pairwise_cons] at h
    simp only [List.mem_cons] at ha hb
    rcases ha with ha | ha <;> rcases hb with hb | hb
    · left; rw [ha, hb]
    · right; left; rw [ha]; exact h.1 b hb
    · right; right; rw [hb]; exact h.1 a ha
    · exact ih h.2 ha hb


/-! ### indices -/

theorem floor_nonneg {q : Rat} (h : 0 ≤ q) : 0 ≤ q.floor := by
  rw [Rat.le_floor_iff]; simpa using h

theorem truncQ_nonneg {q : Rat} (h : 0 ≤ q) : truncQ q = q.floor := by simp [truncQ, h]

/-- the scatter index of a non-negative finite time -/
def idxQ (steps : Nat) (t : Rat) : Nat := (truncQ (if t ≤ (steps : Rat) then t else (steps : Rat))).toNat

theorem toIndex_fin_nonneg (steps : Nat) (t : Rat) (ht : 0 ≤ t) :
    toIndex steps (.fin t) = some (idxQ steps t) := by
  have hm : 0 ≤ (if t ≤ (steps : Rat) then t else (steps : Rat)) := by
    split
    · exact ht
    · exact Nat.cast_nonneg steps
  have := floor_nonneg hm
  simp only [toIndex, idxQ, truncQ_nonneg hm]
  rw [if_neg (by omega)]

theorem idxQ_of_lt (steps : Nat) (t : Rat) (h0 : 0 ≤ t) (h : t < steps) :
    ((idxQ steps t : Nat) : Int) = t.floor := by
  have := floor_nonneg h0
  simp only [idxQ, if_pos (le_of_lt h), truncQ_nonneg h0]
  omega

theorem idxQ_of_ge (steps : Nat) (t : Rat) (h : (steps : Rat) ≤ t) : idxQ steps t = steps := by
  have h0 : (0 : Rat) ≤ (steps : Rat) := Nat.cast_nonneg steps
  have hf : ((steps : Nat) : Rat).floor = (steps : Int) := by
    have := Rat.floor_intCast (steps : Int)
    simpa using this
  unfold idxQ
  split
  · have : t = steps := le_antisymm ‹_› h
    subst this
    rw [truncQ_nonneg h0, hf]; simp
  · rw [truncQ_nonneg h0, hf]; simp

/-! ### scale -/

theorem scale_zero (c : ExpCfg) (hdt : 0 < c.dt) : c.scale 0 = .pinf := by
  have : (0 : Rat) < 1000 / c.dt := by positivity
  unfold ExpCfg.scale
  simp only [Ext.recip, if_true, Ext.mulFin, if_pos this]
  split <;> rfl

theorem scale_ge_of_compat (c : ExpCfg) (x : Rat) (hdt : 0 < c.dt) (hx : 0 ≤ x)
    (hc : c.compat x = true) : GE (c.scale x) 0 := by
  rcases eq_or_lt_of_le hx with h0 | hpos
  · subst h0; rw [scale_zero c hdt]; trivial
  · have hne : x ≠ 0 := ne_of_gt hpos
    have hkey : 1 / x * (1000 / c.dt) = 1000 / (x * c.dt) := by field_simp
    unfold ExpCfg.scale
    simp only [Ext.recip, if_neg hne, Ext.mulFin]
    by_cases hcomp : c.compensate = true
    · simp only [hcomp, if_true, Ext.addFin, GE]
      simp only [ExpCfg.compat, hcomp, Bool.not_true, Bool.false_or, Bool.or_eq_true, decide_eq_true_eq, hne, false_or] at hc
      rw [hkey]; linarith
    · simp only [hcomp, GE]
      have : 0 ≤ 1 / x * (1000 / c.dt) := by positivity
      simpa using this

/-! ### offline exp-interval encoder -/

theorem cumsumFrom_length (acc : Ext) (l : List Ext) : (cumsumFrom acc l).length = l.length := by
  induction l generalizing acc with
  | nil => rfl
  | cons x xs ih => simp [cumsumFrom, ih]

/-- the exact spike times (in steps) of one element with finite scale `q` -/
def timesQ (c : ExpCfg) (q : Rat) (ss : List Rat) : List Rat := cumsumQ 0 (ss.map fun s => q * s + c.R)

theorem timesQ_sep (c : ExpCfg) (q : Rat) (ss : List Rat) (hq : 0 ≤ q) (hR : 0 ≤ c.R)
    (hs : ∀ s ∈ ss, 0 < s) :
    (∀ t ∈ timesQ c q ss, c.R ≤ t) ∧ (timesQ c q ss).Pairwise (fun a b => a + c.R ≤ b) := by
  have hl : ∀ x ∈ ss.map (fun s => q * s + c.R), c.R ≤ x := by
    intro x hx
    simp only [List.mem_map] at hx
    obtain ⟨s, hs', rfl⟩ := hx
    have : 0 ≤ q * s := mul_nonneg hq (le_of_lt (hs s hs'))
    linarith
  have := cumsumQ_sep c.R hR 0 _ hl
  simpa [timesQ] using this

/-- Offline encoder, finite non-negative scale: the train is the scatter of the floored times. -/
theorem expOffline_fin (c : ExpCfg) (x q : Rat) (ss : List Rat) (hsc : c.scale x = .fin q)
    (hq : 0 ≤ q) (hR : 0 ≤ c.R) (hs : ∀ s ∈ ss, 0 < s) :
    expOffline c x ss = some (scatter c.steps ((timesQ c q ss).map (idxQ c.steps))) := by
  have hiv : ss.map (c.interval (.fin q)) = (ss.map fun s => q * s + c.R).map .fin := by
    simp [ExpCfg.interval, Ext.mulFin, Ext.addFin]
  have hnn : ∀ t ∈ timesQ c q ss, 0 ≤ t := fun t ht => le_trans hR ((timesQ_sep c q ss hq hR hs).1 t ht)
  unfold expOffline
  simp only [hsc, cumsum]
  rw [hiv, cumsumFrom_fin]
  have : ((cumsumQ 0 (ss.map fun s => q * s + c.R)).map Ext.fin).map (toIndex c.steps)
      = ((timesQ c q ss).map (idxQ c.steps)).map some := by
    rw [List.map_map, List.map_map]
    apply List.map_congr_left
    intro t ht
    exact toIndex_fin_nonneg c.steps t (hnn t ht)
  rw [this, (allSome_eq_some _ _).2 rfl]
  simp [scatter_succ_dropLast]

/-- Offline encoder, infinite scale (rate 0): every time is `+∞`, every index is the dropped row. -/
theorem expOffline_pinf (c : ExpCfg) (x : Rat) (ss : List Rat) (hsc : c.scale x = .pinf)
    (hs : ∀ s ∈ ss, 0 < s) :
    expOffline c x ss = some (scatter c.steps (ss.map fun _ => c.steps)) := by
  have hiv : ∀ e ∈ ss.map (c.interval .pinf), e = .pinf := by
    intro e he
    simp only [List.mem_map] at he
    obtain ⟨s, hs', rfl⟩ := he
    simp [ExpCfg.interval, Ext.mulFin, Ext.addFin, hs s hs']
  have hall := cumsumFrom_pinf (.fin 0) (Or.inr ⟨0, rfl⟩) _ hiv
  unfold expOffline
  simp only [hsc, cumsum]
  have : (cumsumFrom (.fin 0) (ss.map (c.interval .pinf))).map (toIndex c.steps)
      = ((cumsumFrom (.fin 0) (ss.map (c.interval .pinf))).map fun _ => c.steps).map some := by
    rw [List.map_map]
    apply List.map_congr_left
    intro t ht
    rw [hall t ht]; rfl
  rw [this, (allSome_eq_some _ _).2 rfl]
  have hlen : (cumsumFrom (.fin 0) (ss.map (c.interval .pinf))).length = ss.length := by
    rw [cumsumFrom_length]; simp
  simp only [Option.map_some, scatter_succ_dropLast, Option.some.injEq]
  congr 1
  apply List.ext_getElem
  · simp [hlen]
  · intro i h1 h2; simp

theorem floor_add_floor_le {a b R : Rat} (h : a + R ≤ b) : a.floor + R.floor ≤ b.floor := by
  rw [Rat.le_floor_iff]
  have h1 := Rat.floor_le a
  have h2 := Rat.floor_le R
  push_cast
  linarith

/-- spikes of a scatter of floored, `R`-separated times are at least `⌊R⌋` steps apart -/
theorem scatter_gap (steps : Nat) (R : Rat) (hR : 0 ≤ R) (ts : List Rat) (h0 : ∀ t ∈ ts, 0 ≤ t)
    (hsep : ts.Pairwise (fun a b => a + R ≤ b)) (t1 t2 : Nat) (h12 : t1 < t2)
    (h1 : (scatter steps (ts.map (idxQ steps)))[t1]? = some true)
    (h2 : (scatter steps (ts.map (idxQ steps)))[t2]? = some true) :
    R.floor ≤ (t2 : Int) - (t1 : Int) := by
  rw [scatter_getElem?] at h1 h2
  split at h1 <;> simp only [Option.some.injEq, decide_eq_true_eq, List.mem_map, reduceCtorEq] at h1
  split at h2 <;> simp only [Option.some.injEq, decide_eq_true_eq, List.mem_map, reduceCtorEq] at h2
  rename_i hs1 hs2
  obtain ⟨ta, hta, ha⟩ := h1
  obtain ⟨tb, htb, hb⟩ := h2
  have lt_steps : ∀ t ∈ ts, ∀ k, k < steps → idxQ steps t = k → t < (steps : Rat) := by
    intro t _ k hk he
    by_contra hge
    have := idxQ_of_ge steps t (not_lt.1 hge)
    omega
  have ha' := idxQ_of_lt steps ta (h0 ta hta) (lt_steps ta hta t1 hs1 ha)
  have hb' := idxQ_of_lt steps tb (h0 tb htb) (lt_steps tb htb t2 hs2 hb)
  rw [ha] at ha'; rw [hb] at hb'
  rcases pairwise_mem hsep hta htb with h | h | h
  · subst h; omega
  · have := floor_add_floor_le h; omega
  · have hle : tb ≤ ta := by linarith
    have := Rat.floor_monotone hle
    omega

/-! ### online encoders -/
section online
variable {σ α : Type}

/-- One online step, element by element: a non-firing element is just advanced, a firing element is
re-initialised from one of the fresh samples of this step. -/
theorem stepT_spec (adv : σ → σ) (fires : σ → Bool) (redraw : σ → α → σ) (st : List σ) (fr : List α)
    (st' : List σ) (sp : List Bool) (h : stepT adv fires redraw st fr = some (st', sp)) :
    st'.length = st.length ∧ sp.length = st.length ∧
    ∀ (i : Nat) (e : σ), st[i]? = some e →
      (fires (adv e) = false ∧ st'[i]? = some (adv e) ∧ sp[i]? = some false) ∨
      (fires (adv e) = true ∧ sp[i]? = some true ∧ ∃ s ∈ fr, st'[i]? = some (redraw (adv e) s)) := by
  induction st generalizing fr st' sp with
  | nil =>
    cases fr with
    | nil => simp only [stepT, Option.some.injEq, Prod.mk.injEq] at h; obtain ⟨rfl, rfl⟩ := h; simp
    | cons a fr => simp [stepT] at h
  | cons e0 rest ih =>
    simp only [stepT] at h
    split at h
    · rename_i hf
      cases fr with
      | nil => simp at h
      | cons s fr' =>
        simp only [Option.map_eq_some_iff, Prod.mk.injEq] at h
        obtain ⟨⟨st1, sp1⟩, hrec, rfl, rfl⟩ := h
        obtain ⟨l1, l2, hall⟩ := ih fr' st1 sp1 hrec
        refine ⟨by simp [l1], by simp [l2], ?_⟩
        intro i e hi
        cases i with
        | zero =>
          simp only [List.getElem?_cons_zero, Option.some.injEq] at hi; subst hi
          right; exact ⟨hf, by simp, s, by simp, by simp⟩
        | succ j =>
          simp only [List.getElem?_cons_succ] at hi ⊢
          rcases hall j e hi with h' | ⟨h1, h2, s', hs', h3⟩
          · left; exact h'
          · right; exact ⟨h1, h2, s', by simp [hs'], h3⟩
    · rename_i hf
      simp only [Option.map_eq_some_iff, Prod.mk.injEq] at h
      obtain ⟨⟨st1, sp1⟩, hrec, rfl, rfl⟩ := h
      obtain ⟨l1, l2, hall⟩ := ih fr st1 sp1 hrec
      refine ⟨by simp [l1], by simp [l2], ?_⟩
      intro i e hi
      cases i with
      | zero =>
        simp only [List.getElem?_cons_zero, Option.some.injEq] at hi; subst hi
        left; exact ⟨by simpa using hf, by simp, by simp⟩
      | succ j =>
        simp only [List.getElem?_cons_succ] at hi ⊢
        exact hall j e hi

theorem runT_cons (adv : σ → σ) (fires : σ → Bool) (redraw : σ → α → σ) (st : List σ) (fr : List α)
    (rest : List (List α)) (rows : List (List Bool)) (h : runT adv fires redraw st (fr :: rest) = some rows) :
    ∃ st' sp rows', stepT adv fires redraw st fr = some (st', sp) ∧
      runT adv fires redraw st' rest = some rows' ∧ rows = sp :: rows' := by
  simp only [runT] at h
  split at h
  · simp at h
  · rename_i st' sp hstep
    simp only [Option.map_eq_some_iff] at h
    obtain ⟨rows', h1, rfl⟩ := h
    exact ⟨st', sp, rows', hstep, h1, rfl⟩

/-- `steps` slices, each with one entry per element. -/
theorem runT_shape (adv : σ → σ) (fires : σ → Bool) (redraw : σ → α → σ) (st : List σ)
    (freshs : List (List α)) (rows : List (List Bool)) (h : runT adv fires redraw st freshs = some rows) :
    rows.length = freshs.length ∧ ∀ r ∈ rows, r.length = st.length := by
  induction freshs generalizing st rows with
  | nil => simp only [runT, Option.some.injEq] at h; subst h; simp
  | cons fr rest ih =>
    obtain ⟨st', sp, rows', hstep, hrun, rfl⟩ := runT_cons adv fires redraw st fr rest rows h
    obtain ⟨l1, l2, _⟩ := stepT_spec adv fires redraw st fr st' sp hstep
    obtain ⟨i1, i2⟩ := ih st' rows' hrun
    refine ⟨by simp [i1], ?_⟩
    intro r hr
    simp only [List.mem_cons] at hr
    rcases hr with rfl | hr
    · exact l2
    · rw [i2 r hr, l1]

/-- An element in a state from which it can never fire stays silent for the whole run. -/
theorem runT_never_fires (adv : σ → σ) (fires : σ → Bool) (redraw : σ → α → σ) (P : σ → Prop)
    (hP : ∀ e, P e → fires (adv e) = false ∧ P (adv e)) (st : List σ) (freshs : List (List α))
    (rows : List (List Bool)) (h : runT adv fires redraw st freshs = some rows)
    (i : Nat) (e : σ) (hi : st[i]? = some e) (he : P e) (t : Nat) (row : List Bool)
    (ht : rows[t]? = some row) : row[i]? = some false := by
  induction freshs generalizing st rows e t with
  | nil => simp only [runT, Option.some.injEq] at h; subst h; simp at ht
  | cons fr rest ih =>
    obtain ⟨st', sp, rows', hstep, hrun, rfl⟩ := runT_cons adv fires redraw st fr rest rows h
    obtain ⟨_, _, hall⟩ := stepT_spec adv fires redraw st fr st' sp hstep
    obtain ⟨hnf, hP'⟩ := hP e he
    rcases hall i e hi with ⟨_, h2, h3⟩ | ⟨h1, _⟩
    · cases t with
      | zero => simp only [List.getElem?_cons_zero, Option.some.injEq] at ht; subst ht; exact h3
      | succ t' =>
        simp only [List.getElem?_cons_succ] at ht
        exact ih st' rows' hrun (adv e) h2 hP' t' ht
    · rw [hnf] at h1; simp at h1

end online

/-! ### online exp-interval encoder -/

theorem floor_le_one_of_lt_two {r : Rat} (h : r < 2) : r.floor ≤ 1 := by
  have : r.floor < 2 := by rw [Rat.floor_lt_iff]; simpa using h
  omega

/-- a firing element had an interval below 2 before the decrement -/
theorem expFires_adv (e : ExpElem) (r : Rat) (hge : GE e.iv r) (hf : expFires (expAdv e) = true) :
    r < 2 := by
  cases hiv : e.iv with
  | fin q =>
    rw [hiv] at hge
    simp only [GE] at hge
    simp only [expFires, expAdv, hiv, Ext.addFin, Ext.ltFin, decide_eq_true_eq] at hf
    linarith
  | pinf => simp [expFires, expAdv, hiv, Ext.addFin, Ext.ltFin] at hf
  | ninf => rw [hiv] at hge; simp [GE] at hge
  | nan => rw [hiv] at hge; simp [GE] at hge

theorem expAdv_ge (e : ExpElem) (r : Rat) (hge : GE e.iv r) : GE (expAdv e).iv (r - 1) := by
  cases hiv : e.iv with
  | fin q => rw [hiv] at hge; simp only [GE] at hge; simp only [expAdv, hiv, Ext.addFin, GE]; linarith
  | pinf => simp [expAdv, hiv, Ext.addFin, GE]
  | ninf => rw [hiv] at hge; simp [GE] at hge
  | nan => rw [hiv] at hge; simp [GE] at hge

/-- Lemma A: an element whose interval is at least `r` does not fire during the next `⌊r⌋ − 1` steps. -/
theorem expRun_first_spike (c : ExpCfg) (st : List ExpElem) (freshs : List (List Rat))
    (rows : List (List Bool)) (h : runT expAdv expFires (expRedraw c) st freshs = some rows)
    (i : Nat) (e : ExpElem) (hi : st[i]? = some e) (r : Rat) (hge : GE e.iv r)
    (t : Nat) (row : List Bool) (ht : rows[t]? = some row) (hsp : row[i]? = some true) :
    r.floor ≤ (t : Int) + 1 := by
  induction freshs generalizing st rows e r t with
  | nil => simp only [runT, Option.some.injEq] at h; subst h; simp at ht
  | cons fr rest ih =>
    obtain ⟨st', sp, rows', hstep, hrun, rfl⟩ := runT_cons _ _ _ st fr rest rows h
    obtain ⟨_, _, hall⟩ := stepT_spec _ _ _ st fr st' sp hstep
    rcases hall i e hi with ⟨_, h2, h3⟩ | ⟨h1, _, _⟩
    · cases t with
      | zero =>
        simp only [List.getElem?_cons_zero, Option.some.injEq] at ht; subst ht
        rw [h3] at hsp; simp at hsp
      | succ t' =>
        simp only [List.getElem?_cons_succ] at ht
        have := ih st' rows' hrun (expAdv e) h2 (r - 1) (expAdv_ge e r hge) t' ht
        have hfl : (r - 1).floor = r.floor - 1 := Rat.floor_sub_one
        push_cast; omega
    · have := floor_le_one_of_lt_two (expFires_adv e r hge h1)
      omega

/-- the scales never change and stay non-negative -/
theorem stepT_exp_scales (c : ExpCfg) (st : List ExpElem) (fr : List Rat) (st' : List ExpElem)
    (sp : List Bool) (h : stepT expAdv expFires (expRedraw c) st fr = some (st', sp))
    (hsc : ∀ (i : Nat) (e : ExpElem), st[i]? = some e → GE e.sc 0) :
    ∀ (i : Nat) (e : ExpElem), st'[i]? = some e → GE e.sc 0 := by
  obtain ⟨l1, _, hall⟩ := stepT_spec _ _ _ st fr st' sp h
  intro i e' hi'
  have hlt : i < st.length := by
    rw [← l1]; exact (List.getElem?_eq_some_iff.1 hi').1
  have hi : st[i]? = some st[i] := List.getElem?_eq_getElem hlt
  rcases hall i st[i] hi with ⟨_, h2, _⟩ | ⟨_, _, s, _, h3⟩
  · rw [h2] at hi'; cases hi'; exact hsc i st[i] hi
  · rw [h3] at hi'; cases hi'; exact hsc i st[i] hi

/-- Online minimum gap: two spikes of one element are at least `⌊R⌋` steps apart. -/
theorem expRun_gap (c : ExpCfg) (st : List ExpElem) (freshs : List (List Rat))
    (rows : List (List Bool)) (h : runT expAdv expFires (expRedraw c) st freshs = some rows)
    (hsc : ∀ (i : Nat) (e : ExpElem), st[i]? = some e → GE e.sc 0)
    (hs : ∀ fr ∈ freshs, ∀ s ∈ fr, (0 : Rat) < s)
    (i t1 t2 : Nat) (r1 r2 : List Bool) (h1 : rows[t1]? = some r1) (h2 : rows[t2]? = some r2)
    (s1 : r1[i]? = some true) (s2 : r2[i]? = some true) (h12 : t1 < t2) :
    c.R.floor ≤ (t2 : Int) - (t1 : Int) := by
  induction freshs generalizing st rows t1 t2 with
  | nil => simp only [runT, Option.some.injEq] at h; subst h; simp at h1
  | cons fr rest ih =>
    obtain ⟨st', sp, rows', hstep, hrun, rfl⟩ := runT_cons _ _ _ st fr rest rows h
    obtain ⟨l1, l2, hall⟩ := stepT_spec _ _ _ st fr st' sp hstep
    have hsc' := stepT_exp_scales c st fr st' sp hstep hsc
    cases t2 with
    | zero => omega
    | succ t2' =>
      simp only [List.getElem?_cons_succ] at h2
      cases t1 with
      | zero =>
        simp only [List.getElem?_cons_zero, Option.some.injEq] at h1; subst h1
        have hlt : i < st.length := by
          rw [← l2]; exact (List.getElem?_eq_some_iff.1 s1).1
        have hi : st[i]? = some st[i] := List.getElem?_eq_getElem hlt
        rcases hall i st[i] hi with ⟨_, _, h3⟩ | ⟨_, _, s, hsmem, h3⟩
        · rw [h3] at s1; simp at s1
        · have hpos : 0 < s := hs fr (by simp) s hsmem
          have hge : GE (expRedraw c (expAdv st[i]) s).iv c.R := by
            simp only [expRedraw]
            exact interval_ge c _ s (by simpa [expAdv] using hsc i _ hi) hpos
          have := expRun_first_spike c st' rest rows' hrun i _ h3 c.R hge t2' r2 h2 s2
          push_cast; omega
      | succ t1' =>
        simp only [List.getElem?_cons_succ] at h1
        have := ih st' rows' hrun hsc' (fun fr' hfr => hs fr' (by simp [hfr])) t1' t2' h1 h2 (by omega)
        push_cast; omega

/-! ### Poisson-interval encoder -/

theorem scatter_drop_dropLast (n : Nat) (idx : List Nat) :
    ((scatter (n + 2) idx).drop 1).dropLast = (List.range n).map fun t => decide (t + 1 ∈ idx) := by
  have h1 : List.range (n + 2) = 0 :: (List.range (n + 1)).map Nat.succ := List.range_succ_eq_map
  simp only [scatter, h1, List.map_cons, List.drop_succ_cons, List.drop_zero, List.map_map]
  rw [List.range_succ, List.map_append]
  simp [Function.comp_def]

theorem cumsumNat_zeros (l : List Nat) (h : ∀ k ∈ l, k = 0) : ∀ t ∈ cumsumNat 0 l, t = 0 := by
  induction l with
  | nil => simp [cumsumNat]
  | cons x xs ih =>
    have hx : x = 0 := h x (by simp)
    subst hx
    intro t ht
    simp only [cumsumNat, Nat.add_zero, List.mem_cons] at ht
    rcases ht with h' | h'
    · exact h'
    · exact ih (fun k hk => h k (by simp [hk])) t h'

theorem cumsumNat_last (acc : Nat) (l : List Nat) (hne : l ≠ []) (h : ∀ k ∈ l, 1 ≤ k) :
    ∃ T ∈ cumsumNat acc l, acc + l.length ≤ T := by
  induction l generalizing acc with
  | nil => exact absurd rfl hne
  | cons x xs ih =>
    have hx : 1 ≤ x := h x (by simp)
    by_cases hxs : xs = []
    · subst hxs
      exact ⟨acc + x, by simp [cumsumNat], by simp; omega⟩
    · obtain ⟨T, hT, hle⟩ := ih (acc + x) hxs (fun k hk => h k (by simp [hk]))
      exact ⟨T, by simp [cumsumNat, hT], by simp; omega⟩

/-! ### encoder configuration -/

/-- What every accepted encoder configuration satisfies. -/
structure EncInv (s : EncState) : Prop where
  steps_pos : 0 < s.steps
  dt_pos : 0 < s.dt
  freq_nonneg : 0 ≤ s.freq
  refrac_nonneg : 0 ≤ s.refrac
  derived : s.derive = true → s.refrac = s.dt
  compat : s.comp = true → s.freq * s.refrac < 1000

theorem encCtor_inv (steps : Int) (dt freq : Rat) (refrac : Option Rat) (comp : Bool) (s : EncState)
    (h : encCtor steps dt freq refrac comp = some s) : EncInv s := by
  unfold encCtor at h
  split at h; · simp at h
  split at h; · simp at h
  split at h; · simp at h
  rename_i h1 h2 h3
  simp only [not_not] at h1 h2 h3
  cases refrac with
  | none =>
    simp only at h
    split at h; · simp at h
    rename_i h4
    simp only [Option.some.injEq] at h; subst h
    exact ⟨h3, h2, h1, le_of_lt h2, fun _ => rfl, fun hc => by simp only [not_and, not_not] at h4; exact h4 hc⟩
  | some r =>
    simp only at h
    split at h; · simp at h
    split at h; · simp at h
    rename_i h4 h5
    simp only [Option.some.injEq] at h; subst h
    exact ⟨h3, h2, h1, by simpa using h4, fun hd => by simp at hd, fun hc => by simp only [not_and, not_not] at h5; exact h5 hc⟩


theorem encSet_inv (s s' : EncState) (op : CfgOp) (hi : EncInv s) (h : encSet s op = some s') :
    EncInv s' := by
  obtain ⟨i1, i2, i3, i4, i5, i6⟩ := hi
  cases op with
  | setSteps v =>
    simp only [encSet] at h
    split at h
    · simp only [Option.some.injEq] at h; subst h; exact ⟨‹_›, i2, i3, i4, i5, i6⟩
    · simp at h
  | setDt v =>
    by_cases hv : 0 < v
    · by_cases hd : s.derive = true
      · simp only [encSet, hv, not_true_eq_false, if_false, hd, if_true] at h
        split at h; · simp at h
        rename_i h2
        simp only [not_and, not_not] at h2
        simp only [Option.some.injEq] at h; subst h
        exact ⟨i1, hv, i3, le_of_lt hv, fun _ => rfl, h2⟩
      · have hd' : s.derive = false := by simpa using hd
        simp only [encSet, hv, not_true_eq_false, if_false, hd', Bool.false_eq_true] at h
        split at h; · simp at h
        rename_i h2
        simp only [not_and, not_not] at h2
        simp only [Option.some.injEq] at h; subst h
        exact ⟨i1, hv, i3, i4, fun hd'' => by simp at hd'', h2⟩
    · simp [encSet, hv] at h
  | setFreq v =>
    simp only [encSet] at h
    split at h; · simp at h
    split at h; · simp at h
    rename_i h1 h2
    simp only [not_and, not_not] at h1
    simp only [not_not] at h2
    simp only [Option.some.injEq] at h; subst h
    exact ⟨i1, i2, h2, i4, i5, h1⟩
  | setRefrac r =>
    cases r with
    | none =>
      simp only [encSet] at h
      split at h; · simp at h
      rename_i h1
      simp only [not_and, not_not] at h1
      simp only [Option.some.injEq] at h; subst h
      exact ⟨i1, i2, i3, le_of_lt i2, fun _ => rfl, fun hc => by have := h1 hc; simp only; linarith⟩
    | some r =>
      simp only [encSet] at h
      split at h; · simp at h
      split at h; · simp at h
      rename_i h1 h2
      simp only [not_and, not_not] at h1
      simp only [not_not] at h2
      simp only [Option.some.injEq] at h; subst h
      exact ⟨i1, i2, i3, h2, fun hd => by simp at hd, fun hc => by have := h1 hc; simp only; linarith⟩
  | setComp b =>
    simp only [encSet] at h
    split at h; · simp at h
    rename_i h1
    simp only [not_and, not_not] at h1
    simp only [Option.some.injEq] at h; subst h
    exact ⟨i1, i2, i3, i4, i5, fun hc => h1 hc⟩

theorem encFail_inv (s : EncState) (op : CfgOp) (hi : EncInv s) : EncInv (encFail s op) := by
  obtain ⟨i1, i2, i3, i4, i5, i6⟩ := hi
  cases op with
  | setRefrac r =>
    cases r with
    | none => exact ⟨i1, i2, i3, i4, i5, i6⟩
    | some r =>
      simp only [encFail]
      split
      · exact ⟨i1, i2, i3, i4, i5, i6⟩
      · exact ⟨i1, i2, i3, i4, fun hd => by simp at hd, i6⟩
  | _ => exact ⟨i1, i2, i3, i4, i5, i6⟩

theorem encRun_inv (s : EncState) (ops : List CfgOp) (hi : EncInv s) : EncInv (encRun s ops) := by
  induction ops generalizing s with
  | nil => exact hi
  | cons op ops ih =>
    simp only [encRun]
    apply ih
    unfold encStep
    split
    · rename_i s' h; exact encSet_inv s s' op hi h
    · exact encFail_inv s op hi

/-! ### float rounding cannot shrink the gap -/

/-- cumulative sums with a rounding step after every addition (IEEE: round-to-nearest) -/
def cumsumR (rnd : Rat → Rat) (acc : Rat) : List Rat → List Rat
  | [] => []
  | x :: xs => rnd (acc + x) :: cumsumR rnd (rnd (acc + x)) xs

/-- Rounding cannot shrink the gap: for ANY monotone rounding that leaves integers alone, running
sums of intervals `≥ k` (`k ∈ ℕ`) have floors at least `k` apart. -/
theorem cumsumR_floor_sep (rnd : Rat → Rat) (hmono : ∀ a b, a ≤ b → rnd a ≤ rnd b)
    (hint : ∀ n : Int, rnd (n : Rat) = (n : Rat)) (k : Nat) (acc : Rat) (l : List Rat)
    (hl : ∀ x ∈ l, (k : Rat) ≤ x) :
    (∀ t ∈ cumsumR rnd acc l, acc.floor + (k : Int) ≤ t.floor) ∧
    (cumsumR rnd acc l).Pairwise (fun a b => a.floor + (k : Int) ≤ b.floor) := by
  induction l generalizing acc with
  | nil => simp [cumsumR]
  | cons x xs ih =>
    have hx : (k : Rat) ≤ x := hl x (by simp)
    have hstep : acc.floor + (k : Int) ≤ (rnd (acc + x)).floor := by
      rw [Rat.le_floor_iff]
      have h1 : ((acc.floor + (k : Int) : Int) : Rat) ≤ acc + x := by
        have := Rat.floor_le acc; push_cast; linarith
      have := hmono _ _ h1
      rwa [hint] at this
    obtain ⟨h1, h2⟩ := ih (rnd (acc + x)) (fun y hy => hl y (by simp [hy]))
    constructor
    · intro t ht
      simp only [cumsumR, List.mem_cons] at ht
      rcases ht with rfl | h
      · exact hstep
      · have := h1 t h; omega
    · simp only [cumsumR, List.pairwise_cons]
      exact ⟨fun b hb => h1 b hb, h2⟩

/-- the online decrement under rounding: an interval `≥ r` (`r ∈ ℤ`) stays `≥ r − 1` -/
theorem rounded_decrement (rnd : Rat → Rat) (hmono : ∀ a b, a ≤ b → rnd a ≤ rnd b)
    (hint : ∀ n : Int, rnd (n : Rat) = (n : Rat)) (r : Int) (iv : Rat) (h : (r : Rat) ≤ iv) :
    ((r - 1 : Int) : Rat) ≤ rnd (iv - 1) := by
  have h1 : ((r - 1 : Int) : Rat) ≤ iv - 1 := by push_cast; linarith
  have := hmono _ _ h1
  rwa [hint] at this

end InfernoVerif.Enc
