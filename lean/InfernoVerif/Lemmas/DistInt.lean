import InfernoVerif.Lemmas.Dist
import Mathlib.MeasureTheory.Integral.IntegralEqImproper
import Mathlib.MeasureTheory.Function.JacobianOneDim
import Mathlib.Tactic.Ring
import Mathlib.Tactic.Linarith
import Mathlib.Tactic.FieldSimp
import Mathlib.Tactic.Positivity
/-!
# Helper lemmas for the integral / sum characterisations of the CDFs and the log-normal moments (C20)

* Normal: the density is symmetric about `μ`, so `∫_{(−∞, μ]} pdf = 1/2`; the affine substitution
  `u = (t − μ)/(σ√2)` turns `∫_μ^x pdf` into `(1/√π) ∫_0^z e^{−u²}`.
* Poisson: `gammaQ n t = n! Σ_{j ≤ n} t^j / j!` (defined by its recursion) gives the antiderivative
  `−e^{−t} gammaQ n t` of `t^n e^{−t}`, hence the upper incomplete gamma integral at natural exponent
  and `gammaincc (k+1) r = e^{−r} Σ_{j ≤ k} r^j / j!`.
* LogNormal: the substitution `x = eᵘ` over an arbitrary measurable set; the log-normal density at
  `eᵘ` times the Jacobian is the normal density at `u`; raw moments from the Gaussian moment
  generating function.
-/
namespace InfernoVerif.Dist.R
open ProbabilityTheory MeasureTheory NNReal Nat Set Filter Topology

/-! ## Normal -/

theorem normal_pdf_eq_gauss (x μ : ℝ) {σ : ℝ} (hσ : 0 < σ) :
    Normal.pdf x μ σ = gaussianPDFReal μ (varNN σ) x := by
  unfold Normal.pdf gaussianPDFReal
  simp only [coe_varNN, sqrt, tau, exp, pow2]
  have h1 : √(2 * Real.pi * σ ^ 2) = σ * √(2 * Real.pi) := by
    rw [Real.sqrt_mul (by positivity), Real.sqrt_sq hσ.le, mul_comm]
  rw [h1, one_div]
  congr 2
  field_simp
  ring

theorem normal_pdf_integrable (μ : ℝ) {σ : ℝ} (hσ : 0 < σ) :
    Integrable (fun x => Normal.pdf x μ σ) := by
  simp_rw [normal_pdf_eq_gauss _ μ hσ]
  exact integrable_gaussianPDFReal μ (varNN σ)

theorem normal_pdf_reflect (t μ σ : ℝ) : Normal.pdf (2 * μ - t) μ σ = Normal.pdf t μ σ := by
  unfold Normal.pdf
  simp only [pow2]
  congr 2
  ring

theorem normal_pdf_integral_Iic_loc (μ : ℝ) {σ : ℝ} (hσ : 0 < σ) :
    ∫ t in Iic μ, Normal.pdf t μ σ = 1 / 2 := by
  have hint := normal_pdf_integrable μ hσ
  have htot : ∫ t, Normal.pdf t μ σ = 1 := by
    simp_rw [normal_pdf_eq_gauss _ μ hσ]
    exact integral_gaussianPDFReal_eq_one μ (varNN_ne_zero hσ)
  have hsplit : (∫ t in Iic μ, Normal.pdf t μ σ) + ∫ t in Ioi μ, Normal.pdf t μ σ = 1 := by
    rw [← setIntegral_union (Iic_disjoint_Ioi le_rfl) measurableSet_Ioi hint.integrableOn
      hint.integrableOn, Iic_union_Ioi, Measure.restrict_univ, htot]
  have hrefl : ∫ t in Ioi μ, Normal.pdf t μ σ = ∫ t in Iic μ, Normal.pdf t μ σ := by
    rw [← integral_Ici_eq_integral_Ioi]
    have himg : (fun t => 2 * μ - t) '' Iic μ = Ici μ := by
      rw [Set.image_const_sub_Iic]; congr 1; ring
    rw [← himg, integral_image_eq_integral_abs_deriv_smul (f := fun t => 2 * μ - t)
      (f' := fun _ => (-1 : ℝ)) measurableSet_Iic
      (fun t _ => ((hasDerivAt_id' t).const_sub (2 * μ)).hasDerivWithinAt)
      (fun a _ b _ h => by simpa using h)]
    simp [normal_pdf_reflect]
  rw [hrefl] at hsplit
  linarith

theorem normal_pdf_eq_scaled (t μ : ℝ) {σ : ℝ} (hσ : 0 < σ) :
    Normal.pdf t μ σ = (1 / (σ * √2 * √Real.pi)) * Real.exp (-((t - μ) / (σ * √2)) ^ 2) := by
  unfold Normal.pdf
  simp only [sqrt, tau, exp, pow2]
  have h2 : √(2 * Real.pi) = √2 * √Real.pi := Real.sqrt_mul (by norm_num) _
  have hs : (√2) ^ 2 = 2 := Real.sq_sqrt (by norm_num)
  have h2p : 0 < √2 := Real.sqrt_pos.mpr (by norm_num)
  rw [h2]
  congr 2
  · ring
  · rw [div_pow, div_pow, mul_pow, hs]
    field_simp
    ring

theorem normal_pdf_intervalIntegral (x μ : ℝ) {σ : ℝ} (hσ : 0 < σ) :
    ∫ t in μ..x, Normal.pdf t μ σ
      = (1 / √Real.pi) * ∫ u in (0 : ℝ)..(x - μ) / (σ * √2), Real.exp (-u ^ 2) := by
  have h2p : 0 < √2 := Real.sqrt_pos.mpr (by norm_num)
  have hpi : 0 < √Real.pi := Real.sqrt_pos.mpr Real.pi_pos
  have hc : σ * √2 ≠ 0 := by positivity
  simp_rw [normal_pdf_eq_scaled _ μ hσ]
  rw [intervalIntegral.integral_const_mul,
    intervalIntegral.integral_comp_sub_right (fun t => Real.exp (-(t / (σ * √2)) ^ 2)) μ,
    intervalIntegral.integral_comp_div (fun t => Real.exp (-t ^ 2)) hc]
  simp only [sub_self, zero_div, smul_eq_mul]
  rw [← mul_assoc]
  congr 1
  field_simp

/-! ## Poisson: the upper incomplete gamma integral at natural exponent -/

/-- `Q n t = n! · Σ_{j ≤ n} t^j / j!` by its recursion -/
noncomputable def gammaQ : ℕ → ℝ → ℝ
  | 0, _ => 1
  | n + 1, t => t ^ (n + 1) + (n + 1 : ℝ) * gammaQ n t

theorem gammaQ_hasDerivAt (n : ℕ) (t : ℝ) :
    HasDerivAt (gammaQ n) (gammaQ n t - t ^ n) t := by
  induction n with
  | zero =>
    have : gammaQ 0 = fun _ => (1 : ℝ) := by funext t; rfl
    rw [this]
    simpa using hasDerivAt_const t (1 : ℝ)
  | succ n ih =>
    have : gammaQ (n + 1) = fun t => t ^ (n + 1) + (n + 1 : ℝ) * gammaQ n t := by funext t; rfl
    rw [this]
    have h := (hasDerivAt_pow (n + 1) t).add (ih.const_mul (n + 1 : ℝ))
    refine h.congr_deriv ?_
    simp only [Nat.add_sub_cancel, Nat.cast_add, Nat.cast_one]
    ring

theorem gammaQ_antideriv (n : ℕ) (t : ℝ) :
    HasDerivAt (fun t => -(Real.exp (-t) * gammaQ n t)) (t ^ n * Real.exp (-t)) t := by
  have h1 : HasDerivAt (fun t : ℝ => Real.exp (-t)) (-Real.exp (-t)) t := by
    have := (hasDerivAt_neg t).exp
    convert this using 1
    ring
  have h := (h1.mul (gammaQ_hasDerivAt n t)).neg
  refine h.congr_deriv ?_
  ring

theorem gammaQ_tendsto (n : ℕ) :
    Tendsto (fun t => -(Real.exp (-t) * gammaQ n t)) atTop (𝓝 0) := by
  have key : Tendsto (fun t => Real.exp (-t) * gammaQ n t) atTop (𝓝 0) := by
    induction n with
    | zero =>
      have := Real.tendsto_pow_mul_exp_neg_atTop_nhds_zero 0
      simpa [gammaQ] using this
    | succ n ih =>
      have h := (Real.tendsto_pow_mul_exp_neg_atTop_nhds_zero (n + 1)).add (ih.const_mul (n + 1 : ℝ))
      simp only [mul_zero, add_zero] at h
      refine h.congr (fun t => ?_)
      simp only [gammaQ]
      ring
  simpa using key.neg

theorem gammaQ_nonneg (n : ℕ) {t : ℝ} (ht : 0 ≤ t) : 0 ≤ gammaQ n t := by
  induction n with
  | zero => simp [gammaQ]
  | succ n ih => simp only [gammaQ]; positivity

/-- upper incomplete gamma integral at natural exponent -/
theorem integral_pow_mul_exp_neg_Ioi (n : ℕ) {r : ℝ} (hr : 0 ≤ r) :
    ∫ t in Ioi r, t ^ n * Real.exp (-t) = Real.exp (-r) * gammaQ n r := by
  have := integral_Ioi_of_hasDerivAt_of_nonneg' (a := r)
    (g := fun t => -(Real.exp (-t) * gammaQ n t)) (g' := fun t => t ^ n * Real.exp (-t))
    (fun t _ => gammaQ_antideriv n t)
    (fun t ht => by
      have : 0 ≤ t := hr.trans (le_of_lt ht)
      positivity)
    (gammaQ_tendsto n)
  rw [this]; ring

theorem integrableOn_pow_mul_exp_neg_Ioi (n : ℕ) {r : ℝ} (hr : 0 ≤ r) :
    IntegrableOn (fun t => t ^ n * Real.exp (-t)) (Ioi r) :=
  integrableOn_Ioi_deriv_of_nonneg' (a := r)
    (g := fun t => -(Real.exp (-t) * gammaQ n t)) (g' := fun t => t ^ n * Real.exp (-t))
    (fun t _ => gammaQ_antideriv n t)
    (fun t ht => by
      have : 0 ≤ t := hr.trans (le_of_lt ht)
      positivity)
    (gammaQ_tendsto n)

theorem gammaQ_div_factorial (k : ℕ) (r : ℝ) :
    gammaQ k r / (k ! : ℝ) = ∑ j ∈ Finset.range (k + 1), r ^ j / (j ! : ℝ) := by
  induction k with
  | zero => simp [gammaQ]
  | succ k ih =>
    rw [Finset.sum_range_succ, ← ih]
    simp only [gammaQ, Nat.factorial_succ]
    push_cast
    have hk : (0 : ℝ) < (k ! : ℝ) := by positivity
    field_simp
    ring

/-- regularised upper incomplete gamma function at a natural first argument -/
theorem gammaincc_nat (k : ℕ) {r : ℝ} (hr : 0 ≤ r) :
    realSpecial.gammaincc ((k : ℝ) + 1) r
      = Real.exp (-r) * ∑ j ∈ Finset.range (k + 1), r ^ j / (j ! : ℝ) := by
  simp only [realSpecial]
  rw [Real.Gamma_nat_eq_factorial, add_sub_cancel_right]
  simp_rw [Real.rpow_natCast]
  rw [integral_pow_mul_exp_neg_Ioi k hr, mul_div_assoc, gammaQ_div_factorial]

theorem floor_nat_add_one (k : ℕ) : floor ((k : ℝ) + 1) = (k : ℝ) + 1 := by
  simp only [floor]
  rw [Int.floor_add_one, Int.floor_natCast]
  push_cast; rfl

/-! ## LogNormal: substitution `x = eᵘ` -/

/-- substitution `x = eᵘ` over an arbitrary measurable set -/
theorem integral_image_exp {s : Set ℝ} (hs : MeasurableSet s) (g : ℝ → ℝ) :
    ∫ x in Real.exp '' s, g x = ∫ u in s, Real.exp u * g (Real.exp u) := by
  simpa [abs_of_pos (Real.exp_pos _)] using integral_image_eq_integral_abs_deriv_smul
    hs (fun x _ => (Real.hasDerivAt_exp x).hasDerivWithinAt)
    (fun x _ y _ hxy => Real.exp_injective hxy) g

theorem integrableOn_image_exp {s : Set ℝ} (hs : MeasurableSet s) (g : ℝ → ℝ) :
    IntegrableOn g (Real.exp '' s) ↔ IntegrableOn (fun u => Real.exp u * g (Real.exp u)) s := by
  simpa [abs_of_pos (Real.exp_pos _)] using integrableOn_image_iff_integrableOn_abs_deriv_smul
    hs (fun x _ => (Real.hasDerivAt_exp x).hasDerivWithinAt)
    (fun x _ y _ hxy => Real.exp_injective hxy) g

/-- the log-normal density at `eᵘ`, times the Jacobian `eᵘ`, is the normal density at `u` -/
theorem lognormal_pdf_exp (u μ : ℝ) {σ : ℝ} (hσ : 0 < σ) :
    Real.exp u * LogNormal.pdf (Real.exp u) μ σ = Normal.pdf u μ σ := by
  unfold LogNormal.pdf LogNormal.logpdf Normal.pdf
  simp only [tau, exp, pow2, log, sqrt, Real.log_exp]
  have hτ : (0 : ℝ) < 2 * Real.pi := by positivity
  have h2 : -Real.log σ - u - 0.5 * (Real.log (2 * Real.pi) + ((μ - u) / σ) ^ 2)
      = -Real.log σ + (-u + (-(0.5 * Real.log (2 * Real.pi))
          + -0.5 * ((u - μ) / σ) ^ 2)) := by
    ring
  rw [h2, Real.exp_add, Real.exp_add, Real.exp_add, Real.exp_neg, Real.exp_neg, Real.exp_log hσ,
    exp_neg_half_log hτ]
  have := Real.exp_pos u
  have hs : 0 < √(2 * Real.pi) := Real.sqrt_pos.mpr hτ
  field_simp


/-- Gaussian moment generating function in density form -/
theorem gauss_mgf_density (t μ : ℝ) {σ : ℝ} (hσ : 0 < σ) :
    Integrable (fun u => Real.exp (t * u) * Normal.pdf u μ σ) ∧
    ∫ u, Real.exp (t * u) * Normal.pdf u μ σ = Real.exp (μ * t + σ ^ 2 * t ^ 2 / 2) := by
  simp_rw [normal_pdf_eq_gauss _ μ hσ]
  refine ⟨integrable_mul_gaussianPDFReal_of_gaussianReal (varNN_ne_zero hσ)
    (integrable_exp_mul_gaussianReal t), ?_⟩
  have h := congrFun (mgf_fun_id_gaussianReal (μ := μ) (v := varNN σ)) t
  simp only [mgf, coe_varNN] at h
  rw [integral_gaussianReal_eq_integral_smul (varNN_ne_zero hσ)] at h
  rw [← h]
  congr 1; funext u; simp only [smul_eq_mul]; ring

theorem image_exp_univ : Real.exp '' (univ : Set ℝ) = Ioi 0 := by
  rw [Set.image_univ, Real.range_exp]

/-- raw moments of the log-normal density -/
theorem lognormal_moment (n : ℕ) (μ : ℝ) {σ : ℝ} (hσ : 0 < σ) :
    IntegrableOn (fun x => x ^ n * LogNormal.pdf x μ σ) (Ioi 0) ∧
    ∫ x in Ioi 0, x ^ n * LogNormal.pdf x μ σ = Real.exp (μ * n + σ ^ 2 * (n : ℝ) ^ 2 / 2) := by
  have key : ∀ u : ℝ, Real.exp u * (Real.exp u ^ n * LogNormal.pdf (Real.exp u) μ σ)
      = Real.exp ((n : ℝ) * u) * Normal.pdf u μ σ := by
    intro u
    rw [← lognormal_pdf_exp u μ hσ, Real.exp_nat_mul]
    ring
  obtain ⟨hi, he⟩ := gauss_mgf_density (n : ℝ) μ hσ
  rw [← image_exp_univ]
  constructor
  · rw [integrableOn_image_exp MeasurableSet.univ]
    simp_rw [key]
    exact hi.integrableOn
  · rw [integral_image_exp MeasurableSet.univ]
    simp_rw [key]
    rw [Measure.restrict_univ, he]

end InfernoVerif.Dist.R
