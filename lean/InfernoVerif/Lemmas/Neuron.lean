import InfernoVerif.Gen.NeuronDynamicsR
import InfernoVerif.Gen.NeuronAdaptationR
import Mathlib.Tactic.Linarith
import Mathlib.Tactic.SplitIfs
import Mathlib.Tactic.Ring
import Mathlib.Tactic.NormNum
import Mathlib.Tactic.Tauto
import Mathlib.Algebra.Order.Floor.Semiring
/-!
Thresholding step with an arbitrary post-spike reset map `ρ`, of which the two GENERATED
functions `voltage_thresholding_constant` and `voltage_thresholding_linear` are shown to be
instances (`gen_constant_eq`, `gen_linear_eq` — proved by `rfl` when the generated text has the
same shape and by case analysis otherwise, so semantics-preserving rewrites of the Python source
(e.g. `torch.where(spikes, refrac_t, refracs)`) keep checking while semantic changes break them).
All contract lemmas are proved once, about `thresholdG`.
-/
namespace InfernoVerif.Neuron
open InfernoVerif.Gen.NeuronDynamicsR
open Classical

noncomputable def thresholdG (ρ : ℝ → ℝ) (inputs refracs : ℝ) (dynamics : ℝ → ℝ) (voltages : Option ℝ)
    (step_time thresh_v refrac_t : ℝ) : Prop × ℝ × ℝ :=
  let refracs := max (refracs - step_time) 0
  let mask : Prop := refracs = 0
  let voltages :=
    match voltages with
    | some voltages => if ¬ mask then voltages else dynamics (if mask then inputs else 0)
    | none => dynamics (if mask then inputs else 0)
  let spikes : Prop := mask ∧ voltages ≥ thresh_v
  let refracs := if ¬ spikes then refracs else refrac_t
  let voltages := if ¬ spikes then voltages else ρ voltages
  (spikes, voltages, refracs)

theorem gen_constant_eq (inputs refracs : ℝ) (dynamics : ℝ → ℝ) (voltages : Option ℝ)
    (step_time reset_v thresh_v refrac_t : ℝ) :
    voltage_thresholding_constant inputs refracs dynamics voltages step_time reset_v thresh_v refrac_t
      = thresholdG (fun _ => reset_v) inputs refracs dynamics voltages step_time thresh_v refrac_t := by
  unfold voltage_thresholding_constant thresholdG
  cases voltages <;>
    first
    | rfl
    | (simp only [Prod.mk.injEq]
       refine ⟨?_, ?_, ?_⟩ <;> first | trivial | rfl | (split_ifs <;> first | rfl | (exfalso; tauto) | simp_all))

theorem gen_linear_eq (inputs refracs : ℝ) (dynamics : ℝ → ℝ) (voltages : Option ℝ)
    (step_time rest_v v_slope v_intercept thresh_v refrac_t : ℝ) :
    voltage_thresholding_linear inputs refracs dynamics voltages step_time rest_v v_slope v_intercept thresh_v refrac_t
      = thresholdG (fun v => rest_v + v_slope * (v - rest_v) - v_intercept) inputs refracs dynamics voltages
          step_time thresh_v refrac_t := by
  unfold voltage_thresholding_linear thresholdG
  cases voltages <;>
    first
    | rfl
    | (simp only [Prod.mk.injEq]
       refine ⟨?_, ?_, ?_⟩ <;> first | trivial | rfl | (split_ifs <;> first | rfl | (exfalso; tauto) | simp_all))


/-- One step of a neuron with voltage `v`, remaining refractory time `r`, voltage dynamics `dyn v`
(any function of the current voltage and the masked input), threshold `θ`, reset map `ρ`. -/
noncomputable def stepG (ρ : ℝ → ℝ) (dt rt : ℝ) (dyn : ℝ → ℝ → ℝ) (lock : Bool) (θ : ℝ) (v r I : ℝ) : Prop × ℝ × ℝ :=
  thresholdG ρ I r (dyn v) (if lock then some v else none) dt θ rt

theorem stepG_spike_iff (ρ : ℝ → ℝ) (dt rt : ℝ) (dyn : ℝ → ℝ → ℝ) (lock : Bool) (θ v r I : ℝ) :
    (stepG ρ dt rt dyn lock θ v r I).1 ↔ (max (r - dt) 0 = 0 ∧ dyn v I ≥ θ) := by
  unfold stepG thresholdG
  cases lock <;> simp only [if_true, if_false, Bool.false_eq_true] <;>
  by_cases hm : max (r - dt) 0 = 0 <;> simp [hm]

/-- A spike resets voltage and refractory time in the same step. -/
theorem stepG_spike_resets (ρ : ℝ → ℝ) (dt rt : ℝ) (dyn : ℝ → ℝ → ℝ) (lock : Bool) (θ v r I : ℝ)
    (h : (stepG ρ dt rt dyn lock θ v r I).1) :
    (stepG ρ dt rt dyn lock θ v r I).2.1 = ρ (dyn v I) ∧ (stepG ρ dt rt dyn lock θ v r I).2.2 = rt := by
  unfold stepG thresholdG at *
  cases lock <;> simp only [if_true, if_false, Bool.false_eq_true] at * <;>
  by_cases hm : max (r - dt) 0 = 0 <;> simp_all

/-- No spike: the refractory time just counts down (clamped at 0). -/
theorem stepG_nospike_refrac (ρ : ℝ → ℝ) (dt rt : ℝ) (dyn : ℝ → ℝ → ℝ) (lock : Bool) (θ v r I : ℝ)
    (h : ¬ (stepG ρ dt rt dyn lock θ v r I).1) :
    (stepG ρ dt rt dyn lock θ v r I).2.2 = max (r - dt) 0 := by
  unfold stepG thresholdG at *
  cases lock <;> simp only [if_true, if_false, Bool.false_eq_true] at * <;>
  by_cases hm : max (r - dt) 0 = 0 <;> simp_all

/-- While refractory (after the decrement) no spike is emitted, whatever the input. -/
theorem stepG_refractory_silent (ρ : ℝ → ℝ) (dt rt : ℝ) (dyn : ℝ → ℝ → ℝ) (lock : Bool) (θ v r I : ℝ)
    (h : 0 < r - dt) : ¬ (stepG ρ dt rt dyn lock θ v r I).1 := by
  rw [stepG_spike_iff]
  intro ⟨h1, _⟩
  have : max (r - dt) 0 = r - dt := max_eq_left (le_of_lt h)
  linarith

/-- With voltage locking, the voltage is frozen while refractory. -/
theorem stepG_locked_voltage_frozen (ρ : ℝ → ℝ) (dt rt : ℝ) (dyn : ℝ → ℝ → ℝ) (θ v r I : ℝ)
    (h : 0 < r - dt) : (stepG ρ dt rt dyn true θ v r I).2.1 = v := by
  have hm : ¬ (max (r - dt) 0 = 0) := by
    have : max (r - dt) 0 = r - dt := max_eq_left (le_of_lt h)
    intro e; linarith
  unfold stepG thresholdG
  simp [hm]

/-- Without locking, a refractory neuron's voltage evolves by the dynamics with ZERO input. -/
theorem stepG_unlocked_voltage (ρ : ℝ → ℝ) (dt rt : ℝ) (dyn : ℝ → ℝ → ℝ) (θ v r I : ℝ)
    (h : 0 < r - dt) : (stepG ρ dt rt dyn false θ v r I).2.1 = dyn v 0 := by
  have hm : ¬ (max (r - dt) 0 = 0) := by
    have : max (r - dt) 0 = r - dt := max_eq_left (le_of_lt h)
    intro e; linarith
  unfold stepG thresholdG
  simp [hm]

/-- Invariant: `0 ≤ r ≤ refrac_t` is preserved by every step. -/
theorem stepG_refrac_inv (ρ : ℝ → ℝ) (dt rt : ℝ) (dyn : ℝ → ℝ → ℝ) (lock : Bool) (θ v r I : ℝ)
    (hdt : 0 < dt) (hrt : 0 ≤ rt) (h0 : 0 ≤ r) (h1 : r ≤ rt) :
    0 ≤ (stepG ρ dt rt dyn lock θ v r I).2.2 ∧ (stepG ρ dt rt dyn lock θ v r I).2.2 ≤ rt := by
  by_cases hs : (stepG ρ dt rt dyn lock θ v r I).1
  · rw [(stepG_spike_resets ρ dt rt dyn lock θ v r I hs).2]; exact ⟨hrt, le_refl _⟩
  · rw [stepG_nospike_refrac ρ dt rt dyn lock θ v r I hs]
    exact ⟨le_max_right _ _, max_le (by linarith) hrt⟩

/-- The spike attribute (derived as `refrac == refrac_t`) equals the step's output — PARTIAL:
needs `refrac_t > 0` (see `spike_attr_refrac0_counterexample`, known finding D4). -/
theorem stepG_spike_attr_partial (ρ : ℝ → ℝ) (dt rt : ℝ) (dyn : ℝ → ℝ → ℝ) (lock : Bool) (θ v r I : ℝ)
    (hdt : 0 < dt) (hrt : 0 < rt) (h1 : r ≤ rt) :
    ((stepG ρ dt rt dyn lock θ v r I).2.2 = rt) ↔ (stepG ρ dt rt dyn lock θ v r I).1 := by
  constructor
  · intro h
    by_contra hs
    rw [stepG_nospike_refrac ρ dt rt dyn lock θ v r I hs] at h
    have : max (r - dt) 0 < rt := max_lt (by linarith) hrt
    linarith
  · intro hs; exact (stepG_spike_resets ρ dt rt dyn lock θ v r I hs).2

/-- Negation witness for the full statement (D4): with `refrac_t = 0` the derived spike
attribute is true after a step that did not spike. -/
theorem spike_attr_refrac0_counterexample :
    ∃ (ρ : ℝ → ℝ) (dt θ v r I : ℝ) (dyn : ℝ → ℝ → ℝ), 0 < dt ∧
      (stepG ρ dt 0 dyn true θ v r I).2.2 = 0 ∧ ¬ (stepG ρ dt 0 dyn true θ v r I).1 := by
  have hs : ¬ (stepG (fun _ => (0:ℝ)) 1 0 (fun v _ => v) true 1 0 0 0).1 := by
    rw [stepG_spike_iff]; norm_num
  refine ⟨fun _ => 0, 1, 1, 0, 0, 0, fun v _ => v, by norm_num, ?_, hs⟩
  rw [stepG_nospike_refrac _ _ _ _ _ _ _ _ _ hs]; norm_num

end InfernoVerif.Neuron
