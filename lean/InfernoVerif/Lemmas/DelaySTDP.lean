import InfernoVerif.Model.DelaySTDP
import InfernoVerif.Lemmas.STDP
import Mathlib.Tactic.Positivity
/-!
# Helper lemmas for C18: event times, `nansum`, the branch terms and the clamp split of the shipped kernels
-/
namespace InfernoVerif.DSTDP.R
open InfernoVerif.STDP.R

/-! ## event times -/

/-- **EventReducer closed form**: the fold holds the true time since the most recent event,
`(t - t_last)·dt`, and `NaN` (`none`) before the first event. -/
theorem sinceLast_eq (dt : ℝ) (s : ℕ → Bool) (t : ℕ) :
    sinceLast dt s t = (lastSpike s t).map fun u => ((t - u : ℕ) : ℝ) * dt := by
  induction t with
  | zero =>
    simp only [sinceLast, lastSpike]
    by_cases h : s 0 = true <;> simp [h]
  | succ t ih =>
    simp only [sinceLast, lastSpike]
    by_cases h : s (t + 1) = true
    · simp [h]
    · simp only [h, if_false, ih, Bool.false_eq_true]
      cases hl : lastSpike s t with
      | none => simp
      | some u =>
        have hu := lastSpike_le s t u hl
        simp only [Option.map_some]
        congr 1
        have : t + 1 - u = (t - u) + 1 := by omega
        rw [this]; push_cast; ring

theorem tDelta_eq (dt : ℝ) (s : Syn) (d : ℝ) (t : ℕ) : tDelta dt s d t = specTDelta dt s d t := by
  unfold tDelta specTDelta
  rw [sinceLast_eq, sinceLast_eq]
  cases ha : lastSpike s.pre t with
  | none => simp
  | some a =>
    cases hb : lastSpike s.post t with
    | none => simp
    | some b =>
      have h1 := lastSpike_le s.pre t a ha
      have h2 := lastSpike_le s.post t b hb
      simp only [Option.map_some, ofNat]
      congr 1
      rw [Nat.cast_sub h1, Nat.cast_sub h2]; ring

theorem tDeltaU_eq (dt : ℝ) (s : Syn) (t : ℕ) : tDeltaU dt s t = tDelta dt s 0 t := by
  unfold tDeltaU tDelta
  cases sinceLast dt s.pre t <;> cases sinceLast dt s.post t <;> simp

/-! ## nansum -/

/-- value of an optional term with `NaN ↦ 0` -/
def orZero (o : Option ℝ) : ℝ := match o with | some x => x | none => 0

theorem orZero_none : orZero none = 0 := rfl
theorem orZero_some (x : ℝ) : orZero (some x) = x := rfl

theorem nansum_eq {α : Type} (f : List α) (h : α → Option ℝ) :
    nansum (f.map h) = (f.map fun s => orZero (h s)).sum := by
  unfold nansum
  rw [lsum_eq_sum]
  induction f with
  | nil => simp
  | cons a f ih =>
    simp only [List.map_cons, List.filterMap_cons, List.sum_cons]
    rw [show id (h a) = h a from rfl]
    cases ha : h a with
    | none => simp only [orZero_none, zero_add]; exact ih
    | some x => simp only [orZero_some, List.sum_cons]; rw [ih]

/-- generic partial update: `reduce_b Σ_r [term or 0]` -/
theorem reduce_nansum (r : Red) (bt : List (List Syn)) (td : Syn → Option ℝ) (g : ℝ → ℝ) :
    reduce r (bt.map fun f => nansum (f.map fun s => (td s).map g)) =
      reduce r (bt.map fun f => (f.map fun s => orZero ((td s).map g)).sum) := by
  congr 1; apply List.map_congr_left; intro f _; exact nansum_eq f _

theorem sum_map_zero {α : Type} (l : List α) : (l.map fun _ => (0 : ℝ)).sum = 0 := by
  induction l <;> simp_all

theorem sum_map_neg {α : Type} (l : List α) (F : α → ℝ) : (l.map fun s => -F s).sum = -(l.map F).sum := by
  induction l with
  | nil => simp
  | cons a l ih => simp only [List.map_cons, List.sum_cons, ih]; ring

theorem reduce_zero (r : Red) (bt : List (List Syn)) : reduce r (bt.map fun _ => (0 : ℝ)) = 0 := by
  cases r <;> simp [reduce, lsum_eq_sum]

theorem reduce_neg {α : Type} (r : Red) (l : List α) (F : α → ℝ) :
    reduce r (l.map fun x => -F x) = -reduce r (l.map F) := by
  cases r <;> simp [reduce, lsum_eq_sum, sum_map_neg, ofNat, neg_div]

/-- the partial update as a functional of the per-element term -/
noncomputable def P (r : Red) (bt : List (List Syn)) (td : Syn → Option ℝ) (g : ℝ → ℝ) : ℝ :=
  reduce r (bt.map fun f => nansum (f.map fun s => (td s).map g))

theorem orZero_map_zero (o : Option ℝ) : orZero (o.map fun _ => (0 : ℝ)) = 0 := by cases o <;> rfl
theorem orZero_map_neg (o : Option ℝ) (g : ℝ → ℝ) : orZero (o.map fun x => -g x) = -orZero (o.map g) := by
  cases o <;> simp [orZero]

theorem P_zero (r : Red) (bt : List (List Syn)) (td : Syn → Option ℝ) : P r bt td (fun _ => 0) = 0 := by
  unfold P
  rw [reduce_nansum]
  simp only [orZero_map_zero, sum_map_zero]
  exact reduce_zero r bt

theorem P_neg (r : Red) (bt : List (List Syn)) (td : Syn → Option ℝ) (g : ℝ → ℝ) :
    P r bt td (fun x => -g x) = -P r bt td g := by
  unfold P
  rw [reduce_nansum, reduce_nansum]
  simp only [orZero_map_neg, sum_map_neg]
  exact reduce_neg r bt _

theorem P_congr (r : Red) (bt : List (List Syn)) (td : Syn → Option ℝ) (g h : ℝ → ℝ) (e : ∀ x, g x = h x) :
    P r bt td g = P r bt td h := by
  have : g = h := funext e
  rw [this]

/-! ## the branch terms and the generated kernels -/

theorem exp_div_neg (x tau : ℝ) : Real.exp (|x| / (-tau)) = Real.exp (-|x| / tau) := by
  rw [div_neg, neg_div]

theorem causal_term (lr tau x : ℝ) :
    Real.exp (|x| / (-tau)) * (|lr| * (if x ≥ 0 then 1 else 0)) = specCausal lr tau (some x) := by
  unfold specCausal
  simp only [exp, absT]
  by_cases h : x ≥ 0 <;> simp [h, exp_div_neg]; ring

theorem anti_term (lr tau x : ℝ) :
    Real.exp (|x| / (-tau)) * (|lr| * (if x < 0 then 1 else 0)) = specAnti lr tau (some x) := by
  unfold specAnti
  simp only [exp, absT]
  by_cases h : x < 0 <;> simp [h, exp_div_neg]; ring

/-- the shipped post kernel is the signed causal term -/
theorem post_kernel_eq (x lr tau : ℝ) :
    Gen.StdKernelsR.exp_stdp_post_kernel x lr tau = if x ≥ 0 then lr * Real.exp (-|x| / tau) else 0 := by
  unfold Gen.StdKernelsR.exp_stdp_post_kernel
  by_cases h : x ≥ 0 <;> simp [h, exp_div_neg]; ring

/-- the shipped pre kernel is the signed anti-causal term -/
theorem pre_kernel_eq (x lr tau : ℝ) :
    Gen.StdKernelsR.exp_stdp_pre_kernel x lr tau = if x < 0 then lr * Real.exp (-|x| / tau) else 0 := by
  unfold Gen.StdKernelsR.exp_stdp_pre_kernel
  by_cases h : x < 0 <;> simp [h, exp_div_neg]; ring


/-! ## model partial updates = documented partial updates -/

theorem field_spec (dt : ℝ) (g : ℝ → ℝ) (G : Option ℝ → ℝ) (hG0 : G none = 0) (hG : ∀ x, g x = G (some x))
    (d : ℝ) (f : List Syn) (t : ℕ) :
    nansum (f.map fun s => (tDelta dt s d t).map g) = lsum (f.map fun s => G (specTDelta dt s d t)) := by
  rw [nansum_eq, lsum_eq_sum]
  congr 1
  apply List.map_congr_left
  intro s _
  rw [tDelta_eq]
  cases specTDelta dt s d t with
  | none => simp [orZero, hG0]
  | some x => simp [orZero, hG]

theorem partial_spec (dt : ℝ) (r : Red) (g : ℝ → ℝ) (G : Option ℝ → ℝ) (hG0 : G none = 0)
    (hG : ∀ x, g x = G (some x)) (d : ℝ) (bt : List (List Syn)) (t : ℕ) :
    partial_ dt r g d bt t = specPartial dt r G d bt t := by
  unfold partial_ specPartial
  congr 1; apply List.map_congr_left; intro f _; exact field_spec dt g G hG0 hG d f t

theorem partialB_spec (dt : ℝ) (g : ℝ → ℝ) (G : Option ℝ → ℝ) (hG0 : G none = 0)
    (hG : ∀ x, g x = G (some x)) (d : ℝ) (bt : List (List Syn)) (t : ℕ) :
    partialB dt g d bt t = specPartialB dt G d bt t := by
  unfold partialB specPartialB
  apply List.map_congr_left; intro f _; exact field_spec dt g G hG0 hG d f t

theorem daPos_spec (c : DCfg) (x : ℝ) : daPosTerm c x = specCausal c.lrPos c.tcPos (some x) := causal_term _ _ _
theorem daNeg_spec (c : DCfg) (x : ℝ) : daNegTerm c x = specAnti c.lrNeg c.tcNeg (some x) := anti_term _ _ _
theorem dadNeg_spec (c : DCfg) (x : ℝ) : dadNegTerm c x = specCausal c.lrNeg c.tcNeg (some x) := causal_term _ _ _
theorem dadPos_spec (c : DCfg) (x : ℝ) : dadPosTerm c x = specAnti c.lrPos c.tcPos (some x) := anti_term _ _ _

/-- the delay trainers' table is the weight trainers' table with the tests negated -/
theorem routeD_eq (a b : Bool) (x y : ℝ) : routeD a b x y = route (!a) (!b) x y := by
  cases a <;> cases b <;> simp [routeD, route, add_comm]

theorem routeTD_eq (a b : Bool) (p1 p2 q1 q2 : List ℝ) : routeTD a b p1 p2 q1 q2 = routeT (!a) (!b) p1 p2 q1 q2 := by
  cases a <;> cases b <;> rfl

theorem decide_lt_not (x : ℝ) : (!decide (x < 0)) = decide (x ≥ 0) := by
  by_cases h : x < 0
  · have : ¬ x ≥ 0 := not_le.mpr h
    simp [h, this]
  · have : x ≥ 0 := not_lt.mp h
    simp [h, this]

/-! ## clamp split of the shipped kernels -/

theorem clamp_post (lr tau x : ℝ) :
    clampMin0 (Gen.StdKernelsR.exp_stdp_post_kernel x lr tau) =
      (if lr ≥ 0 then Real.exp (|x| / (-tau)) * (|lr| * (if x ≥ 0 then 1 else 0)) else 0) ∧
    clampMax0 (Gen.StdKernelsR.exp_stdp_post_kernel x lr tau) =
      (if lr ≥ 0 then 0 else -(Real.exp (|x| / (-tau)) * (|lr| * (if x ≥ 0 then 1 else 0)))) := by
  unfold clampMin0 clampMax0 Gen.StdKernelsR.exp_stdp_post_kernel
  have he : 0 < Real.exp (|x| / (-tau)) := Real.exp_pos _
  by_cases hl : lr ≥ 0
  · have h1 : 0 ≤ Real.exp (|x| / (-tau)) * (lr * (if x ≥ 0 then 1 else 0)) := by
      by_cases hx : x ≥ 0 <;> simp [hx] <;> positivity
    simp only [hl, if_true, abs_of_nonneg hl]
    constructor
    · rw [if_neg (not_lt.mpr h1)]
    · by_cases h0 : 0 < Real.exp (|x| / (-tau)) * (lr * (if x ≥ 0 then 1 else 0))
      · rw [if_pos h0]
      · rw [if_neg h0]; linarith
  · have hl' : lr < 0 := lt_of_not_ge hl
    have h1 : Real.exp (|x| / (-tau)) * (lr * (if x ≥ 0 then 1 else 0)) ≤ 0 := by
      by_cases hx : x ≥ 0
      · simp only [hx, if_true, mul_one]; exact mul_nonpos_of_nonneg_of_nonpos he.le hl'.le
      · simp [hx]
    simp only [hl, if_false, abs_of_neg hl']
    constructor
    · by_cases h0 : Real.exp (|x| / (-tau)) * (lr * (if x ≥ 0 then 1 else 0)) < 0
      · rw [if_pos h0]
      · rw [if_neg h0]; linarith
    · rw [if_neg (not_lt.mpr h1)]; ring

theorem clamp_pre (lr tau x : ℝ) :
    clampMin0 (Gen.StdKernelsR.exp_stdp_pre_kernel x lr tau) =
      (if lr ≥ 0 then Real.exp (|x| / (-tau)) * (|lr| * (if x < 0 then 1 else 0)) else 0) ∧
    clampMax0 (Gen.StdKernelsR.exp_stdp_pre_kernel x lr tau) =
      (if lr ≥ 0 then 0 else -(Real.exp (|x| / (-tau)) * (|lr| * (if x < 0 then 1 else 0)))) := by
  unfold clampMin0 clampMax0 Gen.StdKernelsR.exp_stdp_pre_kernel
  have he : 0 < Real.exp (|x| / (-tau)) := Real.exp_pos _
  by_cases hl : lr ≥ 0
  · have h1 : 0 ≤ Real.exp (|x| / (-tau)) * (lr * (if x < 0 then 1 else 0)) := by
      by_cases hx : x < 0 <;> simp [hx] <;> positivity
    simp only [hl, if_true, abs_of_nonneg hl]
    constructor
    · rw [if_neg (not_lt.mpr h1)]
    · by_cases h0 : 0 < Real.exp (|x| / (-tau)) * (lr * (if x < 0 then 1 else 0))
      · rw [if_pos h0]
      · rw [if_neg h0]; linarith
  · have hl' : lr < 0 := lt_of_not_ge hl
    have h1 : Real.exp (|x| / (-tau)) * (lr * (if x < 0 then 1 else 0)) ≤ 0 := by
      by_cases hx : x < 0
      · simp only [hx, if_true, mul_one]; exact mul_nonpos_of_nonneg_of_nonpos he.le hl'.le
      · simp [hx]
    simp only [hl, if_false, abs_of_neg hl']
    constructor
    · by_cases h0 : Real.exp (|x| / (-tau)) * (lr * (if x < 0 then 1 else 0)) < 0
      · rw [if_pos h0]
      · rw [if_neg h0]; linarith
    · rw [if_neg (not_lt.mpr h1)]; ring

/-- `P` of a term switched on or off by a constant condition -/
theorem P_ite (r : Red) (bt : List (List Syn)) (td : Syn → Option ℝ) (a : Prop) [Decidable a] (g : ℝ → ℝ) :
    P r bt td (fun x => if a then g x else 0) = if a then P r bt td g else 0 := by
  by_cases h : a <;> simp only [h, if_true, if_false]
  exact P_zero r bt td

theorem P_ite_neg (r : Red) (bt : List (List Syn)) (td : Syn → Option ℝ) (a : Prop) [Decidable a] (g : ℝ → ℝ) :
    P r bt td (fun x => if a then 0 else -g x) = if a then 0 else -P r bt td g := by
  by_cases h : a <;> simp only [h, if_true, if_false]
  · exact P_zero r bt td
  · exact P_neg r bt td g

end InfernoVerif.DSTDP.R
