import InfernoVerif.Model.Config
/-! Helper lemmas for C14 (core Lean only). -/
namespace InfernoVerif.Config
open InfernoVerif.Ring (Err)
open InfernoVerif.Record (TimeOps recSize)
variable {τ : Type}

theorem make_setDt (T : TimeOps τ) (dt dur v : τ) (incl : Bool) :
    (RecCfg.make T dt dur incl).setDt T v = RecCfg.make T v dur incl := rfl
theorem make_setDur (T : TimeOps τ) (dt dur v : τ) (incl : Bool) :
    (RecCfg.make T dt dur incl).setDur T v = RecCfg.make T dt v incl := rfl
theorem make_setIncl (T : TimeOps τ) (dt dur : τ) (incl b : Bool) :
    (RecCfg.make T dt dur incl).setIncl T b = RecCfg.make T dt dur b := rfl

theorem repeat_succ {α : Type} (f : α → α) (n : Nat) (a : α) :
    Nat.repeat f (n + 1) a = f (Nat.repeat f n a) := rfl

/-- what the synapse constructor builds: `k` identical records, `k` batch dims -/
theorem synapse_construct_eq (T : TimeOps τ) (c : SynCfg τ) :
    Synapse.construct T c =
      { delayed := ⟨c.dt, c.delay, List.replicate c.k (RecCfg.make T c.dt c.delay true)⟩,
        batched := ⟨c.batch, List.replicate c.k c.batch⟩, inplace := c.inplace, dtype := c.dtype } := by
  unfold Synapse.construct
  induction c.k with
  | zero => rfl
  | succ k ih =>
    rw [repeat_succ, ih]
    simp only [Synapse.addRecord, DelayM.add, BatchM.add, make_setDt, make_setDur, make_setIncl,
      List.replicate_succ']

theorem neuron_construct_eq (c : NeuCfg τ) :
    Neuron.construct c = { dt := c.dt, batched := ⟨c.batch, List.replicate c.m c.batch⟩, dtype := c.dtype } := by
  unfold Neuron.construct
  congr 1
  induction c.m with
  | zero => rfl
  | succ k ih => rw [repeat_succ, ih]; simp only [BatchM.add, List.replicate_succ']

theorem reducer_construct_eq (T : TimeOps τ) (c : RedCfg τ) :
    Reducer.construct T c =
      { dt := c.dt, duration := c.duration, incl := c.incl, inplace := c.inplace, dtype := c.dtype,
        data := RecCfg.make T c.dt c.duration c.incl } := rfl

theorem delayM_setDt_ok [DecidableEq τ] {T : TimeOps τ} {d d' : DelayM τ} {v : τ}
    (h : d.setDt T v = .ok d') : d'.delay = d.delay := by
  unfold DelayM.setDt at h
  split at h
  · cases h
  · split at h <;> cases h <;> rfl

theorem delayM_setDelay_ok [DecidableEq τ] {T : TimeOps τ} {d d' : DelayM τ} {v : τ}
    (h : d.setDelay T v = .ok d') : d'.dt = d.dt := by
  unfold DelayM.setDelay at h
  split at h
  · cases h
  · split at h <;> cases h <;> rfl

end InfernoVerif.Config
