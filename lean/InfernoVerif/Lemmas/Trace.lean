import InfernoVerif.Gen.TraceR
import InfernoVerif.Gen.InterpolationR
import InfernoVerif.Gen.SmoothingR
import InfernoVerif.Model.Reducer
import InfernoVerif.Lemmas.Recurrence
import Mathlib.Tactic.Ring
import Mathlib.Tactic.Linarith
import Mathlib.Tactic.FieldSimp
import Mathlib.Tactic.SplitIfs
import Mathlib.Algebra.BigOperators.Group.Finset.Basic
import Mathlib.Algebra.BigOperators.Ring.Finset
/-!
Helper lemmas for C07 (over ℝ): closed forms of the linear recurrences behind the trace, average
and event folds, and the statement that each GENERATED one-step trace function
(`Gen/TraceR.lean`) is an instance of the corresponding generic step (`gen_*_eq` — these break if
the Python formula changes shape).
-/
namespace InfernoVerif.Trace
open Finset Classical
open InfernoVerif.Gen.TraceR
open InfernoVerif.Gen.SmoothingR
open InfernoVerif.Reducer (foldSeq eventFold caFold passFold)

/-! ### generic steps -/

/-- cumulative: `x ← d·x + e` (first step: `e`) -/
def cumStep (d e : ℝ) : Option ℝ → ℝ
  | none => e
  | some x => d * x + e

/-- nearest: `x ← v` on a match, `d·x` otherwise (first step: `v` on a match, `0` otherwise) -/
noncomputable def nearStep (d : ℝ) (m : Prop) (v : ℝ) : Option ℝ → ℝ
  | none => if m then v else 0
  | some x => if m then v else d * x

/-- The most recent step `k ≤ n` with `m k`, if any. -/
noncomputable def lastMatch (m : ℕ → Prop) : ℕ → Option ℕ
  | 0 => if m 0 then some 0 else none
  | n + 1 => if m (n + 1) then some (n + 1) else lastMatch m n

theorem lastMatch_some {m : ℕ → Prop} {n k : ℕ} (h : lastMatch m n = some k) :
    k ≤ n ∧ m k ∧ ∀ j, k < j → j ≤ n → ¬ m j := by
  induction n with
  | zero =>
    unfold lastMatch at h
    split_ifs at h with h0
    · cases h; exact ⟨le_refl _, h0, fun j h1 h2 => by omega⟩
  | succ n ih =>
    unfold lastMatch at h
    split_ifs at h with h0
    · cases h; exact ⟨le_refl _, h0, fun j h1 h2 => by omega⟩
    · obtain ⟨a, b, c⟩ := ih h
      refine ⟨by omega, b, fun j h1 h2 => ?_⟩
      by_cases hj : j = n + 1
      · subst hj; exact h0
      · exact c j h1 (by omega)

theorem lastMatch_none {m : ℕ → Prop} {n : ℕ} (h : lastMatch m n = none) : ∀ j, j ≤ n → ¬ m j := by
  induction n with
  | zero =>
    unfold lastMatch at h
    split_ifs at h with h0
    intro j hj; have : j = 0 := by omega
    subst this; exact h0
  | succ n ih =>
    unfold lastMatch at h
    split_ifs at h with h0
    intro j hj
    by_cases hj' : j = n + 1
    · subst hj'; exact h0
    · exact ih h j (by omega)

/-- `lastMatch` is exactly "the greatest matching index ≤ n". -/
theorem lastMatch_eq_some_iff {m : ℕ → Prop} {n k : ℕ} :
    lastMatch m n = some k ↔ (k ≤ n ∧ m k ∧ ∀ j, k < j → j ≤ n → ¬ m j) := by
  constructor
  · exact lastMatch_some
  · rintro ⟨h1, h2, h3⟩
    cases hl : lastMatch m n with
    | none => exact absurd h2 (lastMatch_none hl k h1)
    | some k' =>
      obtain ⟨a, b, c⟩ := lastMatch_some hl
      rcases lt_trichotomy k k' with hlt | heq | hgt
      · exact absurd b (h3 k' hlt a)
      · rw [heq]
      · exact absurd h2 (c k hgt h1)

theorem lastMatch_eq_none_iff {m : ℕ → Prop} {n : ℕ} :
    lastMatch m n = none ↔ ∀ j, j ≤ n → ¬ m j := by
  constructor
  · exact lastMatch_none
  · intro h
    cases hl : lastMatch m n with
    | none => rfl
    | some k => obtain ⟨a, b, _⟩ := lastMatch_some hl; exact absurd b (h k a)

/-! ### closed forms of the recurrences -/

/-- `xₙ = Σ_{k ≤ n} e_k · d^{n−k}` for `x₀ = e₀`, `x_{n+1} = d·xₙ + e_{n+1}`. -/
theorem cum_closed {ω : Type} (d : ℝ) (step : ℕ → ω → Option ℝ → ℝ) (o : ℕ → ω) (e : ℕ → ℝ)
    (h : ∀ i s, step i (o i) s = cumStep d (e i) s) (n : ℕ) :
    foldSeq step o n = ∑ k ∈ range (n + 1), e k * d ^ (n - k) := by
  rw [Recurrence.recurrence_closed d e (foldSeq step o) (by simp [foldSeq, h, cumStep])
    (fun m => by rw [foldSeq, h, cumStep]) n]
  exact sum_congr rfl fun k _ => mul_comm _ _

/-- Time-varying decay (the step time may change between observations): with
`d i = exp (−(T i − T (i−1))/τ)` the closed form is in terms of the actual elapsed times. -/
theorem cum_closed_times {ω : Type} (τ : ℝ) (T : ℕ → ℝ) (step : ℕ → ω → Option ℝ → ℝ) (o : ℕ → ω)
    (e : ℕ → ℝ)
    (h : ∀ i s, step (i + 1) (o (i + 1)) s = cumStep (Real.exp (-(T (i + 1) - T i) / τ)) (e (i + 1)) s)
    (hz : step 0 (o 0) none = e 0) (n : ℕ) :
    foldSeq step o n = ∑ k ∈ range (n + 1), e k * Real.exp (-(T n - T k) / τ) := by
  induction n with
  | zero => simp [foldSeq, hz]
  | succ n ih =>
    rw [foldSeq, h, cumStep, ih, sum_range_succ _ (n + 1), mul_sum]
    simp only [sub_self, neg_zero, zero_div, Real.exp_zero, mul_one, add_left_inj]
    apply sum_congr rfl
    intro k _
    rw [mul_left_comm, ← Real.exp_add]
    congr 2; ring

/-- nearest: `xₙ = v_k · d^{n−k}` for the most recent matching `k ≤ n`, `0` if there is none. -/
theorem near_closed {ω : Type} (d : ℝ) (step : ℕ → ω → Option ℝ → ℝ) (o : ℕ → ω) (m : ℕ → Prop)
    (v : ℕ → ℝ) (h : ∀ i s, step i (o i) s = nearStep d (m i) (v i) s) (n : ℕ) :
    foldSeq step o n = match lastMatch m n with
      | some k => v k * d ^ (n - k)
      | none => 0 := by
  induction n with
  | zero =>
    rw [foldSeq, h, nearStep, lastMatch]
    split_ifs <;> simp
  | succ n ih =>
    rw [foldSeq, h, nearStep, lastMatch, ih]
    split_ifs with hm
    · simp
    · cases hl : lastMatch m n with
      | none => simp
      | some k =>
        have hk := (lastMatch_some hl).1
        simp only
        rw [show n + 1 - k = (n - k) + 1 by omega, pow_succ]; ring


/-! ### the generated trace steps are instances of the generic steps -/

/-- The match mask the generated trace functions build: exact match, or within tolerance. -/
def maskOf (target : ℝ) (tolerance : Option ℝ) (observation : ℝ) : Prop :=
  match tolerance with
  | some tolerance => |observation - target| ≤ tolerance
  | none => observation = target

theorem gen_cumulative_eq (ob : ℝ) (s : Option ℝ) (d A target : ℝ) (tol : Option ℝ) :
    trace_cumulative ob s d A target tol = cumStep d (if maskOf target tol ob then A else 0) s := by
  unfold trace_cumulative cumStep maskOf
  cases tol <;> cases s <;> simp only <;> split_ifs <;> simp

theorem gen_nearest_eq (ob : ℝ) (s : Option ℝ) (d A target : ℝ) (tol : Option ℝ) :
    trace_nearest ob s d A target tol = nearStep d (maskOf target tol ob) A s := by
  unfold trace_nearest nearStep maskOf
  cases tol <;> cases s <;> simp only <;> split_ifs <;> simp

theorem gen_cumulative_scaled_eq (ob : ℝ) (s : Option ℝ) (d A sc : ℝ) (mf : ℝ → Prop) :
    trace_cumulative_scaled ob s d A sc mf = cumStep d (if mf ob then sc * ob + A else 0) s := by
  unfold trace_cumulative_scaled cumStep
  cases s <;> rfl

theorem gen_nearest_scaled_eq (ob : ℝ) (s : Option ℝ) (d A sc : ℝ) (mf : ℝ → Prop) :
    trace_nearest_scaled ob s d A sc mf = nearStep d (mf ob) (sc * ob + A) s := by
  unfold trace_nearest_scaled nearStep
  cases s <;> rfl

theorem gen_cumulative_value_eq (ob : ℝ) (s : Option ℝ) (d sc : ℝ) :
    trace_cumulative_value ob s d sc = cumStep d (sc * ob) s := by
  unfold trace_cumulative_value cumStep
  cases s <;> rfl

/-- `exp(−dt/τ)^m = exp(−(m·dt)/τ)` (`Real.exp_nat_mul`). -/
theorem exp_decay_pow (dt τ : ℝ) (m : ℕ) :
    Real.exp (-dt / τ) ^ m = Real.exp (-((m : ℝ) * dt) / τ) := by
  rw [← Real.exp_nat_mul]; congr 1; ring

/-! ### averages -/

/-- exponential smoothing (GENERATED `exponential_smoothing`): `s₀ = x₀`, `s_{n+1} = α·x_{n+1} + (1−α)·sₙ`. -/
theorem ema_closed (a : ℝ) (o : ℕ → ℝ) (n : ℕ) :
    foldSeq (fun _ ob s => exponential_smoothing ob s a) o n =
      (1 - a) ^ n * o 0 + ∑ k ∈ range n, a * o (k + 1) * (1 - a) ^ (n - 1 - k) := by
  induction n with
  | zero => simp [foldSeq, exponential_smoothing]
  | succ n ih =>
    rw [foldSeq, exponential_smoothing, ih, sum_range_succ, mul_add, mul_sum]
    simp only [Nat.add_sub_cancel, Nat.sub_self, pow_zero, mul_one]
    have : ∑ i ∈ range n, (1 - a) * (a * o (i + 1) * (1 - a) ^ (n - 1 - i)) =
        ∑ x ∈ range n, a * o (x + 1) * (1 - a) ^ (n - x) := by
      apply sum_congr rfl
      intro k hk
      have hk' : k < n := by simpa using hk
      rw [show n - k = (n - 1 - k) + 1 by omega, pow_succ]; ring
    rw [this, pow_succ]; ring

/-- cumulative average: `μ₀ = x₀`, `μ_{n} = μ_{n−1} + (xₙ − μ_{n−1})/(n+1)`
(`_count` is `i+1` when the `i`-th observation is folded). -/
theorem ca_closed (o : ℕ → ℝ) (n : ℕ) :
    foldSeq (fun i ob s => caFold (fun k : ℕ => (k : ℝ)) (i + 1) ob s) o n =
      (∑ k ∈ range (n + 1), o k) / ((n : ℝ) + 1) := by
  induction n with
  | zero => simp [foldSeq, caFold]
  | succ n ih =>
    rw [foldSeq, caFold, ih, sum_range_succ _ (n + 1)]
    have h1 : ((n : ℝ) + 1) ≠ 0 := by positivity
    have h2 : (((n + 1 : ℕ) : ℝ) + 1) ≠ 0 := by positivity
    push_cast
    field_simp
    ring

/-! ### event reducer: times with a non-finite value -/

/-- The value type of `EventReducer`: a real, or the non-finite initial value (`inf` and `nan`
behave alike here: adding a finite step time leaves them unchanged, and an event overwrites them
with `0`). -/
inductive XR where
  | fin (x : ℝ)
  | nonfin

instance : Add XR := ⟨fun a b => match a, b with
  | .fin x, .fin y => .fin (x + y)
  | _, _ => .nonfin⟩

/-- `initial + t` -/
def XR.shift : XR → ℝ → XR
  | .fin a, t => .fin (a + t)
  | .nonfin, _ => .nonfin

theorem XR.fin_add (x y : ℝ) : (XR.fin x + XR.fin y) = XR.fin (x + y) := rfl
theorem XR.nonfin_add (y : XR) : (XR.nonfin + y) = XR.nonfin := rfl
theorem XR.shift_add (a : XR) (t dt : ℝ) : a.shift t + XR.fin dt = a.shift (t + dt) := by
  cases a
  · simp only [XR.shift, XR.fin_add, add_assoc]
  · rfl

/-- event reducer: elapsed time since the most recent event; before the first event the initial
value plus the elapsed time (non-finite initial values stay as they are). -/
theorem event_closed {ω : Type} (crit : ω → Bool) (initial : XR) (dt : ℝ) (o : ℕ → ω) (n : ℕ) :
    foldSeq (fun _ ob s => eventFold (XR.fin 0) initial crit (XR.fin dt) ob s) o n =
      match lastMatch (fun i => crit (o i) = true) n with
      | some k => XR.fin (((n - k : ℕ) : ℝ) * dt)
      | none => initial.shift ((n : ℝ) * dt) := by
  induction n with
  | zero =>
    rw [foldSeq, eventFold, lastMatch]
    split_ifs
    · simp
    · cases initial <;> simp [XR.shift]
  | succ n ih =>
    rw [foldSeq, eventFold, lastMatch, ih]
    split_ifs with hm
    · simp
    · cases hl : lastMatch (fun i => crit (o i) = true) n with
      | none =>
        simp only
        rw [XR.shift_add]; congr 1; push_cast; ring
      | some k =>
        have hk := (lastMatch_some hl).1
        simp only [XR.fin_add]
        congr 1
        rw [show n + 1 - k = (n - k) + 1 by omega]; push_cast; ring

end InfernoVerif.Trace
