import InfernoVerif.Model.Layer
/-!
Helper lemmas for C17 (`Props/C17.lean`), core Lean only: observational equivalence is preserved
by calls, dictionary look-up / update and by every layer's forward; dictionaries built by zipping
distinct names; the code-shaped forwards on canonical layers compute the positional specifications.
-/
namespace InfernoVerif.Layer
variable {ι ο τ : Type}

theorem Obj.Equiv.out_eq {a b : Obj ι ο} (h : Obj.Equiv a b) : a.out = b.out := by
  have := h []
  simpa [Obj.obs] using this

theorem Obj.Equiv.fwd_out {a b : Obj ι ο} (h : Obj.Equiv a b) (x : ι) : (a.fwd x).2 = (b.fwd x).2 := by
  have := h [x]
  simp only [Obj.obs, List.cons.injEq] at this
  exact this.2.1

theorem Obj.Equiv.fwd_equiv {a b : Obj ι ο} (h : Obj.Equiv a b) (x : ι) : Obj.Equiv (a.fwd x).1 (b.fwd x).1 := by
  intro xs
  have := h (x :: xs)
  simp only [Obj.obs, List.cons.injEq] at this
  exact this.2.2

theorem Obj.Equiv.refl (a : Obj ι ο) : Obj.Equiv a a := fun _ => rfl

theorem DictEquiv.get? {a b : Dict (Obj ι ο)} (h : DictEquiv a b) (k : String) :
    (a.get? k = none ∧ b.get? k = none) ∨ ∃ m m', a.get? k = some m ∧ b.get? k = some m' ∧ Obj.Equiv m m' := by
  induction h with
  | nil => left; exact ⟨rfl, rfl⟩
  | @cons pk pm qm as bs he _ ih =>
    by_cases hkk : pk = k
    · right; exact ⟨pm, qm, by simp [Dict.get?, hkk], by simp [Dict.get?, hkk], he⟩
    · simp only [Dict.get?, hkk, if_false]; exact ih

theorem DictEquiv.set {a b : Dict (Obj ι ο)} (h : DictEquiv a b) (k : String) {m m' : Obj ι ο}
    (hm : Obj.Equiv m m') : DictEquiv (a.set k m) (b.set k m') := by
  induction h with
  | nil => exact DictEquiv.nil
  | @cons pk pm qm as bs he hrest ih =>
    by_cases hkk : pk = k
    · simp only [Dict.set, hkk, if_true]; exact DictEquiv.cons hm hrest
    · simp only [Dict.set, hkk, if_false]; exact DictEquiv.cons he ih

theorem ResRel.elim {σ : Type _} {β : Type _} {R : σ → σ → Prop} {a b : Option (σ × β)} (h : ResRel R a b) :
    (a = none ∧ b = none) ∨ ∃ s s' o, a = some (s, o) ∧ b = some (s', o) ∧ R s s' := by
  cases h with
  | bothNone => left; exact ⟨rfl, rfl⟩
  | bothSome hr => right; exact ⟨_, _, _, rfl, rfl, hr⟩

theorem callAll_rel {a b : Dict (Obj ι ο)} (h : DictEquiv a b) (inputs : Dict ι) :
    ResRel DictEquiv (callAll a inputs) (callAll b inputs) := by
  induction inputs generalizing a b with
  | nil => exact ResRel.bothSome h
  | cons kx rest ih =>
    obtain ⟨k, x⟩ := kx
    rcases h.get? k with ⟨ha, hb⟩ | ⟨m, m', ha, hb, he⟩
    · simp only [callAll, ha, hb]; exact ResRel.bothNone
    · rcases (ih (h.set k (he.fwd_equiv x))).elim with ⟨h1, h2⟩ | ⟨s, s', o, h1, h2, hR⟩
      · simp only [callAll, ha, hb, h1, h2]; exact ResRel.bothNone
      · simp only [callAll, ha, hb, h1, h2, he.fwd_out x]; exact ResRel.bothSome hR

theorem Layer.forward_rel (wiring : Dict τ → Option (Dict τ)) {L L' : LayerSt τ} (h : LayerEquiv L L')
    (inputs : Dict (List τ)) :
    ResRel LayerEquiv (Layer.forward wiring L inputs) (Layer.forward wiring L' inputs) := by
  rcases (callAll_rel h.conns inputs).elim with ⟨h1, h2⟩ | ⟨cs, cs', res, h1, h2, hcs⟩
  · simp only [Layer.forward, h1, h2]; exact ResRel.bothNone
  · cases hw : wiring res with
    | none => simp only [Layer.forward, h1, h2, hw]; exact ResRel.bothNone
    | some wired =>
      rcases (callAll_rel h.neurs wired).elim with ⟨h3, h4⟩ | ⟨ns, ns', outs, h3, h4, hns⟩
      · simp only [Layer.forward, h1, h2, hw, h3, h4]; exact ResRel.bothNone
      · simp only [Layer.forward, h1, h2, hw, h3, h4]; exact ResRel.bothSome ⟨hcs, hns⟩

theorem DictEquiv.map_clear_fresh (d : Dict (Obj ι ο)) (h : ∀ kv ∈ d, kv.2.ClearOK) :
    DictEquiv (d.map fun kv => (kv.1, kv.2.clr)) (d.map fun kv => (kv.1, kv.2.frs)) := by
  induction d with
  | nil => exact DictEquiv.nil
  | cons kv rest ih =>
    simp only [List.map_cons]
    exact DictEquiv.cons (h kv (by simp) kv.2.st) (ih fun kv' hkv' => h kv' (by simp [hkv']))

theorem Layer.clear_equiv_fresh (L : LayerSt τ) (hc : ∀ kv ∈ L.conns, kv.2.ClearOK)
    (hn : ∀ kv ∈ L.neurs, kv.2.ClearOK) : LayerEquiv (Layer.clear L) (Layer.fresh L) :=
  ⟨DictEquiv.map_clear_fresh _ hc, DictEquiv.map_clear_fresh _ hn⟩

theorem Serial.forward_rel (C : SerialCfg τ) {L L' : LayerSt τ} (h : LayerEquiv L L') (xs : List τ) :
    ResRel LayerEquiv (Serial.forward C L xs) (Serial.forward C L' xs) := by
  rcases (Layer.forward_rel (Serial.wiring C) h [(C.cn, xs)]).elim with ⟨h1, h2⟩ | ⟨L1, L1', o, h1, h2, hL⟩
  · simp only [Serial.forward, h1, h2]; exact ResRel.bothNone
  · obtain ⟨outs, res⟩ := o
    simp only [Serial.forward, h1, h2]
    cases outs.get? C.nn <;> cases res.get? C.cn <;> first | exact ResRel.bothNone | exact ResRel.bothSome hL

theorem Serial.run_congr (C : SerialCfg τ) {L L' : LayerSt τ} (h : LayerEquiv L L') (xss : List (List τ)) :
    Serial.run C L xss = Serial.run C L' xss := by
  induction xss generalizing L L' with
  | nil => rfl
  | cons xs rest ih =>
    rcases (Serial.forward_rel C h xs).elim with ⟨h1, h2⟩ | ⟨L1, L1', o, h1, h2, hL⟩
    · simp only [Serial.run, h1, h2]
    · simp only [Serial.run, h1, h2, ih hL]

theorem Biclique.run_congr (B : BicliqueCfg τ) {L L' : LayerSt τ} (h : LayerEquiv L L')
    (xss : List (Dict (List τ))) : Biclique.run B L xss = Biclique.run B L' xss := by
  induction xss generalizing L L' with
  | nil => rfl
  | cons xs rest ih =>
    rcases (Layer.forward_rel (Biclique.wiring B) h xs).elim with ⟨h1, h2⟩ | ⟨L1, L1', o, h1, h2, hL⟩
    · simp only [Biclique.run, Biclique.forward, h1, h2]
    · simp only [Biclique.run, Biclique.forward, h1, h2, ih hL]

theorem Rec.forward_rel (R : RecCfg τ) {S S' : RecSt τ} (h : RecEquiv S S') (xs : List τ) :
    ResRel RecEquiv (Rec.forward R S xs) (Rec.forward R S' xs) := by
  rcases h.layer.neurs.get? R.fbn with ⟨ha, hb⟩ | ⟨n0, n0', ha, hb, he0⟩
  · simp only [Rec.forward, ha, hb]; exact ResRel.bothNone
  · have hfb : Rec.feedbackIn R S.feedback n0 = Rec.feedbackIn R S'.feedback n0' := by
      rw [← h.feedback]; unfold Rec.feedbackIn; cases S.feedback <;> simp [he0.out_eq]
    simp only [Rec.forward, ha, hb, hfb]
    generalize Rec.feedbackIn R S'.feedback n0' = fb
    rcases (Layer.forward_rel (Rec.wiring R true) h.layer [(R.ffc, xs), (R.fbc, R.fbIn fb)]).elim with
      ⟨h1, h2⟩ | ⟨L1, L1', o, h1, h2, hL1⟩
    · simp only [h1, h2]; exact ResRel.bothNone
    · obtain ⟨fouts, fres⟩ := o
      simp only [h1, h2]
      rcases hL1.neurs.get? R.ffn with ⟨hc, hd⟩ | ⟨n1, n1', hc, hd, he1⟩
      · simp only [hc, hd]; exact ResRel.bothNone
      · simp only [hc, hd, he1.out_eq]
        rcases (Layer.forward_rel (Rec.wiring R false) hL1 [(R.latc, R.latIn n1'.out)]).elim with
          ⟨h3, h4⟩ | ⟨L2, L2', o2, h3, h4, hL2⟩
        · simp only [h3, h4]; exact ResRel.bothNone
        · obtain ⟨bouts, bres⟩ := o2
          simp only [h3, h4]
          rcases hL2.neurs.get? R.fbn with ⟨hf, hg⟩ | ⟨n2, n2', hf, hg, he2⟩
          · simp only [hf, hg]; exact ResRel.bothNone
          · simp only [hf, hg]
            cases fouts.get? R.ffn <;> cases bouts.get? R.fbn <;>
              first | exact ResRel.bothNone | exact ResRel.bothSome ⟨hL2, by simp [he2.out_eq]⟩

theorem Rec.run_congr (R : RecCfg τ) {S S' : RecSt τ} (h : RecEquiv S S') (xss : List (List τ)) :
    Rec.run R S xss = Rec.run R S' xss := by
  induction xss generalizing S S' with
  | nil => rfl
  | cons xs rest ih =>
    rcases (Rec.forward_rel R h xs).elim with ⟨h1, h2⟩ | ⟨S1, S1', o, h1, h2, hS⟩
    · simp only [Rec.run, h1, h2]
    · simp only [Rec.run, h1, h2, ih hS]

/-! ### canonical layers: the code-shaped forward computes the positional specification -/

theorem serial_forward_eq (S : SerialCfg τ) (c : Conn τ) (n : Neur τ) (xs : List τ) :
    Serial.forward S ⟨[(S.cn, c)], [(S.nn, n)]⟩ xs =
      some (⟨[(S.cn, (serialSpec S.trans c n xs).1.1)], [(S.nn, (serialSpec S.trans c n xs).1.2)]⟩,
        (serialSpec S.trans c n xs).2.1, (serialSpec S.trans c n xs).2.2) := by
  simp [Serial.forward, Layer.forward, callAll, Dict.get?, Dict.set, Serial.wiring, serialSpec]

theorem rec_forward_eq (R : RecCfg τ) (s : RecSpecSt τ)
    (h1 : R.ffc ≠ R.latc) (h2 : R.ffc ≠ R.fbc) (h3 : R.latc ≠ R.fbc) (h4 : R.ffn ≠ R.fbn)
    (pff : s.nff.PeekOK) (pfb : s.nfb.PeekOK) (xs : List τ) :
    Rec.forward R (s.toSt R) xs = some ((recSpecStep R s xs).1.toSt R, (recSpecStep R s xs).2) := by
  have e1 : ∀ x, ((s.nff.fwd x).1).out = (s.nff.fwd x).2 := fun x => pff _ _
  have e2 : ∀ x, ((s.nfb.fwd x).1).out = (s.nfb.fwd x).2 := fun x => pfb _ _
  simp [Rec.forward, RecSpecSt.toSt, Layer.forward, callAll, Dict.get?, Dict.set, Rec.wiring, recSpecStep,
    h1, h2, h3, h4, e1, e2]

/-! ### dictionaries built by zipping distinct names -/

theorem get?_append_not_mem {α : Type _} (pre rest : Dict α) (k : String) (h : k ∉ keys pre) :
    (pre ++ rest).get? k = rest.get? k := by
  induction pre with
  | nil => rfl
  | cons kv pre ih =>
    obtain ⟨k', v⟩ := kv
    simp only [keys, List.map_cons, List.mem_cons, not_or] at h
    have hne : ¬ k' = k := fun hh => h.1 hh.symm
    simp only [List.cons_append, Dict.get?, hne, if_false]
    exact ih h.2

theorem set_append_not_mem {α : Type _} (pre rest : Dict α) (k : String) (v : α) (h : k ∉ keys pre) :
    (pre ++ rest).set k v = pre ++ rest.set k v := by
  induction pre with
  | nil => rfl
  | cons kv pre ih =>
    obtain ⟨k', v'⟩ := kv
    simp only [keys, List.map_cons, List.mem_cons, not_or] at h
    have hne : ¬ k' = k := fun hh => h.1 hh.symm
    simp only [List.cons_append, Dict.set, hne, if_false]
    rw [ih h.2]

theorem callAll_zip (names : List String) (hnd : names.Nodup) (ms : List (Obj ι ο)) (xs : List ι)
    (hm : ms.length = names.length) (hx : xs.length = names.length) (pre : Dict (Obj ι ο))
    (hpre : ∀ k ∈ names, k ∉ keys pre) :
    callAll (pre ++ names.zip ms) (names.zip xs) =
      some (pre ++ names.zip (fwdAll ms xs).1, names.zip (fwdAll ms xs).2) := by
  induction names generalizing ms xs pre with
  | nil =>
    cases ms with
    | nil => simp [callAll, fwdAll]
    | cons _ _ => simp at hm
  | cons k ks ih =>
    cases ms with
    | nil => simp at hm
    | cons m ms' =>
      cases xs with
      | nil => simp at hx
      | cons x xs' =>
        have hk : k ∉ keys pre := hpre k (by simp)
        have hnd' := List.nodup_cons.mp hnd
        simp only [List.zip_cons_cons, callAll]
        rw [get?_append_not_mem _ _ _ hk]
        simp only [Dict.get?, if_true]
        rw [set_append_not_mem _ _ _ _ hk]
        simp only [Dict.set, if_true]
        have hpre' : ∀ k' ∈ ks, k' ∉ keys (pre ++ [(k, (m.fwd x).1)]) := by
          intro k' hk'
          simp only [keys, List.map_append, List.map_cons, List.map_nil, List.mem_append, List.mem_singleton, not_or]
          refine ⟨hpre k' (by simp [hk']), ?_⟩
          intro he; subst he; exact hnd'.1 hk'
        have := ih hnd'.2 ms' xs' (by simpa using hm) (by simpa using hx) (pre ++ [(k, (m.fwd x).1)]) hpre'
        simp only [List.append_assoc, List.singleton_append] at this
        rw [this]
        simp [fwdAll]

theorem applyPost_zip (names : List String) (hnd : names.Nodup) (fs : List (τ → τ)) (ys : List τ)
    (hf : fs.length = names.length) (hy : ys.length = names.length) (pre : Dict (τ → τ))
    (hpre : ∀ k ∈ names, k ∉ keys pre) :
    applyPost (pre ++ names.zip fs) (names.zip ys) = some (names.zip (List.zipWith (fun f y => f y) fs ys)) := by
  induction names generalizing fs ys pre with
  | nil => simp [applyPost]
  | cons k ks ih =>
    cases fs with
    | nil => simp at hf
    | cons f fs' =>
      cases ys with
      | nil => simp at hy
      | cons y ys' =>
        have hk : k ∉ keys pre := hpre k (by simp)
        have hnd' := List.nodup_cons.mp hnd
        have hpre' : ∀ k' ∈ ks, k' ∉ keys (pre ++ [(k, f)]) := by
          intro k' hk'
          simp only [keys, List.map_append, List.map_cons, List.map_nil, List.mem_append, List.mem_singleton, not_or]
          refine ⟨hpre k' (by simp [hk']), ?_⟩
          intro he; subst he; exact hnd'.1 hk'
        have := ih hnd'.2 fs' ys' (by simpa using hf) (by simpa using hy) (pre ++ [(k, f)]) hpre'
        simp only [List.append_assoc, List.singleton_append] at this
        simp only [List.zip_cons_cons, applyPost, List.zipWith_cons_cons]
        rw [get?_append_not_mem _ _ _ hk, this]
        simp [Dict.get?]

theorem zip_map_apply (names : List String) (pres : List (τ → τ)) (z : τ) :
    ((names.zip pres).map fun kv => (kv.1, kv.2 z)) = names.zip (pres.map fun f => f z) := by
  induction names generalizing pres with
  | nil => simp
  | cons k ks ih =>
    cases pres with
    | nil => simp
    | cons f fs => simp [ih]

theorem fwdAll_length (ms : List (Obj ι ο)) (xs : List ι) (h : ms.length = xs.length) :
    (fwdAll ms xs).2.length = ms.length := by
  induction ms generalizing xs with
  | nil => cases xs <;> simp [fwdAll]
  | cons m ms ih =>
    cases xs with
    | nil => simp at h
    | cons x xs => simp [fwdAll, ih xs (by simpa using h)]

/-- the code-shaped Biclique forward on a canonical layer computes the positional specification -/
theorem biclique_forward_eq (cnames nnames : List String) (hc : cnames.Nodup) (hn : nnames.Nodup)
    (posts pres : List (τ → τ)) (comb : Dict τ → Option τ) (cs : List (Conn τ)) (ns : List (Neur τ))
    (xs : List (List τ)) (h1 : posts.length = cnames.length) (h2 : cs.length = cnames.length)
    (h3 : xs.length = cnames.length) (h4 : pres.length = nnames.length) (h5 : ns.length = nnames.length) :
    Biclique.forward ⟨cnames.zip posts, nnames.zip pres, comb⟩ ⟨cnames.zip cs, nnames.zip ns⟩ (cnames.zip xs) =
      (bicliqueSpec cnames posts comb pres cs ns xs).map fun r =>
        (⟨cnames.zip r.1.1, nnames.zip r.1.2⟩, nnames.zip r.2.1, cnames.zip r.2.2) := by
  have e1 := callAll_zip cnames hc cs xs h2 h3 [] (by simp [keys])
  simp only [List.nil_append] at e1
  have hys : (fwdAll cs xs).2.length = cnames.length := by rw [fwdAll_length cs xs (by omega), h2]
  have e2 := applyPost_zip cnames hc posts (fwdAll cs xs).2 h1 hys [] (by simp [keys])
  simp only [List.nil_append] at e2
  unfold Biclique.forward Layer.forward bicliqueSpec
  simp only [e1, Biclique.wiring, e2]
  cases hz : comb (cnames.zip (List.zipWith (fun f y => f y) posts (fwdAll cs xs).2)) with
  | none => simp
  | some z =>
    have e3 := callAll_zip nnames hn ns (pres.map fun f => f z) h5 (by simp [h4]) [] (by simp [keys])
    simp only [List.nil_append] at e3
    simp only [zip_map_apply, e3, Option.map_some]

end InfernoVerif.Layer
