import InfernoVerif.Model.Delay
import InfernoVerif.Props.C04
/-!
Helper lemmas for C06 (`Props/C06.lean`): the selector / `current_at` / `einsum` chain of the
delayed connections, composed from C04's `current_at_grid` / `spike_at_grid`.
-/
namespace InfernoVerif.Delay
open InfernoVerif.Ring InfernoVerif.Select InfernoVerif.Synapse
open Classical

/-- The contribution of the element driven by `xe`, `k` steps before the latest of `T` steps:
the current its `forward` returned at step `T-1-k`; zero before the start (or the last clear). -/
noncomputable def past (cfg : Cfg ℝ) (xe : ℕ → ℝ) (T k : ℕ) : ℝ :=
  if k < T then outSeq cfg xe (fun _ => []) (T - 1 - k) else 0

/-- the input spike seen `k` steps before the latest of `T` steps -/
noncomputable def pastSpike (xe : ℕ → ℝ) (T k : ℕ) : Bool :=
  if k < T then decide (xe (T - 1 - k) ≠ 0) else false

theorem seqO_map_ok {β γ : Type} (l : List γ) (f : γ → β) : seqO (l.map fun a => Outcome.ok (f a)) = .ok (l.map f) := by
  induction l with
  | nil => rfl
  | cons a l ih => simp only [List.map_cons, seqO, ih]

theorem getD_map_range {β : Type} (n : ℕ) (f : ℕ → β) (z : β) (i : ℕ) (h : i < n) :
    ((List.range n).map f).getD i z = f i := by
  simp [List.getD, h]

/-- Element states reachable after `T` steps of the per-element input sequences `x e`. -/
def Reach (cfg : Cfg ℝ) (x : ℕ → ℕ → ℝ) (T E : ℕ) (st : ℕ → St ℝ) : Prop :=
  ∀ e, e < E → stateAt realSOps cfg (x e) (fun _ => []) T = some (st e)

/-- `current_at(selector)` over all elements, every selector entry an in-range multiple of `dt`:
the matrix of shifted contributions. -/
theorem currentAtAll_grid (cfg : Cfg ℝ) (hv : Valid cfg) (x : ℕ → ℕ → ℝ) (T E R : ℕ) (st : ℕ → St ℝ)
    (hst : Reach cfg x T E st) (d : ℕ → ℕ → ℝ) (k : ℕ → ℕ → ℕ)
    (hd : ∀ e r, e < E → r < R → d e r = (k e r : ℝ) * cfg.dt ∧ (k e r : ℝ) * cfg.dt ≤ cfg.delay) :
    currentAtAll realSOps cfg ((List.range E).map st) ((List.range E).map fun e => (List.range R).map (d e)) =
      .ok ((List.range E).map fun e => (List.range R).map fun r => past cfg (x e) T (k e r)) := by
  unfold currentAtAll
  rw [List.zipWith_map, List.zipWith_self, List.map_map]
  have key : (List.range E).map (seqO ∘ fun e => ((List.range R).map (d e)).map (currentAt realSOps cfg (st e))) =
      (List.range E).map fun e => Outcome.ok ((List.range R).map fun r => past cfg (x e) T (k e r)) := by
    apply List.map_congr_left
    intro e he
    have he' : e < E := List.mem_range.mp he
    simp only [Function.comp, List.map_map]
    rw [← seqO_map_ok]
    congr 1
    apply List.map_congr_left
    intro r hr
    have hr' : r < R := List.mem_range.mp hr
    obtain ⟨h1, h2⟩ := hd e r he' hr'
    simp only [Function.comp, h1]
    exact (current_at_grid cfg hv (x e) _ T (st e) (hst e he') (k e r) h2).1
  rw [key, seqO_map_ok]

theorem spikeAtAll_grid (cfg : Cfg ℝ) (hv : Valid cfg) (x : ℕ → ℕ → ℝ) (T E R : ℕ) (st : ℕ → St ℝ)
    (hst : Reach cfg x T E st) (d : ℕ → ℕ → ℝ) (k : ℕ → ℕ → ℕ)
    (hd : ∀ e r, e < E → r < R → d e r = (k e r : ℝ) * cfg.dt ∧ (k e r : ℝ) * cfg.dt ≤ cfg.delay) :
    spikeAtAll realSOps cfg ((List.range E).map st) ((List.range E).map fun e => (List.range R).map (d e)) =
      .ok ((List.range E).map fun e => (List.range R).map fun r => pastSpike (x e) T (k e r)) := by
  unfold spikeAtAll
  rw [List.zipWith_map, List.zipWith_self, List.map_map]
  have key : (List.range E).map (seqO ∘ fun e => ((List.range R).map (d e)).map (spikeAt realSOps cfg (st e))) =
      (List.range E).map fun e => Outcome.ok ((List.range R).map fun r => pastSpike (x e) T (k e r)) := by
    apply List.map_congr_left
    intro e he
    have he' : e < E := List.mem_range.mp he
    simp only [Function.comp, List.map_map]
    rw [← seqO_map_ok]
    congr 1
    apply List.map_congr_left
    intro r hr
    have hr' : r < R := List.mem_range.mp hr
    obtain ⟨h1, h2⟩ := hd e r he' hr'
    simp only [Function.comp, h1]
    exact spike_at_grid cfg hv (x e) _ T (st e) (hst e he') (k e r) h2
  rw [key, seqO_map_ok]

theorem map_ok' {β γ : Type} (f : β → γ) (v : β) : (Outcome.ok v).map f = .ok (f v) := rfl

/-- the connection takes its delayed branch: a `delay_` parameter exists and the supported maximum is not `0` -/
theorem useDelay_true (cfg : Cfg ℝ) (h : cfg.delay ≠ 0) : useDelay realSOps ⟨cfg, true⟩ = true := by
  simp only [useDelay, delayedby, truthy, if_true, realSOps, realOps, Bool.or_eq_true, decide_eq_true_eq, Int.cast_zero]
  exact lt_or_gt_of_ne h

theorem useDelay_false_of_none (cfg : Cfg ℝ) : useDelay realSOps ⟨cfg, false⟩ = false := by
  simp [useDelay, delayedby, truthy]

theorem useDelay_false_of_zero (cfg : Cfg ℝ) (b : Bool) (h : cfg.delay = 0) : useDelay realSOps ⟨cfg, b⟩ = false := by
  cases b <;> simp [useDelay, delayedby, truthy, realSOps, realOps, h]

/-- `Σ_j a_j·b_j` -/
theorem dotK_real (a b : List ℝ) : dotK realOps a b = (List.zipWith (· * ·) a b).sum := by
  unfold dotK
  simp only [realOps, Int.cast_zero]
  rw [List.sum_eq_foldl]

theorem addBias_real (b : Option (List ℝ)) (o : ℕ) (v : ℝ) :
    addBias realOps b o v = v + (match b with | none => 0 | some b => b.getD o 0) := by
  cases b <;> simp [addBias, realOps]

/-- `stepAll` is one `forward` per element: on reachable states it returns the reachable states one
step later and the currents `outSeq … T`. -/
theorem stepAll_reach (cfg : Cfg ℝ) (x : ℕ → ℕ → ℝ) (T : ℕ) (st : ℕ → St ℝ) (l : List ℕ)
    (hst : ∀ e ∈ l, stateAt realSOps cfg (x e) (fun _ => []) T = some (st e)) :
    ∃ st' : ℕ → St ℝ, (∀ e ∈ l, stateAt realSOps cfg (x e) (fun _ => []) (T + 1) = some (st' e)) ∧
      stepAll realSOps cfg (l.map st) (l.map fun e => x e T) =
        some (l.map fun e => (st' e, outSeq cfg (x e) (fun _ => []) T)) := by
  have hex : ∀ e ∈ l, ∃ s', step realSOps cfg (st e) (x e T) [] = some (s', outSeq cfg (x e) (fun _ => []) T) := by
    intro e he
    obtain ⟨s0, h0, hi⟩ := stateAt_inv cfg (x e) (fun _ => []) T
    rw [hst e he] at h0; cases (Option.some.inj h0)
    obtain ⟨s', h1, _⟩ := step_inv cfg (x e) (fun _ => []) T (st e) hi
    exact ⟨s', h1⟩
  let st' : ℕ → St ℝ := fun e => if h : e ∈ l then Classical.choose (hex e h) else st e
  have hst' : ∀ e (h : e ∈ l), step realSOps cfg (st e) (x e T) [] = some (st' e, outSeq cfg (x e) (fun _ => []) T) := by
    intro e h
    simp only [st', dif_pos h]
    exact Classical.choose_spec (hex e h)
  refine ⟨st', ?_, ?_⟩
  · intro e he
    simp [stateAt, hst e he, hst' e he]
  · clear_value st'
    clear hex
    induction l with
    | nil => rfl
    | cons a l ih =>
      simp only [List.map_cons, stepAll]
      rw [hst' a (List.mem_cons_self ..),
        ih (fun e he => hst e (List.mem_cons_of_mem _ he)) (fun e he => hst' e (List.mem_cons_of_mem _ he))]

/-- whatever the per-element reads return, `current_at(selector)` collects them into the matrix -/
theorem currentAtAll_ok (cfg : Cfg ℝ) (E R : ℕ) (st : ℕ → St ℝ) (d v : ℕ → ℕ → ℝ)
    (h : ∀ e r, e < E → r < R → currentAt realSOps cfg (st e) (d e r) = .ok (v e r)) :
    currentAtAll realSOps cfg ((List.range E).map st) ((List.range E).map fun e => (List.range R).map (d e)) =
      .ok ((List.range E).map fun e => (List.range R).map (v e)) := by
  unfold currentAtAll
  rw [List.zipWith_map, List.zipWith_self, List.map_map]
  have key : (List.range E).map (seqO ∘ fun e => ((List.range R).map (d e)).map (currentAt realSOps cfg (st e))) =
      (List.range E).map fun e => Outcome.ok ((List.range R).map (v e)) := by
    apply List.map_congr_left
    intro e he
    simp only [Function.comp, List.map_map]
    rw [← seqO_map_ok]
    congr 1
    apply List.map_congr_left
    intro r hr
    exact h e r (List.mem_range.mp he) (List.mem_range.mp hr)
  rw [key, seqO_map_ok]

theorem range_map_getD (l : List ℝ) : (List.range l.length).map (fun i => l.getD i 0) = l := by
  apply List.ext_getElem
  · simp
  · intro i h1 h2
    simp at h1
    simp [List.getD, h1]

theorem zipWith_range (M : ℕ) (f : ℕ → ℝ) (w : List ℝ) (hw : w.length = M) :
    List.zipWith (· * ·) ((List.range M).map f) w = (List.range M).map fun i => f i * w.getD i 0 := by
  apply List.ext_getElem
  · simp [hw]
  · intro i h1 h2
    simp at h1 h2
    simp [List.getD, hw, h2]

theorem div_of_lt (nn L l : ℕ) (hl : l < L) : (nn * L + l) / L = nn := by
  rw [Nat.div_eq_iff (by omega)]
  constructor
  · exact Nat.le_add_right _ _
  · omega

theorem idx_lt (nn N L l : ℕ) (hn : nn < N) (hl : l < L) : nn * L + l < N * L := by
  have : (nn + 1) * L ≤ N * L := Nat.mul_le_mul_right L hn
  rw [Nat.add_mul] at this; omega

end InfernoVerif.Delay
