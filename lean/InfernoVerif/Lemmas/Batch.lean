import InfernoVerif.Model.Batch
/-! Helper lemmas for the batch model (`Model/Batch.lean`); core Lean only. -/
namespace InfernoVerif.Batch
open InfernoVerif.Ring
variable {θ S I O β α : Type}

theorem foldl_lockstep {α γ γ' : Type} (R : α → α → Prop) (f : α → γ → α) (f' : α → γ' → α) :
    ∀ (as : List γ) (bs : List γ') (d d' : α), as.length = bs.length → R d d' →
      (∀ i (ha : i < as.length) (hb : i < bs.length) e e', R e e' → R (f e as[i]) (f' e' bs[i])) →
      R (as.foldl f d) (bs.foldl f' d') := by
  intro as
  induction as with
  | nil =>
    intro bs d d' hl hR _
    cases bs with
    | nil => exact hR
    | cons b bs => simp at hl
  | cons a as ih =>
    intro bs d d' hl hR hstep
    cases bs with
    | nil => simp at hl
    | cons b bs =>
      simp only [List.foldl_cons]
      apply ih bs _ _ (by simpa using hl) (hstep 0 (by simp) (by simp) d d' hR)
      intro i ha hb e e' hRe
      have := hstep (i + 1) (by simp; omega) (by simp; omega) e e' hRe
      simpa using this

theorem cell_modify_set (e : List (List β)) (s q : Nat) (v : β) (i p : Nat) :
    cell (e.modify s (·.set q v)) i p =
      if s = i ∧ q = p then (cell e i p).map (fun _ => v) else cell e i p := by
  unfold cell
  rw [List.getElem?_modify]
  cases h : e[i]? with
  | none => simp
  | some row =>
    by_cases hs : s = i
    · by_cases hq : q = p
      · subst hq
        simp only [hs, and_self, if_true, Option.map_eq_map, Option.map_some, Option.bind_some]
        rw [List.getElem?_set]
        by_cases hl : q < row.length
        · simp [hl]
        · simp [hl]
      · simp only [hs, hq, and_false, if_false, if_true, Option.map_eq_map, Option.map_some, Option.bind_some]
        rw [List.getElem?_set]
        simp [hq]
    · simp [hs]

theorem foldl_add_shift (l : List Int) (a : Int) : l.foldl (· + ·) a = a + l.foldl (· + ·) 0 := by
  induction l generalizing a with
  | nil => simp
  | cons x xs ih => simp only [List.foldl_cons]; rw [ih (a + x), ih (0 + x)]; omega

theorem sumB_cons (a : Int) (l : List Int) : sumB (a :: l) = a + sumB l := by
  unfold sumB; simp only [List.foldl_cons]; rw [foldl_add_shift]; omega

theorem sumB_append (l₁ l₂ : List Int) : sumB (l₁ ++ l₂) = sumB l₁ + sumB l₂ := by
  induction l₁ with
  | nil => simp [sumB]
  | cons a l ih => simp only [List.cons_append, sumB_cons, ih]; omega

theorem sumTo_succ (n : Nat) (f : Nat → Int) : sumTo (n + 1) f = sumTo n f + f n := by
  simp [sumTo, List.range_succ, sumB_append, sumB]

theorem sumTo_add (n : Nat) (f g : Nat → Int) : sumTo n (fun i => f i + g i) = sumTo n f + sumTo n g := by
  induction n with
  | zero => simp [sumTo, sumB]
  | succ n ih => rw [sumTo_succ, sumTo_succ, sumTo_succ, ih]; omega

end InfernoVerif.Batch
