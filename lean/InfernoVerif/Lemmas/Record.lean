import InfernoVerif.Lemmas.Ring
import InfernoVerif.Model.Record
/-! Helper lemmas for C13: constraint association lists, the `_constraints_consistent` loop,
`reconstrain` decisions, tail-preserving resize of a ring, the newest-first abstraction, and the
per-operation refinement lemmas of the record machine.  Core Lean only. -/
namespace InfernoVerif.Shaped
open InfernoVerif.Ring (Err prod slice)

theorem mem_of_lookup {c : Cons} {d : Int} {s : Nat} (h : c.lookup d = some s) : (d, s) ∈ c := by
  induction c with
  | nil => simp at h
  | cons p c ih =>
    obtain ⟨k, v⟩ := p
    by_cases hk : d = k
    · subst hk; simp [List.lookup_cons] at h; simp [h]
    · have : (d == k) = false := by simpa using hk
      simp [List.lookup_cons, this] at h
      exact List.mem_cons_of_mem _ (ih h)

theorem lookup_cons_self (k : Int) (v : Nat) (c : Cons) : List.lookup k ((k, v) :: c) = some v := by
  simp [List.lookup_cons]

theorem lookup_cons_ne {d k : Int} (h : d ≠ k) (v : Nat) (c : Cons) :
    List.lookup d ((k, v) :: c) = List.lookup d c := by
  have : (d == k) = false := by simpa using h
  simp [List.lookup_cons, this]

theorem lookup_map_put (c : Cons) (d : Int) (s : Nat) (d' : Int) :
    (c.map (fun p => if p.1 = d then (d, s) else p)).lookup d' =
      if d' = d then (c.lookup d).map (fun _ => s) else c.lookup d' := by
  induction c with
  | nil => simp
  | cons p c ih =>
    obtain ⟨k, v⟩ := p
    rw [List.map_cons]
    by_cases hk : k = d
    · subst hk
      simp only [if_true]
      by_cases hd : d' = k
      · subst hd; rw [lookup_cons_self, lookup_cons_self, if_pos rfl]; rfl
      · rw [lookup_cons_ne hd, lookup_cons_ne hd, ih, if_neg hd, if_neg hd]
    · simp only [hk, if_false]
      by_cases hd : d' = d
      · subst hd
        have hne : d' ≠ k := fun e => hk e.symm
        rw [lookup_cons_ne hne, lookup_cons_ne hne, ih]
      · rw [if_neg hd]
        by_cases hdk : d' = k
        · subst hdk; rw [lookup_cons_self, lookup_cons_self]
        · rw [lookup_cons_ne hdk, lookup_cons_ne hdk, ih, if_neg hd]

theorem lookup_eq_none_of_not_isSome {c : Cons} {d : Int} (h : ¬ (c.lookup d).isSome = true) :
    c.lookup d = none := by
  cases e : c.lookup d with
  | none => rfl
  | some v => rw [e] at h; simp at h

theorem lookup_append_single (c : Cons) (d : Int) (s : Nat) (d' : Int) :
    (c ++ [(d, s)]).lookup d' = match c.lookup d' with
      | some v => some v
      | none => if d' = d then some s else none := by
  induction c with
  | nil =>
    by_cases h : d' = d
    · subst h; simp [lookup_cons_self]
    · simp [lookup_cons_ne h, h]
  | cons p c ih =>
    obtain ⟨k, v⟩ := p
    rw [List.cons_append]
    by_cases h : d' = k
    · subst h; rw [lookup_cons_self, lookup_cons_self]
    · rw [lookup_cons_ne h, lookup_cons_ne h, ih]

theorem lookup_put_self (c : Cons) (d : Int) (s : Nat) : (c.put d s).lookup d = some s := by
  unfold Cons.put
  split
  · rename_i h
    rw [lookup_map_put, if_pos rfl]
    obtain ⟨v, hv⟩ := Option.isSome_iff_exists.mp h
    simp [hv]
  · rename_i h
    rw [lookup_append_single, lookup_eq_none_of_not_isSome h]; simp

theorem lookup_put_ne (c : Cons) (d : Int) (s : Nat) {d' : Int} (h : d' ≠ d) :
    (c.put d s).lookup d' = c.lookup d' := by
  unfold Cons.put
  split
  · rw [lookup_map_put, if_neg h]
  · rw [lookup_append_single]
    cases c.lookup d' <;> simp [h]

theorem lookup_del_ne (c : Cons) (d : Int) {d' : Int} (h : d' ≠ d) :
    (c.del d).lookup d' = c.lookup d' := by
  unfold Cons.del
  induction c with
  | nil => rfl
  | cons p c ih =>
    obtain ⟨k, v⟩ := p
    by_cases hk : k = d
    · subst hk
      rw [List.filter_cons_of_neg (by simp), lookup_cons_ne h, ih]
    · rw [List.filter_cons_of_pos (by simpa using hk)]
      by_cases hd : d' = k
      · subst hd; rw [lookup_cons_self, lookup_cons_self]
      · rw [lookup_cons_ne hd, lookup_cons_ne hd, ih]

theorem mem_put_self (c : Cons) (d : Int) (s : Nat) : (d, s) ∈ c.put d s :=
  mem_of_lookup (lookup_put_self c d s)

theorem upper_cons (p : Int × Nat) (c : Cons) : upper (p :: c) = max (p.1 + 1).toNat (upper c) := rfl
theorem lower_cons (p : Int × Nat) (c : Cons) : lower (p :: c) = max (-p.1).toNat (lower c) := rfl

theorem lt_upper {c : Cons} {d : Int} {s : Nat} (h : (d, s) ∈ c) (hd : 0 ≤ d) : d.toNat < upper c := by
  induction c with
  | nil => simp at h
  | cons p c ih =>
    rw [upper_cons]
    rcases List.mem_cons.mp h with h | h
    · subst h; simp only; omega
    · have := ih h; omega

theorem le_lower {c : Cons} {d : Int} {s : Nat} (h : (d, s) ∈ c) (hd : d < 0) : d.natAbs ≤ lower c := by
  induction c with
  | nil => simp at h
  | cons p c ih =>
    rw [lower_cons]
    rcases List.mem_cons.mp h with h | h
    · subst h; simp only; omega
    · have := ih h; omega

theorem upper_le_dim (c : Cons) (b : Bool) : upper c ≤ dimensionality c b := by
  unfold dimensionality; split <;> omega
theorem lower_le_dim (c : Cons) (b : Bool) : lower c ≤ dimensionality c b := by
  unfold dimensionality; split <;> omega

/-- Under the dimensionality guard every constrained key indexes an existing tensor dimension:
`shape[d]` in `_constraints_compatible` cannot raise. -/
theorem keys_in_range {c : Cons} {strict : Bool} {nd : Nat} (hg : dimensionality c strict ≤ nd)
    {d : Int} {s : Nat} (h : (d, s) ∈ c) : ∃ i, pyIdx nd d = some i ∧ i < nd := by
  have hu := upper_le_dim c strict
  have hl := lower_le_dim c strict
  unfold pyIdx
  by_cases hd : 0 ≤ d
  · have := lt_upper h hd
    rw [if_pos hd, if_pos (by omega)]; exact ⟨_, rfl, by omega⟩
  · have := le_lower h (by omega)
    rw [if_neg hd, if_pos (by omega)]; exact ⟨_, rfl, by omega⟩

theorem pyIdx_lt {nd : Nat} {d : Int} {i : Nat} (h : pyIdx nd d = some i) : i < nd := by
  unfold pyIdx at h
  split at h <;> split at h <;> simp at h <;> omega

/-- strict constraints address pairwise distinct tensor dimensions. -/
theorem strict_dims_distinct' {c : Cons} {nd : Nat} (hg : upper c + lower c ≤ nd)
    {d1 d2 : Int} {s1 s2 : Nat} (h1 : (d1, s1) ∈ c) (h2 : (d2, s2) ∈ c) (hne : d1 ≠ d2) :
    pyIdx nd d1 ≠ pyIdx nd d2 := by
  unfold pyIdx
  by_cases p1 : 0 ≤ d1 <;> by_cases p2 : 0 ≤ d2
  · have a := lt_upper h1 p1; have b := lt_upper h2 p2
    rw [if_pos p1, if_pos p2, if_pos (by omega), if_pos (by omega)]; simp; omega
  · have a := lt_upper h1 p1; have b := le_lower h2 (by omega)
    rw [if_pos p1, if_neg p2, if_pos (by omega), if_pos (by omega)]; simp; omega
  · have a := le_lower h1 (by omega); have b := lt_upper h2 p2
    rw [if_neg p1, if_pos p2, if_pos (by omega), if_pos (by omega)]; simp; omega
  · have a := le_lower h1 (by omega); have b := le_lower h2 (by omega)
    rw [if_neg p1, if_neg p2, if_pos (by omega), if_pos (by omega)]; simp; omega

/-- what a successful run of the `_constraints_consistent` loop establishes -/
theorem consistentGo_true (c : Cons) (hyp : List (Option Nat)) (h : consistentGo hyp c = some true) :
    (∀ d s, (d, s) ∈ c → ∃ i, pyIdx hyp.length d = some i ∧ ∀ s', hyp[i]? = some (some s') → s' = s) ∧
    (∀ d1 s1 d2 s2 i, (d1, s1) ∈ c → (d2, s2) ∈ c → pyIdx hyp.length d1 = some i →
        pyIdx hyp.length d2 = some i → s1 = s2) := by
  induction c generalizing hyp with
  | nil => simp
  | cons p c ih =>
    obtain ⟨d, s⟩ := p
    unfold consistentGo at h
    split at h
    · simp at h
    · rename_i i hi
      have hil := pyIdx_lt hi
      split at h
      · rename_i s' hs'
        split at h
        · rename_i e
          subst e
          obtain ⟨ih1, ih2⟩ := ih hyp h
          constructor
          · intro d0 s0 hm
            rcases List.mem_cons.mp hm with hm | hm
            · cases hm; exact ⟨i, hi, fun s'' e => by rw [hs'] at e; cases e; rfl⟩
            · exact ih1 d0 s0 hm
          · intro d1 s1 d2 s2 j m1 m2 e1 e2
            rcases List.mem_cons.mp m1 with m1 | m1 <;> rcases List.mem_cons.mp m2 with m2 | m2
            · cases m1; cases m2; rfl
            · cases m1
              rw [hi] at e1; cases e1
              obtain ⟨i2, hi2, hh⟩ := ih1 d2 s2 m2
              rw [e2] at hi2; cases hi2
              exact hh _ hs'
            · cases m2
              rw [hi] at e2; cases e2
              obtain ⟨i2, hi2, hh⟩ := ih1 d1 s1 m1
              rw [e1] at hi2; cases hi2
              exact (hh _ hs').symm
            · exact ih2 d1 s1 d2 s2 j m1 m2 e1 e2
        · simp at h
      · rename_i hno
        obtain ⟨ih1, ih2⟩ := ih _ h
        simp only [List.length_set] at ih1 ih2
        constructor
        · intro d0 s0 hm
          rcases List.mem_cons.mp hm with hm | hm
          · cases hm; exact ⟨i, hi, fun s'' e => absurd e (hno s'')⟩
          · obtain ⟨i0, hi0, hh⟩ := ih1 d0 s0 hm
            refine ⟨i0, hi0, fun s'' e => ?_⟩
            by_cases hii : i0 = i
            · subst hii; exact absurd e (hno s'')
            · apply hh; rw [List.getElem?_set_ne (Ne.symm hii)]; exact e
        · intro d1 s1 d2 s2 j m1 m2 e1 e2
          rcases List.mem_cons.mp m1 with m1 | m1 <;> rcases List.mem_cons.mp m2 with m2 | m2
          · cases m1; cases m2; rfl
          · cases m1
            rw [hi] at e1; cases e1
            obtain ⟨i2, hi2, hh⟩ := ih1 d2 s2 m2
            rw [e2] at hi2; cases hi2
            exact hh _ (by rw [List.getElem?_set_self hil])
          · cases m2
            rw [hi] at e2; cases e2
            obtain ⟨i2, hi2, hh⟩ := ih1 d1 s1 m1
            rw [e1] at hi2; cases hi2
            exact (hh _ (by rw [List.getElem?_set_self hil])).symm
          · exact ih2 d1 s1 d2 s2 j m1 m2 e1 e2

/-- consistent constraints that address the same tensor dimension carry the same size. -/
theorem consistent_alias {c : Cons} {nd : Nat} (h : consistent c nd = some true)
    {d1 d2 : Int} {s1 s2 : Nat} {i : Nat} (m1 : (d1, s1) ∈ c) (m2 : (d2, s2) ∈ c)
    (e1 : pyIdx nd d1 = some i) (e2 : pyIdx nd d2 = some i) : s1 = s2 := by
  have := (consistentGo_true c _ h).2 d1 s1 d2 s2 i m1 m2
  simp only [List.length_replicate] at this
  exact this e1 e2
end InfernoVerif.Shaped

namespace InfernoVerif.Shaped
open InfernoVerif.Ring (Err prod slice)

theorem decide_set {c : Cons} {strict : Bool} {sh? : Option (List Nat)} {dim : Int} {size : Option Int}
    {c' : Cons} (h : reconDecide c strict sh? dim size = .set c') :
    (∃ z : Int, size = some z ∧ 0 ≤ z ∧ c' = c.put dim z.toNat ∧
        ∀ sh, sh? = some sh → compatible sh c' strict = true) ∨
    (size = none ∧ c' = c.del dim) := by
  cases size with
  | none =>
    right
    cases hl : c.lookup dim with
    | none => simp [reconDecide, hl] at h
    | some v =>
      cases sh? with
      | none => simp [reconDecide, hl] at h; exact ⟨rfl, h.symm⟩
      | some sh =>
        by_cases hc : compatible sh (c.del dim) strict = true
        · simp [reconDecide, hl, hc] at h; exact ⟨rfl, h.symm⟩
        · simp [reconDecide, hl, hc] at h
  | some z =>
    left
    by_cases hz : z < 0
    · simp [reconDecide, hz] at h
    · refine ⟨z, rfl, by omega, ?_⟩
      cases hl : c.lookup dim with
      | none =>
        cases sh? with
        | none => simp [reconDecide, hl, hz] at h; exact ⟨h.symm, fun sh e => by simp at e⟩
        | some sh =>
          by_cases h1 : compatible sh c strict = true
          · by_cases h2 : compatible sh (c.put dim z.toNat) strict = true
            · simp [reconDecide, hl, hz, h1, h2] at h
              subst h; exact ⟨rfl, fun sh' e => by cases e; exact h2⟩
            · simp [reconDecide, hl, hz, h1, h2] at h
          · simp [reconDecide, hl, hz, h1] at h
      | some v =>
        cases sh? with
        | none => simp [reconDecide, hl, hz] at h; exact ⟨h.symm, fun sh e => by simp at e⟩
        | some sh =>
          by_cases h1 : dimensionality c strict ≤ sh.length
          · cases h3 : consistent (c.put dim z.toNat) sh.length with
            | none => simp [reconDecide, hl, hz, h1, h3] at h
            | some bb =>
              cases bb with
              | false => simp [reconDecide, hl, hz, h1, h3] at h
              | true =>
                by_cases h2 : compatible sh (c.put dim z.toNat) strict = true
                · simp [reconDecide, hl, hz, h1, h3, h2] at h
                  subst h; exact ⟨rfl, fun sh' e => by cases e; exact h2⟩
                · cases h4 : pyIdx sh.length dim <;> simp [reconDecide, hl, hz, h1, h3, h2, h4] at h
          · simp [reconDecide, hl, hz, h1] at h

theorem decide_setErr {c : Cons} {strict : Bool} {sh? : Option (List Nat)} {dim : Int} {size : Option Int}
    {c' : Cons} {e : Err} (h : reconDecide c strict sh? dim size = .setErr c' e) :
    size = none ∧ c' = c.del dim := by
  cases size with
  | none =>
    cases hl : c.lookup dim with
    | none => simp [reconDecide, hl] at h
    | some v =>
      cases sh? with
      | none => simp [reconDecide, hl] at h
      | some sh =>
        by_cases hc : compatible sh (c.del dim) strict = true
        · simp [reconDecide, hl, hc] at h
        · simp [reconDecide, hl, hc] at h; exact ⟨rfl, h.1.symm⟩
  | some z =>
    by_cases hz : z < 0
    · simp [reconDecide, hz] at h
    · cases hl : c.lookup dim with
      | none =>
        cases sh? with
        | none => simp [reconDecide, hl, hz] at h
        | some sh =>
          by_cases h1 : compatible sh c strict = true
          · by_cases h2 : compatible sh (c.put dim z.toNat) strict = true <;>
              simp [reconDecide, hl, hz, h1, h2] at h
          · simp [reconDecide, hl, hz, h1] at h
      | some v =>
        cases sh? with
        | none => simp [reconDecide, hl, hz] at h
        | some sh =>
          by_cases h1 : dimensionality c strict ≤ sh.length
          · cases h3 : consistent (c.put dim z.toNat) sh.length with
            | none => simp [reconDecide, hl, hz, h1, h3] at h
            | some bb =>
              cases bb with
              | false => simp [reconDecide, hl, hz, h1, h3] at h
              | true =>
                by_cases h2 : compatible sh (c.put dim z.toNat) strict = true
                · simp [reconDecide, hl, hz, h1, h3, h2] at h
                · cases h4 : pyIdx sh.length dim <;> simp [reconDecide, hl, hz, h1, h3, h2, h4] at h
          · simp [reconDecide, hl, hz, h1] at h

theorem decide_resize {c : Cons} {strict : Bool} {sh? : Option (List Nat)} {dim : Int} {size : Option Int}
    {c' : Cons} {t sz : Nat} (h : reconDecide c strict sh? dim size = .resize c' t sz) :
    ∃ (z : Int) (sh : List Nat), size = some z ∧ 0 ≤ z ∧ sz = z.toNat ∧ c' = c.put dim sz ∧ sh? = some sh ∧
      pyIdx sh.length dim = some t ∧ consistent c' sh.length = some true ∧
      compatible sh c' strict = false ∧ (c.lookup dim).isSome = true := by
  cases size with
  | none =>
    cases hl : c.lookup dim with
    | none => simp [reconDecide, hl] at h
    | some v =>
      cases sh? with
      | none => simp [reconDecide, hl] at h
      | some sh =>
        by_cases hc : compatible sh (c.del dim) strict = true <;> simp [reconDecide, hl, hc] at h
  | some z =>
    by_cases hz : z < 0
    · simp [reconDecide, hz] at h
    · cases hl : c.lookup dim with
      | none =>
        cases sh? with
        | none => simp [reconDecide, hl, hz] at h
        | some sh =>
          by_cases h1 : compatible sh c strict = true
          · by_cases h2 : compatible sh (c.put dim z.toNat) strict = true <;>
              simp [reconDecide, hl, hz, h1, h2] at h
          · simp [reconDecide, hl, hz, h1] at h
      | some v =>
        cases sh? with
        | none => simp [reconDecide, hl, hz] at h
        | some sh =>
          by_cases h1 : dimensionality c strict ≤ sh.length
          · cases h3 : consistent (c.put dim z.toNat) sh.length with
            | none => simp [reconDecide, hl, hz, h1, h3] at h
            | some bb =>
              cases bb with
              | false => simp [reconDecide, hl, hz, h1, h3] at h
              | true =>
                by_cases h2 : compatible sh (c.put dim z.toNat) strict = true
                · simp [reconDecide, hl, hz, h1, h3, h2] at h
                · cases h4 : pyIdx sh.length dim with
                  | none => simp [reconDecide, hl, hz, h1, h3, h2, h4] at h
                  | some t' =>
                    simp [reconDecide, hl, hz, h1, h3, h2, h4] at h
                    obtain ⟨e1, e2, e3⟩ := h
                    subst e1 e2 e3
                    exact ⟨z, sh, rfl, by omega, rfl, rfl, rfl, h4, h3, by simpa using h2, by simp⟩
          · simp [reconDecide, hl, hz, h1] at h

theorem compatible_met {sh : List Nat} {c : Cons} {strict : Bool} (h : compatible sh c strict = true)
    {d : Int} {z : Nat} (hm : (d, z) ∈ c) : met sh (d, z) = true := by
  unfold compatible at h
  split at h
  · simp at h
  · exact List.all_eq_true.mp h _ hm

theorem met_zero {n : Nat} {sh : List Nat} {z : Nat} (h : met (n :: sh) (0, z) = true) : n = z := by
  unfold met pyIdx at h
  simp at h
  exact h

end InfernoVerif.Shaped

namespace InfernoVerif.Shaped
open InfernoVerif.Ring (Err prod slice)

theorem met_iff (sh : List Nat) (d : Int) (z : Nat) :
    met sh (d, z) = true ↔ ∃ i, pyIdx sh.length d = some i ∧ sh[i]? = some z := by
  unfold met
  cases pyIdx sh.length d with
  | none => simp
  | some i => simp

/-- if every key indexes an existing dimension, the non-strict dimensionality demand is met -/
theorem inrange_bounds {c : Cons} {nd : Nat}
    (h : ∀ d z, (d, z) ∈ c → ∃ i, pyIdx nd d = some i) : upper c ≤ nd ∧ lower c ≤ nd := by
  induction c with
  | nil => simp [upper, lower]
  | cons p c ih =>
    obtain ⟨d, z⟩ := p
    obtain ⟨ih1, ih2⟩ := ih (fun d' z' hm => h d' z' (List.mem_cons_of_mem _ hm))
    obtain ⟨i, hi⟩ := h d z (List.mem_cons_self ..)
    rw [upper_cons, lower_cons]
    simp only
    unfold pyIdx at hi
    by_cases hd : 0 ≤ d
    · rw [if_pos hd] at hi
      split at hi
      · constructor <;> omega
      · cases hi
    · rw [if_neg hd] at hi
      split at hi
      · constructor <;> omega
      · cases hi


end InfernoVerif.Shaped

namespace InfernoVerif.Record
open InfernoVerif.Ring InfernoVerif.Shaped
variable {α : Type}

theorem resizeTail_length (l : List α) (size : Nat) (z : α) : (resizeTail l size z).length = size := by
  unfold resizeTail
  split
  · simp; omega
  · split
    · simp; omega
    · omega

theorem newest_ptr0 (n : Nat) (rows : List α) : Ring.newest ⟨n, 0, rows⟩ = rows.reverse := by
  cases rows with
  | nil => simp [Ring.newest, Ring.abs]
  | cons a t => simp [Ring.newest, Ring.abs]

theorem reverse_resizeTail (rows : List α) (size : Nat) (z : α) :
    (resizeTail rows size z).reverse = specResize rows.reverse size z := by
  unfold resizeTail specResize
  split
  · rename_i h
    rw [List.reverse_drop]
    have : size - rows.reverse.length = 0 := by simp; omega
    rw [this]; simp
    congr 1; omega
  · split
    · rename_i h1 h2
      simp only [List.reverse_append, List.reverse_replicate, List.length_reverse]
      rw [List.take_of_length_le (by simp; omega)]
    · rename_i h1 h2
      have : size - rows.reverse.length = 0 := by simp; omega
      rw [this]; simp
      rw [List.take_of_length_le (by simp; omega)]

theorem newest_length (r : Ring α) (h : r.WF) : r.newest.length = r.n := by
  have hl := abs_length r h
  unfold Ring.newest
  simp [hl]; have := h.1; omega

theorem newest_align (r : Ring α) (h : r.WF) : (r.align 0).newest = r.newest := by
  unfold Ring.newest; rw [align_refines r h 0 h.1]

theorem reconstrain0_wf (r : Ring α) (size : Nat) (hs : 0 < size) (z : α) :
    (r.reconstrain0 size z).WF := by
  refine ⟨hs, ?_, ?_⟩
  · simp [Ring.reconstrain0, Ring.align]; exact hs
  · simp [Ring.reconstrain0, resizeTail_length]

theorem reconstrain0_newest (r : Ring α) (h : r.WF) (size : Nat) (z : α) :
    (r.reconstrain0 size z).newest = specResize r.newest size z := by
  rw [← newest_align r h]
  have e1 : r.reconstrain0 size z = ⟨size, 0, resizeTail (r.align 0).data size z⟩ := by
    simp [Ring.reconstrain0, Ring.align]
  have e2 : r.align 0 = ⟨r.n, 0, (r.align 0).data⟩ := by simp [Ring.align]
  rw [e1, newest_ptr0, reverse_resizeTail]
  conv => rhs; rw [e2, newest_ptr0]

theorem newest_getElem? (r : Ring α) (h : r.WF) {j : Nat} (hj : j < r.n) :
    r.newest[j]? = r.read ((j : Int) + 1) := by
  have hl := abs_length r h
  rw [read_refines r h]
  unfold Ring.newest specRead
  rw [hl]
  have key : specIdx r.n ((j:Int) + 1) = (j + 1) % r.n := by
    apply Int.ofNat_inj.mp
    rw [specIdx_cast h.1]; simp
  rw [key]
  by_cases h1 : r.n = 1
  · have hj0 : j = 0 := by omega
    subst hj0
    rw [List.drop_eq_nil_of_le (by omega), List.take_of_length_le (by omega)]
    simp [h1]
  · have := rotl_getElem? r.abs (K := 1) (k := j) (by omega) (by omega)
    rw [this, hl]

end InfernoVerif.Record

namespace InfernoVerif.Record
open InfernoVerif.Ring InfernoVerif.Shaped
variable {α β τ : Type}

theorem newest_map (f : α → β) (n n' p : Nat) (rows : List α) :
    Ring.newest ⟨n, p, rows.map f⟩ = (Ring.newest ⟨n', p, rows⟩).map f := by
  simp [Ring.newest, Ring.abs, List.map_drop, List.map_take]

theorem newest_push (r : Ring α) (h : r.WF) (x : α) (b : Bool) :
    (r.push x b).newest = (x :: r.newest).take r.n := by
  have hw := push_wf' r h x b
  have hn : (r.push x b).n = r.n := by
    simp [Ring.push, Ring.incr, Ring.write, Ring.writeInplace, Ring.writeSplice]; split <;> rfl
  have hl := abs_length r h
  have hnl := newest_length r h
  apply List.ext_getElem?
  intro j
  by_cases hj : j < r.n
  · rw [newest_getElem? _ hw (by omega), read_refines _ hw, push_refines' r h x b,
      specRead_push _ (by rw [hl]; exact h.1)]
    unfold specRead
    rw [List.length_set, hl, specIdx_nat hj, List.getElem?_take, if_pos hj]
    cases j with
    | zero => simp [hl, h.1]
    | succ j' =>
      rw [List.getElem?_cons_succ, newest_getElem? r h (by omega), read_refines r h]
      unfold specRead
      rw [hl]
      have : specIdx r.n ((j' : Int) + 1) = j' + 1 := by
        have := @specIdx_nat r.n (j' + 1) hj
        simpa using this
      rw [this, List.getElem?_set_ne (by omega)]
  · rw [List.getElem?_eq_none (by rw [newest_length _ hw, hn]; omega),
      List.getElem?_eq_none (by simp [hnl]; omega)]

theorem freshRows_newest (n n' : Nat) (sh : List Nat) :
    Ring.newest ⟨n', 0, freshRows n sh⟩ = freshRows n sh := by
  rw [newest_ptr0]; simp [freshRows]

theorem freshRows_wf (n : Nat) (hn : 0 < n) (sh : List Nat) : (⟨n, 0, freshRows n sh⟩ : Ring Row).WF :=
  ⟨hn, hn, by simp [freshRows]⟩

/-- initialised storage of the state has its pointer at 0 (what `align(0)` establishes). -/
def Aligned (s : MState τ) : Prop :=
  match s.store with
  | .init _ (p, _) => p = 0
  | _ => True

theorem sabs_cons (s : MState τ) (c : Cons) : sabs { s with cons := c } = { sabs s with cons := c } := rfl

theorem shape_agree (s : MState τ) (hw : MWF s) : sShape? (sabs s).store = mShape? s.store := by
  obtain ⟨n, hn, hpos, hst⟩ := hw
  unfold sabs
  cases hs : s.store with
  | none => rfl
  | empty => rfl
  | uninit => rfl
  | init sh d =>
    obtain ⟨p, rows⟩ := d
    rw [hs] at hst
    obtain ⟨hlen, hp⟩ := hst
    simp only [sShape?, mShape?]
    have : (⟨rows.length, p, rows⟩ : Ring Row).WF :=
      ⟨by show 0 < rows.length; omega, by show p < rows.length; omega, rfl⟩
    rw [newest_length _ this]

theorem align0_props (s : MState τ) (hw : MWF s) :
    sabs (align0 s) = sabs s ∧ MWF (align0 s) ∧ Aligned (align0 s) ∧
    (align0 s).cons = s.cons ∧ (align0 s).strict = s.strict ∧ mShape? (align0 s).store = mShape? s.store := by
  obtain ⟨n, hn, hpos, hst⟩ := hw
  cases hs : s.store with
  | none => simp [align0, hs, Aligned]; exact ⟨n, hn, hpos, by simp [hs]⟩
  | empty => simp [align0, hs, Aligned]; exact ⟨n, hn, hpos, by simp [hs]⟩
  | uninit => simp [align0, hs, Aligned]; exact ⟨n, hn, hpos, by simp [hs]⟩
  | init sh d =>
    obtain ⟨p, rows⟩ := d
    rw [hs] at hst
    obtain ⟨hlen, hp⟩ := hst
    have hr : (⟨n, p, rows⟩ : Ring Row).WF := ⟨hpos, hp, hlen⟩
    have key := newest_align _ hr
    simp only [Ring.align] at key
    refine ⟨?_, ⟨n, ?_, hpos, ?_⟩, ?_, ?_, ?_, ?_⟩
    · simp only [align0, hs, sabs]
      congr 2 <;> simpa using key
    · simp [align0, hs, hn]
    · simp [align0, hs, roll_length, hlen, hpos]
    · simp [align0, hs, Aligned]
    · simp [align0, hs]
    · simp [align0, hs]
    · simp [align0, hs, mShape?, roll_length]

theorem apply_refines (s : MState τ) (ha : Aligned s) (D : Decision) :
    sabs (applyM s D).1 = (applyS (sabs s) D).1 ∧ (applyM s D).2 = (applyS (sabs s) D).2 := by
  cases D with
  | err e => exact ⟨rfl, rfl⟩
  | set c => exact ⟨rfl, rfl⟩
  | setErr c e => exact ⟨rfl, rfl⟩
  | resize c t size =>
    cases hs : s.store with
    | none => simp [applyM, applyS, sabs, hs]
    | empty => simp [applyM, applyS, sabs, hs]
    | uninit => simp [applyM, applyS, sabs, hs]
    | init sh d =>
      obtain ⟨p, rows⟩ := d
      have hp : p = 0 := by simpa [Aligned, hs] using ha
      subst hp
      by_cases ht : t = 0
      · subst ht
        simp only [applyM, applyS, sabs, hs, if_true]
        refine ⟨?_, trivial⟩
        congr 2
        rw [newest_ptr0, newest_ptr0, reverse_resizeTail]
      · simp only [applyM, applyS, sabs, hs, ht, if_false]
        refine ⟨?_, trivial⟩
        congr 2
        exact newest_map _ _ _ _ _

theorem pyIdx_zero {nd : Nat} (h : 0 < nd) : pyIdx nd 0 = some 0 := by
  simp [pyIdx, h]

theorem apply_wf (s : MState τ) (hw : MWF s) (ha : Aligned s) (rawdim : Int) (size : Option Int)
    (hsz : rawdim = 0 → ∃ z : Int, size = some z ∧ 1 ≤ z) :
    MWF (applyM s (reconDecide s.cons s.strict (mShape? s.store) rawdim size)).1 := by
  obtain ⟨n, hn, hpos, hst⟩ := hw
  cases hD : reconDecide s.cons s.strict (mShape? s.store) rawdim size with
  | err e => exact ⟨n, hn, hpos, hst⟩
  | setErr c' e =>
    obtain ⟨e1, e2⟩ := decide_setErr hD
    have hne : rawdim ≠ 0 := fun h0 => by obtain ⟨z, hz, _⟩ := hsz h0; rw [hz] at e1; cases e1
    subst e2
    exact ⟨n, by simp only [applyM]; rw [lookup_del_ne _ _ (Ne.symm hne)]; exact hn, hpos, hst⟩
  | set c' =>
    rcases decide_set hD with ⟨z, e1, hz, e2, hc⟩ | ⟨e1, e2⟩
    · subst e2
      by_cases h0 : rawdim = 0
      · subst h0
        obtain ⟨z', hz', hz1⟩ := hsz rfl
        rw [e1] at hz'; cases hz'
        refine ⟨z.toNat, by simp only [applyM]; exact lookup_put_self _ _ _, by omega, ?_⟩
        simp only [applyM]
        cases hs : s.store with
        | none => trivial
        | empty => trivial
        | uninit => trivial
        | init sh d =>
          obtain ⟨p, rows⟩ := d
          have hp : p = 0 := by simpa [Aligned, hs] using ha
          have hcm := hc (rows.length :: sh) (by simp [hs, mShape?])
          have := met_zero (compatible_met hcm (mem_put_self s.cons 0 z.toNat))
          simp only
          exact ⟨this, by omega⟩
      · exact ⟨n, by simp only [applyM]; rw [lookup_put_ne _ _ _ (Ne.symm h0)]; exact hn, hpos, hst⟩
    · have hne : rawdim ≠ 0 := fun h0 => by obtain ⟨z, hz, _⟩ := hsz h0; rw [hz] at e1; cases e1
      subst e2
      exact ⟨n, by simp only [applyM]; rw [lookup_del_ne _ _ (Ne.symm hne)]; exact hn, hpos, hst⟩
  | resize c' t sz =>
    obtain ⟨z, shp, e1, hz, e2, e3, e4, e5, e6, e7, e8⟩ := decide_resize hD
    cases hs : s.store with
    | none => simp [hs, mShape?] at e4
    | empty => simp [hs, mShape?] at e4
    | uninit => simp [hs, mShape?] at e4
    | init sh d =>
      obtain ⟨p, rows⟩ := d
      have hp : p = 0 := by simpa [Aligned, hs] using ha
      rw [hs] at hst
      obtain ⟨hlen, _⟩ := hst
      simp only [hs, mShape?, Option.some.injEq] at e4
      subst e4
      simp only [List.length_cons] at e5 e6
      subst e3
      by_cases h0 : rawdim = 0
      · subst h0
        obtain ⟨z', hz', hz1⟩ := hsz rfl
        rw [e1] at hz'; cases hz'
        rw [pyIdx_zero (by omega)] at e5
        cases e5
        refine ⟨sz, by simp only [applyM, hs]; exact lookup_put_self _ _ _, by omega, ?_⟩
        simp only [applyM, hs, if_true]
        exact ⟨resizeTail_length _ _ _, by omega⟩
      · have hl0 : (s.cons.put rawdim sz).lookup 0 = some n := by
          rw [lookup_put_ne _ _ _ (Ne.symm h0)]; exact hn
        by_cases ht : t = 0
        · subst ht
          have := consistent_alias e6 (mem_of_lookup hl0) (mem_put_self s.cons rawdim sz)
            (pyIdx_zero (by omega)) e5
          subst this
          refine ⟨n, by simp only [applyM, hs]; exact hl0, hpos, ?_⟩
          simp only [applyM, hs, if_true]
          exact ⟨resizeTail_length _ _ _, by omega⟩
        · refine ⟨n, by simp only [applyM, hs, ht, if_false]; exact hl0, hpos, ?_⟩
          simp only [applyM, hs, ht, if_false]
          exact ⟨by simp [hlen], by omega⟩

theorem shapedRecon_refines (s : MState τ) (hw : MWF s) (rawdim : Int) (size : Option Int)
    (hsz : rawdim = 0 → ∃ z : Int, size = some z ∧ 1 ≤ z) :
    sabs (shapedReconM (align0 s) rawdim size).1 = (shapedReconS (sabs s) rawdim size).1 ∧
    (shapedReconM (align0 s) rawdim size).2 = (shapedReconS (sabs s) rawdim size).2 ∧
    MWF (shapedReconM (align0 s) rawdim size).1 := by
  obtain ⟨a1, a2, a3, a4, a5, a6⟩ := align0_props s hw
  have hsh := shape_agree s hw
  unfold shapedReconM shapedReconS
  have hD : reconDecide (sabs s).cons (sabs s).strict (sShape? (sabs s).store) rawdim size =
      reconDecide (align0 s).cons (align0 s).strict (mShape? (align0 s).store) rawdim size := by
    rw [hsh, a4, a5, a6]; rfl
  rw [hD]
  obtain ⟨b1, b2⟩ := apply_refines (align0 s) a3
    (reconDecide (align0 s).cons (align0 s).strict (mShape? (align0 s).store) rawdim size)
  rw [a1] at b1 b2
  exact ⟨b1, b2, apply_wf (align0 s) a2 a3 rawdim size hsz⟩

theorem resizeTo_refines (s : MState τ) (hw : MWF s) (size : Nat) (hs : 1 ≤ size) :
    sabs (resizeToM s size).1 = (resizeToS (sabs s) size).1 ∧
    (resizeToM s size).2 = (resizeToS (sabs s) size).2 ∧ MWF (resizeToM s size).1 := by
  obtain ⟨n, hn, hpos, hst⟩ := hw
  have hn' : (sabs s).cons.lookup 0 = some n := hn
  unfold resizeToM resizeToS
  rw [hn, hn']
  simp only
  by_cases he : size = n
  · simp only [he, if_true]
    refine ⟨?_, ?_, ?_⟩
    all_goals first | rfl | trivial | exact ⟨n, hn, hpos, hst⟩
  · simp only [he, if_false]
    exact shapedRecon_refines s ⟨n, hn, hpos, hst⟩ 0 (some (size : Int)) (fun _ => ⟨size, rfl, by omega⟩)

theorem recSize_pos (T : TimeOps τ) (dt dur : τ) (incl : Bool) : 1 ≤ recSize T dt dur incl := by
  unfold recSize; omega

end InfernoVerif.Record

namespace InfernoVerif.Record
open InfernoVerif.Ring InfernoVerif.Shaped
variable {α β τ : Type}

theorem applyM_fields (s : MState τ) (D : Decision) :
    (applyM s D).1.dt = s.dt ∧ (applyM s D).1.dur = s.dur ∧ (applyM s D).1.incl = s.incl := by
  cases D with
  | err e => exact ⟨rfl, rfl, rfl⟩
  | set c => exact ⟨rfl, rfl, rfl⟩
  | setErr c e => exact ⟨rfl, rfl, rfl⟩
  | resize c t size =>
    unfold applyM
    cases s.store with
    | none => exact ⟨rfl, rfl, rfl⟩
    | empty => exact ⟨rfl, rfl, rfl⟩
    | uninit => exact ⟨rfl, rfl, rfl⟩
    | init sh d =>
      obtain ⟨p, rows⟩ := d
      simp only
      split <;> exact ⟨rfl, rfl, rfl⟩

theorem align0_fields (s : MState τ) :
    (align0 s).dt = s.dt ∧ (align0 s).dur = s.dur ∧ (align0 s).incl = s.incl ∧
    (align0 s).cons = s.cons ∧ (align0 s).strict = s.strict := by
  unfold align0
  cases s.store with
  | none => exact ⟨rfl, rfl, rfl, rfl, rfl⟩
  | empty => exact ⟨rfl, rfl, rfl, rfl, rfl⟩
  | uninit => exact ⟨rfl, rfl, rfl, rfl, rfl⟩
  | init sh d => obtain ⟨p, rows⟩ := d; exact ⟨rfl, rfl, rfl, rfl, rfl⟩

/-- a decision taken for a raw dim other than 0 never touches the record-dimension constraint -/
theorem apply_lookup0 (s : MState τ) (c : Cons) (strict : Bool) (sh? : Option (List Nat)) (rawdim : Int)
    (size : Option Int) (hc : c = s.cons) (hne : rawdim ≠ 0) :
    (applyM s (reconDecide c strict sh? rawdim size)).1.cons.lookup 0 = s.cons.lookup 0 := by
  subst hc
  cases hD : reconDecide s.cons strict sh? rawdim size with
  | err e => rfl
  | setErr c' e =>
    obtain ⟨_, e2⟩ := decide_setErr hD
    subst e2; exact lookup_del_ne _ _ (Ne.symm hne)
  | set c' =>
    rcases decide_set hD with ⟨z, _, _, e2, _⟩ | ⟨_, e2⟩
    · subst e2; exact lookup_put_ne _ _ _ (Ne.symm hne)
    · subst e2; exact lookup_del_ne _ _ (Ne.symm hne)
  | resize c' t sz =>
    obtain ⟨z, shp, _, _, _, e3, _⟩ := decide_resize hD
    subst e3
    unfold applyM
    cases s.store with
    | none => rfl
    | empty => rfl
    | uninit => rfl
    | init sh d =>
      obtain ⟨p, rows⟩ := d
      simp only
      split <;> exact lookup_put_ne _ _ _ (Ne.symm hne)

/-- a decision for raw dim 0 with a requested size, when it does not raise, installs that size -/
theorem apply_lookup0_set (s : MState τ) (c : Cons) (strict : Bool) (sh? : Option (List Nat)) (size : Nat)
    (hu : (applyM s (reconDecide c strict sh? 0 (some (size : Int)))).2 = .unit) :
    (applyM s (reconDecide c strict sh? 0 (some (size : Int)))).1.cons.lookup 0 = some size := by
  cases hD : reconDecide c strict sh? 0 (some (size : Int)) with
  | err e => rw [hD] at hu; simp [applyM] at hu
  | setErr c' e => rw [hD] at hu; simp [applyM] at hu
  | set c' =>
    rcases decide_set hD with ⟨z, e1, _, e2, _⟩ | ⟨e1, _⟩
    · cases e1; subst e2; simp only [applyM, Int.toNat_natCast]; exact lookup_put_self _ _ _
    · cases e1
  | resize c' t sz =>
    obtain ⟨z, shp, e1, _, e2, e3, _⟩ := decide_resize hD
    cases e1
    simp only [Int.toNat_natCast] at e2
    subst e2 e3
    rw [hD] at hu
    unfold applyM at hu ⊢
    cases hs : s.store with
    | none => rw [hs] at hu; simp at hu
    | empty => rw [hs] at hu; simp at hu
    | uninit => rw [hs] at hu; simp at hu
    | init sh d =>
      obtain ⟨p, rows⟩ := d
      simp only
      split <;> exact lookup_put_self _ _ _

theorem resizeTo_unit (s : MState τ) (size : Nat) (hu : (resizeToM s size).2 = .unit) :
    (resizeToM s size).1.cons.lookup 0 = some size ∧ (resizeToM s size).1.dt = s.dt ∧
    (resizeToM s size).1.dur = s.dur ∧ (resizeToM s size).1.incl = s.incl := by
  unfold resizeToM at hu ⊢
  cases hl : s.cons.lookup 0 with
  | none => rw [hl] at hu; simp at hu
  | some n =>
    rw [hl] at hu
    simp only at hu ⊢
    by_cases he : size = n
    · simp only [he, if_true]
      refine ⟨?_, ?_, ?_, ?_⟩
      all_goals first | exact hl | rfl | trivial
    · simp only [he, if_false] at hu ⊢
      obtain ⟨a1, a2, a3, a4, a5⟩ := align0_fields s
      unfold shapedReconM at hu ⊢
      obtain ⟨b1, b2, b3⟩ := applyM_fields (align0 s)
        (reconDecide (align0 s).cons (align0 s).strict (mShape? (align0 s).store) 0 (some (size : Int)))
      exact ⟨apply_lookup0_set _ _ _ _ _ hu, by rw [b1, a1], by rw [b2, a2], by rw [b3, a3]⟩

/-- operations other than the temporal setters leave dt, duration, inclusive and the record
dimension's constraint alone, whatever they return -/
theorem nonsetter_keeps (T : TimeOps τ) (s : MState τ) (op : Op τ) (h : op.isSetter = false) :
    (step T s op).1.cons.lookup 0 = s.cons.lookup 0 ∧ (step T s op).1.dt = s.dt ∧
    (step T s op).1.dur = s.dur ∧ (step T s op).1.incl = s.incl := by
  cases op with
  | setDt v => simp [Op.isSetter] at h
  | setDur v => simp [Op.isSetter] at h
  | setIncl b => simp [Op.isSetter] at h
  | recon dim size =>
    simp only [step]
    obtain ⟨a1, a2, a3, a4, a5⟩ := align0_fields s
    unfold shapedReconM
    obtain ⟨b1, b2, b3⟩ := applyM_fields (align0 s)
      (reconDecide (align0 s).cons (align0 s).strict (mShape? (align0 s).store)
        (if 0 ≤ dim then dim + 1 else dim) size)
    refine ⟨?_, by rw [b1, a1], by rw [b2, a2], by rw [b3, a3]⟩
    rw [apply_lookup0 (align0 s) _ _ _ _ _ rfl (by split <;> omega), a4]
  | push xsh x b =>
    simp only [step]
    cases hl : s.cons.lookup 0 with
    | none => exact ⟨hl, rfl, rfl, rfl⟩
    | some n =>
      simp only
      cases s.store with
      | init sh d =>
        obtain ⟨p, rows⟩ := d
        simp only
        split <;> exact ⟨hl, rfl, rfl, rfl⟩
      | none => exact ⟨hl, rfl, rfl, rfl⟩
      | empty => exact ⟨hl, rfl, rfl, rfl⟩
      | uninit => exact ⟨hl, rfl, rfl, rfl⟩
  | assign k =>
    cases k <;> simp only [step] <;> (try split) <;>
      (refine ⟨?_, ?_, ?_, ?_⟩ <;> first | rfl | trivial)
  | initz sh =>
    simp only [step]
    cases hl : s.cons.lookup 0 <;> exact ⟨hl, rfl, rfl, rfl⟩

end InfernoVerif.Record

namespace InfernoVerif.Record
open InfernoVerif.Ring InfernoVerif.Shaped
variable {α β τ : Type}

theorem specResize_self (h : List α) (z : α) : specResize h h.length z = h := by
  unfold specResize; simp

/-- specification machine: a setter's common tail that returns turns an `n`-slot history into
its truncation / zero-padding to the new size. -/
theorem resizeToS_store (s : SState τ) (sh : List Nat) (h : List Row) (hs : s.store = .init sh h)
    (hn : s.cons.lookup 0 = some h.length) (size : Nat)
    (hu : (resizeToS s size).2 = .unit) :
    (resizeToS s size).1.store = .init sh (specResize h size (zeroRow sh)) := by
  unfold resizeToS at hu ⊢
  rw [hn] at hu ⊢
  simp only at hu ⊢
  by_cases he : size = h.length
  · simp only [he, if_true]; rw [hs, specResize_self]
  · simp only [he, if_false] at hu ⊢
    unfold shapedReconS at hu ⊢
    have hshape : sShape? s.store = some (h.length :: sh) := by rw [hs]; rfl
    rw [hshape] at hu ⊢
    cases hD : reconDecide s.cons s.strict (some (h.length :: sh)) 0 (some (size : Int)) with
    | err e => rw [hD] at hu; simp [applyS] at hu
    | setErr c' e => rw [hD] at hu; simp [applyS] at hu
    | set c' =>
      rcases decide_set hD with ⟨z, e1, _, e2, hc⟩ | ⟨e1, _⟩
      · cases e1
        subst e2
        have := met_zero (compatible_met (hc _ rfl) (mem_put_self s.cons 0 (size : Int).toNat))
        simp at this
        omega
      · cases e1
    | resize c' t sz =>
      obtain ⟨z, shp, e1, _, e2, e3, e4, e5, _⟩ := decide_resize hD
      cases e1; cases e4
      simp only [Int.toNat_natCast] at e2
      subst e2
      rw [pyIdx_zero (by simp)] at e5
      cases e5
      simp only [applyS, hs, if_true]


end InfernoVerif.Record
