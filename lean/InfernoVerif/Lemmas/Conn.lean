import InfernoVerif.Model.Conn
import Mathlib.Tactic.Ring
import Mathlib.Algebra.BigOperators.Group.Finset.Basic
/-!
Helper lemmas for C05 (`Props/C05.lean`): range sums, list access, the index bijections
`n ↔ (c, kh, kw)` and `l ↔ (oh, ow)`, flattening of uniform nested lists, the lateral mask and
its invariant, the output-size formula, fold ∘ unfold.
-/
namespace InfernoVerif.Conn
open Finset
variable {α : Type}

theorem sumTo_eq_sum [AddCommMonoid α] (n : Nat) (f : Nat → α) : sumTo n f = ∑ i ∈ range n, f i := by
  induction n with
  | zero => simp [sumTo]
  | succ n ih => simp [sumTo, Finset.sum_range_succ, ih]

theorem sumTo_congr [Add α] [Zero α] (n : Nat) (f g : Nat → α) (h : ∀ i < n, f i = g i) :
    sumTo n f = sumTo n g := by
  induction n with
  | zero => rfl
  | succ n ih =>
    simp only [sumTo]
    rw [ih (fun i hi => h i (by omega)), h n (by omega)]

theorem sumTo_add [AddCommMonoid α] (m n : Nat) (f : Nat → α) :
    sumTo (m + n) f = sumTo m f + sumTo n (fun j => f (m + j)) := by
  induction n with
  | zero => simp [sumTo]
  | succ n ih =>
    show sumTo (m + n) f + f (m + n) = _
    rw [ih]; simp only [sumTo, add_assoc]

/-- a sum over `a·b` indices is the nested sum over `(i, j) ↦ i·b + j` -/
theorem sumTo_mul [AddCommMonoid α] (a b : Nat) (f : Nat → α) :
    sumTo (a * b) f = sumTo a (fun i => sumTo b (fun j => f (i * b + j))) := by
  induction a with
  | zero => simp [sumTo]
  | succ a ih => rw [Nat.succ_mul, sumTo_add, ih]; simp only [sumTo]

theorem sumTo_zero [AddCommMonoid α] (n : Nat) : sumTo n (fun _ => (0 : α)) = 0 := by
  induction n with
  | zero => rfl
  | succ n ih => simp [sumTo, ih]

theorem sumTo_succ_front [AddCommMonoid α] (n : Nat) (f : Nat → α) :
    sumTo (n + 1) f = f 0 + sumTo n (fun i => f (i + 1)) := by
  rw [Nat.add_comm, sumTo_add]; simp [sumTo, Nat.add_comm]

theorem dot_eq_sumTo [CommSemiring α] (x w : List α) :
    dot x w = sumTo x.length (fun i => vget x i * vget w i) := by
  induction x generalizing w with
  | nil => simp [dot, sumTo]
  | cons a xs ih =>
    cases w with
    | nil =>
      simp only [dot, vget, List.getD_nil, mul_zero]
      exact (sumTo_zero _).symm
    | cons b ws =>
      simp only [dot, List.length_cons]
      rw [sumTo_succ_front, ih]
      simp [vget]

/-! ### list helpers -/

theorem map_eq_range_map {β γ : Type} (l : List β) (f : β → γ) (d : β) :
    l.map f = (List.range l.length).map (fun i => f (l.getD i d)) := by
  apply List.ext_getElem (by simp)
  intro i h1 h2
  simp at h1
  simp [List.getD_eq_getElem?_getD, h1]

theorem zipWith_range_map {β γ δ : Type} (n : Nat) (g : Nat → β) (l : List γ) (hl : l.length = n) (op : β → γ → δ)
    (d : γ) : List.zipWith op ((List.range n).map g) l = (List.range n).map (fun i => op (g i) (l.getD i d)) := by
  apply List.ext_getElem (by simp [hl])
  intro i h1 h2
  simp at h1
  simp [List.getD_eq_getElem?_getD, h1]

theorem getD_range_map {β : Type} (n : Nat) (g : Nat → β) (i : Nat) (h : i < n) (d : β) :
    ((List.range n).map g).getD i d = g i := by
  simp [List.getD_eq_getElem?_getD, h]

theorem mget_transpose [Zero α] (N M : Nat) (W : List (List α)) (i o : Nat) (hi : i < M) (ho : o < N) :
    mget (transpose N M W) i o = mget W o i := by
  unfold transpose
  rw [mget, getD_range_map _ _ _ hi, getD_range_map _ _ _ ho]

theorem Shape2.getD_length {m : List (List α)} {r c : Nat} (h : Shape2 m r c) (i : Nat) (hi : i < r) :
    (m.getD i []).length = c := by
  obtain ⟨h1, h2⟩ := h
  have : i < m.length := by omega
  rw [List.getD_eq_getElem?_getD, List.getElem?_eq_getElem this]
  exact h2 _ (List.getElem_mem this)

theorem linearRow_eq_spec [CommSemiring α] (N M : Nat) (W : List (List α)) (hW : Shape2 W N M)
    (b : Option (List α)) (hb : ∀ bv, b = some bv → bv.length = N) (x : List α) (hx : x.length = M) :
    linearRow W b x = denseSpecRow N M W b x := by
  have h1 : W.map (dot x) = (List.range N).map (fun o => sumTo M (fun i => vget x i * mget (transpose N M W) i o)) := by
    rw [map_eq_range_map W (dot x) [], hW.1]
    apply List.map_congr_left
    intro o ho
    simp at ho
    rw [dot_eq_sumTo, hx]
    apply sumTo_congr
    intro i hi
    rw [mget_transpose N M W i o hi ho]; rfl
  unfold linearRow denseSpecRow
  cases b with
  | none => simp only [h1, biasAt, add_zero]
  | some bv =>
    simp only [h1, biasAt]
    exact zipWith_range_map N _ bv (hb bv rfl) _ 0

theorem zipWith_eq_range_map {β γ δ : Type} (n : Nat) (a : List β) (l : List γ) (ha : a.length = n) (hl : l.length = n)
    (op : β → γ → δ) (da : β) (d : γ) :
    List.zipWith op a l = (List.range n).map (fun i => op (a.getD i da) (l.getD i d)) := by
  apply List.ext_getElem (by simp [hl, ha])
  intro i h1 h2
  simp [ha, hl] at h1
  have h3 : i < a.length := by omega
  have h4 : i < l.length := by omega
  simp [List.getD_eq_getElem?_getD, h3, h4]

theorem directRow_eq_spec [CommSemiring α] (N : Nat) (w : List α) (hw : w.length = N)
    (b : Option (List α)) (hb : ∀ bv, b = some bv → bv.length = N) (x : List α) (hx : x.length = N) :
    directRow w b x = directSpecRow N w b x := by
  have h1 : List.zipWith (· * ·) x w = (List.range N).map (fun i => vget x i * vget w i) :=
    zipWith_eq_range_map N x w hx hw _ 0 0
  unfold directRow directSpecRow
  cases b with
  | none => simp only [h1, biasAt, add_zero]
  | some bv =>
    simp only [h1, biasAt]
    exact zipWith_range_map N _ bv (hb bv rfl) _ 0

/-! ### lateral -/

theorem shape2_range_map (n m : Nat) (g : Nat → Nat → α) :
    Shape2 ((List.range n).map fun i => (List.range m).map fun j => g i j) n m := by
  refine ⟨by simp, ?_⟩
  intro row hrow
  simp only [List.mem_map, List.mem_range] at hrow
  obtain ⟨i, _, rfl⟩ := hrow
  simp

theorem mget_range_map [Zero α] (n m : Nat) (g : Nat → Nat → α) (i j : Nat) (hi : i < n) (hj : j < m) :
    mget ((List.range n).map fun i => (List.range m).map fun j => g i j) i j = g i j := by
  rw [mget, getD_range_map _ _ _ hi, getD_range_map _ _ _ hj]

theorem zipWith_map_range_right {β γ δ : Type} (n : Nat) (l : List β) (hl : l.length = n) (g : Nat → γ)
    (op : β → γ → δ) (d : β) :
    List.zipWith op l ((List.range n).map g) = (List.range n).map (fun i => op (l.getD i d) (g i)) := by
  apply List.ext_getElem (by simp [hl])
  intro i h1 h2
  simp [hl] at h1
  have h3 : i < l.length := by omega
  simp [List.getD_eq_getElem?_getD, h3]

theorem hadamard_mask [Ring α] (n : Nat) (v : List (List α)) (hv : Shape2 v n n) :
    hadamard v (eyeMask n) = offDiag n v := by
  unfold hadamard eyeMask offDiag
  rw [zipWith_map_range_right n v hv.1 _ _ []]
  apply List.map_congr_left
  intro i hi
  simp only [List.mem_range] at hi
  rw [zipWith_map_range_right n _ (hv.getD_length i hi) _ _ 0]
  apply List.map_congr_left
  intro j hj
  by_cases hij : i = j
  · simp [hij]
  · simp [hij, mget]

theorem offDiag_shape [Zero α] (n : Nat) (v : List (List α)) : Shape2 (offDiag n v) n n :=
  shape2_range_map n n _

theorem offDiag_diag [Zero α] (n : Nat) (v : List (List α)) (i : Nat) (hi : i < n) :
    mget (offDiag n v) i i = 0 := by
  unfold offDiag; rw [mget_range_map n n _ i i hi hi]; simp

theorem offDiag_off [Zero α] (n : Nat) (v : List (List α)) (i j : Nat) (hi : i < n) (hj : j < n) (hij : i ≠ j) :
    mget (offDiag n v) i j = mget v i j := by
  unfold offDiag; rw [mget_range_map n n _ i j hi hj]; simp [hij]


theorem latInv_init [Ring α] (n : Nat) (w0 : List (List α)) (hw : Shape2 w0 n n)
    (d0 : Option (List (List α))) (hd : ∀ d, d0 = some d → Shape2 d n n) (b : Option (List α))
    (hb : ∀ bv, b = some bv → bv.length = n) :
    LatInv n (Lateral.init n w0 d0 b) := by
  refine ⟨rfl, ?_, ?_, ?_, hb⟩
  · simp only [Lateral.init, hadamard_mask n w0 hw]; exact offDiag_shape n w0
  · simp only [Lateral.init, hadamard_mask n w0 hw]; exact offDiag_diag n w0
  · intro d hd'
    cases d0 with
    | none => simp [Lateral.init] at hd'
    | some d1 =>
      simp only [Lateral.init, Option.map_some, Option.some.injEq] at hd'
      subst hd'
      rw [hadamard_mask n d1 (hd d1 rfl)]
      exact ⟨offDiag_shape n d1, offDiag_diag n d1⟩

theorem latInv_step [Ring α] (n : Nat) (c : Lateral α) (hc : LatInv n c) (op : LOp α) (hop : op.WF n) :
    LatInv n (c.step op) := by
  obtain ⟨hn, hws, hwd, hdl, hbl⟩ := hc
  cases op with
  | setW v =>
    simp only [Lateral.step, Lateral.setWeight, hn, hadamard_mask n v hop]
    exact ⟨rfl, offDiag_shape n v, offDiag_diag n v, hdl, hbl⟩
  | updW f =>
    simp only [Lateral.step, Lateral.setWeight, hn, hadamard_mask n _ (hop _ hws)]
    exact ⟨rfl, offDiag_shape n _, offDiag_diag n _, hdl, hbl⟩
  | setD v =>
    cases hd : c.delay with
    | none => simp only [Lateral.step, Lateral.setDelay, hd]; exact ⟨hn, hws, hwd, hdl, hbl⟩
    | some d =>
      simp only [Lateral.step, Lateral.setDelay, hd, hn, hadamard_mask n v hop]
      refine ⟨rfl, hws, hwd, ?_, hbl⟩
      intro d' hd'
      simp only [Option.some.injEq] at hd'
      subst hd'
      exact ⟨offDiag_shape n v, offDiag_diag n v⟩
  | updD f =>
    cases hd : c.delay with
    | none => simp only [Lateral.step, hd]; exact ⟨hn, hws, hwd, hdl, hbl⟩
    | some d =>
      simp only [Lateral.step, Lateral.setDelay, hd, hn, hadamard_mask n _ (hop _ (hdl d hd).1)]
      refine ⟨rfl, hws, hwd, ?_, hbl⟩
      intro d' hd'
      simp only [Option.some.injEq] at hd'
      subst hd'
      exact ⟨offDiag_shape n _, offDiag_diag n _⟩
  | setB b =>
    cases hb : c.bias with
    | none => simp only [Lateral.step, Lateral.setBias, hb]; exact ⟨hn, hws, hwd, hdl, hbl⟩
    | some _ =>
      simp only [Lateral.step, Lateral.setBias, hb]
      refine ⟨hn, hws, hwd, hdl, ?_⟩
      intro bv hbv
      simp only [Option.some.injEq] at hbv
      subst hbv
      exact hop

theorem latInv_run [Ring α] (n : Nat) (ops : List (LOp α)) (c : Lateral α) (hc : LatInv n c)
    (hops : ∀ op ∈ ops, op.WF n) : LatInv n (c.run ops) := by
  induction ops generalizing c with
  | nil => exact hc
  | cons op rest ih =>
    simp only [Lateral.run, List.foldl_cons]
    exact ih _ (latInv_step n c hc op (hops op (by simp))) (fun o ho => hops o (by simp [ho]))

/-! ### conv: index arithmetic -/

theorem flat3_div (KH KW c kh kw : Nat) (hkh : kh < KH) (hkw : kw < KW) :
    ((c * KH + kh) * KW + kw) / (KH * KW) = c := by
  have hKW : 0 < KW := by omega
  have hKH : 0 < KH := by omega
  rw [Nat.mul_comm KH KW, ← Nat.div_div_eq_div_mul]
  rw [Nat.add_comm, Nat.add_mul_div_right _ _ hKW, Nat.div_eq_of_lt hkw, Nat.zero_add]
  rw [Nat.add_comm, Nat.add_mul_div_right _ _ hKH, Nat.div_eq_of_lt hkh, Nat.zero_add]

theorem flat3_mid (KH KW c kh kw : Nat) (hkh : kh < KH) (hkw : kw < KW) :
    (((c * KH + kh) * KW + kw) / KW) % KH = kh := by
  have hKW : 0 < KW := by omega
  rw [Nat.add_comm, Nat.add_mul_div_right _ _ hKW, Nat.div_eq_of_lt hkw, Nat.zero_add]
  rw [Nat.add_comm, Nat.add_mul_mod_self_right, Nat.mod_eq_of_lt hkh]

theorem flat3_low (KH KW c kh kw : Nat) (hkw : kw < KW) :
    ((c * KH + kh) * KW + kw) % KW = kw := by
  rw [Nat.add_comm, Nat.add_mul_mod_self_right, Nat.mod_eq_of_lt hkw]

theorem flat2_div (OW oh ow : Nat) (how : ow < OW) : (oh * OW + ow) / OW = oh := by
  have : 0 < OW := by omega
  rw [Nat.add_comm, Nat.add_mul_div_right _ _ this, Nat.div_eq_of_lt how, Nat.zero_add]

theorem flat2_mod (OW oh ow : Nat) (how : ow < OW) : (oh * OW + ow) % OW = ow := by
  rw [Nat.add_comm, Nat.add_mul_mod_self_right, Nat.mod_eq_of_lt how]

theorem flat2_lt (OH OW oh ow : Nat) (hoh : oh < OH) (how : ow < OW) : oh * OW + ow < OH * OW := by
  calc oh * OW + ow < oh * OW + OW := by omega
    _ = (oh + 1) * OW := by rw [Nat.succ_mul]
    _ ≤ OH * OW := Nat.mul_le_mul_right _ hoh

/-! ### conv: flatten -/

theorem flatten_length_uniform {β : Type} (l : List (List β)) (m : Nat) (h : ∀ r ∈ l, r.length = m) :
    l.flatten.length = l.length * m := by
  induction l with
  | nil => simp
  | cons r rest ih =>
    simp only [List.flatten_cons, List.length_append, List.length_cons]
    rw [ih (fun r' hr' => h r' (by simp [hr'])), h r (by simp), Nat.succ_mul, Nat.add_comm]

theorem flatten_getD {β : Type} (l : List (List β)) (m : Nat) (h : ∀ r ∈ l, r.length = m) (i j : Nat)
    (hj : j < m) (d : β) : l.flatten.getD (i * m + j) d = (l.getD i []).getD j d := by
  induction l generalizing i with
  | nil => simp
  | cons r rest ih =>
    have hr : r.length = m := h r (by simp)
    cases i with
    | zero =>
      simp only [List.flatten_cons, Nat.zero_mul, Nat.zero_add, List.getD_eq_getElem?_getD]
      rw [List.getElem?_append_left (by omega)]
      simp
    | succ i =>
      simp only [List.flatten_cons, List.getD_eq_getElem?_getD]
      rw [List.getElem?_append_right (by rw [hr, Nat.succ_mul]; omega)]
      have : (i + 1) * m + j - r.length = i * m + j := by rw [hr, Nat.succ_mul]; omega
      rw [this]
      have := ih (fun r' hr' => h r' (by simp [hr'])) i
      simp only [List.getD_eq_getElem?_getD] at this
      rw [this]
      simp

theorem Shape3.getD_shape {x : List (List (List α))} {a b c : Nat} (h : Shape3 x a b c) (i : Nat) (hi : i < a) :
    Shape2 (x.getD i []) b c := by
  obtain ⟨h1, h2⟩ := h
  have : i < x.length := by omega
  rw [List.getD_eq_getElem?_getD, List.getElem?_eq_getElem this]
  exact h2 _ (List.getElem_mem this)

theorem Shape4.getD_shape {x : List (List (List (List α)))} {a b c d : Nat} (h : Shape4 x a b c d) (i : Nat)
    (hi : i < a) : Shape3 (x.getD i []) b c d := by
  obtain ⟨h1, h2⟩ := h
  have : i < x.length := by omega
  rw [List.getD_eq_getElem?_getD, List.getElem?_eq_getElem this]
  exact h2 _ (List.getElem_mem this)

theorem getD_map_lt {β γ : Type} (l : List β) (g : β → γ) (i : Nat) (hi : i < l.length) (d : β) (e : γ) :
    (l.map g).getD i e = g (l.getD i d) := by
  simp [List.getD_eq_getElem?_getD, hi]

/-- element `(f, n)` of the flattened kernel with `n = (c·KH + kh)·KW + kw` is `K[f,c,kh,kw]` -/
theorem flattenKernel_get [Zero α] (K : List (List (List (List α)))) (F C KH KW : Nat) (hK : Shape4 K F C KH KW)
    (f c kh kw : Nat) (hf : f < F) (hkh : kh < KH) (hkw : kw < KW) :
    mget (flattenKernel K) f ((c * KH + kh) * KW + kw) = get4 K f c kh kw := by
  have hkf := hK.getD_shape f hf
  unfold mget flattenKernel get4
  rw [getD_map_lt K _ f (by rw [hK.1]; exact hf) []]
  -- rows of kf.flatten all have length KW
  have hrows : ∀ r ∈ (K.getD f []).flatten, r.length = KW := by
    intro r hr
    simp only [List.mem_flatten] at hr
    obtain ⟨p, hp, hrp⟩ := hr
    exact (hkf.2 p hp).2 r hrp
  have hplanes : ∀ p ∈ K.getD f [], p.length = KH := fun p hp => (hkf.2 p hp).1
  rw [flatten_getD _ KW hrows _ _ hkw, flatten_getD _ KH hplanes _ _ hkh]

theorem flattenKernel_row_length (K : List (List (List (List α)))) (F C KH KW : Nat) (hK : Shape4 K F C KH KW)
    (f : Nat) (hf : f < F) : ((flattenKernel K).getD f []).length = C * KH * KW := by
  have hkf := hK.getD_shape f hf
  unfold flattenKernel
  rw [getD_map_lt K _ f (by rw [hK.1]; exact hf) []]
  have hrows : ∀ r ∈ (K.getD f []).flatten, r.length = KW := by
    intro r hr
    simp only [List.mem_flatten] at hr
    obtain ⟨p, hp, hrp⟩ := hr
    exact (hkf.2 p hp).2 r hrp
  have hplanes : ∀ p ∈ K.getD f [], p.length = KH := fun p hp => (hkf.2 p hp).1
  rw [flatten_length_uniform _ KW hrows, flatten_length_uniform _ KH hplanes, hkf.1]

theorem vget_col [Zero α] (B : List (List α)) (l n : Nat) : vget (col B l) n = mget B n l := by
  unfold col vget mget
  by_cases h : n < B.length
  · simp [List.getD_eq_getElem?_getD, h]
  · simp [List.getD_eq_getElem?_getD, h]

theorem unflat_get [Zero α] (OH OW : Nat) (row : List α) (oh ow : Nat) (hoh : oh < OH) (how : ow < OW) :
    mget (unflat OH OW row) oh ow = vget row (oh * OW + ow) := by
  unfold unflat mget vget
  rw [getD_range_map _ _ _ hoh]
  simp [List.getD_eq_getElem?_getD, how]

theorem unflat_shape (OH OW : Nat) (row : List α) (h : row.length = OH * OW) : Shape2 (unflat OH OW row) OH OW := by
  refine ⟨by simp [unflat], ?_⟩
  intro r hr
  simp only [unflat, List.mem_map, List.mem_range] at hr
  obtain ⟨oh, hoh, rfl⟩ := hr
  simp only [List.length_take, List.length_drop, h]
  have : (oh + 1) * OW ≤ OH * OW := Nat.mul_le_mul_right _ hoh
  rw [Nat.succ_mul] at this
  omega

theorem getD_zipWith_lt {β γ δ : Type} (op : β → γ → δ) (a : List β) (l : List γ) (i : Nat) (ha : i < a.length)
    (hl : i < l.length) (da : β) (dl : γ) (d : δ) :
    (List.zipWith op a l).getD i d = op (a.getD i da) (l.getD i dl) := by
  simp [List.getD_eq_getElem?_getD, ha, hl]

theorem addBias_get [Add α] [Zero α] (y : List (List (List α))) (bv : List α) (OH OW f oh ow : Nat)
    (hf : f < y.length) (hfb : f < bv.length) (hp : Shape2 (y.getD f []) OH OW) (hoh : oh < OH) (how : ow < OW) :
    get3 (addBias y (some bv)) f oh ow = get3 y f oh ow + vget bv f := by
  unfold addBias get3 vget
  simp only
  rw [getD_zipWith_lt _ y bv f hf hfb [] 0]
  rw [getD_map_lt _ _ oh (by rw [hp.1]; exact hoh) []]
  rw [getD_map_lt _ _ ow (by rw [hp.getD_length oh hoh]; exact how) 0]

theorem mget_unfold [Zero α] (g : Geom) (x : List (List (List α))) (n l : Nat) (hn : n < g.N) (hl : l < g.L) :
    mget (unfold g x) n l = unfoldAt g x n l := by
  unfold unfold; exact mget_range_map g.N g.L _ n l hn hl

/-- one output element of the code-shaped conv: `Σ_n Kflat[f,n] · cols[n,l] + b_f` -/
theorem convFwd_get [CommSemiring α] (g : Geom) (K : List (List (List (List α))))
    (hK : Shape4 K g.F g.C g.KH g.KW) (b : Option (List α)) (hb : ∀ bv, b = some bv → bv.length = g.F)
    (x : List (List (List α))) (f oh ow : Nat) (hf : f < g.F) (hoh : oh < g.OH) (how : ow < g.OW) :
    get3 (convFwd g K b x) f oh ow =
      sumTo g.N (fun n => mget (flattenKernel K) f n * unfoldAt g x n (oh * g.OW + ow)) + biasAt b f := by
  have hl : oh * g.OW + ow < g.L := flat2_lt g.OH g.OW oh ow hoh how
  have hylen : (matmul g.L (flattenKernel K) (unfold g x)).length = g.F := by simp [matmul, flattenKernel, hK.1]
  have hfk : f < (flattenKernel K).length := by simp [flattenKernel, hK.1, hf]
  have hyrow : (matmul g.L (flattenKernel K) (unfold g x)).getD f [] =
      (List.range g.L).map fun l => dot ((flattenKernel K).getD f []) (col (unfold g x) l) := by
    unfold matmul; rw [getD_map_lt _ _ f hfk []]
  have hy3 : ((matmul g.L (flattenKernel K) (unfold g x)).map (unflat g.OH g.OW)).getD f [] =
      unflat g.OH g.OW ((matmul g.L (flattenKernel K) (unfold g x)).getD f []) :=
    getD_map_lt _ _ f (by rw [hylen]; exact hf) [] []
  have hcore : get3 ((matmul g.L (flattenKernel K) (unfold g x)).map (unflat g.OH g.OW)) f oh ow =
      sumTo g.N (fun n => mget (flattenKernel K) f n * unfoldAt g x n (oh * g.OW + ow)) := by
    show mget (((matmul g.L (flattenKernel K) (unfold g x)).map (unflat g.OH g.OW)).getD f []) oh ow = _
    rw [hy3, unflat_get _ _ _ _ _ hoh how, hyrow, vget, getD_range_map _ _ _ hl, dot_eq_sumTo,
      flattenKernel_row_length K g.F g.C g.KH g.KW hK f hf]
    apply sumTo_congr
    intro n hn
    rw [vget_col, mget_unfold g x n _ hn hl]; rfl
  unfold convFwd
  simp only
  cases b with
  | none => simp only [addBias, biasAt, add_zero]; exact hcore
  | some bv =>
    rw [addBias_get _ bv g.OH g.OW f oh ow (by simp [hylen, hf]) (by rw [hb bv rfl]; exact hf) ?_ hoh how, hcore]
    · rfl
    · rw [hy3, hyrow]; exact unflat_shape _ _ _ (by simp [Geom.L])

/-- **conv = cross-correlation**, element-wise, for every geometry -/
theorem convFwd_eq_specAt [CommSemiring α] (g : Geom) (K : List (List (List (List α))))
    (hK : Shape4 K g.F g.C g.KH g.KW) (b : Option (List α)) (hb : ∀ bv, b = some bv → bv.length = g.F)
    (x : List (List (List α))) (f oh ow : Nat) (hf : f < g.F) (hoh : oh < g.OH) (how : ow < g.OW) :
    get3 (convFwd g K b x) f oh ow = convSpecAt g K b x f oh ow := by
  rw [convFwd_get g K hK b hb x f oh ow hf hoh how]
  unfold convSpecAt Geom.N
  congr 1
  rw [sumTo_mul, sumTo_mul]
  apply sumTo_congr; intro c hc
  apply sumTo_congr; intro kh hkh
  apply sumTo_congr; intro kw hkw
  rw [flattenKernel_get K g.F g.C g.KH g.KW hK f c kh kw hf hkh hkw]
  unfold unfoldAt
  rw [flat3_div _ _ _ _ _ hkh hkw, flat3_mid _ _ _ _ _ hkh hkw, flat3_low _ _ _ _ _ hkw,
    flat2_div _ _ _ how, flat2_mod _ _ _ how, mul_comm]

/-! ### output size -/

theorem outSize_lt_iff (size p d k s : Nat) (hs : 0 < s) (hk : 1 ≤ k) (o : Nat) :
    (o : Int) < outSizeCode size p d k s ↔ o * s + d * (k - 1) + 1 ≤ size + 2 * p := by
  unfold outSizeCode
  have hs' : (0 : Int) < (s : Int) := by exact_mod_cast hs
  have hk' : ((k : Int) - 1) = ((k - 1 : Nat) : Int) := by omega
  rw [hk', Int.lt_add_one_iff, Int.le_ediv_iff_mul_le hs']
  have h1 : (d : Int) * ((k - 1 : Nat) : Int) = ((d * (k - 1) : Nat) : Int) := by push_cast; rfl
  have h2 : (o : Int) * (s : Int) = ((o * s : Nat) : Int) := by push_cast; rfl
  rw [h1, h2]
  generalize d * (k - 1) = t
  generalize o * s = u
  omega

theorem filter_lt_length (n m : Nat) :
    ((List.range n).filter (fun i => decide (i < m))).length = min m n := by
  induction n with
  | zero => simp
  | succ n ih =>
    rw [List.range_succ, List.filter_append, List.length_append, ih]
    by_cases h : n < m
    · simp [h]; omega
    · simp [h]; omega

/-- the code's output size (floor formula) counts exactly the window positions that fit -/
theorem outSizeCode_eq_spec (size p d k s : Nat) (hs : 0 < s) (hk : 1 ≤ k) :
    (outSizeCode size p d k s).toNat = outSizeSpec size p d k s := by
  unfold outSizeSpec
  have hiff : ∀ o : Nat, decide (o * s + d * (k - 1) + 1 ≤ size + 2 * p) = decide (o < (outSizeCode size p d k s).toNat) := by
    intro o
    have := outSize_lt_iff size p d k s hs hk o
    by_cases h : o * s + d * (k - 1) + 1 ≤ size + 2 * p
    · have h2 := this.mpr h
      have : o < (outSizeCode size p d k s).toNat := by omega
      simp [h, this]
    · have h2 : ¬ ((o : Int) < outSizeCode size p d k s) := fun hh => h (this.mp hh)
      have : ¬ o < (outSizeCode size p d k s).toNat := by omega
      simp [h, this]
  simp only [hiff]
  rw [filter_lt_length]
  -- the size never exceeds the padded extent + 1
  have hle : (outSizeCode size p d k s).toNat ≤ size + 2 * p + 1 := by
    by_contra hc
    have hc : size + 2 * p + 1 < (outSizeCode size p d k s).toNat := by omega
    have h3 : ((size + 2 * p + 1 : Nat) : Int) < outSizeCode size p d k s := by omega
    have h4 := (outSize_lt_iff size p d k s hs hk _).mp h3
    have : size + 2 * p + 1 ≤ (size + 2 * p + 1) * s := Nat.le_mul_of_pos_right _ hs
    omega
  omega

/-! ### fold ∘ unfold -/
theorem sumTo_mul_right [Semiring α] (n : Nat) (f : Nat → α) (v : α) :
    sumTo n f * v = sumTo n (fun i => f i * v) := by
  induction n with
  | zero => simp [sumTo]
  | succ n ih => simp [sumTo, add_mul, ih]

theorem natCast_sumTo [Semiring α] (n : Nat) (f : Nat → Nat) :
    ((sumTo n f : Nat) : α) = sumTo n (fun i => (f i : α)) := by
  induction n with
  | zero => simp [sumTo]
  | succ n ih => simp [sumTo, ih]

/-- reading back what `unfold` wrote: a tap that lands on padded pixel `(i + ph, j + pw)` of an
in-range input position carries `x[c,i,j]` -/
theorem unfoldAt_hit [Zero α] (g : Geom) (x : List (List (List α))) (c kh kw oh ow i j : Nat)
    (hkh : kh < g.KH) (hkw : kw < g.KW) (how : ow < g.OW) (hi : i < g.H) (hj : j < g.W)
    (h1 : oh * g.sh + kh * g.dh = i + g.ph) (h2 : ow * g.sw + kw * g.dw = j + g.pw) :
    unfoldAt g x ((c * g.KH + kh) * g.KW + kw) (oh * g.OW + ow) = get3 x c i j := by
  unfold unfoldAt
  rw [flat3_div _ _ _ _ _ hkh hkw, flat3_mid _ _ _ _ _ hkh hkw, flat3_low _ _ _ _ _ hkw,
    flat2_div _ _ _ how, flat2_mod _ _ _ how, h1, h2]
  unfold padGet
  have : g.ph ≤ i + g.ph ∧ i + g.ph < g.H + g.ph ∧ g.pw ≤ j + g.pw ∧ j + g.pw < g.W + g.pw := by omega
  rw [if_pos this, Nat.add_sub_cancel, Nat.add_sub_cancel]

/-- `fold(unfold x)[c,i,j] = count(i,j) · x[c,i,j]` on every input position -/
theorem fold_unfold [CommSemiring α] (g : Geom) (x : List (List (List α))) (c i j : Nat)
    (hc : c < g.C) (hi : i < g.H) (hj : j < g.W) :
    foldAt g (unfold g x) c i j = ((coverCount g i j : Nat) : α) * get3 x c i j := by
  unfold foldAt coverCount
  rw [natCast_sumTo, sumTo_mul_right]
  apply sumTo_congr; intro kh hkh
  rw [natCast_sumTo, sumTo_mul_right]
  apply sumTo_congr; intro kw hkw
  rw [natCast_sumTo, sumTo_mul_right]
  apply sumTo_congr; intro oh hoh
  rw [natCast_sumTo, sumTo_mul_right]
  apply sumTo_congr; intro ow how
  by_cases hcond : oh * g.sh + kh * g.dh = i + g.ph ∧ ow * g.sw + kw * g.dw = j + g.pw
  · rw [if_pos hcond, if_pos hcond]
    have hn : (c * g.KH + kh) * g.KW + kw < g.N := by
      unfold Geom.N
      exact flat2_lt (g.C * g.KH) g.KW _ kw (flat2_lt g.C g.KH c kh hc hkh) hkw
    rw [mget_unfold g x _ _ hn (flat2_lt g.OH g.OW oh ow hoh how),
      unfoldAt_hit g x c kh kw oh ow i j hkh hkw how hi hj hcond.1 hcond.2]
    simp
  · rw [if_neg hcond, if_neg hcond]; simp

theorem sumTo_pos_iff (n : Nat) (f : Nat → Nat) : 0 < sumTo n f ↔ ∃ i, i < n ∧ 0 < f i := by
  induction n with
  | zero => simp [sumTo]
  | succ n ih =>
    simp only [sumTo]
    constructor
    · intro h
      by_cases h0 : 0 < sumTo n f
      · obtain ⟨i, hi, hfi⟩ := ih.mp h0; exact ⟨i, by omega, hfi⟩
      · exact ⟨n, by omega, by omega⟩
    · rintro ⟨i, hi, hfi⟩
      by_cases hin : i = n
      · subst hin; omega
      · have := ih.mpr ⟨i, by omega, hfi⟩; omega

theorem any_range_iff (n : Nat) (p : Nat → Bool) : (List.range n).any p = true ↔ ∃ i, i < n ∧ p i = true := by
  simp [List.any_eq_true]

/-- the count of windows reading a pixel is positive exactly when some tap lands on it -/
theorem coverCount_pos_iff (g : Geom) (i j : Nat) : 0 < coverCount g i j ↔ covered g i j = true := by
  unfold coverCount covered
  rw [sumTo_pos_iff, any_range_iff]
  constructor
  · rintro ⟨kh, hkh, h⟩
    obtain ⟨kw, hkw, h⟩ := (sumTo_pos_iff _ _).mp h
    obtain ⟨oh, hoh, h⟩ := (sumTo_pos_iff _ _).mp h
    obtain ⟨ow, how, h⟩ := (sumTo_pos_iff _ _).mp h
    refine ⟨oh, hoh, (any_range_iff _ _).mpr ⟨kh, hkh, (any_range_iff _ _).mpr ⟨ow, how, (any_range_iff _ _).mpr ⟨kw, hkw, ?_⟩⟩⟩⟩
    by_cases hc : oh * g.sh + kh * g.dh = i + g.ph ∧ ow * g.sw + kw * g.dw = j + g.pw
    · simp [hc]
    · simp [hc] at h
  · rintro ⟨oh, hoh, h⟩
    obtain ⟨kh, hkh, h⟩ := (any_range_iff _ _).mp h
    obtain ⟨ow, how, h⟩ := (any_range_iff _ _).mp h
    obtain ⟨kw, hkw, h⟩ := (any_range_iff _ _).mp h
    refine ⟨kh, hkh, (sumTo_pos_iff _ _).mpr ⟨kw, hkw, (sumTo_pos_iff _ _).mpr ⟨oh, hoh, (sumTo_pos_iff _ _).mpr ⟨ow, how, ?_⟩⟩⟩⟩
    simp only [decide_eq_true_eq] at h
    simp [h]

end InfernoVerif.Conn
