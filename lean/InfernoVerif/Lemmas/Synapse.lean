import InfernoVerif.Model.Synapse
import InfernoVerif.Lemmas.Select
import InfernoVerif.Props.C01
import Mathlib.Analysis.SpecialFunctions.Exp
import Mathlib.Algebra.BigOperators.Intervals
import InfernoVerif.Gen.InterpolationR

namespace InfernoVerif.Synapse
open InfernoVerif.Ring InfernoVerif.Select

section Tracking
variable {α : Type}

/-- `r` holds, on top of `n` slots filled with `z`, the pushes `f 0, …, f (t-1)`. -/
def Tracks (r : Ring.Ring α) (n : Nat) (z : α) (f : Nat → α) (t : Nat) : Prop :=
  r.WF ∧ r.n = n ∧ r.abs = pushAll (List.replicate n z) ((List.range t).map f)

/-- value `k` steps before the latest push, `z` before the start -/
def histAt (f : Nat → α) (z : α) (t k : Nat) : α := if k < t then f (t - 1 - k) else z

theorem zeroRing_abs (n : Nat) (z : α) : (⟨n, 0, List.replicate n z⟩ : Ring.Ring α).abs = List.replicate n z := by
  simp only [Ring.abs]
  rw [List.drop_replicate, List.take_replicate, ← List.replicate_add, List.reverse_replicate]
  congr 1; omega

theorem tracks_zero (n : Nat) (hn : 0 < n) (z : α) (f : Nat → α) :
    Tracks (⟨n, 0, List.replicate n z⟩ : Ring.Ring α) n z f 0 := by
  refine ⟨⟨hn, hn, by simp⟩, rfl, ?_⟩
  rw [zeroRing_abs]; rfl

theorem push_n (r : Ring.Ring α) (x : α) (b : Bool) : (r.push x b).n = r.n := by
  unfold Ring.push Ring.incr Ring.write Ring.writeInplace Ring.writeSplice; split <;> rfl

theorem tracks_push {r : Ring.Ring α} {n : Nat} {z : α} {f : Nat → α} {t : Nat} (h : Tracks r n z f t) (b : Bool) :
    Tracks (r.push (f t) b) n z f (t + 1) := by
  obtain ⟨hw, hn, ha⟩ := h
  refine ⟨push_wf' r hw _ b, by rw [push_n, hn], ?_⟩
  rw [push_refines' r hw, ha, List.range_succ, List.map_append]
  simp [pushAll, List.foldl_append]

theorem tracks_read {r : Ring.Ring α} {n : Nat} {z : α} {f : Nat → α} {t : Nat} (h : Tracks r n z f t)
    (k : Nat) (hk : k < n) : r.read ((k : Int) + 1) = some (histAt f z t k) := by
  obtain ⟨hw, hn, ha⟩ := h
  rw [read_refines r hw, ha, pushes_then_read n z _ k hk]
  simp only [List.length_map, List.length_range, histAt]
  congr 1
  split
  · simp
  · rfl

theorem tracks_peek {r : Ring.Ring α} {n : Nat} {z : α} {f : Nat → α} {t : Nat} (h : Tracks r n z f t) :
    r.read 1 = some (histAt f z t 0) := by
  have := tracks_read h 0 (by rw [← h.2.1]; exact h.1.1)
  simpa using this

theorem push_inplace_eq (r : Ring.Ring α) (h : r.WF) (x : α) : r.push x true = r.push x false := by
  unfold Ring.push; rw [write_inplace_irrelevant r h]

end Tracking
open Classical

noncomputable def realSOps : SOps ℝ where
  K := realOps
  exp := Real.exp
  previous := InfernoVerif.Gen.InterpolationR.interp_previous
  nearest := InfernoVerif.Gen.InterpolationR.interp_nearest
  expdecay := InfernoVerif.Gen.InterpolationR.interp_expdecay

/-- What the constructors validate (`argtest.gt("step_time", …, 0)`, `argtest.gte("delay", …, 0)`,
`argtest.gte("tolerance", …, 0)`). -/
structure Valid (c : Cfg ℝ) : Prop where
  dt_pos : 0 < c.dt
  delay_nonneg : 0 ≤ c.delay
  tol_nonneg : 0 ≤ c.tol

/-! ## recurrences and closed forms -/

/-- Exponential trace BEFORE step `n`: `J 0 = 0`, `J (n+1) = J n · d + a · x n`. -/
def trace (d a : ℝ) (x : ℕ → ℝ) : ℕ → ℝ
  | 0 => 0
  | n + 1 => trace d a x n * d + a * x n

theorem trace_closed (d a : ℝ) (x : ℕ → ℝ) (n : ℕ) :
    trace d a x n = ∑ k ∈ Finset.range n, a * x k * d ^ (n - 1 - k) := by
  induction n with
  | zero => simp [trace]
  | succ n ih =>
    rw [trace, ih, Finset.sum_range_succ, Finset.sum_mul]
    congr 1
    · apply Finset.sum_congr rfl
      intro k hk
      have hk' : k < n := Finset.mem_range.mp hk
      have e : n + 1 - 1 - k = (n - 1 - k) + 1 := by omega
      rw [e, pow_succ]; ring
    · have e : n + 1 - 1 - n = 0 := by omega
      rw [e]; ring

theorem exp_pow (dt tc : ℝ) (m : ℕ) : Real.exp (-dt / tc) ^ m = Real.exp (-((m : ℝ) * dt) / tc) := by
  rw [← Real.exp_nat_mul]; congr 1; ring

/-! ## the recorded sequences -/

/-- what is pushed to `spike_` at step `j` -/
noncomputable def spikeSeq (x : ℕ → ℝ) (j : ℕ) : ℝ := toSpike realOps (x j)

/-- what is pushed to `current_` / `pos_current_` at step `j` -/
noncomputable def curSeq (c : Cfg ℝ) (x : ℕ → ℝ) (inj : ℕ → List ℝ) (j : ℕ) : ℝ :=
  match c.kind with
  | .delta => 0
  | .deltaPlus => (x j * (c.Q / c.dt) :: inj j).foldl (· + ·) 0
  | .singleExp => trace (Real.exp (-c.dt / c.tau)) (c.Q / c.tau) x (j + 1)
  | .doubleExp => trace (Real.exp (-c.dt / c.tau)) (c.Q / (c.tau - c.tauR)) x (j + 1)

/-- what is pushed to `neg_current_` at step `j` (double exponential) -/
noncomputable def negSeq (c : Cfg ℝ) (x : ℕ → ℝ) (j : ℕ) : ℝ :=
  trace (Real.exp (-c.dt / c.tauR)) (c.Q / (c.tau - c.tauR)) x (j + 1)

/-- what `forward` returns at step `j` -/
noncomputable def outSeq (c : Cfg ℝ) (x : ℕ → ℝ) (inj : ℕ → List ℝ) (j : ℕ) : ℝ :=
  match c.kind with
  | .delta => spikeSeq x j * (c.Q / c.dt)
  | .deltaPlus => curSeq c x inj j
  | .singleExp => curSeq c x inj j
  | .doubleExp => curSeq c x inj j - negSeq c x j

def usesCur : Kind → Prop
  | .delta => False
  | _ => True

def usesNeg : Kind → Prop
  | .doubleExp => True
  | _ => False

/-- Invariant of the state before step `t`. -/
def Inv (c : Cfg ℝ) (x : ℕ → ℝ) (inj : ℕ → List ℝ) (t : ℕ) (s : St ℝ) : Prop :=
  Tracks s.spike (c.n realSOps) 0 (spikeSeq x) t ∧
  (usesCur c.kind → Tracks s.cur (c.n realSOps) 0 (curSeq c x inj) t) ∧
  (usesNeg c.kind → Tracks s.neg (c.n realSOps) 0 (negSeq c x) t)

theorem n_pos (c : Cfg ℝ) : 0 < c.n realSOps := by
  unfold Cfg.n recordsz; exact Nat.lt_of_lt_of_le Nat.zero_lt_one (Nat.le_max_right _ _)

theorem inv_init (c : Cfg ℝ) (x : ℕ → ℝ) (inj : ℕ → List ℝ) : Inv c x inj 0 (init realSOps c) := by
  have h : ∀ f, Tracks (zeroRing realSOps.K (c.n realSOps)) (c.n realSOps) 0 f 0 := by
    intro f
    have := tracks_zero (c.n realSOps) (n_pos c) (0 : ℝ) f
    simpa [zeroRing, realSOps, realOps] using this
  exact ⟨h _, fun _ => h _, fun _ => h _⟩

theorem histAt_zero_succ {α : Type} (f : ℕ → α) (z : α) (t : ℕ) : histAt f z (t + 1) 0 = f t := by
  simp [histAt]

theorem histAt_trace (d a : ℝ) (x : ℕ → ℝ) (t : ℕ) :
    histAt (fun j => trace d a x (j + 1)) 0 t 0 = trace d a x t := by
  cases t with
  | zero => simp [histAt, trace]
  | succ t => simp [histAt]

theorem expUpdate_real (dt tc amp tr x : ℝ) :
    expUpdate realSOps dt tc amp tr x = tr * Real.exp (-dt / tc) + amp * x := rfl

theorem step_inv (c : Cfg ℝ) (x : ℕ → ℝ) (inj : ℕ → List ℝ) (t : ℕ) (s : St ℝ) (h : Inv c x inj t s) :
    ∃ s', step realSOps c s (x t) (inj t) = some (s', outSeq c x inj t) ∧ Inv c x inj (t + 1) s' := by
  obtain ⟨hs, hc, hn⟩ := h
  have hs' := tracks_push hs c.inplace
  have hsp : (s.spike.push (spikeSeq x t) c.inplace).read 1 = some (spikeSeq x t) := by
    rw [tracks_peek hs', histAt_zero_succ]
  unfold step
  cases hk : c.kind with
  | delta =>
    refine ⟨{ s with spike := s.spike.push (spikeSeq x t) c.inplace }, ?_, hs', by simp [hk, usesCur], by simp [hk, usesNeg]⟩
    simp only [stepDelta]
    rw [show toSpike realSOps.K (x t) = spikeSeq x t from rfl, hsp]
    simp [outSeq, hk, spikeToCurrent, realSOps, realOps]
  | deltaPlus =>
    have hc' := tracks_push (hc (by simp [hk, usesCur])) c.inplace
    have hcp := tracks_peek hc'
    rw [histAt_zero_succ] at hcp
    refine ⟨{ s with spike := s.spike.push (spikeSeq x t) c.inplace, cur := s.cur.push (curSeq c x inj t) c.inplace }, ?_, hs', fun _ => hc', by simp [hk, usesNeg]⟩
    simp only [stepDeltaPlus]
    have e : (realSOps.K.mul (x t) (realSOps.K.div c.Q c.dt) :: inj t).foldl realSOps.K.add (realSOps.K.ofInt 0) = curSeq c x inj t := by
      simp [curSeq, hk, realSOps, realOps]
    rw [e, show toSpike realSOps.K (x t) = spikeSeq x t from rfl, hcp]
    simp [outSeq, hk]
  | singleExp =>
    have hc0 := hc (by simp [hk, usesCur])
    have hpk := tracks_peek hc0
    have e : expUpdate realSOps c.dt c.tau (realSOps.K.div c.Q c.tau) (histAt (curSeq c x inj) 0 t 0) (x t) = curSeq c x inj t := by
      have : curSeq c x inj = fun j => trace (Real.exp (-c.dt / c.tau)) (c.Q / c.tau) x (j + 1) := by
        funext j; simp [curSeq, hk]
      rw [this, histAt_trace, expUpdate_real]; rfl
    have hc' := tracks_push hc0 c.inplace
    have hcp := tracks_peek hc'
    rw [histAt_zero_succ] at hcp
    refine ⟨{ s with spike := s.spike.push (spikeSeq x t) c.inplace, cur := s.cur.push (curSeq c x inj t) c.inplace }, ?_, hs', fun _ => hc', by simp [hk, usesNeg]⟩
    simp only [stepSingleExp]
    rw [hpk]
    simp only []
    rw [e, show toSpike realSOps.K (x t) = spikeSeq x t from rfl, hcp]
    simp [outSeq, hk]
  | doubleExp =>
    have hc0 := hc (by simp [hk, usesCur])
    have hn0 := hn (by simp [hk, usesNeg])
    have hpk := tracks_peek hc0
    have hnk := tracks_peek hn0
    have e1 : expUpdate realSOps c.dt c.tau (realSOps.K.div c.Q (realSOps.K.sub c.tau c.tauR)) (histAt (curSeq c x inj) 0 t 0) (x t) = curSeq c x inj t := by
      have : curSeq c x inj = fun j => trace (Real.exp (-c.dt / c.tau)) (c.Q / (c.tau - c.tauR)) x (j + 1) := by
        funext j; simp [curSeq, hk]
      rw [this, histAt_trace, expUpdate_real]; rfl
    have e2 : expUpdate realSOps c.dt c.tauR (realSOps.K.div c.Q (realSOps.K.sub c.tau c.tauR)) (histAt (negSeq c x) 0 t 0) (x t) = negSeq c x t := by
      have : negSeq c x = fun j => trace (Real.exp (-c.dt / c.tauR)) (c.Q / (c.tau - c.tauR)) x (j + 1) := by
        funext j; simp [negSeq]
      rw [this, histAt_trace, expUpdate_real]; rfl
    have hc' := tracks_push hc0 c.inplace
    have hn' := tracks_push hn0 c.inplace
    have hcp := tracks_peek hc'
    have hnp := tracks_peek hn'
    rw [histAt_zero_succ] at hcp hnp
    refine ⟨⟨s.spike.push (spikeSeq x t) c.inplace, s.cur.push (curSeq c x inj t) c.inplace, s.neg.push (negSeq c x t) c.inplace⟩, ?_, hs', fun _ => hc', fun _ => hn'⟩
    simp only [stepDoubleExp]
    rw [hpk, hnk]
    simp only []
    rw [e1, e2, show toSpike realSOps.K (x t) = spikeSeq x t from rfl, hcp, hnp]
    simp [outSeq, hk, realSOps, realOps]

theorem stateAt_inv (c : Cfg ℝ) (x : ℕ → ℝ) (inj : ℕ → List ℝ) (t : ℕ) :
    ∃ s, stateAt realSOps c x inj t = some s ∧ Inv c x inj t s := by
  induction t with
  | zero => exact ⟨_, rfl, inv_init c x inj⟩
  | succ t ih =>
    obtain ⟨s, hs, hi⟩ := ih
    obtain ⟨s', h1, h2⟩ := step_inv c x inj t s hi
    exact ⟨s', by simp [stateAt, hs, h1], h2⟩

theorem outAt_eq (c : Cfg ℝ) (x : ℕ → ℝ) (inj : ℕ → List ℝ) (t : ℕ) :
    outAt realSOps c x inj t = some (outSeq c x inj t) := by
  obtain ⟨s, hs, hi⟩ := stateAt_inv c x inj t
  obtain ⟨s', h1, _⟩ := step_inv c x inj t s hi
  simp [outAt, hs, h1]

/-! ## record size -/

theorem n_eq (c : Cfg ℝ) : c.n realSOps = ⌈c.delay / c.dt⌉.toNat + 1 := by
  unfold Cfg.n recordsz
  simp only [realSOps, realOps, if_true]
  exact Nat.max_eq_left (by omega)

theorem ceil_nonneg (c : Cfg ℝ) (hv : Valid c) : 0 ≤ ⌈c.delay / c.dt⌉ :=
  Int.ceil_nonneg (div_nonneg hv.delay_nonneg hv.dt_pos.le)

/-- `k·dt ≤ delay` puts step `k` inside the record. -/
theorem k_lt_n (c : Cfg ℝ) (hv : Valid c) (k : ℕ) (hk : (k : ℝ) * c.dt ≤ c.delay) : k < c.n realSOps := by
  rw [n_eq c]
  have h1 : (k : ℝ) ≤ c.delay / c.dt := by rw [le_div_iff₀ hv.dt_pos]; exact hk
  have h2 : ((k : ℤ) : ℝ) ≤ ⌈c.delay / c.dt⌉ := by
    push_cast; exact le_trans h1 (Int.le_ceil _)
  have h3 : (k : ℤ) ≤ ⌈c.delay / c.dt⌉ := by exact_mod_cast h2
  omega

/-- the record covers the whole supported delay: `delay ≤ dt·(n-1)` -/
theorem delay_le (c : Cfg ℝ) (hv : Valid c) : c.delay ≤ c.dt * (((c.n realSOps : ℕ) : ℝ) - 1) := by
  rw [n_eq c]
  have h0 := ceil_nonneg c hv
  have : ((⌈c.delay / c.dt⌉.toNat : ℕ) : ℝ) = ((⌈c.delay / c.dt⌉ : ℤ) : ℝ) := by
    have : ((⌈c.delay / c.dt⌉.toNat : ℕ) : ℤ) = ⌈c.delay / c.dt⌉ := Int.toNat_of_nonneg h0
    exact_mod_cast this
  push_cast
  rw [this]
  have := Int.le_ceil (c.delay / c.dt)
  have h2 : c.delay = c.dt * (c.delay / c.dt) := by field_simp [hv.dt_pos.ne']
  nlinarith [hv.dt_pos]

/-- `recordsz == 1` exactly when the supported delay is `0`. -/
theorem n_one_iff (c : Cfg ℝ) (hv : Valid c) : c.n realSOps = 1 ↔ c.delay = 0 := by
  rw [n_eq c]
  have h0 := ceil_nonneg c hv
  constructor
  · intro h
    have h1 : ⌈c.delay / c.dt⌉ = 0 := by omega
    have h2 : c.delay / c.dt ≤ 0 := by
      have := Int.le_ceil (c.delay / c.dt); rw [h1] at this; simpa using this
    have := div_nonneg hv.delay_nonneg hv.dt_pos.le
    have h3 : c.delay / c.dt = 0 := le_antisymm h2 this
    rcases div_eq_zero_iff.mp h3 with h | h
    · exact h
    · exact absurd h hv.dt_pos.ne'
  · intro h; rw [h]; simp

/-! ## `_synparam_at` in `ℝ` terms -/

theorem clamp_real (x lo hi : ℝ) (h : lo ≤ hi) : clamp realOps x lo hi = min (max x lo) hi := by
  unfold clamp
  simp only [realOps, decide_eq_true_eq]
  by_cases h1 : x < lo
  · rw [if_pos h1, max_eq_right h1.le, min_eq_left h, if_neg (not_lt.mpr h)]
  · rw [if_neg h1, max_eq_left (not_lt.mp h1)]
    by_cases h2 : hi < x
    · rw [if_pos h2, min_eq_right h2.le]
    · rw [if_neg h2, min_eq_left (not_lt.mp h2)]

theorem clamp_inside (x hi : ℝ) (h0 : 0 ≤ x) (h1 : x ≤ hi) : clamp realOps x (realOps.ofInt 0) hi = x := by
  have e : realOps.ofInt 0 = (0 : ℝ) := by simp [realOps]
  rw [e, clamp_real x 0 hi (le_trans h0 h1), max_eq_left h0, min_eq_left h1]

theorem clamp_above (x hi : ℝ) (h0 : 0 ≤ hi) (h1 : hi ≤ x) : clamp realOps x (realOps.ofInt 0) hi = hi := by
  have e : realOps.ofInt 0 = (0 : ℝ) := by simp [realOps]
  rw [e, clamp_real x 0 hi h0, max_eq_left (le_trans h0 h1), min_eq_right h1]

theorem clamp_below (x hi : ℝ) (h0 : 0 ≤ hi) (h1 : x ≤ 0) : clamp realOps x (realOps.ofInt 0) hi = 0 := by
  have e : realOps.ofInt 0 = (0 : ℝ) := by simp [realOps]
  rw [e, clamp_real x 0 hi h0, max_eq_right h1, min_eq_left h0]

theorem clamp_range (x hi : ℝ) (h0 : 0 ≤ hi) :
    0 ≤ clamp realOps x (realOps.ofInt 0) hi ∧ clamp realOps x (realOps.ofInt 0) hi ≤ hi := by
  have e : realOps.ofInt 0 = (0 : ℝ) := by simp [realOps]
  rw [e, clamp_real x 0 hi h0]
  exact ⟨le_min (le_max_right _ _) h0, min_le_right _ _⟩

theorem readO_of_read {r : Ring.Ring ℝ} {o : ℤ} {v : ℝ} (h : r.read o = some v) : readO r o = .ok v := by
  unfold readO; rw [h]

theorem beq_one (n : ℕ) : (n == 1) = decide (n = 1) := by
  by_cases h : n = 1 <;> simp [h]

/-- Everything in range `[0, delay]` passes `select`'s range test. -/
theorem inRange_of_le (c : Cfg ℝ) (hv : Valid c) (t : ℝ) (h0 : 0 ≤ t) (h1 : t ≤ c.delay) :
    InRange (c.n realSOps) c.dt c.tol t :=
  ⟨by linarith [hv.tol_nonneg], by linarith [delay_le c hv, hv.tol_nonneg]⟩

theorem onGrid_mul (c : Cfg ℝ) (hv : Valid c) (k : ℕ) :
    OnGrid c.dt c.tol ((k : ℝ) * c.dt) ∧ rhe ((k : ℝ) * c.dt / c.dt) = (k : ℤ) := by
  have e : (k : ℝ) * c.dt / c.dt = ((k : ℤ) : ℝ) := by
    field_simp [hv.dt_pos.ne']; simp
  have e2 : rhe ((k : ℝ) * c.dt / c.dt) = (k : ℤ) := by rw [e, rhe_int]
  refine ⟨?_, e2⟩
  unfold OnGrid
  rw [e2]
  have : c.dt * (((k : ℤ) : ℝ)) - (k : ℝ) * c.dt = 0 := by push_cast; ring
  rw [this, abs_zero]; exact hv.tol_nonneg

/-- A query on the grid reads the value `k` steps ago (zero-fill before the start). -/
theorem rawAt_grid (interp : Interp ℝ) (c : Cfg ℝ) (hv : Valid c) {r : Ring.Ring ℝ} {z : ℝ} {f : ℕ → ℝ} {t : ℕ}
    (h : Tracks r (c.n realSOps) z f t) (k : ℕ) (hk : (k : ℝ) * c.dt ≤ c.delay) :
    rawAt realOps interp r (c.n realSOps == 1) c.dt c.delay c.tol ((k : ℝ) * c.dt) = .ok (histAt f z t k) ∧
    boundedSel realOps (c.n realSOps == 1) c.delay ((k : ℝ) * c.dt) = (k : ℝ) * c.dt := by
  have hk0 : 0 ≤ (k : ℝ) * c.dt := mul_nonneg (Nat.cast_nonneg k) hv.dt_pos.le
  unfold rawAt boundedSel
  rw [beq_one]
  by_cases h1 : c.n realSOps = 1
  · simp only [h1, decide_true, if_true]
    have hd := (n_one_iff c hv).mp h1
    have hk1 : (k : ℝ) * c.dt = 0 := le_antisymm (hd ▸ hk) hk0
    have hk2 : k = 0 := by
      rcases mul_eq_zero.mp hk1 with h | h
      · exact_mod_cast h
      · exact absurd h hv.dt_pos.ne'
    subst hk2
    exact ⟨readO_of_read (tracks_peek h), by simp [realOps]⟩
  · simp only [h1, decide_false, if_false, Bool.false_eq_true]
    rw [clamp_inside _ _ hk0 hk]
    refine ⟨?_, rfl⟩
    have hin := inRange_of_le c hv _ hk0 hk
    rw [← h.2.1] at hin
    obtain ⟨hg, hr⟩ := onGrid_mul c hv k
    rw [selectTensor_on interp r c.dt c.tol _ 1 hin hg, hr]
    apply readO_of_read
    rw [add_comm]
    exact tracks_read h k (k_lt_n c hv k hk)

theorem toNat_cast_real {i : ℤ} (h : 0 ≤ i) : ((i.toNat : ℕ) : ℤ) = i := Int.toNat_of_nonneg h

/-- A query strictly between grid points (not within tolerance of any) interpolates, with the
given kernel, between the values `⌈sel/dt⌉` (older) and `⌊sel/dt⌋` (newer) steps ago; the kernel
receives the time elapsed since the older one. -/
theorem rawAt_between (interp : Interp ℝ) (c : Cfg ℝ) (hv : Valid c) {r : Ring.Ring ℝ} {z : ℝ} {f : ℕ → ℝ} {t : ℕ}
    (h : Tracks r (c.n realSOps) z f t) (sel : ℝ) (h0 : 0 ≤ sel) (h1 : sel ≤ c.delay)
    (hoff : ¬ OnGrid c.dt c.tol sel) :
    rawAt realOps interp r (c.n realSOps == 1) c.dt c.delay c.tol sel =
      .ok (interp (histAt f z t ⌈sel / c.dt⌉.toNat) (histAt f z t ⌊sel / c.dt⌋.toNat)
            ((⌈sel / c.dt⌉ : ℝ) * c.dt - sel) c.dt) ∧
    boundedSel realOps (c.n realSOps == 1) c.delay sel = sel := by
  have hin := inRange_of_le c hv sel h0 h1
  obtain ⟨_, hceil, hfl0, hcn, hsa, _, _⟩ := offGrid_facts hv.dt_pos hv.tol_nonneg hin hoff
  have hne : c.n realSOps ≠ 1 := by
    intro h1'
    have hd := (n_one_iff c hv).mp h1'
    have : sel = 0 := le_antisymm (hd ▸ h1) h0
    apply hoff
    unfold OnGrid
    have hr : rhe (0 : ℝ) = 0 := by simpa using rhe_int 0
    rw [this]; simp [hr, hv.tol_nonneg]
  unfold rawAt boundedSel
  rw [beq_one]
  simp only [hne, decide_false, if_false, Bool.false_eq_true]
  rw [clamp_inside _ _ h0 h1]
  refine ⟨?_, rfl⟩
  have hin' := hin
  rw [← h.2.1] at hin'
  rw [selectTensor_off interp r c.dt c.tol sel 1 hin' hoff (by omega)]
  have hc0 : 0 ≤ ⌈sel / c.dt⌉ := by omega
  have r1 : r.read (1 + ⌈sel / c.dt⌉) = some (histAt f z t ⌈sel / c.dt⌉.toNat) := by
    have := tracks_read h ⌈sel / c.dt⌉.toNat (by omega)
    rwa [Int.toNat_of_nonneg hc0, add_comm] at this
  have r2 : r.read (1 + ⌊sel / c.dt⌋) = some (histAt f z t ⌊sel / c.dt⌋.toNat) := by
    have := tracks_read h ⌊sel / c.dt⌋.toNat (by omega)
    rwa [Int.toNat_of_nonneg hfl0, add_comm] at this
  rw [r1, r2, withPair_some, hsa]

theorem selectTensor_ok (interp : Interp ℝ) (r : Ring.Ring ℝ) (hw : r.WF) (dt tol t : ℝ)
    (hin : InRange r.n dt tol t) : ∃ v, selectTensor realOps interp r dt tol t 1 = .ok v := by
  unfold selectTensor
  rw [(inRange_iff _ _ _ _).mpr hin]
  simp only [Bool.not_true, Bool.false_eq_true, if_false]
  obtain ⟨p, hp⟩ := read_some r hw (realOps.ceil (realOps.add (realOps.ofInt 1) (shiftOf realOps dt tol t)))
  obtain ⟨q, hq⟩ := read_some r hw (realOps.floor (realOps.add (realOps.ofInt 1) (shiftOf realOps dt tol t)))
  rw [hp, hq, withPair_some]
  exact ⟨_, rfl⟩

/-- On a well-formed record of the configured size every query returns a value (the clamp keeps
`select` inside its range test). -/
theorem rawAt_ok (interp : Interp ℝ) (c : Cfg ℝ) (hv : Valid c) (r : Ring.Ring ℝ) (hw : r.WF)
    (hn : r.n = c.n realSOps) (u : Bool) (sel : ℝ) :
    ∃ v, rawAt realOps interp r u c.dt c.delay c.tol sel = .ok v := by
  unfold rawAt
  cases u with
  | true =>
    obtain ⟨v, hv'⟩ := read_some r hw 1
    exact ⟨v, by simp [readO_of_read hv']⟩
  | false =>
    simp only [Bool.false_eq_true, if_false]
    obtain ⟨hb0, hb1⟩ := clamp_range sel c.delay hv.delay_nonneg
    have hin := inRange_of_le c hv _ hb0 hb1
    rw [← hn] at hin
    exact selectTensor_ok interp r hw _ _ _ hin

/-! ## in-place vs out-of-place, for EVERY arithmetic (`Float` included) -/
section Inplace
variable {α : Type}

def St.WF (s : St α) : Prop := s.spike.WF ∧ s.cur.WF ∧ s.neg.WF

theorem n_pos' (S : SOps α) (c : Cfg α) : 0 < c.n S := by
  unfold Cfg.n recordsz; exact Nat.lt_of_lt_of_le Nat.zero_lt_one (Nat.le_max_right _ _)

theorem init_wf (S : SOps α) (c : Cfg α) : (init S c).WF := by
  have h : (zeroRing S.K (c.n S)).WF := ⟨n_pos' S c, n_pos' S c, by simp [zeroRing]⟩
  exact ⟨h, h, h⟩

theorem step_inplace_tf (S : SOps α) (c : Cfg α) (s : St α) (hw : s.WF) (x : α) (inj : List α) :
    step S { c with inplace := true } s x inj = step S { c with inplace := false } s x inj := by
  obtain ⟨h1, h2, h3⟩ := hw
  unfold step
  cases c.kind <;>
    simp only [stepDelta, stepDeltaPlus, stepSingleExp, stepDoubleExp, spikeToCurrent,
      push_inplace_eq _ h1, push_inplace_eq _ h2, push_inplace_eq _ h3]

theorem step_inplace (S : SOps α) (c : Cfg α) (b : Bool) (s : St α) (hw : s.WF) (x : α) (inj : List α) :
    step S { c with inplace := b } s x inj = step S c s x inj := by
  cases c with
  | mk kind dt delay Q tau tauR mode tol co so ip =>
    cases b <;> cases ip
    · rfl
    · exact (step_inplace_tf S ⟨kind, dt, delay, Q, tau, tauR, mode, tol, co, so, true⟩ s hw x inj).symm
    · exact step_inplace_tf S ⟨kind, dt, delay, Q, tau, tauR, mode, tol, co, so, true⟩ s hw x inj
    · rfl

theorem step_wf (S : SOps α) (c : Cfg α) (s s' : St α) (v : α) (hw : s.WF) (x : α) (inj : List α)
    (h : step S c s x inj = some (s', v)) : s'.WF := by
  obtain ⟨h1, h2, h3⟩ := hw
  unfold step at h
  cases hk : c.kind <;> rw [hk] at h <;> simp only [stepDelta, stepDeltaPlus, stepSingleExp, stepDoubleExp] at h
  · split at h
    · simp only [Option.some.injEq, Prod.mk.injEq] at h
      rw [← h.1]; exact ⟨push_wf' _ h1 _ _, h2, h3⟩
    · simp at h
  · split at h
    · simp only [Option.some.injEq, Prod.mk.injEq] at h
      rw [← h.1]; exact ⟨push_wf' _ h1 _ _, push_wf' _ h2 _ _, h3⟩
    · simp at h
  · split at h
    · simp at h
    · split at h
      · simp only [Option.some.injEq, Prod.mk.injEq] at h
        rw [← h.1]; exact ⟨push_wf' _ h1 _ _, push_wf' _ h2 _ _, h3⟩
      · simp at h
  · split at h
    · split at h
      · simp only [Option.some.injEq, Prod.mk.injEq] at h
        rw [← h.1]; exact ⟨push_wf' _ h1 _ _, push_wf' _ h2 _ _, push_wf' _ h3 _ _⟩
      · simp at h
    · simp at h

theorem stateAt_wf (S : SOps α) (c : Cfg α) (x : ℕ → α) (inj : ℕ → List α) (t : ℕ) (s : St α)
    (h : stateAt S c x inj t = some s) : s.WF := by
  induction t generalizing s with
  | zero => simp only [stateAt, Option.some.injEq] at h; rw [← h]; exact init_wf S c
  | succ t ih =>
    simp only [stateAt] at h
    cases h0 : stateAt S c x inj t with
    | none => rw [h0] at h; simp at h
    | some s0 =>
      rw [h0] at h
      simp only [Option.bind_some, Option.map_eq_some_iff] at h
      obtain ⟨⟨s1, v⟩, h1, h2⟩ := h
      simp only at h2; subst h2
      exact step_wf S c s0 s1 v (ih s0 h0) _ _ h1

theorem stateAt_inplace (S : SOps α) (c : Cfg α) (b : Bool) (x : ℕ → α) (inj : ℕ → List α) (t : ℕ) :
    stateAt S { c with inplace := b } x inj t = stateAt S c x inj t := by
  induction t with
  | zero => rfl
  | succ t ih =>
    simp only [stateAt, ih]
    cases h0 : stateAt S c x inj t with
    | none => rfl
    | some s0 => simp only [Option.bind_some, step_inplace S c b s0 (stateAt_wf S c x inj t s0 h0)]

end Inplace
/-! ## overbound replacement -/

theorem applyOverbound_same (tol : ℝ) (h : 0 ≤ tol) (over : Option ℝ) (sel res : ℝ) :
    applyOverbound realOps tol over sel sel res = res := by
  unfold applyOverbound
  cases over with
  | none => rfl
  | some o => simp [realOps, h]

theorem applyOverbound_none (tol sel b res : ℝ) : applyOverbound realOps tol none sel b res = res := rfl

/-- A selector farther than the tolerance beyond `[0, delay]` is replaced by the overbound value. -/
theorem applyOverbound_beyond (tol delay : ℝ) (ht : 0 ≤ tol) (hd : 0 ≤ delay) (u : Bool) (o sel res : ℝ)
    (h : delay + tol < sel ∨ sel < -tol) :
    applyOverbound realOps tol (some o) sel (boundedSel realOps u delay sel) res = o := by
  unfold applyOverbound boundedSel
  have key : ¬ |sel - (if u = true then realOps.ofInt 0 else clamp realOps sel (realOps.ofInt 0) delay)| ≤ tol := by
    cases u with
    | true =>
      simp only [if_true]
      have e : realOps.ofInt 0 = (0 : ℝ) := by simp [realOps]
      rw [e, sub_zero, not_le]
      rcases h with h | h
      · rw [abs_of_pos (by linarith)]; linarith
      · rw [abs_of_neg (by linarith)]; linarith
    | false =>
      simp only [Bool.false_eq_true, if_false, not_le]
      rcases h with h | h
      · rw [clamp_above _ _ hd (by linarith), abs_of_pos (by linarith)]; linarith
      · rw [clamp_below _ _ hd (by linarith), sub_zero, abs_of_neg (by linarith)]; linarith
  simp only [realOps, decide_eq_true_eq] at key ⊢
  rw [if_neg key]

theorem map_ok {β γ : Type} (f : β → γ) (v : β) : (Outcome.ok v).map f = .ok (f v) := rfl

/-- `_synparam_at` on the grid: the (transformed) value `k` steps ago. -/
theorem synparamAt_grid (interp : Interp ℝ) (c : Cfg ℝ) (hv : Valid c) {r : Ring.Ring ℝ} {z : ℝ} {f : ℕ → ℝ} {t : ℕ}
    (h : Tracks r (c.n realSOps) z f t) (over : Option ℝ) (tr : ℝ → ℝ) (k : ℕ) (hk : (k : ℝ) * c.dt ≤ c.delay) :
    synparamAt realOps interp r c.dt c.delay c.tol over tr ((k : ℝ) * c.dt) = .ok (tr (histAt f z t k)) := by
  unfold synparamAt
  obtain ⟨h1, h2⟩ := rawAt_grid interp c hv h k hk
  simp only [h.2.1]
  rw [h1, h2, map_ok, applyOverbound_same _ hv.tol_nonneg]

/-- `_synparam_at` strictly between grid points. -/
theorem synparamAt_between (interp : Interp ℝ) (c : Cfg ℝ) (hv : Valid c) {r : Ring.Ring ℝ} {z : ℝ} {f : ℕ → ℝ} {t : ℕ}
    (h : Tracks r (c.n realSOps) z f t) (over : Option ℝ) (tr : ℝ → ℝ) (sel : ℝ) (h0 : 0 ≤ sel) (h1 : sel ≤ c.delay)
    (hoff : ¬ OnGrid c.dt c.tol sel) :
    synparamAt realOps interp r c.dt c.delay c.tol over tr sel =
      .ok (tr (interp (histAt f z t ⌈sel / c.dt⌉.toNat) (histAt f z t ⌊sel / c.dt⌋.toNat)
            ((⌈sel / c.dt⌉ : ℝ) * c.dt - sel) c.dt)) := by
  unfold synparamAt
  obtain ⟨e1, e2⟩ := rawAt_between interp c hv h sel h0 h1 hoff
  simp only [h.2.1]
  rw [e1, e2, map_ok, applyOverbound_same _ hv.tol_nonneg]

/-- `_synparam_at` beyond the supported range with an overbound value configured. -/
theorem synparamAt_beyond (interp : Interp ℝ) (c : Cfg ℝ) (hv : Valid c) (r : Ring.Ring ℝ) (hw : r.WF)
    (hn : r.n = c.n realSOps) (o : ℝ) (tr : ℝ → ℝ) (sel : ℝ) (h : c.delay + c.tol < sel ∨ sel < -c.tol) :
    synparamAt realOps interp r c.dt c.delay c.tol (some o) tr sel = .ok o := by
  unfold synparamAt
  obtain ⟨v, hv'⟩ := rawAt_ok interp c hv r hw hn (r.n == 1) sel
  simp only
  rw [hv', map_ok, applyOverbound_beyond _ _ hv.tol_nonneg hv.delay_nonneg _ _ _ _ h]

/-- Without an overbound value every selector at or beyond the limit reads what the limit reads. -/
theorem synparamAt_clamps (interp : Interp ℝ) (c : Cfg ℝ) (hv : Valid c) (r : Ring.Ring ℝ) (tr : ℝ → ℝ) (sel : ℝ)
    (h : c.delay ≤ sel) :
    synparamAt realOps interp r c.dt c.delay c.tol none tr sel =
    synparamAt realOps interp r c.dt c.delay c.tol none tr c.delay := by
  unfold synparamAt rawAt
  simp only [applyOverbound_none, clamp_above _ _ hv.delay_nonneg h, clamp_above _ _ hv.delay_nonneg (le_refl _)]

theorem isSpike_toSpike (v : ℝ) : isSpike realOps (toSpike realOps v) = decide (v ≠ 0) := by
  unfold isSpike toSpike
  simp only [realOps, Bool.or_eq_true, decide_eq_true_eq, Int.cast_zero, Int.cast_one]
  by_cases h : v < 0 ∨ 0 < v
  · rw [if_pos h]
    have : v ≠ 0 := by rcases h with h | h <;> [exact h.ne; exact h.ne']
    simp [this]
  · rw [if_neg h]
    have : v = 0 := by
      rw [not_or, not_lt, not_lt] at h; exact le_antisymm h.2 h.1
    simp [this]

theorem isSpike_zero : isSpike realOps (0 : ℝ) = false := by simp [isSpike, realOps]

/-- closed forms of the recorded sequences -/
theorem curSeq_singleExp (c : Cfg ℝ) (hk : c.kind = .singleExp) (x : ℕ → ℝ) (inj : ℕ → List ℝ) (n : ℕ) :
    curSeq c x inj n = ∑ k ∈ Finset.range (n + 1), x k * (c.Q / c.tau) * Real.exp (-(((n - k : ℕ) : ℝ) * c.dt) / c.tau) := by
  simp only [curSeq, hk]
  rw [trace_closed]
  apply Finset.sum_congr rfl
  intro k _
  rw [exp_pow]
  have : n + 1 - 1 - k = n - k := by omega
  rw [this]; ring

theorem curSeq_doubleExp (c : Cfg ℝ) (hk : c.kind = .doubleExp) (x : ℕ → ℝ) (inj : ℕ → List ℝ) (n : ℕ) :
    curSeq c x inj n = ∑ k ∈ Finset.range (n + 1), x k * (c.Q / (c.tau - c.tauR)) * Real.exp (-(((n - k : ℕ) : ℝ) * c.dt) / c.tau) := by
  simp only [curSeq, hk]
  rw [trace_closed]
  apply Finset.sum_congr rfl
  intro k _
  rw [exp_pow]
  have : n + 1 - 1 - k = n - k := by omega
  rw [this]; ring

theorem negSeq_closed (c : Cfg ℝ) (x : ℕ → ℝ) (n : ℕ) :
    negSeq c x n = ∑ k ∈ Finset.range (n + 1), x k * (c.Q / (c.tau - c.tauR)) * Real.exp (-(((n - k : ℕ) : ℝ) * c.dt) / c.tauR) := by
  simp only [negSeq]
  rw [trace_closed]
  apply Finset.sum_congr rfl
  intro k _
  rw [exp_pow]
  have : n + 1 - 1 - k = n - k := by omega
  rw [this]; ring

/-! ## `clear()` -/
section Clear
variable {α : Type}

/-- every record has the configured number of slots -/
def St.Sized (S : SOps α) (c : Cfg α) (s : St α) : Prop :=
  s.spike.n = c.n S ∧ s.cur.n = c.n S ∧ s.neg.n = c.n S

theorem init_sized (S : SOps α) (c : Cfg α) : (init S c).Sized S c := ⟨rfl, rfl, rfl⟩

theorem step_sized (S : SOps α) (c : Cfg α) (s s' : St α) (v : α) (hz : s.Sized S c) (x : α) (inj : List α)
    (h : step S c s x inj = some (s', v)) : s'.Sized S c := by
  obtain ⟨h1, h2, h3⟩ := hz
  unfold step at h
  cases hk : c.kind <;> rw [hk] at h <;> simp only [stepDelta, stepDeltaPlus, stepSingleExp, stepDoubleExp] at h
  · split at h
    · simp only [Option.some.injEq, Prod.mk.injEq] at h
      rw [← h.1]; exact ⟨by rw [push_n]; exact h1, h2, h3⟩
    · simp at h
  · split at h
    · simp only [Option.some.injEq, Prod.mk.injEq] at h
      rw [← h.1]; exact ⟨by rw [push_n]; exact h1, by rw [push_n]; exact h2, h3⟩
    · simp at h
  · split at h
    · simp at h
    · split at h
      · simp only [Option.some.injEq, Prod.mk.injEq] at h
        rw [← h.1]; exact ⟨by rw [push_n]; exact h1, by rw [push_n]; exact h2, h3⟩
      · simp at h
  · split at h
    · split at h
      · simp only [Option.some.injEq, Prod.mk.injEq] at h
        rw [← h.1]; exact ⟨by rw [push_n]; exact h1, by rw [push_n]; exact h2, by rw [push_n]; exact h3⟩
      · simp at h
    · simp at h

theorem stateAt_sized (S : SOps α) (c : Cfg α) (x : ℕ → α) (inj : ℕ → List α) (t : ℕ) (s : St α)
    (h : stateAt S c x inj t = some s) : s.Sized S c := by
  induction t generalizing s with
  | zero => simp only [stateAt, Option.some.injEq] at h; rw [← h]; exact init_sized S c
  | succ t ih =>
    simp only [stateAt] at h
    cases h0 : stateAt S c x inj t with
    | none => rw [h0] at h; simp at h
    | some s0 =>
      rw [h0] at h
      simp only [Option.bind_some, Option.map_eq_some_iff] at h
      obtain ⟨⟨s1, v⟩, h1, h2⟩ := h
      simp only at h2; subst h2
      exact step_sized S c s0 s1 v (ih s0 h0) _ _ h1

theorem resetFill_eq_zeroRing (K : Ops α) (r : Ring.Ring α) (hw : r.WF) : r.resetFill (K.ofInt 0) = zeroRing K r.n := by
  unfold Ring.resetFill zeroRing; rw [hw.2.2]

/-- `clear()` on any reachable state gives back the freshly constructed state. -/
theorem clear_reachable (S : SOps α) (c : Cfg α) (x : ℕ → α) (inj : ℕ → List α) (t : ℕ) (s : St α)
    (h : stateAt S c x inj t = some s) : clear S s = init S c := by
  obtain ⟨w1, w2, w3⟩ := stateAt_wf S c x inj t s h
  obtain ⟨z1, z2, z3⟩ := stateAt_sized S c x inj t s h
  unfold clear init
  rw [resetFill_eq_zeroRing S.K _ w1, resetFill_eq_zeroRing S.K _ w2, resetFill_eq_zeroRing S.K _ w3, z1, z2, z3]

end Clear
end InfernoVerif.Synapse
