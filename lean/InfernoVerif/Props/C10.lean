import InfernoVerif.Lemmas.Updater
import Mathlib.Data.List.Perm.Basic
/-!
# C10 — Updater algebra: accumulate, reduce, bound, apply once, clear

Property theorems only (definitions: `Model/Updater.lean`; helper lemmas: `Lemmas/Updater.lean`).

* `step_refines` / `run_refines`: for EVERY finite operation list over the accumulator / updater /
  updatable API (part contributions in all four setter forms, reads, deletes, reduction and bound
  reconfiguration, `Updater(…, reduction=…)`, `update` / `updatesome` / `clear` with `clear` on and
  off, exceptions included) the code-shaped machine (parts + two cache cells + `bind`) produces the
  same outputs as the specification machine, whose apply step is literally
  `new = old + ub(reduce pos parts) − lb(reduce neg parts)`.
* `cache_coherent`: in every reachable state a filled cache cell equals `reduce` of the current
  parts — for every operation list, with no hypothesis on the configured functions.
* `apply_formula`, `order_independent_*`, `no_parts_noop`, `second_apply_after_clear_noop`,
  `constructor_reduction_is_used`, the five `bound_*_decomposes` (each full bounding function is
  its pair of half functions), `pos_through_upper_neg_through_lower`.
* Range theorems over `ℝ` (powers are `Real.rpow`), each lifted to update histories of arbitrary
  length (`Accumulator.history`: contributions through the setters, `forward`, `clear`, repeated):
  `multiplicative_stays_in_range`, `scaled_multiplicative_stays_in_range`,
  `scaled_power_stays_in_range` (real exponents ≥ 1), `sharp_never_further`.
-/
namespace InfernoVerif.Updater
set_option linter.unusedSectionVars false

/-! ## Refinement of the code-shaped machine by the specification, over all operation lists -/
section Refinement
variable {α : Type} [AddGroup α]

/-- One operation: abstract states agree, outputs agree, the invariant (cache coherence and
soundness of the configured full bounding function) is preserved. -/
theorem step_refines (m : Module α) (h : MInv m) (op : Op α) (hop : op.Sound) :
    mabs (step m op).1 = (sstep (mabs m) op).1 ∧ (step m op).2 = (sstep (mabs m) op).2 ∧
      MInv (step m op).1 := by
  cases op with
  | newUpdater ps r =>
    obtain ⟨prm, u⟩ := m
    by_cases hc : (ps.all fun p => (alookup prm p).isSome) = true
    · simp only [step, sstep, mabs, hc, if_true]
      refine ⟨?_, trivial, ?_⟩
      · simp only [Option.map_some]
        rw [show (Updater.new ps r).accs.map (fun pa => (pa.1, pa.2.abs)) = absAccs (Updater.new ps r).accs from rfl,
          new_updater_abs]
        rfl
      · intro u' hu'; simp only [Option.some.injEq] at hu'; subst hu'; exact new_updater_inv ps r
    · have hc' : (ps.all fun p => (alookup prm p).isSome) = false := by simpa using hc
      simp only [step, sstep, mabs, hc']
      exact ⟨rfl, rfl, h⟩
  | delUpdater => exact ⟨rfl, rfl, by intro u' hu'; simp [step] at hu'⟩
  | setParam p v =>
    obtain ⟨prm, u⟩ := m
    simp only [step, sstep, mabs]
    split
    · exact ⟨rfl, rfl, h⟩
    · exact ⟨rfl, rfl, h⟩
  | setPos p v => exact onAcc_refines m h p _ _ (fun a _ => setPos_abs a v) (fun a ha => setPos_inv a ha v)
  | setNeg p v => exact onAcc_refines m h p _ _ (fun a _ => setNeg_abs a v) (fun a ha => setNeg_inv a ha v)
  | setAcc p v => exact onAcc_refines m h p _ _ (fun a _ => setAcc_abs a v) (fun a ha => setAcc_inv a ha v)
  | getPos p =>
    obtain ⟨r1, r2, r3⟩ := readAcc_refines m h p Accumulator.getPos (fun s => calcParts s.reduce s.pos)
      (fun a ha => getPos_val a ha.1) getPos_abs getPos_inv
    refine ⟨?_, ?_, r3⟩
    · rw [show (step m (.getPos p)).1 = (m.readAcc p Accumulator.getPos).1 from rfl, r1]
      simp only [sstep]
      cases (mabs m).updater with
      | none => rfl
      | some u' => simp only []; cases alookup u' p <;> rfl
    · rw [show (step m (.getPos p)).2 = (m.readAcc p Accumulator.getPos).2 from rfl, r2]
      simp only [sstep]
      cases (mabs m).updater with
      | none => rfl
      | some u' => simp only []; cases alookup u' p <;> rfl
  | getNeg p =>
    obtain ⟨r1, r2, r3⟩ := readAcc_refines m h p Accumulator.getNeg (fun s => calcParts s.reduce s.neg)
      (fun a ha => getNeg_val a ha.1) getNeg_abs getNeg_inv
    refine ⟨?_, ?_, r3⟩
    · rw [show (step m (.getNeg p)).1 = (m.readAcc p Accumulator.getNeg).1 from rfl, r1]
      simp only [sstep]
      cases (mabs m).updater with
      | none => rfl
      | some u' => simp only []; cases alookup u' p <;> rfl
    · rw [show (step m (.getNeg p)).2 = (m.readAcc p Accumulator.getNeg).2 from rfl, r2]
      simp only [sstep]
      cases (mabs m).updater with
      | none => rfl
      | some u' => simp only []; cases alookup u' p <;> rfl
  | delPos p => exact onAcc_refines m h p _ _ (fun a _ => rfl) delPos_inv
  | delNeg p => exact onAcc_refines m h p _ _ (fun a _ => rfl) delNeg_inv
  | delAcc p => exact onAcc_refines m h p _ _ (fun a _ => clear_abs a) clear_inv
  | accClear p => exact onAcc_refines m h p _ _ (fun a _ => clear_abs a) clear_inv
  | reduction p fn => exact onAcc_refines m h p _ _ (fun a _ => rfl) (fun a ha => reduction_inv a ha fn)
  | upperbound p b => exact onAcc_refines m h p _ _ (fun a _ => upperbound_abs a b) (fun a ha => upperbound_inv a ha b)
  | lowerbound p b => exact onAcc_refines m h p _ _ (fun a _ => lowerbound_abs a b) (fun a ha => lowerbound_inv a ha b)
  | fullbound p b =>
    refine onAcc_refines m h p _ _ (fun a _ => fullbound_abs a b) (fun a ha => fullbound_inv a ha b ?_)
    intro b' hb'; subst hb'; exact hop
  | accUpdate p =>
    obtain ⟨prm, u⟩ := m
    cases u with
    | none => exact ⟨rfl, rfl, h⟩
    | some u =>
      have hu : AccsInv u.accs := h u rfl
      simp only [step, sstep, mabs_some]
      rw [absAccs, alookup_map]
      cases ha : alookup u.accs p with
      | none => exact ⟨rfl, rfl, h⟩
      | some a =>
        cases hx : alookup prm p with
        | none => exact ⟨rfl, rfl, h⟩
        | some x =>
          obtain ⟨f1, f2, f3⟩ := update_refines a (hu (p, a) (alookup_mem ha)) x
          simp only [Option.map_some, mabs_some]
          refine ⟨?_, by rw [f1], ?_⟩
          · rw [show absAccs (aset u.accs p (a.update x).1) = absAccs u.accs from
              aset_map_same u.accs p a _ Accumulator.abs ha f2]
            rfl
          · intro u' hu'
            simp only [Option.some.injEq] at hu'
            subst hu'
            exact aset_forall Accumulator.Inv u.accs p _ hu f3
  | update c => exact update_refines_mod m h c
  | updatesome ps c => exact updatesome_refines c ps m h
  | clear =>
    obtain ⟨prm, u⟩ := m
    cases u with
    | none => exact ⟨rfl, rfl, h⟩
    | some u =>
      refine ⟨?_, rfl, ?_⟩
      · simp only [step, sstep, mabs_some, Updater.clear, clear_all_refines]
      · intro u' hu'
        simp only [step, Option.some.injEq] at hu'
        subst hu'
        exact clear_all_inv _ (h u rfl)

/-- EVERY operation list: same outputs, abstract states agree, invariant holds at the end. -/
theorem run_refines (ops : List (Op α)) : ∀ (m : Module α), MInv m → (∀ op ∈ ops, op.Sound) →
    mabs (run m ops).1 = (srun (mabs m) ops).1 ∧ (run m ops).2 = (srun (mabs m) ops).2 ∧
      MInv (run m ops).1 := by
  induction ops with
  | nil => intro m h _; exact ⟨rfl, rfl, h⟩
  | cons op ops ih =>
    intro m h hs
    obtain ⟨s1, s2, s3⟩ := step_refines m h op (hs op List.mem_cons_self)
    obtain ⟨i1, i2, i3⟩ := ih (step m op).1 s3 (fun o ho => hs o (List.mem_cons_of_mem _ ho))
    simp only [run, srun]
    rw [s1] at i1 i2
    exact ⟨i1, by rw [s2, i2], i3⟩

/-- A freshly built module (no updater yet) satisfies the invariant, so `run_refines` covers every
history of a module from its construction on. -/
theorem init_inv (prm : List (String × α)) : MInv (⟨prm, none⟩ : Module α) := by
  intro u hu; cases hu

end Refinement

/-! ## Cache coherence -/
section Coherence
variable {α : Type} [Add α] [Sub α] [Neg α] [Zero α]

/-- `cache_coherent`: after ANY operation list from a freshly built module, every filled cache cell
of every accumulator equals `reduce` of that accumulator's current list of parts (`None` when the
list is empty).  No hypothesis on reductions or bounding functions. -/
theorem cache_coherent (prm : List (String × α)) (ops : List (Op α)) :
    ∀ u, (run (⟨prm, none⟩ : Module α) ops).1.updater = some u → ∀ pa ∈ u.accs,
      (∀ v, pa.2.posCache = some v → v = calcParts pa.2.reduce pa.2.pos) ∧
      (∀ v, pa.2.negCache = some v → v = calcParts pa.2.reduce pa.2.neg) :=
  run_coh ops ⟨prm, none⟩ (by intro u hu; cases hu)

/-- hence every read returns `reduce` of the current parts -/
theorem read_is_reduce_of_current_parts (prm : List (String × α)) (ops : List (Op α))
    (u : Updater α) (hu : (run (⟨prm, none⟩ : Module α) ops).1.updater = some u)
    (p : String) (a : Accumulator α) (ha : alookup u.accs p = some a) :
    a.getPos.2 = calcParts a.reduce a.pos ∧ a.getNeg.2 = calcParts a.reduce a.neg :=
  have hc := cache_coherent prm ops u hu (p, a) (alookup_mem ha)
  ⟨getPos_val a hc, getNeg_val a hc⟩

end Coherence

/-! ## The apply formula -/
section Formula
variable {α : Type} [AddGroup α]

/-- `apply_formula`: on any accumulator in a reachable state (coherent caches, sound `bind`) whose
`bind` reads as the pair `(ub, lb)`, applying sets
`new = old + ub(reduce pos parts) − lb(reduce neg parts)`, a side without parts contributing
nothing. -/
theorem apply_formula (a : Accumulator α) (h : a.Inv) (x : α) (ub lb : α → α → α)
    (hh : a.bind.halves? = some (ub, lb)) (hne : a.pos ≠ [] ∨ a.neg ≠ []) :
    (a.forward x).2 =
      .ok (x + ((match calcParts a.reduce a.pos with | some p => ub x p | none => 0) -
                (match calcParts a.reduce a.neg with | some n => lb x n | none => 0))) := by
  have hc : ¬ (a.pos = [] ∧ a.neg = []) := by
    intro hc
    rcases hne with h1 | h1
    · exact h1 hc.1
    · exact h1 hc.2
  rw [forward_formula a h x ub lb hh, if_neg hc]
  rfl

/-- both sides present: the literal formula of the property -/
theorem apply_formula_both (a : Accumulator α) (h : a.Inv) (x : α) (ub lb : α → α → α)
    (hh : a.bind.halves? = some (ub, lb)) (hp : a.pos ≠ []) (hn : a.neg ≠ []) :
    (a.forward x).2 = .ok (x + (ub x (a.reduce a.pos) - lb x (a.reduce a.neg))) := by
  rw [apply_formula a h x ub lb hh (Or.inl hp), calcParts_ne_nil _ _ hp, calcParts_ne_nil _ _ hn]

/-- `pos_through_upper_neg_through_lower`: with half functions `f` (via `upperbound`) and `g` (via
`lowerbound`) configured in either order, what was contributed as potentiation enters the applied
change only through `f`, what was contributed as depression only through `g` (and is
subtracted). -/
theorem pos_through_upper_neg_through_lower (a : Accumulator α) (h : a.Inv) (f g : α → α → α) (x : α)
    (hp : a.pos ≠ []) (hn : a.neg ≠ []) :
    (((a.upperbound (some f)).lowerbound (some g)).forward x).2
        = .ok (x + (f x (a.reduce a.pos) - g x (a.reduce a.neg))) ∧
    (((a.lowerbound (some g)).upperbound (some f)).forward x).2
        = .ok (x + (f x (a.reduce a.pos) - g x (a.reduce a.neg))) :=
  ⟨apply_formula_both _ (lowerbound_inv _ (upperbound_inv a h _) _) x f g rfl hp hn,
   apply_formula_both _ (upperbound_inv _ (lowerbound_inv a h _) _) x f g rfl hp hn⟩

end Formula

/-! ## Each full bounding function is its pair of half functions (over `ℝ`) -/
section Decompose

/-- `bound_multiplicative(x, p, n, max, min) = bound_upper_multiplicative(x, p, max) −
bound_lower_multiplicative(x, n, min)`; a `None` limit leaves that side unscaled. -/
theorem bound_multiplicative_decomposes (max min : Option ℝ) :
    (FullBound.multiplicative max min).Sound := by
  cases max <;> cases min <;>
    simp [FullBound.Sound, FullBound.multiplicative, bound_multiplicative,
      bound_upper_multiplicative, bound_lower_multiplicative, idHalf]

theorem bound_sharp_decomposes (max min : Option ℝ) : (FullBound.sharp max min).Sound := by
  cases max <;> cases min <;>
    simp [FullBound.Sound, FullBound.sharp, bound_sharp, bound_upper_sharp, bound_lower_sharp, idHalf]

theorem bound_power_decomposes (max min : Option ℝ) (up lp : ℝ) :
    (FullBound.power max min up lp).Sound := by
  cases max <;> cases min <;>
    simp [FullBound.Sound, FullBound.power, bound_power, bound_upper_power, bound_lower_power, idHalf]

/-- with exactly one limit `None` the scaled functions raise `TypeError` (`max - min`) -/
theorem bound_scaled_multiplicative_decomposes (max min : Option ℝ) :
    (FullBound.scaled_multiplicative max min).Sound := by
  cases max <;> cases min <;>
    simp [FullBound.Sound, FullBound.scaled_multiplicative, bound_scaled_multiplicative, optSub, Except.map,
      bound_upper_scaled_multiplicative, bound_lower_scaled_multiplicative, idHalf]

theorem bound_scaled_power_decomposes (max min : Option ℝ) (up lp : ℝ) :
    (FullBound.scaled_power max min up lp).Sound := by
  cases max <;> cases min <;>
    simp [FullBound.Sound, FullBound.scaled_power, bound_scaled_power, optSub, Except.map,
      bound_upper_scaled_power, bound_lower_scaled_power, idHalf]

end Decompose

/-! ## Order independence -/
section Order

/-- `torch.sum` over the parts does not depend on the order of contribution -/
theorem order_independent_sum {l₁ l₂ : List ℝ} (h : l₁.Perm l₂) : rsum l₁ = rsum l₂ := by
  have : RightCommutative (fun (x y : ℝ) => x + y) := ⟨fun a b c => add_right_comm a b c⟩
  exact h.foldl_eq 0

/-- `torch.mean` -/
theorem order_independent_mean {l₁ l₂ : List ℝ} (h : l₁.Perm l₂) : rmean l₁ = rmean l₂ := by
  unfold rmean; rw [order_independent_sum h, h.length_eq]

/-- `torch.amax` -/
theorem order_independent_max {l₁ l₂ : List ℝ} (h : l₁.Perm l₂) : rmax l₁ = rmax l₂ := by
  by_cases hn : l₁ = []
  · subst hn; rw [h.nil_eq]
  · have hn2 : l₂ ≠ [] := fun h2 => hn (by subst h2; exact h.eq_nil)
    exact le_antisymm (le_rmax l₂ _ (h.mem_iff.mp (rmax_mem l₁ hn)))
      (le_rmax l₁ _ (h.mem_iff.mpr (rmax_mem l₂ hn2)))

/-- `order_independent`: two accumulators holding the same parts in different orders (any
interleaving of the trainers' contributions), with an order-insensitive reduction, apply the same
update. -/
theorem order_independent (a b : Accumulator ℝ) (ha : a.Inv) (hb : b.Inv)
    (hp : a.pos.Perm b.pos) (hn : a.neg.Perm b.neg) (hr : a.reduce = b.reduce) (hbind : a.bind = b.bind)
    (hred : ∀ l₁ l₂ : List ℝ, l₁.Perm l₂ → a.reduce l₁ = a.reduce l₂) (x : ℝ) :
    (a.forward x).2 = (b.forward x).2 := by
  rw [(forward_refines a ha x).1, (forward_refines b hb x).1]
  have hcp : calcParts a.reduce a.pos = calcParts b.reduce b.pos := by
    rw [← hr]; unfold calcParts
    rw [hred _ _ hp, show a.pos.isEmpty = b.pos.isEmpty from by
      cases h1 : a.pos <;> cases h2 : b.pos <;> simp_all]
  have hcn : calcParts a.reduce a.neg = calcParts b.reduce b.neg := by
    rw [← hr]; unfold calcParts
    rw [hred _ _ hn, show a.neg.isEmpty = b.neg.isEmpty from by
      cases h1 : a.neg <;> cases h2 : b.neg <;> simp_all]
  have hh : a.abs.halves? = b.abs.halves? := by rw [abs_halves, abs_halves, hbind]
  unfold SAcc.apply SAcc.update
  simp only [show a.abs.pos = a.pos from rfl, show a.abs.neg = a.neg from rfl,
    show a.abs.reduce = a.reduce from rfl, show b.abs.pos = b.pos from rfl,
    show b.abs.neg = b.neg from rfl, show b.abs.reduce = b.reduce from rfl, hcp, hcn, hh]

/-- instances: the default `torch.sum`, `torch.mean`, `torch.amax` -/
theorem order_independent_sum_mean_max (a b : Accumulator ℝ) (ha : a.Inv) (hb : b.Inv)
    (hp : a.pos.Perm b.pos) (hn : a.neg.Perm b.neg) (hr : a.reduce = b.reduce) (hbind : a.bind = b.bind)
    (hred : a.reduce = rsum ∨ a.reduce = rmean ∨ a.reduce = rmax) (x : ℝ) :
    (a.forward x).2 = (b.forward x).2 := by
  refine order_independent a b ha hb hp hn hr hbind ?_ x
  rcases hred with h | h | h <;> rw [h]
  · exact fun _ _ => order_independent_sum
  · exact fun _ _ => order_independent_mean
  · exact fun _ _ => order_independent_max

end Order

/-! ## Nothing accumulated; second application after the default clear -/
section Noop
variable {α : Type} [Add α] [Sub α] [Neg α] [Zero α]

/-- `no_parts_noop` (one accumulator): no parts → `forward(param)` returns `param`. -/
theorem no_parts_noop_acc (a : Accumulator α) (hc : a.Coherent) (hp : a.pos = []) (hn : a.neg = []) (x : α) :
    (a.forward x).2 = .ok x := (idle_forward a ⟨hp, hn, hc⟩ x).1

/-- `no_parts_noop`: in a state whose accumulators hold no parts (and whose caches are coherent —
every reachable state, `cache_coherent`), `update()` leaves every parameter untouched, with or
without clearing, whatever bounding functions and reductions are configured. -/
theorem no_parts_noop (m : Module α) (h : MCoh m)
    (hempty : ∀ u, m.updater = some u → ∀ pa ∈ u.accs, pa.2.pos = [] ∧ pa.2.neg = []) (c : Bool) :
    (m.update c).1.params = m.params := by
  obtain ⟨prm, u⟩ := m
  cases u with
  | none => rfl
  | some u =>
    have hidle : ∀ pa ∈ u.accs, pa.2.Idle :=
      fun pa hpa => ⟨(hempty u rfl pa hpa).1, (hempty u rfl pa hpa).2, h u rfl pa hpa⟩
    have f := (forwardLoop_idle (if ([] : List String).isEmpty then u.accs.map (·.1) else []) u prm hidle).1
    simp only [Module.update, Updater.forward]
    split <;> exact f

/-- `second_apply_after_clear_noop`: after a successful `update()` with the default `clear=True`,
a second `update()` changes no parameter — from ANY state (no invariant needed: the clear empties
the lists and the caches). -/
theorem second_apply_after_clear_noop (m : Module α) (c : Bool) (hok : (m.update true).2 = .unit) :
    ((m.update true).1.update c).1.params = (m.update true).1.params := by
  obtain ⟨prm, u⟩ := m
  cases u with
  | none => rfl
  | some u =>
    simp only [Module.update, Updater.forward] at hok ⊢
    split at hok
    · cases hok
    · next he =>
      simp only [if_true]
      have hidle : ∀ pa ∈ (Updater.clear (u.forwardLoop prm
          (if ([] : List String).isEmpty then u.accs.map (·.1) else [])).1).accs, pa.2.Idle := by
        intro pa hpa
        obtain ⟨qa, _, rfl⟩ := List.mem_map.mp hpa
        exact clear_idle _
      have f := (forwardLoop_idle
        (if ([] : List String).isEmpty then
          (Updater.clear (u.forwardLoop prm (if ([] : List String).isEmpty then u.accs.map (·.1) else [])).1).accs.map (·.1)
          else []) _ (u.forwardLoop prm (if ([] : List String).isEmpty then u.accs.map (·.1) else [])).2.1 hidle).1
      split <;> exact f

/-- the same over histories: after ANY operation list, `update(); update()` = `update()`. -/
theorem second_apply_after_clear_noop_reachable (prm : List (String × α)) (ops : List (Op α)) (c : Bool)
    (hok : ((run (⟨prm, none⟩ : Module α) ops).1.update true).2 = .unit) :
    (((run (⟨prm, none⟩ : Module α) ops).1.update true).1.update c).1.params =
      ((run (⟨prm, none⟩ : Module α) ops).1.update true).1.params :=
  second_apply_after_clear_noop _ c hok

end Noop

/-! ## A reduction passed at construction is the one used -/
section Ctor
variable {α : Type} [Add α] [Sub α] [Neg α] [Zero α]

/-- `Updater(module, *params, reduction=r)` installs `r` in every accumulator … -/
theorem constructor_reduction_installed (ps : List String) (r : List α → α) :
    ∀ pa ∈ (Updater.new ps (some r) : Updater α).accs,
      pa.2.reduce = r ∧ pa.2.pos = [] ∧ pa.2.neg = [] ∧ pa.2.Coherent := by
  intro pa hpa
  unfold Updater.new at hpa
  obtain ⟨qa, hq, rfl⟩ := List.mem_map.mp hpa
  obtain ⟨q, _, rfl⟩ := List.mem_map.mp hq
  exact ⟨rfl, rfl, rfl, reduction_coherent _ _⟩

/-- … `constructor_reduction_is_used`: and that `r` is what subsequent reads (hence `update`, by
`apply_formula`) reduce the contributed parts with: construct with `reduction=r`, let trainers
contribute the parts `vs` to a declared parameter `p`, read `updater.p.pos` — the result is
`r(vs)` (`None` when nothing was contributed). -/
theorem constructor_reduction_is_used (prm : List (String × α)) (ps : List String) (r : List α → α)
    (p : String) (hp : p ∈ ps) (hdecl : (ps.all fun q => (alookup prm q).isSome) = true) (vs : List α) :
    (run (⟨prm, none⟩ : Module α)
        (Op.newUpdater ps (some r) :: ((vs.map fun v => Op.setPos p (some v)) ++ [Op.getPos p]))).2.getLast?
      = some (Out.val (calcParts r vs)) := by
  have h0 : (step (⟨prm, none⟩ : Module α) (Op.newUpdater ps (some r))).1
      = ⟨prm, some (Updater.new ps (some r))⟩ := by simp [step, hdecl]
  have hlook : alookup (Updater.new ps (some r) : Updater α).accs p
      = some ((Accumulator.new : Accumulator α).reduction (some r)) := by
    unfold Updater.new
    simp only [List.map_map, Function.comp_def]
    exact alookup_map_mk ps.eraseDups (fun _ => (Accumulator.new : Accumulator α).reduction (some r)) p
      (List.mem_eraseDups.mpr hp)
  obtain ⟨u', hu', ha'⟩ := run_setPos p vs ⟨prm, some (Updater.new ps (some r))⟩ _ _ rfl hlook
  obtain ⟨f1, _, f3, _, f5⟩ := foldl_setPos vs ((Accumulator.new : Accumulator α).reduction (some r))
  simp only [run, h0, run_snoc]
  generalize hm : (run (⟨prm, some (Updater.new ps (some r))⟩ : Module α)
    (vs.map fun v => Op.setPos p (some v))).1 = m' at hu'
  obtain ⟨prm', mu'⟩ := m'
  simp only at hu'
  subst hu'
  simp only [step, Module.readAcc, ha']
  rw [getPos_val _ (f5 (reduction_coherent _ _)), f1, f3]
  have hval : calcParts ((Accumulator.new : Accumulator α).reduction (some r)).reduce
      (((Accumulator.new : Accumulator α).reduction (some r)).pos ++ vs) = calcParts r vs := by
    simp [Accumulator.reduction, Accumulator.new]
  rw [hval]
  simp [List.getLast?_cons]

end Ctor

/-! ## Staying inside `[min, max]`, over update histories of arbitrary length (`ℝ`) -/
section Range

/-- one update, multiplicative dependence, reduced magnitudes at most 1 -/
theorem multiplicative_step_in_range {lo hi p U V : ℝ} (hp : lo ≤ p ∧ p ≤ hi) (hU : 0 ≤ U ∧ U ≤ 1)
    (hV : 0 ≤ V ∧ V ≤ 1) :
    lo ≤ p + (bound_upper_multiplicative p U hi - bound_lower_multiplicative p V lo) ∧
    p + (bound_upper_multiplicative p U hi - bound_lower_multiplicative p V lo) ≤ hi := by
  unfold bound_upper_multiplicative bound_lower_multiplicative
  exact in_range_of_bounded_steps (mul_nonneg (by linarith) hU.1)
    (mul_le_of_le_one_right (by linarith) hU.2) (mul_nonneg (by linarith) hV.1)
    (mul_le_of_le_one_right (by linarith) hV.2)

/-- `multiplicative_stays_in_range`: an accumulator configured with multiplicative dependence —
`fullbound(bound_multiplicative, max, min)` or `upperbound(bound_upper_multiplicative, max)` +
`lowerbound(bound_lower_multiplicative, min)` — and any reduction; ANY history of rounds
(trainers contribute parts through the setters, `forward`, `clear`) in which the reduced
magnitudes lie in `[0, 1]`: a parameter that starts in `[min, max]` is in `[min, max]` at the end,
and no round raises. -/
theorem multiplicative_stays_in_range (lo hi : ℝ) (a : Accumulator ℝ) (hclr : a.Cleared)
    (hb : a.bind = .full (FullBound.multiplicative (some hi) (some lo)) ∨
          a.bind = .halves (fun x u => bound_upper_multiplicative x u hi)
                           (fun x u => bound_lower_multiplicative x u lo))
    (hist : List (List ℝ × List ℝ))
    (hmag : ∀ r ∈ hist, (r.1 ≠ [] → 0 ≤ a.reduce r.1 ∧ a.reduce r.1 ≤ 1) ∧
                        (r.2 ≠ [] → 0 ≤ a.reduce r.2 ∧ a.reduce r.2 ≤ 1))
    (x : ℝ) (hx : lo ≤ x ∧ x ≤ hi) :
    ∃ x', a.history x hist = .ok x' ∧ lo ≤ x' ∧ x' ≤ hi := by
  refine range_history lo hi 1 (fun x u => bound_upper_multiplicative x u hi)
    (fun x u => bound_lower_multiplicative x u lo) ?_ ?_ a hclr ?_ ?_ hist hmag x hx
  · intro x U h1 h2 h3 h4
    exact ⟨mul_nonneg (by linarith) h3, mul_le_of_le_one_right (by linarith) h4⟩
  · intro x V h1 h2 h3 h4
    exact ⟨mul_nonneg (by linarith) h3, mul_le_of_le_one_right (by linarith) h4⟩
  · rcases hb with h | h <;> rw [h]
    · exact bound_multiplicative_decomposes _ _
    · trivial
  · rcases hb with h | h <;> rw [h] <;> rfl

/-- the scaled-multiplicative variant: magnitudes at most the range `max − min` -/
theorem scaled_multiplicative_stays_in_range (lo hi : ℝ) (hlt : lo < hi) (a : Accumulator ℝ) (hclr : a.Cleared)
    (hb : a.bind = .full (FullBound.scaled_multiplicative (some hi) (some lo)) ∨
          a.bind = .halves (fun x u => bound_upper_scaled_multiplicative x u hi (hi - lo))
                           (fun x u => bound_lower_scaled_multiplicative x u lo (hi - lo)))
    (hist : List (List ℝ × List ℝ))
    (hmag : ∀ r ∈ hist, (r.1 ≠ [] → 0 ≤ a.reduce r.1 ∧ a.reduce r.1 ≤ hi - lo) ∧
                        (r.2 ≠ [] → 0 ≤ a.reduce r.2 ∧ a.reduce r.2 ≤ hi - lo))
    (x : ℝ) (hx : lo ≤ x ∧ x ≤ hi) :
    ∃ x', a.history x hist = .ok x' ∧ lo ≤ x' ∧ x' ≤ hi := by
  have hr : 0 < hi - lo := by linarith
  refine range_history lo hi (hi - lo) (fun x u => bound_upper_scaled_multiplicative x u hi (hi - lo))
    (fun x u => bound_lower_scaled_multiplicative x u lo (hi - lo)) ?_ ?_ a hclr ?_ ?_ hist hmag x hx
  · intro x U h1 h2 h3 h4
    obtain ⟨t0, _, _, _⟩ := scaled_factor_bounds hlt h1 h2
    refine ⟨mul_nonneg t0 h3, ?_⟩
    calc (hi - x) / (hi - lo) * U ≤ (hi - x) / (hi - lo) * (hi - lo) := mul_le_mul_of_nonneg_left h4 t0
      _ = hi - x := div_mul_cancel₀ _ hr.ne'
  · intro x V h1 h2 h3 h4
    obtain ⟨_, _, t0, _⟩ := scaled_factor_bounds hlt h1 h2
    refine ⟨mul_nonneg t0 h3, ?_⟩
    calc (x - lo) / (hi - lo) * V ≤ (x - lo) / (hi - lo) * (hi - lo) := mul_le_mul_of_nonneg_left h4 t0
      _ = x - lo := div_mul_cancel₀ _ hr.ne'
  · rcases hb with h | h <;> rw [h]
    · exact (bound_scaled_multiplicative_decomposes _ _ : (FullBound.scaled_multiplicative (some hi) (some lo)).Sound)
    · trivial
  · rcases hb with h | h <;> rw [h] <;> rfl

/-- `scaled_power_stays_in_range`: scaled power dependence with REAL exponents `μ₊, μ₋ ≥ 1`
(`Real.rpow`), magnitudes at most the range. -/
theorem scaled_power_stays_in_range (lo hi up lp : ℝ) (hlt : lo < hi) (hup : 1 ≤ up) (hlp : 1 ≤ lp)
    (a : Accumulator ℝ) (hclr : a.Cleared)
    (hb : a.bind = .full (FullBound.scaled_power (some hi) (some lo) up lp) ∨
          a.bind = .halves (fun x u => bound_upper_scaled_power x u hi up (hi - lo))
                           (fun x u => bound_lower_scaled_power x u lo lp (hi - lo)))
    (hist : List (List ℝ × List ℝ))
    (hmag : ∀ r ∈ hist, (r.1 ≠ [] → 0 ≤ a.reduce r.1 ∧ a.reduce r.1 ≤ hi - lo) ∧
                        (r.2 ≠ [] → 0 ≤ a.reduce r.2 ∧ a.reduce r.2 ≤ hi - lo))
    (x : ℝ) (hx : lo ≤ x ∧ x ≤ hi) :
    ∃ x', a.history x hist = .ok x' ∧ lo ≤ x' ∧ x' ≤ hi := by
  have hr : 0 < hi - lo := by linarith
  refine range_history lo hi (hi - lo) (fun x u => bound_upper_scaled_power x u hi up (hi - lo))
    (fun x u => bound_lower_scaled_power x u lo lp (hi - lo)) ?_ ?_ a hclr ?_ ?_ hist hmag x hx
  · intro x U h1 h2 h3 h4
    obtain ⟨t0, t1, _, _⟩ := scaled_factor_bounds hlt h1 h2
    obtain ⟨q0, q1⟩ := rpow_le_self_of_unit t0 t1 hup
    refine ⟨mul_nonneg q0 h3, ?_⟩
    calc ((hi - x) / (hi - lo)) ^ up * U ≤ (hi - x) / (hi - lo) * (hi - lo) := mul_le_mul q1 h4 h3 t0
      _ = hi - x := div_mul_cancel₀ _ hr.ne'
  · intro x V h1 h2 h3 h4
    obtain ⟨_, _, t0, t1⟩ := scaled_factor_bounds hlt h1 h2
    obtain ⟨q0, q1⟩ := rpow_le_self_of_unit t0 t1 hlp
    refine ⟨mul_nonneg q0 h3, ?_⟩
    calc ((x - lo) / (hi - lo)) ^ lp * V ≤ (x - lo) / (hi - lo) * (hi - lo) := mul_le_mul q1 h4 h3 t0
      _ = x - lo := div_mul_cancel₀ _ hr.ne'
  · rcases hb with h | h <;> rw [h]
    · exact (bound_scaled_power_decomposes _ _ _ _ : (FullBound.scaled_power (some hi) (some lo) up lp).Sound)
    · trivial
  · rcases hb with h | h <;> rw [h] <;> rfl

end Range

/-! ## Sharp dependence -/
section Sharp

/-- `sharp_never_further` (one update, any non-negative magnitudes): a parameter at or above `max`
does not rise, a parameter at or below `min` does not fall.  (The code's `heaviside(·, 0)` is 0
AT the limit, so a parameter exactly at `max` receives no potentiation.) -/
theorem sharp_never_further {lo hi p U V : ℝ} (hU : 0 ≤ U) (hV : 0 ≤ V) :
    (hi ≤ p → p + (bound_upper_sharp p U hi - bound_lower_sharp p V lo) ≤ p) ∧
    (p ≤ lo → p ≤ p + (bound_upper_sharp p U hi - bound_lower_sharp p V lo)) := by
  unfold bound_upper_sharp bound_lower_sharp
  constructor
  · intro h
    show p + (heaviside (hi - p) 0 * U - heaviside (p - lo) 0 * V) ≤ p
    rw [heaviside_nonpos (by linarith : hi - p ≤ 0)]
    have := mul_nonneg (heaviside_nonneg (p - lo)) hV
    simp only [zero_mul]; linarith
  · intro h
    show p ≤ p + (heaviside (hi - p) 0 * U - heaviside (p - lo) 0 * V)
    rw [heaviside_nonpos (by linarith : p - lo ≤ 0)]
    have := mul_nonneg (heaviside_nonneg (hi - p)) hU
    simp only [zero_mul]; linarith

/-- the same on an accumulator in ANY reachable state (coherent caches), configured with sharp
dependence as a full function or as two half functions, whatever was accumulated (non-negative
reduced magnitudes): `forward` never moves a parameter further beyond a limit it has reached. -/
theorem sharp_never_further_acc (lo hi : ℝ) (a : Accumulator ℝ) (hc : a.Coherent)
    (hb : a.bind = .full (FullBound.sharp (some hi) (some lo)) ∨
          a.bind = .halves (fun x u => bound_upper_sharp x u hi) (fun x u => bound_lower_sharp x u lo))
    (hP : a.pos ≠ [] → 0 ≤ a.reduce a.pos) (hN : a.neg ≠ [] → 0 ≤ a.reduce a.neg) (x : ℝ) :
    ∃ x', (a.forward x).2 = .ok x' ∧ (hi ≤ x → x' ≤ x) ∧ (x ≤ lo → x ≤ x') := by
  have hs : a.bind.Sound := by
    rcases hb with h | h <;> rw [h]
    · exact bound_sharp_decomposes _ _
    · trivial
  have hh : a.bind.halves? = some ((fun x u => bound_upper_sharp x u hi), (fun x u => bound_lower_sharp x u lo)) := by
    rcases hb with h | h <;> rw [h] <;> rfl
  rw [forward_formula a ⟨hc, hs⟩ x _ _ hh]
  by_cases hp : a.pos = []
  · by_cases hn : a.neg = []
    · exact ⟨x, by rw [if_pos ⟨hp, hn⟩], fun _ => le_refl x, fun _ => le_refl x⟩
    · refine ⟨_, by rw [if_neg (fun h => hn h.2)], ?_⟩
      rw [hp, calcParts_nil, calcParts_ne_nil _ _ hn]
      have := @sharp_never_further lo hi x 0 (a.reduce a.neg) (le_refl 0) (hN hn)
      simpa [bound_upper_sharp] using this
  · by_cases hn : a.neg = []
    · refine ⟨_, by rw [if_neg (fun h => hp h.1)], ?_⟩
      rw [hn, calcParts_nil, calcParts_ne_nil _ _ hp]
      have := @sharp_never_further lo hi x (a.reduce a.pos) 0 (hP hp) (le_refl 0)
      simpa [bound_lower_sharp] using this
    · refine ⟨_, by rw [if_neg (fun h => hp h.1)], ?_⟩
      rw [calcParts_ne_nil _ _ hp, calcParts_ne_nil _ _ hn]
      exact sharp_never_further (hP hp) (hN hn)

end Sharp

/-! ## Non-vacuity: concrete states satisfying the hypotheses above -/
section Examples

/-- (integers, so that the kernel evaluates it) a weight `2`, two trainers contribute potentiation
`1`, `2` and one depression `1`, multiplicative dependence on `[0, 10]`, the default sum:
`2 + (10 − 2)·3 − (2 − 0)·1 = 24`; the read between the contributions returned `1`, the one after
them `3` (the cache was invalidated by the append); the second `update()` changes nothing. -/
def exOps : List (Op Int) :=
  [.newUpdater ["w"] none, .fullbound "w" (some (FullBound.multiplicative (some 10) (some 0))),
   .setAcc "w" (.pair (some 1) (some 1)), .getPos "w", .setPos "w" (some 2), .getPos "w",
   .update true, .update true]

example : (run (⟨[("w", 2)], none⟩ : Module Int) exOps).1.params = [("w", 24)] := by decide
example : (srun (⟨[("w", 2)], none⟩ : SModule Int) exOps).1.params = [("w", 24)] := by decide
example : (run (⟨[("w", 2)], none⟩ : Module Int) exOps).2[3]? = some (Out.val (some 1)) ∧
    (run (⟨[("w", 2)], none⟩ : Module Int) exOps).2[5]? = some (Out.val (some 3)) := ⟨rfl, rfl⟩

/-- the hypotheses of `multiplicative_stays_in_range` are satisfiable with parts on both sides -/
example : ∃ x', ((Accumulator.new : Accumulator ℝ).fullbound (some (FullBound.multiplicative (some 1) (some 0)))).history
    (1/4) [([1/2, 1/4], [1/8]), ([], [1]), ([1], [])] = .ok x' ∧ 0 ≤ x' ∧ x' ≤ 1 := by
  refine multiplicative_stays_in_range 0 1 _ ⟨rfl, rfl, rfl, rfl⟩ (Or.inl rfl) _ ?_ (1/4) (by norm_num)
  intro r hr
  simp only [List.mem_cons, List.mem_nil_iff, or_false] at hr
  rcases hr with rfl | rfl | rfl <;>
    (simp [Accumulator.fullbound, Accumulator.new, rsum]; try norm_num)

/-- an accumulator holding the parts `ps` / `ns`, caches empty, defaults otherwise -/
noncomputable def exAcc (ps ns : List ℝ) : Accumulator ℝ :=
  ⟨ps, ns, none, none, rsum, .full FullBound.unbounded⟩

/-- the hypotheses of `order_independent_sum_mean_max`: the same parts in two orders -/
example : ((exAcc [1, 2, 3] [4, 5]).forward 0).2 = ((exAcc [3, 1, 2] [5, 4]).forward 0).2 := by
  have hinv : ∀ (ps ns : List ℝ), (exAcc ps ns).Inv :=
    fun ps ns => ⟨⟨fun v hv => by simp [exAcc] at hv, fun v hv => by simp [exAcc] at hv⟩, unbounded_sound⟩
  refine order_independent_sum_mean_max (exAcc [1, 2, 3] [4, 5]) (exAcc [3, 1, 2] [5, 4]) (hinv _ _) (hinv _ _) ?_ ?_ rfl rfl (Or.inl rfl) 0
  · exact ((List.Perm.swap 1 3 [2]).trans ((List.Perm.swap 2 3 []).cons 1)).symm
  · exact List.Perm.swap 5 4 []

/-- sharp: at the upper limit (`p = max`) potentiation is dropped entirely -/
example : bound_upper_sharp (1 : Int) 5 1 = 0 := by decide

end Examples

end InfernoVerif.Updater
