import InfernoVerif.Gen.HookProg
import InfernoVerif.Model.Hooks
/-!
# Glue: the code-shaped hook machine IS the hook-arming code of `Hook` / `StateHook` in /repo's source

`Gen/HookProg.lean` is regenerated on every run by `harness/progtx_hooks.py` from the *whole bodies* of
`_detach_handles`, `Hook.trainexec` / `evalexec` (getters, setters), `Hook.registered`,
`Hook.__wrapped_prehook` / `__wrapped_posthook`, `Hook.register`, `Hook.deregister`, `StateHook.register`,
`StateHook.forward` (`inferno/core/infrastructure.py`): the `registered` tests, the `RuntimeError`, the two
conditional registrations with their weak-reference lambdas and `**kwargs`, the finaliser handling, the loop of
`_detach_handles`, the mode gates and the `force` / `ignore_mode` cascade are kept; torch / CPython primitives
are the functions of `Gen/HookPrelude.lean`.

The theorems below state, method by method, that running the regenerated program in a world `w : HW`
(the module, the heap of hook objects, `self`'s identity `w.me` and private fields `w.obj`) and mapping the
result through the abstraction `toM` is exactly one step of the hand-written machine `Hooks.step`
(`Model/Hooks.lean`) on hook number `w.me` — the machine that `Props/C16.lean` proves to refine the
specification of C16 for every operation sequence.  An exception corresponds to `Out.err` and the state AT THE
RAISE must be the unchanged model state.  A change to a method body (a flipped `registered` test, a dropped
handle reset, swapped `**kwargs`, a wrapped hook calling the other callable, a gate reading the wrong flag)
changes the generated text and the corresponding theorem stops checking.

What the abstraction forgets / what is assumed (not papered over):
* `toM` maps a dictionary entry `(id, callable)` to the model's `(id, hook index the callable weakly refers to)`;
  WHICH wrapped method the callable invokes is kept on the program side as `Callback.pos` and covered by the
  invariant `CbOK` (every entry of `_forward_pre_hooks` calls `__wrapped_prehook`, every entry of `_forward_hooks`
  calls `__wrapped_posthook`), preserved by the generated `register` / `deregister` / `_detach_handles`
  (`gen_register_cb`, `gen_deregister_cb`, `gen_detach_model`); `gen_entry` then ties a dictionary entry being
  called to `Hooks.entryFires`.
* hypotheses of the method theorems: `w.me < w.heap.length` (`self` is an object of the heap) and
  `w.obj.alive = true` (a method runs on an object somebody holds a strong reference to); `cfg.kind` selects
  which class's `register` / whether `forward` exists, as in `Hooks.step`.
* `self.hook(self.module)` (user code of a `StateHook` subclass) and the user callables `_prehook_call` /
  `_posthook_call` are events, not programs: `StateHook_forward` returns how often the hook ran, a wrapped hook
  returns which callable it ran (`none`: it fell off the end).
* one module (`Model/Hooks.lean`): every `module` argument is it.
`ofM` / `toM_ofM` show every model state (with hook `i` loaded) is the image of a world satisfying `CbOK`, and
the `…_model` corollaries restate the main theorems directly over model states `s` and hook indices `i`.
-/
set_option linter.unusedSimpArgs false
namespace InfernoVerif.Gen.HookProg
open InfernoVerif.Hooks InfernoVerif.Gen.HookPrelude

/-! ## Abstraction -/

/-- a hook dictionary as the model sees it: `(handle id, index of the hook object the callable refers to)` -/
def absD (l : List (Nat × Callback)) : List (Nat × Nat) := l.map fun e => (e.1, e.2.target)

/-- a module and a heap of hook objects → state of the hand-written machine -/
def modState (m : TorchModule) (hooks : List Hook) : State :=
  ⟨m.training, m.nextId, absD m.pre, absD m.post, hooks⟩

/-- abstraction: world of the regenerated programs → state of the hand-written machine (`self`'s private fields
are written back to the heap) -/
def toM (w : HW) : State := modState w.module (w.heap.set w.me w.obj)

/-- result of a regenerated method → (state, output) of the machine; an exception carries the state at the raise -/
def lift {α : Type} (f : α → Out) : Except (Err × HW) (HW × α) → State × Out
  | .ok (w', a) => (toM w', f a)
  | .error (e, w') => (toM w', .err e)

/-- every callable in `_forward_pre_hooks` is the prehook lambda of `Hook.register`, every callable in
`_forward_hooks` the posthook lambda -/
structure CbOK (m : TorchModule) : Prop where
  pre : ∀ e ∈ m.pre, e.2.pos = .pre
  post : ∀ e ∈ m.post, e.2.pos = .post

/-- the module of a model state: the entries of `pre` call `__wrapped_prehook`, those of `post`
`__wrapped_posthook` -/
def modOf (s : State) : TorchModule :=
  ⟨s.training, s.nextId, s.pre.map (fun e => (e.1, ⟨e.2, .pre⟩)), s.post.map (fun e => (e.1, ⟨e.2, .post⟩))⟩

/-- a model state with hook `i` (private fields `hk`) loaded as `self` -/
def ofM (s : State) (i : Nat) (hk : Hook) : HW := ⟨modOf s, s.hooks, i, hk⟩

/-- every model state is the abstraction of a world (so the method theorems cover every model state) -/
theorem toM_ofM (s : State) (i : Nat) (hk : Hook) (h : s.hooks[i]? = some hk) : toM (ofM s i hk) = s := by
  obtain ⟨tr, nid, pre, post, hooks⟩ := s
  have hi : i < hooks.length := by
    rcases Nat.lt_or_ge i hooks.length with hlt | hge
    · exact hlt
    · simp [List.getElem?_eq_none hge] at h
  have hget : hooks[i] = hk := by
    simp only [List.getElem?_eq_getElem hi, Option.some.injEq] at h
    exact h
  simp [toM, ofM, modOf, modState, absD, Function.comp_def, ← hget]

/-- … and that world satisfies the callable invariant -/
theorem ofM_cb (s : State) (i : Nat) (hk : Hook) : CbOK (ofM s i hk).module := by
  constructor <;> (intro e he; simp only [ofM, modOf, List.mem_map] at he; obtain ⟨x, -, rfl⟩ := he; rfl)

theorem ofM_me (s : State) (i : Nat) (hk : Hook) (h : s.hooks[i]? = some hk) :
    (ofM s i hk).me < (ofM s i hk).heap.length := by
  rcases Nat.lt_or_ge i s.hooks.length with hlt | hge
  · exact hlt
  · simp [List.getElem?_eq_none hge] at h

theorem toM_lookup (w : HW) (hme : w.me < w.heap.length) : (toM w).hooks[w.me]? = some w.obj := by
  simp [toM, modState, hme]

theorem absD_filter (l : List (Nat × Callback)) (id : Nat) :
    absD (l.filter fun e => e.1 != id) = (absD l).filter fun e => e.1 != id := by
  simp [absD, List.filter_map, Function.comp_def]

/-! ## Property getters and setters -/

/-- the regenerated `registered` property is the model's `Hook.registered` (and changes nothing) -/
theorem gen_registered (w : HW) : Hook_registered w = .ok (w, w.obj.registered) := by
  simp [Hook_registered, Hook.registered, handleOf, pure, Except.pure]

/-- the regenerated `trainexec` getter reads the model's `trainexec` flag -/
theorem gen_trainexec (w : HW) : Hook_trainexec w = .ok (w, w.obj.trainexec) := rfl

/-- the regenerated `evalexec` getter reads the model's `evalexec` flag -/
theorem gen_evalexec (w : HW) : Hook_evalexec w = .ok (w, w.obj.evalexec) := rfl

/-- the regenerated `trainexec` setter is the `.setTrainexec` case of `Hooks.step` -/
theorem gen_set_trainexec (w : HW) (hme : w.me < w.heap.length) (hal : w.obj.alive = true) (v : Bool) :
    lift (fun _ => Out.ok) (Hook_trainexec_setter w v) = step (toM w) (.setTrainexec w.me v) := by
  simp only [step, toM_lookup w hme, hal]
  rcases w with ⟨m, heap, me, ⟨cfg, te, ee, al, ph, qh, fin⟩⟩
  simp only at hal; subst hal
  simp [Hook_trainexec_setter, lift, toM, modState, setHook, pure, Except.pure]

/-- the regenerated `evalexec` setter is the `.setEvalexec` case of `Hooks.step` -/
theorem gen_set_evalexec (w : HW) (hme : w.me < w.heap.length) (hal : w.obj.alive = true) (v : Bool) :
    lift (fun _ => Out.ok) (Hook_evalexec_setter w v) = step (toM w) (.setEvalexec w.me v) := by
  simp only [step, toM_lookup w hme, hal]
  rcases w with ⟨m, heap, me, ⟨cfg, te, ee, al, ph, qh, fin⟩⟩
  simp only at hal; subst hal
  simp [Hook_evalexec_setter, lift, toM, modState, setHook, pure, Except.pure]

/-! ## The mode gate of the wrapped hooks -/

/-- the regenerated `__wrapped_prehook` runs the PREhook callable (once, returning its result) exactly when
`Hook.enabled` holds for the module's mode, runs nothing otherwise, and changes nothing -/
theorem gen_wrapped_pre (w : HW) :
    Hook___wrapped_prehook w = .ok (w, if w.obj.enabled w.module.training then some Pos.pre else none) := by
  rcases w with ⟨⟨tr, nid, pre, post⟩, heap, me, ⟨cfg, te, ee, al, ph, qh, fin⟩⟩
  simp only [Hook___wrapped_prehook, gen_trainexec, gen_evalexec, bind, Except.bind, pure, Except.pure, Hook.enabled]
  cases te <;> cases ee <;> cases tr <;> rfl

/-- the regenerated `__wrapped_posthook` runs the POSThook callable exactly when `Hook.enabled` holds -/
theorem gen_wrapped_post (w : HW) :
    Hook___wrapped_posthook w = .ok (w, if w.obj.enabled w.module.training then some Pos.post else none) := by
  rcases w with ⟨⟨tr, nid, pre, post⟩, heap, me, ⟨cfg, te, ee, al, ph, qh, fin⟩⟩
  simp only [Hook___wrapped_posthook, gen_trainexec, gen_evalexec, bind, Except.bind, pure, Except.pure, Hook.enabled]
  cases te <;> cases ee <;> cases tr <;> rfl

/-- What torch does with ONE dictionary entry during `module(...)` (hand-written reading of the lambda text
`lambda module, *args, **kwargs: weakself().__wrapped_<pos>hook(module, *args, **kwargs)`, which the translator
matches verbatim): `weakself()` is `None` when the object is dead or gone — the attribute access then raises
`AttributeError` —, otherwise the regenerated wrapped hook of the callable's position runs on that object. -/
def callEntry (m : TorchModule) (heap : List Hook) (cb : Callback) : Except Err (Option Pos) :=
  match heap[cb.target]? with
  | none => .error .AttributeError
  | some hk =>
    if hk.alive then
      match (match cb.pos with
        | .pre => Hook___wrapped_prehook ⟨m, heap, cb.target, hk⟩
        | .post => Hook___wrapped_posthook ⟨m, heap, cb.target, hk⟩) with
      | .ok (_, r) => .ok r
      | .error (e, _) => .error e
    else .error .AttributeError

/-- **gen_entry**: a dictionary entry being called is the model's `entryFires`: it raises (`AttributeError`) iff
`entryFires` is `none`, and otherwise runs the user callable OF ITS OWN POSITION iff `entryFires` says `true`
(the mode gate `Hook.enabled` of an alive hook) -/
theorem gen_entry (m : TorchModule) (heap : List Hook) (id : Nat) (cb : Callback) :
    callEntry m heap cb =
      match entryFires (modState m heap) (id, cb.target) with
      | none => .error .AttributeError
      | some b => .ok (if b then some cb.pos else none) := by
  unfold callEntry entryFires
  simp only [modState]
  cases hh : heap[cb.target]? with
  | none => rfl
  | some hk =>
    cases hal : hk.alive
    · simp [hal]
    · cases hp : cb.pos <;> simp [hal, gen_wrapped_pre, gen_wrapped_post]

/-- on a module whose dictionaries satisfy `CbOK`, an entry of `_forward_pre_hooks` can only run a PREhook
callable and an entry of `_forward_hooks` only a POSThook callable -/
theorem gen_entry_pos (m : TorchModule) (heap : List Hook) (h : CbOK m) (e : Nat × Callback) (p : Pos) :
    (e ∈ m.pre → callEntry m heap e.2 = .ok (some p) → p = .pre) ∧
    (e ∈ m.post → callEntry m heap e.2 = .ok (some p) → p = .post) := by
  have key : ∀ q, e.2.pos = q → callEntry m heap e.2 = .ok (some p) → p = q := by
    intro q hq hc
    unfold callEntry at hc
    cases hh : heap[e.2.target]? with
    | none => simp [hh] at hc
    | some hk =>
      cases hal : hk.alive
      · simp [hh, hal] at hc
      · cases q <;> simp [hh, hal, hq, gen_wrapped_pre, gen_wrapped_post] at hc <;> exact hc.2.symm
  exact ⟨fun he => key _ (h.pre e he), fun he => key _ (h.post e he)⟩

/-! ## `_detach_handles` -/

/-- the regenerated loop of `_detach_handles(pre, post)` removes `pre` from `_forward_pre_hooks` and `post` from
`_forward_hooks` (a `None` is skipped) and never raises -/
theorem gen_detach (m : TorchModule) (a b : Option Nat) :
    _detach_handles m [handleOf .pre a, handleOf .post b] =
      .ok (⟨m.training, m.nextId, (match a with | some id => m.pre.filter (fun e => e.1 != id) | none => m.pre),
            (match b with | some id => m.post.filter (fun e => e.1 != id) | none => m.post)⟩, ()) := by
  cases a <;> cases b <;>
    simp [_detach_handles, handleOf, RemovableHandle_remove, List.foldlM, bind, Except.bind, pure, Except.pure]

/-- … which is the model's `detach`, over any heap, and keeps `CbOK` -/
theorem gen_detach_model (m : TorchModule) (hooks : List Hook) (hs : Option Nat × Option Nat) :
    ∃ m', _detach_handles m [handleOf .pre hs.1, handleOf .post hs.2] = .ok (m', ()) ∧
      modState m' hooks = detach (modState m hooks) hs ∧ (CbOK m → CbOK m') := by
  obtain ⟨a, b⟩ := hs
  refine ⟨_, gen_detach m a b, ?_, ?_⟩
  · cases a <;> cases b <;> simp [modState, detach, removeHandle, absD_filter]
  · intro h
    constructor
    · intro e he
      cases a <;> simp at he
      · exact h.pre e he
      · exact h.pre e he.1
    · intro e he
      cases b <;> simp at he
      · exact h.post e he
      · exact h.post e he.1

/-- the finaliser `weakref.finalize(self, _detach_handles, pre, post)` of a collected hook object: CPython calls
the regenerated `_detach_handles` on the captured handles if the finaliser is still attached -/
def collect (m : TorchModule) (hk : Hook) : Except (Err × TorchModule) (TorchModule × Unit) :=
  match hk.fin with
  | some hs => _detach_handles m [handleOf .pre hs.1, handleOf .post hs.2]
  | none => .ok (m, ())

/-- the `.delete` case of `Hooks.step` (the last strong reference to hook `i` is dropped) is: run the
regenerated finaliser, then the object is gone -/
theorem gen_finalizer (m : TorchModule) (hooks : List Hook) (i : Nat) (hk : Hook)
    (h : hooks[i]? = some hk) (hal : hk.alive = true) :
    ∃ m', collect m hk = .ok (m', ()) ∧ (CbOK m → CbOK m') ∧
      step (modState m hooks) (.delete i) =
        (setHook (modState m' hooks) i { hk with alive := false, preH := none, postH := none, fin := none }, .ok) := by
  have hl : (modState m hooks).hooks[i]? = some hk := h
  simp only [step, hl, hal, collect]
  cases hf : hk.fin with
  | none => exact ⟨m, rfl, id, by simp⟩
  | some hs =>
    obtain ⟨m', h1, h2, h3⟩ := gen_detach_model m hooks hs
    exact ⟨m', h1, h3, by simp [h2]⟩

/-! ## register -/

/-- the regenerated `Hook.register` on ANY hook object: `RuntimeError` with nothing changed when already
registered, otherwise the model's `registerHook` (fresh handle ids in the order pre, post; insertion at the
end or, with `prepend`, the front; both handles stored; a finaliser capturing exactly them) -/
theorem gen_register_any (w : HW) :
    lift (fun _ => Out.ok) (Hook_register w) =
      if w.obj.registered then (toM w, .err .RuntimeError) else (registerHook (toM w) w.me w.obj, .ok) := by
  rcases w with ⟨⟨tr, nid, pre, post⟩, heap, me, ⟨⟨kind, hasPre, hasPost, pp, pq⟩, te, ee, al, ph, qh, fin⟩⟩
  simp only [Hook_register, gen_registered, bind, Except.bind, pure, Except.pure, Hook.registered]
  cases ph <;> cases qh <;>
    simp [lift, throw, throwThe, MonadExceptOf.throw]
  cases hasPre <;> cases hasPost <;> cases pp <;> cases pq <;> cases fin <;>
    simp [lift, toM, modState, registerHook, setHook, insertHandle, register_forward_pre_hook,
      register_forward_hook, weakref_ref, weakref_finalize, finalizer_detach, handleOf, absD,
      argtest_instance_Module, bind, Except.bind, pure, Except.pure]

/-- **gen_register**: the regenerated `Hook.register` on an alive plain `Hook` is the `.register` case of
`Hooks.step` — both branches, including the `RuntimeError` when already registered -/
theorem gen_register (w : HW) (hme : w.me < w.heap.length) (hal : w.obj.alive = true)
    (hkind : w.obj.cfg.kind = .plain) :
    lift (fun _ => Out.ok) (Hook_register w) = step (toM w) (.register w.me) := by
  rw [gen_register_any]
  simp only [step, toM_lookup w hme, hal, hkind]
  cases w.obj.registered <;> simp

/-- **gen_state_register**: the regenerated `StateHook.register` on an alive `StateHook` is the `.register`
case of `Hooks.step` — registers through `Hook.register` when unregistered, silently ignores otherwise -/
theorem gen_state_register (w : HW) (hme : w.me < w.heap.length) (hal : w.obj.alive = true)
    (hkind : w.obj.cfg.kind = .state) :
    lift (fun _ => Out.ok) (StateHook_register w) = step (toM w) (.register w.me) := by
  have h := gen_register_any w
  simp only [step, toM_lookup w hme, hal, hkind]
  simp only [StateHook_register, gen_registered, bind, Except.bind, pure, Except.pure]
  cases hr : w.obj.registered
  · rw [hr] at h
    simp only [Bool.false_eq_true, if_false] at h
    simp only [Bool.not_false, if_true, Bool.not_true, Bool.false_eq_true, if_false]
    cases hp : Hook_register w with
    | ok r => rw [hp] at h; simpa [lift] using h
    | error e => rw [hp] at h; simp [lift] at h
  · simp [lift]

/-- the regenerated `Hook.register` keeps the callable invariant (the pre lambda goes to
`_forward_pre_hooks`, the post lambda to `_forward_hooks`), refers to `self`, and touches no other object -/
theorem gen_register_cb (w w' : HW) (u : Unit) (h : CbOK w.module) (hr : Hook_register w = .ok (w', u)) :
    CbOK w'.module ∧ w'.me = w.me ∧ w'.heap = w.heap := by
  rcases w with ⟨⟨tr, nid, pre, post⟩, heap, me, ⟨⟨kind, hasPre, hasPost, pp, pq⟩, te, ee, al, ph, qh, fin⟩⟩
  obtain ⟨h1, h2⟩ := h
  simp only at h1 h2
  simp only [Hook_register, gen_registered, bind, Except.bind, pure, Except.pure, Hook.registered] at hr
  cases ph <;> cases qh <;>
    simp [throw, throwThe, MonadExceptOf.throw] at hr
  cases hasPre <;> cases hasPost <;> cases pp <;> cases pq <;> cases fin <;>
    simp [register_forward_pre_hook, register_forward_hook, weakref_ref, weakref_finalize, finalizer_detach,
      handleOf, argtest_instance_Module, bind, Except.bind, pure, Except.pure] at hr <;>
    subst hr <;> refine ⟨⟨?_, ?_⟩, rfl, rfl⟩ <;> intro e he <;> simp at he <;>
    first
      | exact h1 e he
      | exact h2 e he
      | (rcases he with he | he
         · first | exact h1 e he | exact h2 e he | (subst he; rfl)
         · first | exact h1 e he | exact h2 e he | (subst he; rfl))

/-! ## deregister -/

/-- **gen_deregister**: the regenerated `Hook.deregister` on an alive hook is the `.deregister` case of
`Hooks.step` (both handles removed from their dictionaries, both fields and the finaliser reset; safe when
unregistered) -/
theorem gen_deregister (w : HW) (hme : w.me < w.heap.length) (hal : w.obj.alive = true) :
    lift (fun _ => Out.ok) (Hook_deregister w) = step (toM w) (.deregister w.me) := by
  simp only [step, toM_lookup w hme, hal]
  rcases w with ⟨⟨tr, nid, pre, post⟩, heap, me, ⟨cfg, te, ee, al, ph, qh, fin⟩⟩
  simp only [Hook_deregister, gen_detach, viaModule, bind, Except.bind, pure, Except.pure]
  cases ph <;> cases qh <;> cases fin <;>
    simp [lift, toM, modState, deregisterHook, detach, removeHandle, setHook, finalizer_detach, absD_filter]

/-- the regenerated `Hook.deregister` keeps the callable invariant and touches no other object -/
theorem gen_deregister_cb (w w' : HW) (u : Unit) (h : CbOK w.module) (hr : Hook_deregister w = .ok (w', u)) :
    CbOK w'.module ∧ w'.me = w.me ∧ w'.heap = w.heap := by
  rcases w with ⟨⟨tr, nid, pre, post⟩, heap, me, ⟨cfg, te, ee, al, ph, qh, fin⟩⟩
  obtain ⟨h1, h2⟩ := h
  simp only at h1 h2
  simp only [Hook_deregister, gen_detach, viaModule, bind, Except.bind, pure, Except.pure] at hr
  cases ph <;> cases qh <;> cases fin <;>
    simp [finalizer_detach] at hr <;> subst hr <;> refine ⟨⟨?_, ?_⟩, rfl, rfl⟩ <;> intro e he <;> simp at he <;>
    first
      | exact h1 e he
      | exact h2 e he
      | exact h1 e he.1
      | exact h2 e he.1

/-! ## manual call of a `StateHook` -/

/-- **gen_manual**: the regenerated `StateHook.forward(force, ignore_mode)` on an alive `StateHook` is the
`.manual` case of `Hooks.step`, for all four flag combinations: the hook runs (once) iff
`(registered ∨ force) ∧ (ignore_mode ∨ enabled for the module's mode)`; nothing changes -/
theorem gen_manual (w : HW) (hme : w.me < w.heap.length) (hal : w.obj.alive = true)
    (hkind : w.obj.cfg.kind = .state) (force ignoreMode : Bool) :
    lift (fun n => Out.fired (n == 1)) (StateHook_forward w force ignoreMode) =
      step (toM w) (.manual w.me force ignoreMode) := by
  simp only [step, toM_lookup w hme, hal, hkind]
  rcases w with ⟨⟨tr, nid, pre, post⟩, heap, me, ⟨cfg, te, ee, al, ph, qh, fin⟩⟩
  simp only [StateHook_forward, gen_registered, gen_trainexec, gen_evalexec, bind, Except.bind, pure, Except.pure,
    Hook.registered]
  cases ph <;> cases qh <;> cases force <;> cases ignoreMode <;> cases te <;> cases ee <;> cases tr <;>
    simp [lift, toM, modState]

/-- the regenerated `StateHook.forward` never raises, runs `self.hook(self.module)` at most once and leaves
the world as it was -/
theorem gen_manual_once (w : HW) (force ignoreMode : Bool) :
    ∃ n, StateHook_forward w force ignoreMode = .ok (w, n) ∧ n ≤ 1 := by
  rcases w with ⟨⟨tr, nid, pre, post⟩, heap, me, ⟨cfg, te, ee, al, ph, qh, fin⟩⟩
  simp only [StateHook_forward, gen_registered, gen_trainexec, gen_evalexec, bind, Except.bind, pure, Except.pure,
    Hook.registered]
  cases ph <;> cases qh <;> cases force <;> cases ignoreMode <;> cases te <;> cases ee <;> cases tr <;>
    simp

/-! ## The same, stated over model states -/

/-- `gen_register` over a model state: plain `Hook.register` on hook `i` of `s` -/
theorem gen_register_model (s : State) (i : Nat) (hk : Hook) (h : s.hooks[i]? = some hk)
    (hal : hk.alive = true) (hkind : hk.cfg.kind = .plain) :
    lift (fun _ => Out.ok) (Hook_register (ofM s i hk)) = step s (.register i) := by
  have := gen_register (ofM s i hk) (ofM_me s i hk h) hal hkind
  rwa [toM_ofM s i hk h] at this

/-- `gen_state_register` over a model state -/
theorem gen_state_register_model (s : State) (i : Nat) (hk : Hook) (h : s.hooks[i]? = some hk)
    (hal : hk.alive = true) (hkind : hk.cfg.kind = .state) :
    lift (fun _ => Out.ok) (StateHook_register (ofM s i hk)) = step s (.register i) := by
  have := gen_state_register (ofM s i hk) (ofM_me s i hk h) hal hkind
  rwa [toM_ofM s i hk h] at this

/-- `gen_deregister` over a model state -/
theorem gen_deregister_model (s : State) (i : Nat) (hk : Hook) (h : s.hooks[i]? = some hk)
    (hal : hk.alive = true) :
    lift (fun _ => Out.ok) (Hook_deregister (ofM s i hk)) = step s (.deregister i) := by
  have := gen_deregister (ofM s i hk) (ofM_me s i hk h) hal
  rwa [toM_ofM s i hk h] at this

/-- `gen_manual` over a model state -/
theorem gen_manual_model (s : State) (i : Nat) (hk : Hook) (h : s.hooks[i]? = some hk)
    (hal : hk.alive = true) (hkind : hk.cfg.kind = .state) (force ignoreMode : Bool) :
    lift (fun n => Out.fired (n == 1)) (StateHook_forward (ofM s i hk) force ignoreMode) =
      step s (.manual i force ignoreMode) := by
  have := gen_manual (ofM s i hk) (ofM_me s i hk h) hal hkind force ignoreMode
  rwa [toM_ofM s i hk h] at this

/-- **gen_entry_model**: the mode gate over a model state: calling the entry `(id, i)` of the `p` dictionary
of `s` runs the callable of position `p` iff `entryFires s (id, i) = some true` (alive and `Hook.enabled`),
runs nothing iff `some false`, raises iff `none` (dead weak reference) -/
theorem gen_entry_model (s : State) (id i : Nat) (p : Pos) :
    callEntry (modOf s) s.hooks ⟨i, p⟩ =
      match entryFires s (id, i) with
      | none => .error .AttributeError
      | some b => .ok (if b then some p else none) := by
  rw [gen_entry (modOf s) s.hooks id ⟨i, p⟩]
  simp [entryFires, modState, modOf]

/-! ## Non-vacuity: the regenerated programs run -/

/-- a hook configured for both positions, prehook prepended -/
def exHook : Hook := ⟨⟨.plain, true, true, true, false⟩, true, false, true, none, none, none⟩
def exWorld : HW := ⟨⟨true, 5, [(3, ⟨1, .pre⟩)], [(4, ⟨1, .post⟩)]⟩, [exHook, exHook], 0, exHook⟩

example : (lift (fun _ => Out.ok) (Hook_register exWorld)).1.pre = [(5, 0), (3, 1)] := by decide
example : (lift (fun _ => Out.ok) (Hook_register exWorld)).1.post = [(4, 1), (6, 0)] := by decide
example : ((lift (fun _ => Out.ok) (Hook_register exWorld)).1.hooks[0]?).map (·.fin) = some (some (some 5, some 6)) := by
  decide
example : (match Hook_register exWorld with
    | .ok (w, _) => (lift (fun _ => Out.ok) (Hook_register w)).2
    | .error _ => .ok) = .err .RuntimeError := by decide
example : (match Hook_register exWorld with
    | .ok (w, _) => (lift (fun _ => Out.ok) (Hook_deregister w)).1
    | .error _ => init) = toM { exWorld with module := { exWorld.module with nextId := 7 } } := by decide

end InfernoVerif.Gen.HookProg
