import InfernoVerif.Lemmas.Record
/-!
# C13 — Resizing a record keeps the newest observations in order and the size formula;
constraint bookkeeping stays consistent

Property theorems only (definitions: `Model/Shaped.lean`, `Model/Record.lean`; helper lemmas:
`Lemmas/Record.lean`).  Core Lean, no Mathlib.

Ring level (any element type, any record sizes, EVERY well-formed ring state):
* `resize_preserves_newest`, `resize_older_zero`, `resize_newest_list`.
Machine level (all finite operation sequences over the temporal setters,
`RecordTensor.reconstrain`, push, `value = <ignored>`, `initialize`):
* `record_step_refines` / `record_run_refines`: the code-shaped machine (pointer, `align`, roll,
  slice / zero-prepend) refines the specification machine (observations newest first; resize =
  truncate or zero-pad the old end);
* `size_formula`, `ceil_div_least`, `size_formula_inv`, `resize_uninitialised_ok`,
  `setter_preserves_newest`, `construct_wf`.
Bookkeeping (`ShapedTensor`):
* `valid_iff_all_constraints`, `valid_nonstrict_iff`, `valid_eq_validSpec`, `keys_in_range'`,
  `strict_dims_distinct`, `add_incompatible_refused_no_side_effect`, `add_error_no_side_effect`,
  `remove_never_alters_data`, and their record-machine forms.

Partial (float): `size_formula` / `ceil_div_least` are about exact rational dt and duration; the
machine theorems hold for ANY way of computing `ceil(duration / dt)` (`TimeOps`), in particular
for the IEEE division the code performs (`size_formula_inv` is about the quotient as computed).
-/
namespace InfernoVerif.Record
open InfernoVerif.Ring InfernoVerif.Shaped
variable {α τ : Type}

/-! ## Ring level -/

/-- **Newest observations survive a resize at the same offsets.**  From every well-formed ring
state (any pointer, any contents), after `align(0)` + tail-preserving resize to `size ≥ 1`,
`read(k)` is unchanged for every `1 ≤ k ≤ min(old, new)`. -/
theorem resize_preserves_newest (r : Ring α) (h : r.WF) (size : Nat) (hs : 0 < size) (z : α)
    (k : Nat) (h1 : 1 ≤ k) (h2 : k ≤ min r.n size) :
    (r.reconstrain0 size z).read (k : Int) = r.read (k : Int) := by
  have hw := reconstrain0_wf r size hs z
  have e : (k : Int) = ((k - 1 : Nat) : Int) + 1 := by omega
  rw [e, ← newest_getElem? _ hw (by simp [Ring.reconstrain0]; omega), ← newest_getElem? r h (by omega),
    reconstrain0_newest r h]
  unfold specResize
  rw [List.getElem?_take, if_pos (by omega), List.getElem?_append_left (by rw [newest_length r h]; omega)]

/-- **Older slots of a grown record are zero**: `read(k) = z` for `min(old, new) < k ≤ new`. -/
theorem resize_older_zero (r : Ring α) (h : r.WF) (size : Nat) (z : α)
    (k : Nat) (h1 : min r.n size < k) (h2 : k ≤ size) :
    (r.reconstrain0 size z).read (k : Int) = some z := by
  have hs : 0 < size := by omega
  have hw := reconstrain0_wf r size hs z
  have e : (k : Int) = ((k - 1 : Nat) : Int) + 1 := by omega
  rw [e, ← newest_getElem? _ hw (by simp [Ring.reconstrain0]; omega), reconstrain0_newest r h]
  unfold specResize
  have hl := newest_length r h
  rw [List.getElem?_take, if_pos (by omega), List.getElem?_append_right (by omega),
    List.getElem?_replicate, if_pos (by omega)]

/-- The same as one equation on the newest-first list of observations: the resized ring holds
the old observations truncated, or padded with zeros at the old end — and is well formed. -/
theorem resize_newest_list (r : Ring α) (h : r.WF) (size : Nat) (hs : 0 < size) (z : α) :
    (r.reconstrain0 size z).newest = (r.newest ++ List.replicate (size - r.n) z).take size ∧
    (r.reconstrain0 size z).WF := by
  refine ⟨?_, reconstrain0_wf r size hs z⟩
  rw [reconstrain0_newest r h, specResize, newest_length r h]

/-! ## The record-size formula (exact rational arithmetic) -/

/-- `recordsz = max(⌈duration / dt⌉ + inclusive, 1)`. -/
theorem size_formula (dt dur : Rat) (incl : Bool) :
    ((recSize ratOps dt dur incl : Nat) : Int) = max ((dur / dt).ceil + (if incl then 1 else 0)) 1 := by
  unfold recSize ratOps
  simp only
  omega

/-- `⌈duration / dt⌉` is the least number of steps whose total length covers the duration. -/
theorem ceil_div_least (dt dur : Rat) (hdt : 0 < dt) (m : Int) :
    (dur / dt).ceil ≤ m ↔ dur ≤ (m : Rat) * dt := by
  rw [Rat.ceil_le_iff, ← Rat.not_lt, Rat.lt_div_iff hdt, Rat.not_lt]

/-- Hence the record always spans the duration: `(recordsz - inclusive) · dt ≥ duration`. -/
theorem recSize_covers (dt dur : Rat) (hdt : 0 < dt) (incl : Bool) :
    dur ≤ (((recSize ratOps dt dur incl : Nat) : Int) - (if incl then 1 else 0) : Int) * dt := by
  rw [← ceil_div_least dt dur hdt, size_formula]
  omega

/-! ## Machine level: refinement of the specification machine -/

/-- One step of the code-shaped machine refines one step of the specification machine: abstract
states agree, outputs (incl. error classes) agree, well-formedness is preserved. -/
theorem record_step_refines (T : TimeOps τ) (s : MState τ) (hw : MWF s) (op : Op τ) :
    sabs (step T s op).1 = (sstep T (sabs s) op).1 ∧
    (step T s op).2 = (sstep T (sabs s) op).2 ∧ MWF (step T s op).1 := by
  cases op with
  | setDt v =>
    simp only [step, sstep]
    by_cases hv : T.pos v = true
    · simp only [hv, if_true]
      exact resizeTo_refines { s with dt := v } hw _ (recSize_pos T _ _ _)
    · simp only [hv]; exact ⟨rfl, rfl, hw⟩
  | setDur v =>
    simp only [step, sstep]
    by_cases hv : T.nonneg v = true
    · simp only [hv, if_true]
      exact resizeTo_refines { s with dur := v } hw _ (recSize_pos T _ _ _)
    · simp only [hv]; exact ⟨rfl, rfl, hw⟩
  | setIncl b =>
    simp only [step, sstep]
    have e : (sabs s).dur = s.dur := rfl
    rw [e]
    by_cases hv : T.nonneg s.dur = true
    · simp only [hv, if_true]
      exact resizeTo_refines { s with incl := b } hw _ (recSize_pos T _ _ _)
    · simp only [hv]; exact ⟨rfl, rfl, hw⟩
  | recon dim size =>
    simp only [step, sstep]
    apply shapedRecon_refines s hw
    intro h0; split at h0 <;> omega
  | push xsh x inplace =>
    obtain ⟨n, hn, hpos, hst⟩ := hw
    have hn' : (sabs s).cons.lookup 0 = some n := hn
    simp only [step, sstep, hn, hn']
    cases hs : s.store with
    | init sh d =>
      obtain ⟨p, rows⟩ := d
      rw [hs] at hst
      obtain ⟨hlen, hp⟩ := hst
      have hr : (⟨n, p, rows⟩ : Ring Row).WF := ⟨hpos, hp, hlen⟩
      have hpw := push_wf' _ hr x inplace
      have hpn := newest_push _ hr x inplace
      by_cases hx : xsh = sh
      · subst hx
        simp only [sabs, hs, ne_eq, not_true_eq_false, if_false]
        refine ⟨?_, trivial, ⟨n, hn, hpos, ?_⟩⟩
        · congr 2
          have e1 : (Ring.newest ⟨rows.length, p, rows⟩ : List Row) = Ring.newest (⟨n, p, rows⟩ : Ring Row) := rfl
          rw [e1, newest_length _ hr]
          exact hpn
        · have hn2 : ((⟨n, p, rows⟩ : Ring Row).push x inplace).n = n := by
            simp [Ring.push, Ring.incr, Ring.write, Ring.writeInplace, Ring.writeSplice]; split <;> rfl
          obtain ⟨_, w2, w3⟩ := hpw
          rw [hn2] at w2 w3
          exact ⟨w3, w2⟩
      · simp only [sabs, hs, ne_eq, hx, not_false_eq_true, if_true]
        refine ⟨?_, ?_, ?_⟩
        all_goals first | rfl | trivial | exact ⟨n, hn, hpos, by simp [hs, hlen, hp]⟩
    | none =>
      have hr := freshRows_wf n hpos xsh
      have hpw := push_wf' _ hr x inplace
      have hpn := newest_push _ hr x inplace
      have hn2 : ((⟨n, 0, freshRows n xsh⟩ : Ring Row).push x inplace).n = n := by
        simp [Ring.push, Ring.incr, Ring.write, Ring.writeInplace, Ring.writeSplice]; split <;> rfl
      simp only [sabs, hs]
      refine ⟨?_, trivial, ⟨n, hn, hpos, ?_⟩⟩
      · congr 2
        rw [freshRows_newest] at hpn
        exact hpn
      · obtain ⟨_, w2, w3⟩ := hpw
        rw [hn2] at w2 w3
        exact ⟨w3, w2⟩
    | empty =>
      have hr := freshRows_wf n hpos xsh
      have hpw := push_wf' _ hr x inplace
      have hpn := newest_push _ hr x inplace
      have hn2 : ((⟨n, 0, freshRows n xsh⟩ : Ring Row).push x inplace).n = n := by
        simp [Ring.push, Ring.incr, Ring.write, Ring.writeInplace, Ring.writeSplice]; split <;> rfl
      simp only [sabs, hs]
      refine ⟨?_, trivial, ⟨n, hn, hpos, ?_⟩⟩
      · congr 2
        rw [freshRows_newest] at hpn
        exact hpn
      · obtain ⟨_, w2, w3⟩ := hpw
        rw [hn2] at w2 w3
        exact ⟨w3, w2⟩
    | uninit =>
      have hr := freshRows_wf n hpos xsh
      have hpw := push_wf' _ hr x inplace
      have hpn := newest_push _ hr x inplace
      have hn2 : ((⟨n, 0, freshRows n xsh⟩ : Ring Row).push x inplace).n = n := by
        simp [Ring.push, Ring.incr, Ring.write, Ring.writeInplace, Ring.writeSplice]; split <;> rfl
      simp only [sabs, hs]
      refine ⟨?_, trivial, ⟨n, hn, hpos, ?_⟩⟩
      · congr 2
        rw [freshRows_newest] at hpn
        exact hpn
      · obtain ⟨_, w2, w3⟩ := hpw
        rw [hn2] at w2 w3
        exact ⟨w3, w2⟩
  | assign k =>
    obtain ⟨n, hn, hpos, hst⟩ := hw
    have e : (sabs s).param = s.param := rfl
    cases k with
    | none =>
      simp only [step, sstep, e]
      cases hp : s.param
      · exact ⟨rfl, rfl, ⟨n, hn, hpos, trivial⟩⟩
      · exact ⟨rfl, rfl, ⟨n, hn, hpos, hst⟩⟩
    | empty => exact ⟨rfl, rfl, ⟨n, hn, hpos, trivial⟩⟩
    | uninit =>
      simp only [step, sstep, e]
      cases hp : s.param
      · exact ⟨rfl, rfl, ⟨n, hn, hpos, trivial⟩⟩
      · exact ⟨rfl, rfl, ⟨n, hn, hpos, hst⟩⟩
  | initz sh =>
    obtain ⟨n, hn, hpos, hst⟩ := hw
    have hn' : (sabs s).cons.lookup 0 = some n := hn
    simp only [step, sstep, hn, hn']
    refine ⟨?_, trivial, ⟨n, hn, hpos, by simp [freshRows, hpos]⟩⟩
    simp only [sabs]
    congr 2
    exact freshRows_newest _ _ _

/-- Refinement for every finite operation sequence (induction over the op list). -/
theorem record_run_refines (T : TimeOps τ) (ops : List (Op τ)) (s : MState τ) (hw : MWF s) :
    sabs (run T s ops).1 = (srun T (sabs s) ops).1 ∧
    (run T s ops).2 = (srun T (sabs s) ops).2 ∧ MWF (run T s ops).1 := by
  induction ops generalizing s with
  | nil => exact ⟨rfl, rfl, hw⟩
  | cons op ops ih =>
    obtain ⟨h1, h2, h3⟩ := record_step_refines T s hw op
    obtain ⟨i1, i2, i3⟩ := ih (step T s op).1 h3
    simp only [run, srun]
    rw [← h1]
    exact ⟨i1, by rw [h2, i2], i3⟩


/-! ## The size formula as an invariant of setter sequences -/

/-- A temporal setter that returns (does not raise) leaves the record with exactly
`max(⌈q⌉ + inclusive, 1)` slots for the dt / duration / inclusive now stored — from ANY state. -/
theorem setter_establishes_size (T : TimeOps τ) (s : MState τ) (op : Op τ) (hop : op.isSetter = true)
    (hu : (step T s op).2 = .unit) : SizeOK T (step T s op).1 := by
  unfold SizeOK
  cases op with
  | setDt v =>
    simp only [step] at hu ⊢
    by_cases hv : T.pos v = true
    · simp only [hv, if_true] at hu ⊢
      obtain ⟨a, b, c, d⟩ := resizeTo_unit _ _ hu
      rw [a, b, c, d]
    · simp [hv] at hu
  | setDur v =>
    simp only [step] at hu ⊢
    by_cases hv : T.nonneg v = true
    · simp only [hv, if_true] at hu ⊢
      obtain ⟨a, b, c, d⟩ := resizeTo_unit _ _ hu
      rw [a, b, c, d]
    · simp [hv] at hu
  | setIncl b =>
    simp only [step] at hu ⊢
    by_cases hv : T.nonneg s.dur = true
    · simp only [hv, if_true] at hu ⊢
      obtain ⟨a, b, c, d⟩ := resizeTo_unit _ _ hu
      rw [a, b, c, d]
    · simp [hv] at hu
  | recon dim size => simp [Op.isSetter] at hop
  | push xsh x b => simp [Op.isSetter] at hop
  | assign k => simp [Op.isSetter] at hop
  | initz sh => simp [Op.isSetter] at hop

/-- **Size-formula invariant.**  Along every finite operation sequence (setters, reconstrain,
pushes, value assignments, initialisations in any order) in which no temporal setter raised,
`recordsz = max(⌈duration / dt⌉ + inclusive, 1)` holds at the end (`⌈·/·⌉` as computed by `T`). -/
theorem size_formula_inv (T : TimeOps τ) (ops : List (Op τ)) (s : MState τ) (h0 : SizeOK T s)
    (hs : settersSucceed T s ops) : SizeOK T (run T s ops).1 := by
  induction ops generalizing s with
  | nil => exact h0
  | cons op ops ih =>
    obtain ⟨h1, h2⟩ := hs
    simp only [run]
    apply ih _ _ h2
    cases hop : op.isSetter
    · obtain ⟨a, b, c, d⟩ := nonsetter_keeps T s op hop
      unfold SizeOK at *
      rw [a, b, c, d]; exact h0
    · exact setter_establishes_size T s op hop (h1 hop)

/-- On ignored storage the common tail of the setters cannot raise and leaves storage alone. -/
theorem resizeTo_ignored (s : MState τ) (n : Nat) (hn : s.cons.lookup 0 = some n)
    (hign : mShape? s.store = none) (size : Nat) :
    (resizeToM s size).2 = .unit ∧ (resizeToM s size).1.store = s.store := by
  unfold resizeToM
  rw [hn]
  simp only
  by_cases he : size = n
  · simp [he]
  · simp only [he, if_false]
    have ha : align0 s = s := by
      unfold align0
      cases hs : s.store with
      | init sh d => obtain ⟨p, rows⟩ := d; rw [hs] at hign; simp [mShape?] at hign
      | none => rfl
      | empty => rfl
      | uninit => rfl
    rw [ha]
    unfold shapedReconM
    rw [hign]
    have hz : ¬ ((size : Int) < 0) := by omega
    simp [reconDecide, hn, hz, applyM]

/-- **No failure merely because storage is not initialised** (D7): with `None`, empty or
uninitialised storage every temporal setter with a valid argument returns, installs the formula's
size and leaves the (absent) storage alone. -/
theorem resize_uninitialised_ok (T : TimeOps τ) (s : MState τ) (n : Nat)
    (hn : s.cons.lookup 0 = some n) (hign : mShape? s.store = none) (op : Op τ)
    (hvalid : match op with
      | .setDt v => T.pos v = true
      | .setDur v => T.nonneg v = true
      | .setIncl _ => T.nonneg s.dur = true
      | _ => False) :
    (step T s op).2 = .unit ∧ SizeOK T (step T s op).1 ∧ (step T s op).1.store = s.store := by
  cases op with
  | setDt v =>
    simp only at hvalid
    have h := resizeTo_ignored { s with dt := v } n hn hign (recSize T v s.dur s.incl)
    have hu : (step T s (.setDt v)).2 = .unit := by simp only [step, hvalid, if_true]; exact h.1
    exact ⟨hu, setter_establishes_size T s _ rfl hu, by simp only [step, hvalid, if_true]; exact h.2⟩
  | setDur v =>
    simp only at hvalid
    have h := resizeTo_ignored { s with dur := v } n hn hign (recSize T s.dt v s.incl)
    have hu : (step T s (.setDur v)).2 = .unit := by simp only [step, hvalid, if_true]; exact h.1
    exact ⟨hu, setter_establishes_size T s _ rfl hu, by simp only [step, hvalid, if_true]; exact h.2⟩
  | setIncl b =>
    simp only at hvalid
    have h := resizeTo_ignored { s with incl := b } n hn hign (recSize T s.dt s.dur b)
    have hu : (step T s (.setIncl b)).2 = .unit := by simp only [step, hvalid, if_true]; exact h.1
    exact ⟨hu, setter_establishes_size T s _ rfl hu, by simp only [step, hvalid, if_true]; exact h.2⟩
  | recon dim size => exact hvalid.elim
  | push xsh x b => exact hvalid.elim
  | assign k => exact hvalid.elim
  | initz sh => exact hvalid.elim

/-- Construction yields a well-formed state obeying the size formula. -/
theorem construct_wf (T : TimeOps τ) (dt dur : τ) (incl strict param : Bool) (user : Cons) (v : InitVal)
    (s : MState τ) (h : construct T dt dur incl strict param user v = .ok s) :
    MWF s ∧ SizeOK T s := by
  unfold construct at h
  split at h
  · cases h
  · split at h
    · cases h
    · split at h
      · cases h
      · cases h
        refine ⟨⟨recSize T dt dur incl, lookup_put_self _ _ _, recSize_pos T _ _ _, ?_⟩, lookup_put_self _ _ _⟩
        cases v with
        | none => trivial
        | empty => trivial
        | uninit => trivial
        | zeros sh => exact ⟨by simp [freshRows], recSize_pos T _ _ _⟩


/-- **Machine level: a temporal setter preserves the newest observations.**  From every
well-formed state with initialised storage (any pointer, any contents), a setter that returns
leaves storage whose newest-first reading is the old one truncated, or zero-padded at the old
end, to the new record size `m` — i.e. `read(k)` unchanged for `1 ≤ k ≤ min(old, m)`, zero rows
for `old < k ≤ m` — and the observation shape is unchanged. -/
theorem setter_preserves_newest (T : TimeOps τ) (s : MState τ) (hw : MWF s) (op : Op τ)
    (hop : op.isSetter = true) (hu : (step T s op).2 = .unit)
    (sh : List Nat) (p : Nat) (rows : List Row) (hs : s.store = .init sh (p, rows)) :
    ∃ m p' rows', (step T s op).1.cons.lookup 0 = some m ∧ (step T s op).1.store = .init sh (p', rows') ∧
      Ring.newest ⟨rows'.length, p', rows'⟩ =
        (Ring.newest ⟨rows.length, p, rows⟩ ++ List.replicate (m - rows.length) (zeroRow sh)).take m := by
  obtain ⟨r1, r2, r3⟩ := record_step_refines T s hw op
  obtain ⟨n, hn, hpos, hst⟩ := hw
  rw [hs] at hst
  obtain ⟨hlen, hp⟩ := hst
  have hr : (⟨rows.length, p, rows⟩ : Ring Row).WF :=
    ⟨by show 0 < rows.length; omega, by show p < rows.length; omega, rfl⟩
  have hnl := newest_length _ hr
  simp only at hnl
  have habs : (sabs s).store = .init sh (Ring.newest ⟨rows.length, p, rows⟩) := by simp [sabs, hs]
  have hn' : (sabs s).cons.lookup 0 = some (Ring.newest (⟨rows.length, p, rows⟩ : Ring Row)).length := by
    rw [hnl, hlen]; exact hn
  rw [r2] at hu
  -- the specification machine's store after the setter
  have key : ∃ m, (sstep T (sabs s) op).1.cons.lookup 0 = some m ∧
      (sstep T (sabs s) op).1.store =
        .init sh (specResize (Ring.newest ⟨rows.length, p, rows⟩) m (zeroRow sh)) := by
    have hsz := setter_establishes_size T s op hop (by rw [r2]; exact hu)
    unfold SizeOK at hsz
    have hc : (sabs (step T s op).1).cons = (step T s op).1.cons := rfl
    rw [← hc, r1] at hsz
    refine ⟨_, hsz, ?_⟩
    have hd : (sabs (step T s op).1).dt = (step T s op).1.dt := rfl
    cases op with
    | setDt v =>
      simp only [sstep] at hu ⊢
      by_cases hv : T.pos v = true
      · simp only [hv, if_true] at hu ⊢
        have := resizeToS_store { sabs s with dt := v } sh _ habs hn' (recSize T v (sabs s).dur (sabs s).incl)
          hu
        refine this.trans ?_
        obtain ⟨_, b, c, d⟩ := resizeTo_unit { s with dt := v } (recSize T v s.dur s.incl)
          (by have := r2; simp only [step, sstep, hv, if_true] at this; rw [this]; exact hu)
        simp only [step, hv, if_true]
        rw [b, c, d]; rfl
      · simp [hv] at hu
    | setDur v =>
      simp only [sstep] at hu ⊢
      by_cases hv : T.nonneg v = true
      · simp only [hv, if_true] at hu ⊢
        have := resizeToS_store { sabs s with dur := v } sh _ habs hn' (recSize T (sabs s).dt v (sabs s).incl)
          hu
        refine this.trans ?_
        obtain ⟨_, b, c, d⟩ := resizeTo_unit { s with dur := v } (recSize T s.dt v s.incl)
          (by have := r2; simp only [step, sstep, hv, if_true] at this; rw [this]; exact hu)
        simp only [step, hv, if_true]
        rw [b, c, d]; rfl
      · simp [hv] at hu
    | setIncl b =>
      have e : (sabs s).dur = s.dur := rfl
      simp only [sstep, e] at hu ⊢
      by_cases hv : T.nonneg s.dur = true
      · simp only [hv, if_true] at hu ⊢
        have := resizeToS_store { sabs s with incl := b } sh _ habs hn' (recSize T (sabs s).dt s.dur b)
          hu
        refine this.trans ?_
        obtain ⟨_, b', c, d⟩ := resizeTo_unit { s with incl := b } (recSize T s.dt s.dur b)
          (by have := r2; simp only [step, sstep, e, hv, if_true] at this; rw [this]; exact hu)
        simp only [step, hv, if_true]
        rw [b', c, d]; rfl
      · simp [hv] at hu
    | recon dim size => simp [Op.isSetter] at hop
    | push xsh x b => simp [Op.isSetter] at hop
    | assign k => simp [Op.isSetter] at hop
    | initz sh => simp [Op.isSetter] at hop
  obtain ⟨m, km, ks⟩ := key
  rw [← r1] at km ks
  refine ⟨m, ?_⟩
  cases hst' : (step T s op).1.store with
  | none => simp [sabs, hst'] at ks
  | empty => simp [sabs, hst'] at ks
  | uninit => simp [sabs, hst'] at ks
  | init sh' d =>
    obtain ⟨p', rows'⟩ := d
    simp only [sabs, hst', Store.init.injEq] at ks
    obtain ⟨e1, e2⟩ := ks
    subst e1
    refine ⟨p', rows', km, rfl, ?_⟩
    rw [e2, specResize, hnl]

end InfernoVerif.Record

namespace InfernoVerif.Shaped
open InfernoVerif.Ring (Err prod slice)

/-! ## Constraint bookkeeping of `ShapedTensor` -/

/-- `_constraints_compatible` says exactly: enough dimensions, and every constraint names an
existing tensor dimension (Python indexing, negative dims from the end) of the constrained size. -/
theorem compatible_iff (sh : List Nat) (c : Cons) (strict : Bool) :
    compatible sh c strict = true ↔
      dimensionality c strict ≤ sh.length ∧
      ∀ d z, (d, z) ∈ c → ∃ i, pyIdx sh.length d = some i ∧ sh[i]? = some z := by
  unfold compatible
  split
  · rename_i h
    constructor
    · intro h'; cases h'
    · intro ⟨h1, _⟩; omega
  · rename_i h
    rw [List.all_eq_true]
    constructor
    · intro hall
      exact ⟨by omega, fun d z hm => (met_iff sh d z).mp (hall (d, z) hm)⟩
    · intro ⟨_, hall⟩ p hp
      exact (met_iff sh p.1 p.2).mpr (hall p.1 p.2 hp)

/-- **A tensor reported valid satisfies every constraint** — and conversely: `valid` holds
exactly when the value is ignored, or there are at least `dimensionality` dimensions and every
constraint `(d, z)` names an existing tensor dimension whose size is `z`. -/
theorem valid_iff_all_constraints (s : ShState) :
    s.valid = true ↔
      (s.val.ignored = true ∨
       ∃ sh vs, s.val = .tensor sh vs ∧ dimensionality s.cons s.strict ≤ sh.length ∧
         ∀ d z, (d, z) ∈ s.cons → ∃ i, pyIdx sh.length d = some i ∧ sh[i]? = some z) := by
  unfold ShState.valid
  cases hv : s.val with
  | none => simp [Val.shape?, Val.ignored]
  | uninit => simp [Val.shape?, Val.ignored]
  | tensor sh vs =>
    by_cases h0 : sh = [0]
    · simp [Val.shape?, Val.ignored, h0]
    · simp only [Val.shape?, Val.ignored, beq_iff_eq, h0, if_false, false_or]
      rw [compatible_iff]
      constructor
      · intro ⟨h1, h2⟩; exact ⟨sh, vs, rfl, h1, h2⟩
      · intro ⟨sh', vs', e, h1, h2⟩; cases e; exact ⟨h1, h2⟩

/-- Non-strict constraints: the dimensionality guard is implied — `valid` ⇔ ignored or every
constraint is met. -/
theorem valid_nonstrict_iff (s : ShState) (hs : s.strict = false) :
    s.valid = true ↔
      (s.val.ignored = true ∨
       ∃ sh vs, s.val = .tensor sh vs ∧
         ∀ d z, (d, z) ∈ s.cons → ∃ i, pyIdx sh.length d = some i ∧ sh[i]? = some z) := by
  rw [valid_iff_all_constraints]
  constructor
  · rintro (h | ⟨sh, vs, e, _, h2⟩)
    · exact Or.inl h
    · exact Or.inr ⟨sh, vs, e, h2⟩
  · rintro (h | ⟨sh, vs, e, h2⟩)
    · exact Or.inl h
    · refine Or.inr ⟨sh, vs, e, ?_, h2⟩
      obtain ⟨b1, b2⟩ := inrange_bounds (c := s.cons) (nd := sh.length)
        (fun d z hm => let ⟨i, hi, _⟩ := h2 d z hm; ⟨i, hi⟩)
      rw [hs]; unfold dimensionality; simp only [Bool.false_eq_true, if_false]; omega

/-- The code's `valid` and the specification's reading of it (driver streams `M` and `S`) agree. -/
theorem valid_eq_validSpec (s : ShState) : s.valid = s.validSpec := by
  unfold ShState.valid ShState.validSpec
  cases s.val.shape? with
  | none => rfl
  | some sh =>
    simp only
    cases hst : s.strict with
    | true =>
      unfold compatible dimensionality
      simp only [if_true, Bool.not_true, Bool.false_or]
      by_cases h : sh.length < upper s.cons + lower s.cons
      · simp [h]; intro h'; omega
      · simp [h]; intro h'; omega
    | false =>
      simp only [Bool.not_false, Bool.true_or, Bool.true_and]
      unfold compatible
      split
      · rename_i h
        -- the guard fails, so some constraint is unmet
        cases hall : s.cons.all (met sh) with
        | false => rfl
        | true =>
          exfalso
          obtain ⟨b1, b2⟩ := inrange_bounds (c := s.cons) (nd := sh.length) (fun d z hm => by
            have := (met_iff sh d z).mp (List.all_eq_true.mp hall (d, z) hm)
            obtain ⟨i, hi, _⟩ := this; exact ⟨i, hi⟩)
          unfold dimensionality at h; simp only [Bool.false_eq_true, if_false] at h; omega
      · rfl

/-- Under the dimensionality guard every constrained key indexes an existing tensor dimension
(`shape[d]` cannot raise `IndexError`). -/
theorem keys_in_range' {c : Cons} {strict : Bool} {nd : Nat} (hg : dimensionality c strict ≤ nd)
    {d : Int} {z : Nat} (h : (d, z) ∈ c) : ∃ i, pyIdx nd d = some i ∧ i < nd :=
  keys_in_range hg h

/-- **Strict constraints address pairwise distinct tensor dimensions.** -/
theorem strict_dims_distinct {c : Cons} {nd : Nat} (hg : dimensionality c true ≤ nd)
    {d1 d2 : Int} {z1 z2 : Nat} (h1 : (d1, z1) ∈ c) (h2 : (d2, z2) ∈ c) (hne : d1 ≠ d2) :
    pyIdx nd d1 ≠ pyIdx nd d2 :=
  strict_dims_distinct' (by simpa [dimensionality] using hg) h1 h2 hne

/-- **Adding an incompatible constraint is refused without side effects**: constraints, value,
flags — the whole state — are unchanged and an exception is reported (`ValueError` when the
tensor was valid, `RuntimeError` when it had been invalidated before). -/
theorem add_incompatible_refused_no_side_effect (s : ShState) (dim : Int) (z : Int) (sh : List Nat)
    (hnew : s.cons.lookup dim = none) (hz : 0 ≤ z) (hsh : s.val.shape? = some sh)
    (hinc : compatible sh (s.cons.put dim z.toNat) s.strict = false) :
    (shStep s (.recon dim (some z))).1 = s ∧
    (shStep s (.recon dim (some z))).2 = .err (if s.valid then .ValueError else .RuntimeError) := by
  have hz' : ¬ z < 0 := by omega
  have hv : s.valid = compatible sh s.cons s.strict := by simp [ShState.valid, hsh]
  by_cases hc : compatible sh s.cons s.strict = true
  · simp [shStep, reconDecide, hnew, hz', hsh, hc, hinc, shApply, hv]
  · simp [shStep, reconDecide, hnew, hz', hsh, hc, shApply, hv]

/-- Whatever the reason an *add* raises (negative size, incompatible, invalidated), nothing changed. -/
theorem add_error_no_side_effect (s : ShState) (dim : Int) (z : Int) (e : Err)
    (hnew : s.cons.lookup dim = none) (he : (shStep s (.recon dim (some z))).2 = .err e) :
    (shStep s (.recon dim (some z))).1 = s := by
  simp only [shStep] at he ⊢
  cases hD : reconDecide s.cons s.strict s.val.shape? dim (some z) with
  | err e' => rfl
  | set c' => rw [hD] at he; simp [shApply] at he
  | setErr c' e' => obtain ⟨e1, _⟩ := decide_setErr hD; cases e1
  | resize c' t sz =>
    obtain ⟨_, _, _, _, _, _, _, _, _, _, e8⟩ := decide_resize hD
    rw [hnew] at e8; cases e8

/-- **`valid` means "all constraints hold", whatever the `live` flag**: the reported validity is a
function of constraints, strictness and the stored value only — a live tensor whose storage was
replaced behind the setter (first push of a lazily shaped record, `.data` of a parameter) or whose
`strict` flag was switched afterwards is reported invalid exactly when a constraint is violated. -/
theorem valid_independent_of_live (s : ShState) (b : Bool) :
    ({ s with live := b } : ShState).valid = s.valid ∧ (shStep s (.setLive b)).1.valid = s.valid := ⟨rfl, rfl⟩

/-- **Live assignment never invalidates**: under `live`, an assignment either is refused with
`ValueError` leaving the whole state unchanged, or (also `RuntimeError` for `None` into a parameter)
succeeds and leaves a valid tensor. -/
theorem live_assign_keeps_valid (s : ShState) (hl : s.live = true) (v : Val) :
    ((shStep s (.assign v)).2 = .unit ∧ (shStep s (.assign v)).1.valid = true ∧ (shStep s (.assign v)).1.val = v) ∨
    ((shStep s (.assign v)).1 = s ∧
      ((shStep s (.assign v)).2 = .err .ValueError ∨ (shStep s (.assign v)).2 = .err .RuntimeError)) := by
  simp only [shStep]
  split
  · right; exact ⟨rfl, Or.inr rfl⟩
  · split
    · right; exact ⟨rfl, Or.inl rfl⟩
    · rename_i h1 h2
      left
      refine ⟨rfl, ?_, rfl⟩
      simpa [hl] using h2

/-- an assignment never touches the constraints, the flags or (when refused) the value -/
theorem assign_frame (s : ShState) (v : Val) :
    (shStep s (.assign v)).1.cons = s.cons ∧ (shStep s (.assign v)).1.strict = s.strict ∧
    (shStep s (.assign v)).1.live = s.live ∧ (shStep s (.assign v)).1.param = s.param ∧
    ((shStep s (.assign v)).2 ≠ .unit → (shStep s (.assign v)).1 = s) := by
  simp only [shStep]
  split
  · exact ⟨rfl, rfl, rfl, rfl, fun _ => rfl⟩
  · split
    · exact ⟨rfl, rfl, rfl, rfl, fun _ => rfl⟩
    · exact ⟨rfl, rfl, rfl, rfl, fun h => absurd rfl h⟩

/-- **Removing a constraint never alters data** (nor is any resize ever decided for a removal). -/
theorem remove_never_alters_data (s : ShState) (dim : Int) :
    (shStep s (.recon dim none)).1.val = s.val ∧
    ∀ c t sz, reconDecide s.cons s.strict s.val.shape? dim none ≠ .resize c t sz := by
  constructor
  · simp only [shStep]
    cases hD : reconDecide s.cons s.strict s.val.shape? dim none with
    | err e' => rfl
    | set c' => rfl
    | setErr c' e' => rfl
    | resize c' t sz => obtain ⟨_, _, e1, _⟩ := decide_resize hD; cases e1
  · intro c t sz hD
    obtain ⟨_, _, e1, _⟩ := decide_resize hD; cases e1

/-- An *edit* touches data only through `__make_compatible` on the edited dimension, and only
when the tensor does not already satisfy the edited constraints. -/
theorem edit_resizes_only_edited_dim (s : ShState) (dim : Int) (z : Int) (c' : Cons) (t sz : Nat)
    (h : reconDecide s.cons s.strict s.val.shape? dim (some z) = .resize c' t sz) :
    ∃ sh, s.val.shape? = some sh ∧ pyIdx sh.length dim = some t ∧ sz = z.toNat ∧
      c' = s.cons.put dim sz ∧ compatible sh c' s.strict = false := by
  obtain ⟨z', sh, e1, _, e2, e3, e4, e5, _, e7, _⟩ := decide_resize h
  cases e1
  exact ⟨sh, e4, e5, e2, e3, e7⟩

end InfernoVerif.Shaped


namespace InfernoVerif.Record
open InfernoVerif.Ring InfernoVerif.Shaped
variable {τ : Type}

/-- Record machine: removing a constraint (`RecordTensor.reconstrain(dim, None)`) never alters
any observation — every `read(k)`, the observation shape and the storage kind are unchanged (the
storage is only rotated by `align`). -/
theorem record_remove_never_alters_data (T : TimeOps τ) (s : MState τ) (hw : MWF s) (dim : Int) :
    (sabs (step T s (.recon dim none)).1).store = (sabs s).store := by
  rw [(record_step_refines T s hw (.recon dim none)).1]
  simp only [sstep, shapedReconS]
  cases hD : reconDecide (sabs s).cons (sabs s).strict (sShape? (sabs s).store)
      (if 0 ≤ dim then dim + 1 else dim) none with
  | err e' => rfl
  | set c' => rfl
  | setErr c' e' => rfl
  | resize c' t sz => obtain ⟨_, _, e1, _⟩ := decide_resize hD; cases e1

/-- Record machine: an *add* that raises leaves every observable (constraints, observations,
temporal configuration) unchanged. -/
theorem record_add_refused_no_side_effect (T : TimeOps τ) (s : MState τ) (hw : MWF s) (dim : Int) (z : Int)
    (e : Err) (hnew : s.cons.lookup (if 0 ≤ dim then dim + 1 else dim) = none)
    (he : (step T s (.recon dim (some z))).2 = .err e) :
    sabs (step T s (.recon dim (some z))).1 = sabs s := by
  obtain ⟨r1, r2, _⟩ := record_step_refines T s hw (.recon dim (some z))
  rw [r1]
  rw [r2] at he
  simp only [sstep, shapedReconS] at he ⊢
  have hnew' : (sabs s).cons.lookup (if 0 ≤ dim then dim + 1 else dim) = none := hnew
  cases hD : reconDecide (sabs s).cons (sabs s).strict (sShape? (sabs s).store)
      (if 0 ≤ dim then dim + 1 else dim) (some z) with
  | err e' => rfl
  | set c' => rw [hD] at he; simp [applyS] at he
  | setErr c' e' => obtain ⟨e1, _⟩ := decide_setErr hD; cases e1
  | resize c' t sz =>
    obtain ⟨_, _, _, _, _, _, _, _, _, _, e8⟩ := decide_resize hD
    rw [hnew'] at e8; cases e8

end InfernoVerif.Record

/-! ## Non-vacuity: concrete states meeting the hypotheses -/

namespace InfernoVerif.Record
open InfernoVerif.Ring InfernoVerif.Shaped

/-- a 3-slot ring mid-wrap: pointer 2, newest first 20, 10, 30 -/
def exR : Ring Nat := ⟨3, 2, [10, 20, 30]⟩
example : exR.WF := by unfold Ring.WF; decide
example : exR.newest = [20, 10, 30] := by decide
-- grow to 5: newest three keep their offsets, two zero slots appear behind them
example : (exR.reconstrain0 5 0).data = [0, 0, 30, 10, 20] := by decide
example : (exR.reconstrain0 5 0).newest = [20, 10, 30, 0, 0] := by decide
-- shrink to 2: the two newest survive
example : (exR.reconstrain0 2 0).newest = [20, 10] := by decide
-- without `align(0)` the tail of the raw storage is NOT the newest data (why every pointer matters)
example : resizeTail exR.data 2 0 = [20, 30] := by decide

/-- a well-formed machine state: 3 slots, pointer 1, one user constraint on the observation dim -/
def exS : MState Rat :=
  { dt := 1, dur := 3, incl := false, cons := [(1, 2), (0, 3)], strict := true, param := false,
    store := .init [2] (1, [[4, 4], [2, 2], [3, 3]]) }
example : MWF exS := ⟨3, by decide, by decide, by decide, by decide⟩
example : (step ratOps exS (.setDt (1/2))).2 = .unit := by decide +kernel
example : (step ratOps exS (.setDt (1/2))).1.cons.lookup 0 = some 6 := by decide +kernel
example : (sabs (step ratOps exS (.setDt (1/2))).1).store =
    .init [2] [[4, 4], [3, 3], [2, 2], [0, 0], [0, 0], [0, 0]] := by decide +kernel
example : SizeOK ratOps exS := by unfold SizeOK; decide +kernel
-- uninitialised storage: the setter succeeds (D7) and installs the size
example : (step ratOps { exS with store := .none } (.setDur 5)).2 = .unit := by decide +kernel
example : (step ratOps { exS with store := .none } (.setDur 5)).1.cons.lookup 0 = some 5 := by decide +kernel
-- the size formula on a non-integer ratio: ceil(3 / (3/4)) = 4, inclusive adds one
example : recSize ratOps (3/4) 3 false = 4 := by decide +kernel
example : recSize ratOps (3/4) (5/2) true = 5 := by decide +kernel
example : recSize ratOps 1 0 false = 1 := by decide +kernel

end InfernoVerif.Record

namespace InfernoVerif.Shaped
/-- a 2×3 tensor constrained on dims 0 and -1 -/
def exT : ShState := ⟨[(0, 2), (-1, 3)], true, false, .tensor [2, 3] [1, 2, 3, 4, 5, 6], false⟩
example : exT.valid = true := by decide
-- adding an incompatible constraint is refused, state untouched
example : shStep exT (.recon 1 (some 5)) = (exT, .err .ValueError) := by decide
-- strict {0, -1} needs two dimensions: a 1-d tensor is not valid although both sizes "match"
example : (⟨[(0, 3), (-1, 3)], true, false, .tensor [3] [1, 2, 3], false⟩ : ShState).valid = false := by decide
example : (⟨[(0, 3), (-1, 3)], false, false, .tensor [3] [1, 2, 3], false⟩ : ShState).valid = true := by decide
-- editing keeps the tail / prepends zeros along the edited dimension
example : (shStep exT (.recon (-1) (some 2))).1.val = .tensor [2, 2] [2, 3, 5, 6] := by decide
example : (shStep exT (.recon (-1) (some 4))).1.val = .tensor [2, 4] [0, 1, 2, 3, 0, 4, 5, 6] := by decide
-- removing never alters data
example : (shStep exT (.recon 0 none)).1.val = exT.val := by decide
-- live: an incompatible value is refused, a compatible one is stored
example : shStep { exT with live := true } (.assign (.tensor [3, 3] [0, 0, 0, 0, 0, 0, 0, 0, 0]))
    = ({ exT with live := true }, .err .ValueError) := by decide
example : (shStep { exT with live := true } (.assign (.tensor [2, 3] [9, 9, 9, 9, 9, 9]))).2 = .unit := by decide
end InfernoVerif.Shaped
