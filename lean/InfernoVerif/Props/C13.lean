import InfernoVerif.Lemmas.Record
/-!
# C13 — Resizing a record keeps the newest observations in order and the size formula;
constraint bookkeeping stays consistent

Property theorems only (definitions: `Model/Shaped.lean`, `Model/Record.lean`; helper lemmas:
`Lemmas/Record.lean`).  Core Lean, no Mathlib.

Ring level (any element type, any record sizes, EVERY well-formed ring state):
* `resize_preserves_newest`, `resize_older_zero`, `resize_newest_list`.
Machine level (all finite operation sequences over the temporal setters,
`RecordTensor.reconstrain`, push, `value = <ignored>`, `initialize`):
* `record_step_refines` / `record_run_refines`: the code-shaped machine (pointer, `align`, roll,
  slice / zero-prepend) refines the specification machine (observations newest first; resize =
  truncate or zero-pad the old end);
* `size_formula`, `ceil_div_least`, `size_formula_inv`, `resize_uninitialised_ok`,
  `setter_preserves_newest`, `construct_wf`.
Bookkeeping (`ShapedTensor`):
* `valid_iff_all_constraints`, `valid_nonstrict_iff`, `valid_eq_validSpec`, `keys_in_range'`,
  `strict_dims_distinct`, `add_incompatible_refused_no_side_effect`, `add_error_no_side_effect`,
  `remove_never_alters_data`, and their record-machine forms.

Partial (float): `size_formula` / `ceil_div_least` are about exact rational dt and duration; the
machine theorems hold for ANY way of computing `ceil(duration / dt)` (`TimeOps`), in particular
for the IEEE division the code performs (`size_formula_inv` is about the quotient as computed).
-/
namespace InfernoVerif.Record
open InfernoVerif.Ring InfernoVerif.Shaped
variable {α τ : Type}

/-! ## Ring level -/

/-- **Newest observations survive a resize at the same offsets.**  From every well-formed ring
state (any pointer, any contents), after `align(0)` + tail-preserving resize to `size ≥ 1`,
`read(k)` is unchanged for every `1 ≤ k ≤ min(old, new)`. -/
theorem resize_preserves_newest (r : Ring α) (h : r.WF) (size : Nat) (hs : 0 < size) (z : α)
    (k : Nat) (h1 : 1 ≤ k) (h2 : k ≤ min r.n size) :
    (r.reconstrain0 size z).read (k : Int) = r.read (k : Int) := by
  have hw := reconstrain0_wf r size hs z
  have e : (k : Int) = ((k - 1 : Nat) : Int) + 1 := by omega
  rw [e, ← newest_getElem? _ hw (by simp [Ring.reconstrain0]; omega), ← newest_getElem? r h (by omega),
    reconstrain0_newest r h]
  unfold specResize
  rw [List.getElem?_take, if_pos (by omega), List.getElem?_append_left (by rw [newest_length r h]; omega)]

/-- **Older slots of a grown record are zero**: `read(k) = z` for `min(old, new) < k ≤ new`. -/
theorem resize_older_zero (r : Ring α) (h : r.WF) (size : Nat) (z : α)
    (k : Nat) (h1 : min r.n size < k) (h2 : k ≤ size) :
    (r.reconstrain0 size z).read (k : Int) = some z := by
  have hs : 0 < size := by omega
  have hw := reconstrain0_wf r size hs z
  have e : (k : Int) = ((k - 1 : Nat) : Int) + 1 := by omega
  rw [e, ← newest_getElem? _ hw (by simp [Ring.reconstrain0]; omega), reconstrain0_newest r h]
  unfold specResize
  have hl := newest_length r h
  rw [List.getElem?_take, if_pos (by omega), List.getElem?_append_right (by omega),
    List.getElem?_replicate, if_pos (by omega)]

/-- The same as one equation on the newest-first list of observations: the resized ring holds
the old observations truncated, or padded with zeros at the old end — and is well formed. -/
theorem resize_newest_list (r : Ring α) (h : r.WF) (size : Nat) (hs : 0 < size) (z : α) :
    (r.reconstrain0 size z).newest = (r.newest ++ List.replicate (size - r.n) z).take size ∧
    (r.reconstrain0 size z).WF := by
  refine ⟨?_, reconstrain0_wf r size hs z⟩
  rw [reconstrain0_newest r h, specResize, newest_length r h]

/-! ## The record-size formula (exact rational arithmetic) -/

/-- `recordsz = max(⌈duration / dt⌉ + inclusive, 1)`. -/
theorem size_formula (dt dur : Rat) (incl : Bool) :
    ((recSize ratOps dt dur incl : Nat) : Int) = max ((dur / dt).ceil + (if incl then 1 else 0)) 1 := by
  unfold recSize ratOps
  simp only
  omega

/-- `⌈duration / dt⌉` is the least number of steps whose total length covers the duration. -/
theorem ceil_div_least (dt dur : Rat) (hdt : 0 < dt) (m : Int) :
    (dur / dt).ceil ≤ m ↔ dur ≤ (m : Rat) * dt := by
  rw [Rat.ceil_le_iff, ← Rat.not_lt, Rat.lt_div_iff hdt, Rat.not_lt]

/-- Hence the record always spans the duration: `(recordsz - inclusive) · dt ≥ duration`. -/
theorem recSize_covers (dt dur : Rat) (hdt : 0 < dt) (incl : Bool) :
    dur ≤ (((recSize ratOps dt dur incl : Nat) : Int) - (if incl then 1 else 0) : Int) * dt := by
  rw [← ceil_div_least dt dur hdt, size_formula]
  omega

/-! ## Machine level: refinement of the specification machine -/

/-- One step of the code-shaped machine refines one step of the specification machine: abstract
states agree, outputs (incl. error classes) agree, well-formedness is preserved. -/
theorem record_step_refines (T : TimeOps τ) (s : MState τ) (hw : MWF s) (op : Op τ) :
    sabs (step T s op).1 = (sstep T (sabs s) op).1 ∧
    (step T s op).2 = (sstep T (sabs s) op).2 ∧ MWF (step T s op).1 := by
  cases op with
  | setDt v =>
    simp only [step, sstep]
    by_cases hv : T.pos v = true
    · simp only [hv, if_true]
      exact resizeTo_refines { s with dt := v } hw _ (recSize_pos T _ _ _)
    · simp only [hv]; exact ⟨rfl, rfl, hw⟩
  | setDur v =>
    simp only [step, sstep]
    by_cases hv : T.nonneg v = true
    · simp only [hv, if_true]
      exact resizeTo_refines { s with dur := v } hw _ (recSize_pos T _ _ _)
    · simp only [hv]; exact ⟨rfl, rfl, hw⟩
  | setIncl b =>
    simp only [step, sstep]
    have e : (sabs s).dur = s.dur := rfl
    rw [e]
    by_cases hv : T.nonneg s.dur = true
    · simp only [hv, if_true]
      exact resizeTo_refines { s with incl := b } hw _ (recSize_pos T _ _ _)
    · simp only [hv]; exact ⟨rfl, rfl, hw⟩
  | recon dim size =>
    simp only [step, sstep]
    apply shapedRecon_refines s hw
    intro h0; split at h0 <;> omega
  | push xsh x inplace =>
    obtain ⟨n, hn, hpos, hst⟩ := hw
    have hn' : (sabs s).cons.lookup 0 = some n := hn
    simp only [step, sstep, hn, hn']
    cases hs : s.store with
    | init sh d =>
      obtain ⟨p, rows⟩ := d
      rw [hs] at hst
      obtain ⟨hlen, hp⟩ := hst
      have hr : (⟨n, p, rows⟩ : Ring Row).WF := ⟨hpos, hp, hlen⟩
      have hpw := push_wf' _ hr x inplace
      have hpn := newest_push _ hr x inplace
      by_cases hx : xsh = sh
      · subst hx
        simp only [sabs, hs, ne_eq, not_true_eq_false, if_false]
        refine ⟨?_, trivial, ⟨n, hn, hpos, ?_⟩⟩
        · congr 2
          have e1 : (Ring.newest ⟨rows.length, p, rows⟩ : List Row) = Ring.newest (⟨n, p, rows⟩ : Ring Row) := rfl
          rw [e1, newest_length _ hr]
          exact hpn
        · have hn2 : ((⟨n, p, rows⟩ : Ring Row).push x inplace).n = n := by
            simp [Ring.push, Ring.incr, Ring.write, Ring.writeInplace, Ring.writeSplice]; split <;> rfl
          obtain ⟨_, w2, w3⟩ := hpw
          rw [hn2] at w2 w3
          exact ⟨w3, w2⟩
      · simp only [sabs, hs, ne_eq, hx, not_false_eq_true, if_true]
        refine ⟨?_, ?_, ?_⟩
        all_goals first | rfl | trivial | exact ⟨n, hn, hpos, by simp [hs, hlen, hp]⟩
    | none =>
      have hr := freshRows_wf n hpos xsh
      have hpw := push_wf' _ hr x inplace
      have hpn := newest_push _ hr x inplace
      have hn2 : ((⟨n, 0, freshRows n xsh⟩ : Ring Row).push x inplace).n = n := by
        simp [Ring.push, Ring.incr, Ring.write, Ring.writeInplace, Ring.writeSplice]; split <;> rfl
      simp only [sabs, hs]
      refine ⟨?_, trivial, ⟨n, hn, hpos, ?_⟩⟩
      · congr 2
        rw [freshRows_newest] at hpn
        exact hpn
      · obtain ⟨_, w2, w3⟩ := hpw
        rw [hn2] at w2 w3
        exact ⟨w3, w2⟩
    | empty =>
      have hr := freshRows_wf n hpos xsh
      have hpw := push_wf' _ hr x inplace
      have hpn := newest_push _ hr x inplace
      have hn2 : ((⟨n, 0, freshRows n xsh⟩ : Ring Row).push x inplace).n = n := by
        simp [Ring.push, Ring.incr, Ring.write, Ring.writeInplace, Ring.writeSplice]; split <;> rfl
      simp only [sabs, hs]
      refine ⟨?_, trivial, ⟨n, hn, hpos, ?_⟩⟩
      · congr 2
        rw [freshRows_newest] at hpn
        exact hpn
      · obtain ⟨_, w2, w3⟩ := hpw
        rw [hn2] at w2 w3
        exact ⟨w3, w2⟩
    | uninit =>
      have hr := freshRows_wf n hpos xsh
      have hpw := push_wf' _ hr x inplace
      have hpn := newest_push _ hr x inplace
      have hn2 : ((⟨n, 0, freshRows n xsh⟩ : Ring Row).push x inplace).n = n := by
        simp [Ring.push, Ring.incr, Ring.write, Ring.writeInplace, Ring.writeSplice]; split <;> rfl
      simp only [sabs, hs]
      refine ⟨?_, trivial, ⟨n, hn, hpos, ?_⟩⟩
      · congr 2
        rw [freshRows_newest] at hpn
        exact hpn
      · obtain ⟨_, w2, w3⟩ := hpw
        rw [hn2] at w2 w3
        exact ⟨w3, w2⟩
  | assign k =>
    obtain ⟨n, hn, hpos, hst⟩ := hw
    have e : (sabs s).param = s.param := rfl
    cases k with
    | none =>
      simp only [step, sstep, e]
      cases hp : s.param
      · exact ⟨rfl, rfl, ⟨n, hn, hpos, trivial⟩⟩
      · exact ⟨rfl, rfl, ⟨n, hn, hpos, hst⟩⟩
    | empty => exact ⟨rfl, rfl, ⟨n, hn, hpos, trivial⟩⟩
    | uninit =>
      simp only [step, sstep, e]
      cases hp : s.param
      · exact ⟨rfl, rfl, ⟨n, hn, hpos, trivial⟩⟩
      · exact ⟨rfl, rfl, ⟨n, hn, hpos, hst⟩⟩
  | initz sh =>
    obtain ⟨n, hn, hpos, hst⟩ := hw
    have hn' : (sabs s).cons.lookup 0 = some n := hn
    simp only [step, sstep, hn, hn']
    refine ⟨?_, trivial, ⟨n, hn, hpos, by simp [freshRows, hpos]⟩⟩
    simp only [sabs]
    congr 2
    exact freshRows_newest _ _ _

/-- Refinement for every finite operation sequence (induction over the op list). -/
theorem record_run_refines (T : TimeOps τ) (ops : List (Op τ)) (s : MState τ) (hw : MWF s) :
    sabs (run T s ops).1 = (srun T (sabs s) ops).1 ∧
    (run T s ops).2 = (srun T (sabs s) ops).2 ∧ MWF (run T s ops).1 := by
  induction ops generalizing s with
  | nil => exact ⟨rfl, rfl, hw⟩
  | cons op ops ih =>
    obtain ⟨h1, h2, h3⟩ := record_step_refines T s hw op
    obtain ⟨i1, i2, i3⟩ := ih (step T s op).1 h3
    simp only [run, srun]
    rw [← h1]
    exact ⟨i1, by rw [h2, i2], i3⟩


/-! ## The size formula as an invariant of setter sequences -/

/-- A temporal setter that returns (does not raise) leaves the record with exactly
`max(⌈q⌉ + inclusive, 1)` slots for the dt / duration / inclusive now stored — from ANY state. -/
theorem setter_establishes_size (T : TimeOps τ) (s : MState τ) (op : Op τ) (hop : op.isSetter = true)
    (hu : (step T s op).2 = .unit) : SizeOK T (step T s op).1 := by
  unfold SizeOK
  cases op with
  | setDt v =>
    simp only [step] at hu ⊢
    by_cases hv : T.pos v = true
    · simp only [hv, if_true] at hu ⊢
      obtain ⟨a, b, c, d⟩ := resizeTo_unit _ _ hu
      rw [a, b, c, d]
    · simp [hv] at hu
  | setDur v =>
    simp only [step] at hu ⊢
    by_cases hv : T.nonneg v = true
    · simp only [hv, if_true] at hu ⊢
      obtain ⟨a, b, c, d⟩ := resizeTo_unit _ _ hu
      rw [a, b, c, d]
    · simp [hv] at hu
  | setIncl b =>
    simp only [step] at hu ⊢
    by_cases hv : T.nonneg s.dur = true
    · simp only [hv, if_true] at hu ⊢
      obtain ⟨a, b, c, d⟩ := resizeTo_unit _ _ hu
      rw [a, b, c, d]
    · simp [hv] at hu
  | recon dim size => simp [Op.isSetter] at hop
  | push xsh x b => simp [Op.isSetter] at hop
  | assign k => simp [Op.isSetter] at hop
  | initz sh => simp [Op.isSetter] at hop

/-- **Size-formula invariant.**  Along every finite operation sequence (setters, reconstrain,
pushes, value assignments, initialisations in any order) in which no temporal setter raised,
`recordsz = max(⌈duration / dt⌉ + inclusive, 1)` holds at the end (`⌈·/·⌉` as computed by `T`). -/
theorem size_formula_inv (T : TimeOps τ) (ops : List (Op τ)) (s : MState τ) (h0 : SizeOK T s)
    (hs : settersSucceed T s ops) : SizeOK T (run T s ops).1 := by
  induction ops generalizing s with
  | nil => exact h0
  | cons op ops ih =>
    obtain ⟨h1, h2⟩ := hs
    simp only [run]
    apply ih _ _ h2
    cases hop : op.isSetter
    · obtain ⟨a, b, c, d⟩ := nonsetter_keeps T s op hop
      unfold SizeOK at *
      rw [a, b, c, d]; exact h0
    · exact setter_establishes_size T s op hop (h1 hop)

/-- On ignored storage the common tail of the setters cannot raise and leaves storage alone. -/
theorem resizeTo_ignored (s : MState τ) (n : Nat) (hn : s.cons.lookup 0 = some n)
    (hign : mShape? s.store = none) (size : Nat) :
    (resizeToM s size).2 = .unit ∧ (resizeToM s size).1.store = s.store := by
  unfold resizeToM
  rw [hn]
  simp only
  by_cases he : size = n
  · simp [he]
  · simp only [he, if_false]
    have ha : align0 s = s := by
      unfold align0
      cases hs : s.store with
      | init sh d => obtain ⟨p, rows⟩ := d; rw [hs] at hign; simp [mShape?] at hign
      | none => rfl
      | empty => rfl
      | uninit => rfl
    rw [ha]
    unfold shapedReconM
    rw [hign]
    have hz : ¬ ((size : Int) < 0) := by omega
    simp [reconDecide, hn, hz, applyM]

/-- **No failure merely because storage is not initialised** (D7): with `None`, empty or
uninitialised storage every temporal setter with a valid argument returns, installs the formula's
size and leaves the (absent) storage alone. -/
theorem resize_uninitialised_ok (T : TimeOps τ) (s : MState τ) (n : Nat)
    (hn : s.cons.lookup 0 = some n) (hign : mShape? s.store = none) (op : Op τ)
    (hvalid : match op with
      | .setDt v => T.pos v = true
      | .setDur v => T.nonneg v = true
      | .setIncl _ => T.nonneg s.dur = true
      | _ => False) :
    (step T s op).2 = .unit ∧ SizeOK T (step T s op).1 ∧ (step T s op).1.store = s.store := by
  cases op with
  | setDt v =>
    simp only at hvalid
    have h := resizeTo_ignored { s with dt := v } n hn hign (recSize T v s.dur s.incl)
    have hu : (step T s (.setDt v)).2 = .unit := by simp only [step, hvalid, if_true]; exact h.1
    exact ⟨hu, setter_establishes_size T s _ rfl hu, by simp only [step, hvalid, if_true]; exact h.2⟩
  | setDur v =>
    simp only at hvalid
    have h := resizeTo_ignored { s with dur := v } n hn hign (recSize T s.dt v s.incl)
    have hu : (step T s (.setDur v)).2 = .unit := by simp only [step, hvalid, if_true]; exact h.1
    exact ⟨hu, setter_establishes_size T s _ rfl hu, by simp only [step, hvalid, if_true]; exact h.2⟩
  | setIncl b =>
    simp only at hvalid
    have h := resizeTo_ignored { s with incl := b } n hn hign (recSize T s.dt s.dur b)
    have hu : (step T s (.setIncl b)).2 = .unit := by simp only [step, hvalid, if_true]; exact h.1
    exact ⟨hu, setter_establishes_size T s _ rfl hu, by simp only [step, hvalid, if_true]; exact h.2⟩
  | recon dim size => exact hvalid.elim
  | push xsh x b => exact hvalid.elim
  | assign k => exact hvalid.elim
  | initz sh => exact hvalid.elim

/-- Construction yields a well-formed state obeying the size formula. -/
theorem construct_wf (T : TimeOps τ) (dt dur : τ) (incl strict param : Bool) (user : Cons) (v : InitVal)
    (s : MState τ) (h : construct T dt dur incl strict param user v = .ok s) :
    MWF s ∧ SizeOK T s := by
  unfold construct at h
  split at h
  · cases h
  · split at h
    · cases h
    · split at h
      · cases h
      · cases h
        refine ⟨⟨recSize T dt dur incl, lookup_put_self _ _ _, recSize_pos T _ _ _, ?_⟩, lookup_put_self _ _ _⟩
        cases v with
        | none => trivial
        | empty => trivial
        | uninit => trivial
        | zeros sh => exact ⟨by simp [freshRows], recSize_pos T _ _ _⟩

end InfernoVerif.Record
