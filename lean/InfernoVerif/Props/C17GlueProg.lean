import InfernoVerif.Gen.LayerProg
import InfernoVerif.Props.C17
/-!
# Glue: the code-shaped layer model IS the wiring / forward / clear code of `inferno/neural/network.py`

`Gen/LayerProg.lean` is regenerated on every run by `harness/progtx_layer.py` from the *whole bodies* of `Layer.clear`,
`Layer.get_neuron`, `Layer.forward`, `Serial.wiring`, `Serial.forward`, the `match combine` statement of
`Biclique.__init__` with its closure `combinefn`, `Biclique.wiring`, `RecurrentSerial.wiring`, `RecurrentSerial.forward`,
`RecurrentSerial.clear`; Python / torch / einops primitives are the functions of `Gen/LayerPrelude.lean`.

The theorems below state, class by class, that running the regenerated program on ANY instance state and mapping the
result through the abstraction (`SerialS.cfg`, `BicliqueS.cfg`, `RecS.cfg` / `RecS.st`, `toOpt`) is exactly one step of the
hand-written code-shaped model of `Model/Layer.lean` — `Layer.forward`, `Serial.forward`, `Biclique.forward`, `Rec.forward`,
`Layer.clear`, `Rec.clear` — the functions `Props/C17.lean` proves to compute the positional specifications
(`gen_serial_forward_spec`, `gen_recurrent_forward_spec` compose the two).  A change to a method body (a connection
looked up under another name, `wiring` applied to the wrong dictionary, neurons called before `wiring`, a transform applied
per group instead of per connection, `forward_pass` flags swapped, the feedback buffer not updated or not reset, a
dropped `clear` loop) changes the generated text and the corresponding theorem stops checking.

Main theorems: `gen_layer_forward`, `gen_serial_forward`, `gen_biclique_forward` (+ `gen_biclique_combine_builtin` /
`_custom` / `_invalid`, `gen_biclique_forward_builtin`), `gen_recurrent_forward` (`…_first`, `…_later`), `gen_layer_clear`,
`gen_recurrent_clear` (+ `…_default`).

What the abstraction forgets / what is assumed (not papered over):
* the model writes every failure as `none`: the exception CLASS (kept in the programs: `KeyError` for an unknown
  connection / neuron name, `AttributeError` from `get_neuron`, `ValueError` for an unknown combine string, `TypeError`
  for a missing `forward_pass`) and the component states at the raise are not compared (`toOpt`);
* components (`__call__`, `clear`, `spike`), user transforms, tensor `+`, `zeros_like` and the einops reduction are total
  abstract functions, as in the model (a raising component is the absorbing state of `Props/C17b.lean`); tensors are
  values, so aliasing of tensor OBJECTS (in-place user transforms) is outside, as the model's doc says;
* `connection_kwargs`, `neuron_kwargs`, user `**kwargs` are not modelled (dropped by the translator);
* `type(self)` is the class whose method is translated (dynamic dispatch of `self.wiring` goes to that class's `wiring`);
* hypotheses: `gen_biclique_*`: at least one neuron group; `gen_recurrent_*`: the feed-forward and the feedback connection
  have different names — both enforced by the constructors.
Differences between model and code that the proofs bridge (reported, harmless): the model's `Layer.forward` always
returns `(outputs, res)` (`fwdRet` / `serialRet` select what the code returns); the model's `Serial.forward` looks the
connection output up even without `capture_intermediate` (it is always there: `layer_forward_single_res`); the model's
`Biclique.wiring` calls `combine` once, the code once per group (`dictCompE_pre`); the model's `Rec.forward` looks the
feedback group up on every step, the code only on the first (`recRest_none`); the model has no extra connection
arguments (`RecS.cfg` folds them into the in-transforms) and no merged intermediate dictionary of `RecurrentSerial.forward`
(`RecRet.outs` drops it).
-/
set_option linter.unusedSimpArgs false
namespace InfernoVerif.Gen.LayerProg
open InfernoVerif.Layer InfernoVerif.Gen.LayerPrelude

universe u
variable {τ : Type}

/-! ## Abstraction of results; `Layer.forward` -/

/-- forget the exception class: `Model/Layer.lean` writes every failure as `none` -/
def toOpt {α : Type u} : Except Err α → Option α
  | .ok a => some a
  | .error _ => none

/-- `toOpt` of a returned value -/
@[simp] theorem toOpt_ok {α : Type u} (a : α) : toOpt (Except.ok a : Except Err α) = some a := rfl
/-- `toOpt` of a raised exception -/
@[simp] theorem toOpt_error {α : Type u} (e : Err) : toOpt (Except.error e : Except Err α) = none := rfl

/-- what `Layer.forward` returns for the model's `(outputs, res)`: the pair with `capture_intermediate`, `outputs` alone without -/
def fwdRet (cap : Bool) (outs res : Dict τ) : FwdRet τ := if cap then .captured outs res else .plain outs

/-- the connection comprehension of `Layer.forward` — any body that looks `k` up in `connections_` (`KeyError`), calls the module on `v`
and leaves it, advanced, in the dictionary — is the model's `callAll` on `conns` -/
theorem dictCompM_conns (inputs : Dict (List τ)) (L : LayerSt τ)
    (body : LayerSt τ → String → List τ → Except Err (LayerSt τ × τ))
    (hb : ∀ L k v, body L k v = match L.conns.get? k with
      | some m => .ok ({ L with conns := L.conns.set k (m.fwd v).1 }, (m.fwd v).2)
      | none => .error .KeyError) :
    toOpt (dictCompM inputs L body) = (callAll L.conns inputs).map fun r => ({ L with conns := r.1 }, r.2) := by
  induction inputs generalizing L with
  | nil => simp [dictCompM, callAll]
  | cons kx rest ih =>
    obtain ⟨k, x⟩ := kx
    simp only [dictCompM, callAll, hb]
    cases hg : L.conns.get? k with
    | none => simp
    | some m =>
      simp only
      have := ih { L with conns := L.conns.set k (m.fwd x).1 }
      cases hd : dictCompM rest { L with conns := L.conns.set k (m.fwd x).1 } body with
      | error e =>
        rw [hd] at this
        simp only [toOpt_error] at this
        cases hc : callAll (L.conns.set k (m.fwd x).1) rest with
        | none => simp
        | some r => simp [hc] at this
      | ok r =>
        rw [hd] at this
        obtain ⟨s2, out⟩ := r
        cases hc : callAll (L.conns.set k (m.fwd x).1) rest with
        | none => simp [hc] at this
        | some r' =>
          obtain ⟨mods', outs⟩ := r'
          simp [hc] at this
          simp [this]



/-- the same for the neuron comprehension and `neurs` -/
theorem dictCompM_neurs (inputs : Dict τ) (L : LayerSt τ)
    (body : LayerSt τ → String → τ → Except Err (LayerSt τ × τ))
    (hb : ∀ L k v, body L k v = match L.neurs.get? k with
      | some m => .ok ({ L with neurs := L.neurs.set k (m.fwd v).1 }, (m.fwd v).2)
      | none => .error .KeyError) :
    toOpt (dictCompM inputs L body) = (callAll L.neurs inputs).map fun r => ({ L with neurs := r.1 }, r.2) := by
  induction inputs generalizing L with
  | nil => simp [dictCompM, callAll]
  | cons kx rest ih =>
    obtain ⟨k, x⟩ := kx
    simp only [dictCompM, callAll, hb]
    cases hg : L.neurs.get? k with
    | none => simp
    | some m =>
      simp only
      have := ih { L with neurs := L.neurs.set k (m.fwd x).1 }
      cases hd : dictCompM rest { L with neurs := L.neurs.set k (m.fwd x).1 } body with
      | error e =>
        rw [hd] at this
        simp only [toOpt_error] at this
        cases hc : callAll (L.neurs.set k (m.fwd x).1) rest with
        | none => simp
        | some r => simp [hc] at this
      | ok r =>
        rw [hd] at this
        obtain ⟨s2, out⟩ := r
        cases hc : callAll (L.neurs.set k (m.fwd x).1) rest with
        | none => simp [hc] at this
        | some r' =>
          obtain ⟨mods', outs⟩ := r'
          simp [hc] at this
          simp [this]

/-- **`Layer.forward`** (regenerated) with ANY `wiring` whose result, as an `Option`, is `W` (independent of the layer's
component states): the model's `Layer.forward W` — the connections named in `inputs` run in the order of `inputs`, then
`wiring`, then the neurons named by its result; the return value is `(outputs, res)` with `capture_intermediate` and
`outputs` without; it fails (with whatever class) exactly when the model returns `none` -/
theorem gen_layer_forward (E : TOps τ) (w : LayerSt τ → Dict τ → Kwargs → Except Err (Dict τ)) (kw : Kwargs)
    (W : Dict τ → Option (Dict τ)) (hw : ∀ l res, toOpt (w l res kw) = W res)
    (L : LayerSt τ) (inputs : Dict (List τ)) (cap : Bool) :
    toOpt (Layer_forward E w L inputs cap kw) =
      (Layer.forward W L inputs).map fun r => (r.1, fwdRet cap r.2.1 r.2.2) := by
  have hc := dictCompM_conns inputs L (fun self k v => (do
      let t1_ ← dictGetItem self.conns k
      let c2_ := (callModule t1_ v)
      let self := { self with conns := (moduleWriteBack self.conns k c2_.1) }
      pure (self, c2_.2)
      : Except Err _)) (by
        intro L k v
        simp only [bind, Except.bind, pure, Except.pure, dictGetItem, callModule, moduleWriteBack]
        cases L.conns.get? k <;> rfl)
  have hn : ∀ (wired : Dict τ) (L1 : LayerSt τ), _ := fun wired L1 => dictCompM_neurs wired L1 (fun self k v => (do
      let t5_ ← dictGetItem self.neurs k
      let c6_ := (callModule t5_ v)
      let self := { self with neurs := (moduleWriteBack self.neurs k c6_.1) }
      pure (self, c6_.2)
      : Except Err _)) (by
        intro L k v
        simp only [bind, Except.bind, pure, Except.pure, dictGetItem, callModule, moduleWriteBack]
        cases L.neurs.get? k <;> rfl)
  unfold Layer_forward Layer.forward
  simp only [bind, Except.bind, pure, Except.pure] at hc hn ⊢
  generalize dictCompM inputs L _ = X at hc ⊢
  cases X with
  | error e =>
    simp only [toOpt_error] at hc
    cases hca : callAll L.conns inputs with
    | none => simp
    | some r => simp [hca] at hc
  | ok r1 =>
    obtain ⟨L1, res⟩ := r1
    cases hca : callAll L.conns inputs with
    | none => simp [hca] at hc
    | some r =>
      obtain ⟨cs, res'⟩ := r
      simp [hca] at hc
      obtain ⟨hL1, hres⟩ := hc
      subst hres
      subst hL1
      simp only
      have hw' := hw { conns := cs, neurs := L.neurs } res
      cases hwr : w { conns := cs, neurs := L.neurs } res kw with
      | error e =>
        rw [hwr] at hw'
        simp only [toOpt_error] at hw'
        cases cap <;> simp [withSelf, ← hw']
      | ok wired =>
        rw [hwr] at hw'
        simp only [toOpt_ok] at hw'
        have hn' := hn wired { conns := cs, neurs := L.neurs }
        simp only [withSelf, ← hw']
        generalize dictCompM wired _ _ = Y at hn' ⊢
        cases Y with
        | error e =>
          simp only [toOpt_error] at hn'
          cases hcn : callAll L.neurs wired with
          | none => cases cap <;> simp
          | some r => simp [hcn] at hn'
        | ok r2 =>
          obtain ⟨L2, outs⟩ := r2
          cases hcn : callAll L.neurs wired with
          | none => simp [hcn] at hn'
          | some r =>
            obtain ⟨ns, outs'⟩ := r
            simp [hcn] at hn'
            obtain ⟨hL2, houts⟩ := hn'
            subst houts
            subst hL2
            cases cap <;> simp [fwdRet]



/-- a one-entry dictionary display -/
@[simp] theorem dictDisplay_single {α : Type u} (k : String) (v : α) : dictDisplay [(k, v)] = [(k, v)] := by
  simp [dictDisplay, dictSetItem, Dict.get?]

/-- a two-entry dictionary display with distinct keys -/
theorem dictDisplay_pair {α : Type u} (k1 k2 : String) (v1 v2 : α) (h : k1 ≠ k2) :
    dictDisplay [(k1, v1), (k2, v2)] = [(k1, v1), (k2, v2)] := by
  simp [dictDisplay, dictSetItem, Dict.get?, h]

/-- abstraction: the configuration of a `Serial` instance as the model's `SerialCfg` -/
def _root_.InfernoVerif.Gen.LayerPrelude.SerialS.cfg (s : SerialS τ) : SerialCfg τ := ⟨s.cn, s.nn, s.trans⟩

/-- the regenerated `Serial.wiring` (through its keyword binder) is the model's `Serial.wiring` -/
theorem gen_serial_wiring (E : TOps τ) (s : SerialS τ) (res : Dict τ) (kw : Kwargs) :
    toOpt (Serial_wiring_kw E s res kw) = Serial.wiring s.cfg res := by
  simp only [Serial_wiring_kw, Serial_wiring, bind, Except.bind, pure, Except.pure, dictGetItem, Serial.wiring,
    SerialS.cfg, dictDisplay_single]
  cases res.get? s.cn <;> rfl

/-- the intermediate dictionary of a `Layer.forward` on a one-entry input has exactly that entry's key -/
theorem layer_forward_single_res (W : Dict τ → Option (Dict τ)) (L L' : LayerSt τ) (k : String) (x : List τ)
    (outs res : Dict τ) (h : Layer.forward W L [(k, x)] = some (L', outs, res)) : ∃ y, res = [(k, y)] := by
  unfold Layer.forward at h
  simp only [callAll] at h
  cases hg : L.conns.get? k with
  | none => simp [hg] at h
  | some m =>
    simp only [hg] at h
    cases hw : W [(k, (m.fwd x).2)] with
    | none => simp [hw] at h
    | some wired =>
      simp only [hw] at h
      cases hc : callAll L.neurs wired with
      | none => simp [hc] at h
      | some r =>
        simp [hc] at h
        exact ⟨_, h.2.2.symm⟩

/-- what `Serial.forward` returns for the model's `(neuron output, connection output)` -/
def serialRet (cap : Bool) (o y : τ) : SerialRet τ := if cap then .pair o y else .single o

/-- projections of `SerialS.cfg` -/
@[simp] theorem SerialS.cfg_cn (s : SerialS τ) : s.cfg.cn = s.cn := rfl
/-- projections of `SerialS.cfg` -/
@[simp] theorem SerialS.cfg_nn (s : SerialS τ) : s.cfg.nn = s.nn := rfl
/-- projections of `SerialS.cfg` -/
@[simp] theorem SerialS.cfg_trans (s : SerialS τ) : s.cfg.trans = s.trans := rfl

/-- **`gen_serial_forward`**: the regenerated `Serial.forward` (which calls the regenerated `Layer.forward`, which dispatches to the
regenerated `Serial.wiring`) on ANY layer state is one step `Serial.forward` of `Model/Layer.lean`: same new component
states, the neuron's output (and, with `capture_intermediate`, the connection's), failing exactly when the model does -/
theorem gen_serial_forward (E : TOps τ) (s : SerialS τ) (xs : List τ) (cap : Bool) :
    toOpt (Serial_forward E s xs cap) =
      (Serial.forward s.cfg s.layer xs).map fun r => ({ s with layer := r.1 }, serialRet cap r.2.1 r.2.2) := by
  have key := gen_layer_forward E (fun l_ => Serial_wiring_kw E { s with layer := l_ }) [] (Serial.wiring s.cfg)
    (fun l res => gen_serial_wiring E { s with layer := l } res []) s.layer [(s.cn, xs)] cap
  unfold Serial_forward Serial.forward
  simp only [bind, Except.bind, pure, Except.pure, dictDisplay_single, SerialS.cfg_cn, SerialS.cfg_nn]
  generalize Layer_forward E _ s.layer _ cap [] = X at key ⊢
  cases hf : Layer.forward (Serial.wiring s.cfg) s.layer [(s.cn, xs)] with
  | none =>
    rw [hf] at key
    cases X with
    | error e => rfl
    | ok r1 => simp at key
  | some r =>
    rw [hf] at key
    obtain ⟨L', outs, res⟩ := r
    obtain ⟨y, hy⟩ := layer_forward_single_res _ _ _ _ _ _ _ hf
    cases X with
    | error e => simp at key
    | ok r1 =>
      simp only [toOpt_ok, Option.map_some, Option.some.injEq] at key
      subst key hy
      cases cap
      · simp [fwdRet, withSelf, fwdGetItemStr, dictGetItem, serialRet, Dict.get?]
        cases outs.get? s.nn <;> simp
      · simp [fwdRet, withSelf, fwdGetItemInt, dictGetItem, serialRet, Dict.get?]
        cases outs.get? s.nn <;> simp



/-! ## Biclique -/

/-- abstraction: the value stored in `self._combine` as the model's `comb` (`none` = calling it raised) -/
def _root_.InfernoVerif.Gen.LayerPrelude.Combine.comb (c : Combine τ) : Dict τ → Option τ :=
  fun d => toOpt (callCombine c d)

/-- abstraction: the configuration of a `Biclique` instance as the model's `BicliqueCfg` -/
def _root_.InfernoVerif.Gen.LayerPrelude.BicliqueS.cfg (s : BicliqueS τ) : BicliqueCfg τ :=
  ⟨s.post_input, s.pre_output, s._combine.comb⟩

/-- the first comprehension of `Biclique.wiring` (look the transform up in `post_input`, apply it) is the model's `applyPost` -/
theorem dictCompE_post (post : Dict (τ → τ)) (res : Dict τ) (body : String → τ → Except Err τ)
    (hb : ∀ k v, body k v = match post.get? k with
      | some f => .ok (f v)
      | none => .error .KeyError) :
    toOpt (dictCompE res body) = applyPost post res := by
  induction res with
  | nil => rfl
  | cons kv rest ih =>
    obtain ⟨k, v⟩ := kv
    simp only [dictCompE, applyPost, hb]
    cases post.get? k with
    | none => simp
    | some f =>
      simp only
      cases hd : dictCompE rest body with
      | error e => rw [hd] at ih; simp only [toOpt_error] at ih; simp [← ih]
      | ok out => rw [hd] at ih; simp only [toOpt_ok] at ih; simp [← ih]

/-- the second comprehension of `Biclique.wiring`: `combine` is evaluated once PER GROUP (the value `x`, the same every
time: tensors are values here), each group's transform applied to it; with at least one group that is the model's
"combine once, then map the transforms" -/
theorem dictCompE_pre (pre : Dict (τ → τ)) (x : Except Err τ) (body : String → (τ → τ) → Except Err τ)
    (hb : ∀ k v, body k v = match x with
      | .ok z => .ok (v z)
      | .error e => .error e) (hne : pre ≠ []) :
    toOpt (dictCompE pre body) = match toOpt x with
      | none => none
      | some z => some (pre.map fun kv => (kv.1, kv.2 z)) := by
  cases x with
  | error e =>
    cases pre with
    | nil => exact absurd rfl hne
    | cons kv rest => obtain ⟨k, v⟩ := kv; simp [dictCompE, hb]
  | ok z =>
    simp only [toOpt_ok]
    clear hne
    induction pre with
    | nil => rfl
    | cons kv rest ih =>
      obtain ⟨k, v⟩ := kv
      simp only [dictCompE, hb]
      cases hd : dictCompE rest body with
      | error e => rw [hd] at ih; simp at ih
      | ok out => rw [hd] at ih; simp only [toOpt_ok, Option.some.injEq] at ih; simp [ih]

/-- the regenerated `Biclique.wiring` is the model's `Biclique.wiring`: post-input transforms once per connection output,
the combination of ALL transformed outputs for every neuron group, through that group's pre-output transform.
`hpre`: there is a neuron group (`Biclique.__init__` raises `ValueError` for an empty `neurons`); with none the code
returns `{}` without calling `combine`, the model calls it once -/
theorem gen_biclique_wiring (E : TOps τ) (s : BicliqueS τ) (hpre : s.pre_output ≠ []) (res : Dict τ) (kw : Kwargs) :
    toOpt (Biclique_wiring_kw E s res kw) = Biclique.wiring s.cfg res := by
  have h1 := dictCompE_post s.post_input res (fun k v => (do
      let t1_ ← dictGetItem s.post_input k
      pure (t1_ v)
      : Except Err _)) (by
        intro k v
        simp only [bind, Except.bind, pure, Except.pure, dictGetItem]
        cases s.post_input.get? k <;> rfl)
  have h2 : ∀ transformed : Dict τ, _ := fun transformed => dictCompE_pre s.pre_output (callCombine s._combine transformed)
    (fun k v => (do
      let t3_ ← callCombine s._combine transformed
      pure (v t3_)
      : Except Err _)) (by
        intro k v
        simp only [bind, Except.bind, pure, Except.pure]
        cases callCombine s._combine transformed <;> rfl) hpre
  unfold Biclique_wiring_kw Biclique_wiring Biclique.wiring
  simp only [bind, Except.bind, pure, Except.pure] at h1 h2 ⊢
  generalize dictCompE res _ = X at h1 ⊢
  cases X with
  | error e => simp only [toOpt_error] at h1; simp [BicliqueS.cfg, ← h1]
  | ok tr =>
    simp only [toOpt_ok] at h1
    have h2' := h2 tr
    simp only [BicliqueS.cfg, ← h1]
    generalize dictCompE s.pre_output _ = Y at h2' ⊢
    cases Y <;> exact h2'

/-- **`gen_biclique_forward`** (any `_combine`, in particular a custom callable): the regenerated `Layer.forward` — which `Biclique`
inherits (checked by the translator) — dispatching to the regenerated `Biclique.wiring` is one step `Biclique.forward`
of `Model/Layer.lean`, for every input dictionary (only connections named in it run) -/
theorem gen_biclique_forward (E : TOps τ) (s : BicliqueS τ) (hpre : s.pre_output ≠ []) (inputs : Dict (List τ))
    (cap : Bool) :
    toOpt (Layer_forward E (fun l_ => Biclique_wiring_kw E { s with layer := l_ }) s.layer inputs cap []) =
      (Biclique.forward s.cfg s.layer inputs).map fun r => (r.1, fwdRet cap r.2.1 r.2.2) :=
  gen_layer_forward E _ [] (Biclique.wiring s.cfg)
    (fun l res => gen_biclique_wiring E { s with layer := l } hpre res []) s.layer inputs cap



/-- einops' name of a built-in mode -/
def modeName : Mode → String
  | .sum => "sum" | .mean => "mean" | .prod => "prod" | .min => "min" | .max => "max"

/-- the `match` of `Biclique.__init__` on a string whose lower-case form names the mode `m` (ALL FIVE modes): `self._combine`
becomes the closure `combinefn`, and calling it reduces the LIST OF VALUES of its argument, in dictionary order, with mode
`m` (`RuntimeError` when einops / torch raise) -/
theorem gen_biclique_combine_builtin (E : TOps τ) (m : Mode) (str : String) (hs : str.toLower = modeName m) :
    Biclique___init___combine E (.str str) = .ok (.fn (Biclique___init___combinefn E (.str str))) ∧
    ∀ d, Biclique___init___combinefn E (.str str) d =
      match E.reduce m (dictValues d) with
      | some z => .ok z
      | none => .error .RuntimeError := by
  constructor
  · simp only [Biclique___init___combine, bind, Except.bind, pure, Except.pure, isStr, str_lower, matchLiterals, hs]
    cases m <;> simp [modeName]
  · intro d
    simp only [Biclique___init___combinefn, bind, Except.bind, pure, Except.pure, str_lower, ein_reduce, hs]
    cases m <;> simp [modeName, parseMode] <;> cases E.reduce _ (dictValues d) <;> rfl

/-- … on a callable: it is stored unchanged -/
theorem gen_biclique_combine_custom (E : TOps τ) (f : Dict τ → Except Err τ) :
    Biclique___init___combine E (.fn f) = .ok (.fn f) := by
  simp [Biclique___init___combine, bind, Except.bind, pure, Except.pure, isStr, matchLiterals]

/-- … on any other string: `ValueError` -/
theorem gen_biclique_combine_invalid (E : TOps τ) (str : String)
    (hs : str.toLower ∉ ["sum", "mean", "prod", "min", "max"]) :
    Biclique___init___combine E (.str str) = .error .ValueError := by
  simp only [Biclique___init___combine, bind, Except.bind, pure, Except.pure, isStr, str_lower, matchLiterals]
  simp [List.contains_iff_mem, hs]
  rfl



/-! ## clear -/

/-- **`gen_layer_clear`**: the regenerated `Layer.clear` is `Layer.clear` of `Model/Layer.lean` (every connection, then every neuron,
each through its own `clear`); with `submodules=False` nothing changes; it never raises -/
theorem gen_layer_clear (E : TOps τ) (L : LayerSt τ) (sub : Bool) :
    Layer_clear E L sub = .ok (if sub then Layer.clear L else L, ()) := by
  cases sub <;> rfl

/-- abstraction: the dynamic state of a `RecurrentSerial` instance as the model's `RecSt` -/
def _root_.InfernoVerif.Gen.LayerPrelude.RecS.st (s : RecS τ) : RecSt τ := ⟨s.layer, s.feedback_spikes⟩
/-- a `RecurrentSerial` instance with its dynamic state replaced -/
def _root_.InfernoVerif.Gen.LayerPrelude.RecS.withSt (s : RecS τ) (S : RecSt τ) : RecS τ :=
  { s with layer := S.L, feedback_spikes := S.feedback }

/-- the regenerated `RecurrentSerial.clear` for every flag combination: `clear_feedback` drops the stored feedback spikes,
`submodules` clears every component -/
theorem gen_recurrent_clear (E : TOps τ) (s : RecS τ) (cf sub : Bool) :
    RecurrentSerial_clear E s cf sub =
      .ok ({ s with layer := if sub then Layer.clear s.layer else s.layer,
                    feedback_spikes := if cf then none else s.feedback_spikes }, ()) := by
  cases cf <;> cases sub <;> rfl

/-- **`gen_recurrent_clear`** (default flags): the regenerated `RecurrentSerial.clear()` is `Rec.clear` of `Model/Layer.lean` -/
theorem gen_recurrent_clear_default (E : TOps τ) (s : RecS τ) :
    RecurrentSerial_clear E s true true = .ok (s.withSt (Rec.clear s.st), ()) := by
  rw [gen_recurrent_clear]; rfl

/-! ## RecurrentSerial -/

/-- abstraction: the configuration of a `RecurrentSerial` instance as the model's `RecCfg`.  The model has no
`lateral_connection_args` / `feedback_connection_args`; they are appended to what the in-transforms return (that IS the
code: `self._lateral_in_transform(spike) + (tuple(args) if args else ())`); `none` / `()` appends nothing.
`add` / `zerosLike` are the tensor operations `E` -/
def _root_.InfernoVerif.Gen.LayerPrelude.RecS.cfg (E : TOps τ) (s : RecS τ) (latArgs fbArgs : Option (List τ)) : RecCfg τ :=
  { ffc := s.ffc, latc := s.latc, fbc := s.fbc, ffn := s.ffn, fbn := s.fbn,
    ffOut := s.ffOut, latOut := s.latOut, fbOut := s.fbOut,
    latIn := fun x => s.latIn x ++ optSeqTuple latArgs, fbIn := fun x => s.fbIn x ++ optSeqTuple fbArgs,
    add := E.add, zerosLike := E.zeros_like }

/-- the pair of neuron outputs of `RecurrentSerial.forward`'s return value (with `capture_intermediate` the code also
returns `fres[1] | bres[1]`, which the model does not have) -/
def _root_.InfernoVerif.Gen.LayerPrelude.RecRet.outs : RecRet τ → τ × τ
  | .pair a b => (a, b)
  | .captured a b _ => (a, b)

/-- the regenerated `RecurrentSerial.wiring`, reached through the keyword binder with `forward_pass=fp`, is the model's
`Rec.wiring` -/
theorem gen_recurrent_wiring (E : TOps τ) (s : RecS τ) (la fa : Option (List τ)) (res : Dict τ) (fp : Bool) :
    toOpt (RecurrentSerial_wiring_kw E s res [(Kw.forward_pass, fp)]) = Rec.wiring (s.cfg E la fa) fp res := by
  simp only [RecurrentSerial_wiring_kw, RecurrentSerial_wiring, kwBind, List.lookup, bind, Except.bind, pure,
    Except.pure, dictGetItem, Rec.wiring, RecS.cfg, dictDisplay_single, beq_self_eq_true]
  cases fp
  · simp only [Bool.false_eq_true, if_false]
    cases res.get? s.latc <;> rfl
  · simp only [if_true]
    cases res.get? s.ffc <;> cases res.get? s.fbc <;> rfl

/-- the regenerated `Layer.get_neuron`: the look-up in `neurons_`, `KeyError` turned into `AttributeError` -/
theorem gen_get_neuron (E : TOps τ) (L : LayerSt τ) (name : String) :
    Layer_get_neuron E L name = match L.neurs.get? name with
      | some n => .ok n
      | none => .error .AttributeError := by
  simp only [Layer_get_neuron, exceptClass, bind, Except.bind, pure, Except.pure, dictGetItem]
  cases L.neurs.get? name <;> rfl



/-- the part of `Rec.forward` after the feedback input `fb` has been determined -/
def recRest (R : RecCfg τ) (L : LayerSt τ) (fb : τ) (xs : List τ) : Option (RecSt τ × τ × τ) :=
  match Layer.forward (Rec.wiring R true) L [(R.ffc, xs), (R.fbc, R.fbIn fb)] with
  | none => none
  | some (L1, fouts, _) =>
    match L1.neurs.get? R.ffn with
    | none => none
    | some nff1 =>
      match Layer.forward (Rec.wiring R false) L1 [(R.latc, R.latIn nff1.out)] with
      | none => none
      | some (L2, bouts, _) =>
        match L2.neurs.get? R.fbn, fouts.get? R.ffn, bouts.get? R.fbn with
        | some nfb2, some o1, some o2 => some ({ L := L2, feedback := some nfb2.out }, o1, o2)
        | _, _, _ => none

/-- `Rec.forward` = the look-up of the feedback group, then `recRest` -/
theorem rec_forward_unfold (R : RecCfg τ) (S : RecSt τ) (xs : List τ) :
    Rec.forward R S xs = match S.L.neurs.get? R.fbn with
      | none => none
      | some nfb0 => recRest R S.L (Rec.feedbackIn R S.feedback nfb0) xs := rfl

/-- updating a dictionary creates no key -/
theorem get?_set_none {α : Type u} (d : Dict α) (k k' : String) (v : α) (h : d.get? k = none) :
    (d.set k' v).get? k = none := by
  induction d with
  | nil => rfl
  | cons kv rest ih =>
    obtain ⟨k0, v0⟩ := kv
    by_cases h0 : k0 = k
    · simp [Dict.get?, h0] at h
    · simp only [Dict.get?, h0, if_false] at h
      by_cases h1 : k0 = k'
      · subst h1
        simp [Dict.set, Dict.get?, h0, h]
      · simp [Dict.set, h1, Dict.get?, h0, ih h]

/-- calling components creates no key -/
theorem callAll_get?_none {ι ο : Type} (mods mods' : Dict (Obj ι ο)) (ins : Dict ι) (outs : Dict ο) (k : String)
    (hc : callAll mods ins = some (mods', outs)) (h : mods.get? k = none) : mods'.get? k = none := by
  induction ins generalizing mods outs with
  | nil => simp [callAll] at hc; rw [← hc.1]; exact h
  | cons kx rest ih =>
    obtain ⟨k', x⟩ := kx
    simp only [callAll] at hc
    cases hg : mods.get? k' with
    | none => simp [hg] at hc
    | some m =>
      simp only [hg] at hc
      cases hr : callAll (mods.set k' (m.fwd x).1) rest with
      | none => simp [hr] at hc
      | some r =>
        obtain ⟨m2, o2⟩ := r
        simp [hr] at hc
        obtain ⟨h1, h2⟩ := hc
        subst h1 h2
        exact ih _ _ hr (get?_set_none _ _ _ _ h)

/-- a forward pass registers no neuron group -/
theorem layer_forward_get?_none (W : Dict τ → Option (Dict τ)) (L L1 : LayerSt τ) (ins : Dict (List τ))
    (outs res : Dict τ) (k : String) (hf : Layer.forward W L ins = some (L1, outs, res))
    (h : L.neurs.get? k = none) : L1.neurs.get? k = none := by
  unfold Layer.forward at hf
  cases hc : callAll L.conns ins with
  | none => simp [hc] at hf
  | some r =>
    obtain ⟨cs, res'⟩ := r
    simp only [hc] at hf
    cases hw : W res' with
    | none => simp [hw] at hf
    | some wired =>
      simp only [hw] at hf
      cases hn : callAll L.neurs wired with
      | none => simp [hn] at hf
      | some r2 =>
        obtain ⟨ns, outs'⟩ := r2
        simp [hn] at hf
        rw [← hf.1]
        exact callAll_get?_none _ _ _ _ _ hn h

/-- the feedback pass fails when the feedback group is not registered -/
theorem rec_back_pass_none (R : RecCfg τ) (L1 : LayerSt τ) (x : List τ) (h : L1.neurs.get? R.fbn = none) :
    Layer.forward (Rec.wiring R false) L1 [(R.latc, x)] = none := by
  unfold Layer.forward
  simp only [callAll]
  cases L1.conns.get? R.latc with
  | none => rfl
  | some m => simp [Rec.wiring, Dict.get?, callAll, h]

/-- … so `recRest` fails then.  (The model looks the feedback group up BEFORE the first pass on every step; the code does so
only when `feedback_spikes is None` and otherwise fails at the feedback pass: same result.) -/
theorem recRest_none (R : RecCfg τ) (L : LayerSt τ) (fb : τ) (xs : List τ) (h : L.neurs.get? R.fbn = none) :
    recRest R L fb xs = none := by
  unfold recRest
  cases hf : Layer.forward (Rec.wiring R true) L [(R.ffc, xs), (R.fbc, R.fbIn fb)] with
  | none => rfl
  | some r =>
    obtain ⟨L1, fouts, fres⟩ := r
    simp only
    cases L1.neurs.get? R.ffn with
    | none => rfl
    | some nff1 =>
      simp only [rec_back_pass_none R L1 _ (layer_forward_get?_none _ _ _ _ _ _ _ hf h)]



/-- **later steps** (`feedback_spikes` holds `fb`): the regenerated `RecurrentSerial.forward` is `recRest` — forward pass
`{ffc: inputs, fbc: fbIn(fb)}` with `forward_pass=True`, feedback pass `{latc: latIn(feedfwd_neuron.spike)}` with
`forward_pass=False`, `feedback_spikes := feedback_neuron.spike`.  `hne`: the feed-forward and feedback connections have
different names (the constructor's `add_connection` raises otherwise), so the display `{ffc: …, fbc: …}` has two entries -/
theorem gen_recurrent_forward_later (E : TOps τ) (s : RecS τ) (hne : s.ffc ≠ s.fbc) (fb : τ)
    (hfb : s.feedback_spikes = some fb) (xs : List τ) (la fa : Option (List τ)) (cap : Bool) :
    (toOpt (RecurrentSerial_forward E s xs la fa cap)).map (fun r => (r.1, r.2.outs)) =
      (recRest (s.cfg E la fa) s.layer fb xs).map fun r => (s.withSt r.1, r.2) := by
  obtain ⟨L, fbs, ffc, latc, fbc, ffn, fbn, ffOut, latOut, fbOut, latIn, fbIn⟩ := s
  simp only at hfb hne
  subst hfb
  generalize hs : (⟨L, some fb, ffc, latc, fbc, ffn, fbn, ffOut, latOut, fbOut, latIn, fbIn⟩ : RecS τ) = s
  have k1 := gen_layer_forward E (fun l_ => RecurrentSerial_wiring_kw E { s with layer := l_ })
    [(Kw.forward_pass, true)] (Rec.wiring (s.cfg E la fa) true)
    (fun l res => gen_recurrent_wiring E { s with layer := l } la fa res true) L
    [(ffc, xs), (fbc, fbIn fb ++ optSeqTuple fa)] true
  have k2 : ∀ (L1 : LayerSt τ) (x : List τ), _ := fun L1 x =>
    gen_layer_forward E (fun l_ => RecurrentSerial_wiring_kw E { s with layer := l_ })
    [(Kw.forward_pass, false)] (Rec.wiring (s.cfg E la fa) false)
    (fun l res => gen_recurrent_wiring E { s with layer := l } la fa res false) L1
    [(latc, x)] true
  subst hs
  unfold RecurrentSerial_forward recRest
  simp only [bind, Except.bind, pure, Except.pure, Option.isNone_some, Bool.false_eq_true, if_false, tensorOf,
    withSelf, dictDisplay_pair _ _ _ _ hne, dictDisplay_single, gen_get_neuron, RecS.cfg] at k1 k2 ⊢
  generalize Layer_forward E _ L _ true [(Kw.forward_pass, true)] = X at k1 ⊢
  cases hf1 : Layer.forward _ L [(ffc, xs), (fbc, fbIn fb ++ optSeqTuple fa)] with
  | none =>
    rw [hf1] at k1
    cases X with
    | error e => rfl
    | ok r => simp at k1
  | some r1 =>
    rw [hf1] at k1
    obtain ⟨L1, fouts, fres⟩ := r1
    cases X with
    | error e => simp at k1
    | ok r =>
      simp only [toOpt_ok, Option.map_some, Option.some.injEq] at k1
      subst k1
      simp only
      cases hn1 : L1.neurs.get? ffn with
      | none => rfl
      | some nff1 =>
        simp only
        have k2' := k2 L1 (latIn (moduleSpike nff1) ++ optSeqTuple la)
        generalize Layer_forward E _ L1 _ true [(Kw.forward_pass, false)] = Y at k2' ⊢
        simp only [moduleSpike] at k2' ⊢
        cases hf2 : Layer.forward _ L1 [(latc, latIn nff1.out ++ optSeqTuple la)] with
        | none =>
          rw [hf2] at k2'
          cases Y with
          | error e => rfl
          | ok r => simp at k2'
        | some r2 =>
          rw [hf2] at k2'
          obtain ⟨L2, bouts, bres⟩ := r2
          cases Y with
          | error e => simp at k2'
          | ok r =>
            simp only [toOpt_ok, Option.map_some, Option.some.injEq] at k2'
            subst k2'
            simp only
            cases hn2 : L2.neurs.get? fbn with
            | none => rfl
            | some nfb2 =>
              cases cap <;> cases hfo : fouts.get? ffn <;> cases hbo : bouts.get? fbn <;>
                simp [fwdRet, fwdGetItemInt, dictGetItem, hfo, hbo, RecRet.outs, RecS.withSt]



/-- **first step** (`feedback_spikes is None`): the code first stores `zeros_like(feedback_neuron.spike)` and then runs as a
later step -/
theorem gen_recurrent_forward_first (E : TOps τ) (s : RecS τ) (hfb : s.feedback_spikes = none) (nfb0 : Neur τ)
    (hg : s.layer.neurs.get? s.fbn = some nfb0) (xs : List τ) (la fa : Option (List τ)) (cap : Bool) :
    RecurrentSerial_forward E s xs la fa cap =
      RecurrentSerial_forward E { s with feedback_spikes := some (E.zeros_like nfb0.out) } xs la fa cap := by
  obtain ⟨L, fbs, ffc, latc, fbc, ffn, fbn, ffOut, latOut, fbOut, latIn, fbIn⟩ := s
  simp only at hfb hg
  subst hfb
  simp only [RecurrentSerial_forward, bind, Except.bind, pure, Except.pure, gen_get_neuron, hg, Option.isNone_none,
    Option.isNone_some, if_true, if_false, Bool.false_eq_true, moduleSpike]

/-- first step without a registered feedback group: `AttributeError` from `get_neuron` -/
theorem gen_recurrent_forward_unregistered (E : TOps τ) (s : RecS τ) (hfb : s.feedback_spikes = none)
    (hg : s.layer.neurs.get? s.fbn = none) (xs : List τ) (la fa : Option (List τ)) (cap : Bool) :
    RecurrentSerial_forward E s xs la fa cap = .error .AttributeError := by
  obtain ⟨L, fbs, ffc, latc, fbc, ffn, fbn, ffOut, latOut, fbOut, latIn, fbIn⟩ := s
  simp only at hfb hg
  subst hfb
  simp only [RecurrentSerial_forward, bind, Except.bind, pure, Except.pure, gen_get_neuron, hg, Option.isNone_none,
    if_true]

/-- **`gen_recurrent_forward`** (first AND later steps): the regenerated `RecurrentSerial.forward` on ANY state is one step
`Rec.forward` of `Model/Layer.lean`: same new layer state, same stored feedback spikes, same pair of neuron outputs,
failing exactly when the model does -/
theorem gen_recurrent_forward (E : TOps τ) (s : RecS τ) (hne : s.ffc ≠ s.fbc) (xs : List τ)
    (la fa : Option (List τ)) (cap : Bool) :
    (toOpt (RecurrentSerial_forward E s xs la fa cap)).map (fun r => (r.1, r.2.outs)) =
      (Rec.forward (s.cfg E la fa) s.st xs).map fun r => (s.withSt r.1, r.2) := by
  rw [rec_forward_unfold]
  cases hfb : s.feedback_spikes with
  | some fb =>
    rw [gen_recurrent_forward_later E s hne fb hfb]
    cases hg : s.layer.neurs.get? s.fbn with
    | none =>
      have : (s.cfg E la fa).fbn = s.fbn := rfl
      simp only [RecS.st, this, hg]
      rw [recRest_none _ _ _ _ (by simpa [RecS.cfg] using hg)]
    | some nfb0 =>
      have : (s.cfg E la fa).fbn = s.fbn := rfl
      simp only [RecS.st, this, hg, hfb, Rec.feedbackIn]
  | none =>
    cases hg : s.layer.neurs.get? s.fbn with
    | none =>
      have : (s.cfg E la fa).fbn = s.fbn := rfl
      rw [gen_recurrent_forward_unregistered E s hfb hg]
      simp only [RecS.st, this, hg]
      rfl
    | some nfb0 =>
      have : (s.cfg E la fa).fbn = s.fbn := rfl
      rw [gen_recurrent_forward_first E s hfb nfb0 hg,
        gen_recurrent_forward_later E { s with feedback_spikes := some (E.zeros_like nfb0.out) } hne _ rfl]
      simp only [RecS.st, this, hg, hfb, Rec.feedbackIn]
      rfl



/-- **all five built-in modes**: if `self._combine` is what the regenerated `match` of `Biclique.__init__` produces for a
string naming mode `m`, the layer is the model's biclique layer whose `comb` reduces the values of the transformed
outputs with mode `m` -/
theorem gen_biclique_forward_builtin (E : TOps τ) (s : BicliqueS τ) (hpre : s.pre_output ≠ []) (m : Mode) (str : String)
    (hs : str.toLower = modeName m) (hc : Biclique___init___combine E (.str str) = .ok s._combine)
    (inputs : Dict (List τ)) (cap : Bool) :
    toOpt (Layer_forward E (fun l_ => Biclique_wiring_kw E { s with layer := l_ }) s.layer inputs cap []) =
      (Biclique.forward ⟨s.post_input, s.pre_output, fun d => E.reduce m (dictValues d)⟩ s.layer inputs).map
        fun r => (r.1, fwdRet cap r.2.1 r.2.2) := by
  rw [gen_biclique_forward E s hpre]
  have hcfg : s.cfg = ⟨s.post_input, s.pre_output, fun d => E.reduce m (dictValues d)⟩ := by
    obtain ⟨h1, h2⟩ := gen_biclique_combine_builtin E m str hs
    rw [h1] at hc
    simp only [Except.ok.injEq] at hc
    simp only [BicliqueS.cfg, ← hc]
    congr 1
    funext d
    simp only [Combine.comb, callCombine, h2]
    cases E.reduce m (dictValues d) <;> rfl
  rw [hcfg]

/-- integer tensors as flat lists (the instance the C17 driver runs): `ein.reduce` is the model's `reduceStack` -/
def intTOps : TOps (List Int) := ⟨List.zipWith (· + ·), fun a => a.map fun _ => 0, reduceStack⟩

/-- … on integer tensors: `comb` is `reduceStack m` of the values, the function the C17 driver executes -/
theorem gen_biclique_forward_builtin_int (s : BicliqueS (List Int)) (hpre : s.pre_output ≠ []) (m : Mode) (str : String)
    (hs : str.toLower = modeName m) (hc : Biclique___init___combine intTOps (.str str) = .ok s._combine)
    (inputs : Dict (List (List Int))) (cap : Bool) :
    toOpt (Layer_forward intTOps (fun l_ => Biclique_wiring_kw intTOps { s with layer := l_ }) s.layer inputs cap []) =
      (Biclique.forward ⟨s.post_input, s.pre_output, fun d => reduceStack m (d.map fun kv => kv.2)⟩ s.layer inputs).map
        fun r => (r.1, fwdRet cap r.2.1 r.2.2) :=
  gen_biclique_forward_builtin intTOps s hpre m str hs hc inputs cap



/-- code → model → SPECIFICATION (`serial_eq` of `Props/C17.lean`): on the canonical serial layer the regenerated program
returns `neuron(transform(connection(*inputs)))`, each component advanced by exactly that call -/
theorem gen_serial_forward_spec (E : TOps τ) (cn nn : String) (trans : τ → τ) (c : Conn τ) (n : Neur τ) (xs : List τ)
    (cap : Bool) :
    toOpt (Serial_forward E ⟨⟨[(cn, c)], [(nn, n)]⟩, cn, nn, trans⟩ xs cap) =
      some (⟨⟨[(cn, (c.fwd xs).1)], [(nn, (n.fwd (trans (c.fwd xs).2)).1)]⟩, cn, nn, trans⟩,
        serialRet cap (n.fwd (trans (c.fwd xs).2)).2 (c.fwd xs).2) := by
  rw [gen_serial_forward]
  have := serial_eq ⟨cn, nn, trans⟩ c n xs
  simp only [SerialS.cfg] at this ⊢
  rw [this]
  rfl

/-- code → model → SPECIFICATION (`recurrent_step_eq`): on a canonical recurrent layer the regenerated program performs
`recSpecStep` — feed-forward neurons driven by `ffOut(ff(x)) + fbOut(fb(fbIn(s_prev)))`, zeros on the first step -/
theorem gen_recurrent_forward_spec (E : TOps τ) (s : RecS τ) (sp : RecSpecSt τ) (la fa : Option (List τ))
    (hst : s.st = sp.toSt (s.cfg E la fa))
    (h1 : s.ffc ≠ s.latc) (h2 : s.ffc ≠ s.fbc) (h3 : s.latc ≠ s.fbc) (h4 : s.ffn ≠ s.fbn)
    (pff : sp.nff.PeekOK) (pfb : sp.nfb.PeekOK) (xs : List τ) (cap : Bool) :
    (toOpt (RecurrentSerial_forward E s xs la fa cap)).map (fun r => (r.1, r.2.outs)) =
      some (s.withSt ((recSpecStep (s.cfg E la fa) sp xs).1.toSt (s.cfg E la fa)),
        (recSpecStep (s.cfg E la fa) sp xs).2) := by
  rw [gen_recurrent_forward E s h2, hst, recurrent_step_eq (s.cfg E la fa) sp h1 h2 h3 h4 pff pfb xs]
  rfl

/-! ## Non-vacuity -/

/-- scalar integer tensors -/
def intOps : TOps Int := ⟨(· + ·), fun _ => 0, fun _ _ => none⟩

/-- the serial example layer of `Props/C17.lean` -/
def exSerialS : SerialS Int := ⟨exL, "serial", "serial", fun y => y + 1⟩
example : (toOpt (Serial_forward intOps exSerialS [1] false)).map (fun r => match r.2 with | .single o => [o] | .pair o y => [o, y])
    = some [4] := by decide
example : (toOpt (Serial_forward intOps exSerialS [1] true)).map (fun r => match r.2 with | .single o => [o] | .pair o y => [o, y])
    = some [4, 3] := by decide

/-- the recurrent example layer of `Props/C17.lean`, nothing stored yet -/
def exRecSt : RecS Int :=
  { layer := (exRecS.toSt exRec).L, feedback_spikes := none, ffc := "feedfwd", latc := "lateral", fbc := "feedback",
    ffn := "feedfwd", fbn := "feedback", ffOut := id, latOut := id, fbOut := fun y => -y, latIn := fun s => [s],
    fbIn := fun s => [s] }

/-- run the regenerated `RecurrentSerial.forward` step after step -/
def runRec (s : RecS Int) : List (List Int) → List (Option (Int × Int))
  | [] => []
  | xs :: rest =>
    match RecurrentSerial_forward intOps s xs none none false with
    | .ok (s', r) => some r.outs :: runRec s' rest
    | .error _ => [none]

example : runRec exRecSt [[1], [1], [1]] = [some (1, 2), some (1, 5), some (-4, -2)] := by decide

example : (match RecurrentSerial_forward intOps { exRecSt with fbn := "nope" } [1] none none false with
    | .ok _ => none | .error e => some e) = some Err.AttributeError := by decide
example : (match Serial_forward intOps { exSerialS with cn := "nope" } [1] false with
    | .ok _ => none | .error e => some e) = some Err.KeyError := by decide

/-- a biclique configuration: two connections (`a` doubled), two groups (`y` incremented) -/
def exBic (c : Combine (List Int)) : BicliqueS (List Int) :=
  { layer := ⟨[], []⟩, post_input := [("a", fun t => t.map (· * 2)), ("b", id)],
    pre_output := [("x", id), ("y", fun t => t.map (· + 1))], _combine := c }

-- `String.toLower` does not reduce in the kernel: these two are evaluated, not proved
#guard (match Biclique___init___combine intTOps (.str "Max") with
    | .ok c => toOpt (Biclique_wiring intTOps (exBic c) [("a", [1, 5]), ("b", [3, 4])])
    | .error _ => none) == some [("x", [3, 10]), ("y", [4, 11])]
#guard (match Biclique___init___combine intTOps (.str "maximum") with
    | .ok _ => none | .error e => some e) == some Err.ValueError
example : toOpt (Biclique_wiring intTOps (exBic (.fn fun d => .ok (d.foldl (fun a kv => List.zipWith (· + ·) a kv.2) [0, 0])))
    [("a", [1, 5]), ("b", [3, 4])]) = some [("x", [5, 14]), ("y", [6, 15])] := by decide

end InfernoVerif.Gen.LayerProg
