import InfernoVerif.Props.C10GlueProg
import InfernoVerif.Props.C10
/-!
# C10, closing the loop: the programs regenerated from /repo refine the specification `new = old + ub(reduce pos) − lb(reduce neg)` over EVERY operation sequence

`Props/C10GlueProg.lean` proves, method by method, that one run of a method body REGENERATED from
`inferno/neural/modeling.py` (`Gen/UpdaterProg.lean`: `Accumulator`, `Updater`, `Updatable`) on a well-formed private state,
seen through the abstraction functions `toA` / `toU` / `toMod dec`, is the corresponding function of the hand-written machine
`Model/Updater.lean` (`Accumulator.setPos … update`, `Updater.new`, `Module.update / updatesome`, `step · .clear`).
`Props/C10.lean` proves (`step_refines`, `run_refines`) that this machine refines the specification machine `sstep` / `srun`
— whose apply step is literally `new = old + ub(reduce pos parts) − lb(reduce neg parts)` — for every operation list.  This file
supplies the missing links and composes everything:

* `genExec` dispatches the machine's WHOLE operation alphabet `Op α` (all 20 constructors) on a private module state
  `s : ModS α` (attribute table + the accumulators of the module's updater) and returns the NEW private state and the output;
  an exception keeps the state AT THE RAISE POINT (the programs return `Except (Err × state) (state × value)`; e.g. caches
  filled before a `TypeError` of the bounding function, parameters already assigned by `Updater.forward`) and prints
  `Out.err e`.  `gen_step_eq`: one dispatched operation, abstracted with `toMod dec`, is one `step` of the hand-written machine
  (the `gen_*` glue theorems collected over the alphabet).
* `gen_step_wf`: the regenerated programs PRESERVE the well-formedness hypothesis `MWF` of the glue theorems (every `list` in
  a `self.bind` has two entries) — for every operation, raising or not, with no side condition — so the hypothesis of the glue
  theorems holds along a whole execution (from the `*_wf` lemmas of the glue file).
* `genRun` folds `genExec` over an operation list; `gen_run_eq` is equality with the code-shaped machine `run`;
  `gen_run_refines` is the CAPSTONE (composition with `run_refines`): for EVERY finite operation list, what the regenerated
  programs return is what the specification machine returns — outputs equal, final states in the abstraction relation
  (`mabs ∘ toMod dec`), final private state again well formed.  `gen_run_refines_fresh` is the same from a freshly built
  module (no updater yet), with no hypothesis on the state at all; `gen_step_refines` is the one-step form.

## Which operations run regenerated code ("mixed run": the rest is the model's)

Every accumulator operation (`setPos setNeg getPos getNeg delPos delNeg accClear reduction upperbound lowerbound fullbound
accUpdate`) runs the regenerated `Accumulator` method on the accumulator `self.updates_[p]` and writes the accumulator's new
state back (`accExec`); `update`, `updatesome`, `clear` run the regenerated `Updatable` methods (which call the regenerated
`Updater.forward` / `Updater.clear` / `Accumulator.forward` / `Accumulator.clear`); `newUpdater` runs the regenerated
`Updater.__init__` on the module's attribute table.  The following small pieces have NO regenerated method and are the
model's / hand-written here (mixed run):
* `newUpdater`: the assignment `m.updater = <the constructed updater>` (the `updater` property SETTER is not translated):
  the accumulators built by the regenerated constructor are stored in `updater_` (`updater_new_wf` of the glue file shows the
  constructed updater refers to this module's attribute table, which is the representation invariant of `ModS`);
* `delUpdater` (`del m.updater`, the property DELETER: `updater_ := None`) and `setParam` (`m.p = v`, a plain attribute
  assignment) are executed exactly as the model's `step` does;
* `setAcc` / `delAcc` (`m.updater.p = v`, `del m.updater.p`): `Updater._setacc_` / `_delacc_` belong to the dynamic class
  that the translator drops; `setaccP` / `delaccP` below are hand transcriptions of their two-line bodies that CALL the
  regenerated `pos` / `neg` setters and deleters (so these are regenerated code too, up to the dispatch);
* where the model answers `Out.unsupported` (an accumulator operation with no updater or on an undeclared name, `setParam`
  / `accUpdate` on a name that is not an attribute — the real code raises `AttributeError` there, which the model does not
  describe) `genExec` answers `Out.unsupported` too and runs nothing.  `gen_step_supported` shows this is the ONLY source
  of `unsupported`: on `Dom s op` (names declared, updater present) the output of `genExec` is never `unsupported`.

## Closures and the ghost decomposition (the domain `Sup`)

The machine's alphabet carries the bounding functions as the CLOSURES the methods build (`upperbound p (some fun x p => …)`);
the regenerated methods take `(bound, limit, **kwargs)`.  `genExec` calls them at `κ := Unit` with a bounding function that
ignores its limit and keyword arguments, so the closure the regenerated method builds is the given one; the three
`genExec_*bound_any` theorems show that this loses nothing: for ANY `κ`, `bound`, limits and `kwargs`, running the regenerated
method with them is `genExec` on the closure `fun x p => bound x p limit kwargs`.
The model bundles a full bounding function with the decomposition `halves?` that only the SPECIFICATION reads; the code has
no such thing and the abstraction `toMod dec` takes it from the ghost assignment `dec` (see the glue file).  Hence the only
domain condition: `Sup dec (.fullbound p (some b))` is `dec b.fn = b.halves?` (the ghost assignment agrees with the
decomposition the operation is bundled with); `Sup` is `True` on everything else and does not depend on the state, so
`SupRun dec ops` is just `∀ op ∈ ops, Sup dec op`.  Nothing of the alphabet is excluded.

The capstone additionally has the hypotheses of `run_refines` itself: `AddGroup α`, `op.Sound` for every operation (the
bundled decomposition of a configured full bounding function is the function's meaning, or the function always raises
`TypeError`), `MInv (toMod dec s)` for the initial state (filled caches coherent, configured full functions sound —
preserved, and vacuous for a fresh module), and `DecUnbounded dec` of the glue theorems.

Imports: the glue file is core Lean only; `Props/C10.lean` (needed for `run_refines`) imports Mathlib modules.  No Mathlib
tactic is used here.
-/

set_option linter.unusedSimpArgs false
set_option linter.unusedVariables false
set_option linter.unusedSectionVars false
namespace InfernoVerif.Gen.UpdaterProg
open InfernoVerif.Updater InfernoVerif.Gen.UpdProg

/-! ## One step -/
section Step
variable {α : Type} [Add α] [Sub α] [Neg α] [Zero α]

/-- the returned value or the exception class of a program (the state dropped) -/
def resOf {σ ρ : Type} : Except (Err × σ) (σ × ρ) → Except Err ρ
  | .ok (_, r) => .ok r
  | .error (e, _) => .error e

/-- the value component of `out` -/
theorem out_snd {σ σ' ρ : Type} (f : σ → σ') (r : Except (Err × σ) (σ × ρ)) : (out f r).2 = resOf r := by
  rcases r with ⟨e, s⟩ | ⟨s, v⟩ <;> rfl

/-- what a method returning an optional tensor prints in the model -/
def toVal : Except Err (Option α) → Out α
  | .ok v => .val v
  | .error e => .err e

/-- `Updater._setacc_(value, attr)` on the accumulator `self.updates_[attr]` (hand transcription: the method belongs to the
dynamic class the translator drops): a tensor or `None` goes to the regenerated `pos` setter; a 2-tuple is unpacked and goes
to the regenerated `pos` setter, then to the regenerated `neg` setter -/
def setaccP (a : AccS α) : SetVal α → Except (Err × AccS α) (AccS α × Unit)
  | .one v => Accumulator_pos_setter a v
  | .pair vp vn => do
    let r ← Accumulator_pos_setter a vp
    Accumulator_neg_setter r.1 vn

/-- `Updater._delacc_(attr)` on the accumulator `self.updates_[attr]` (hand transcription): `del ….pos; del ….neg`, the two
regenerated deleters in this order -/
def delaccP (a : AccS α) : Except (Err × AccS α) (AccS α × Unit) := do
  let r ← Accumulator_pos_deleter a
  Accumulator_neg_deleter r.1

/-- `_setacc_` over the regenerated setters is the model's `Accumulator.setAcc` -/
theorem gen_setacc (dec : Dec α) (a : AccS α) (v : SetVal α) :
    out (toA dec) (setaccP a v) = ((toA dec a).setAcc v, .ok ()) := by
  cases v with
  | one v => exact gen_setPos dec a v
  | pair vp vn =>
    cases vp <;> cases vn <;>
      simp [setaccP, Accumulator_pos_setter, Accumulator_neg_setter, Accumulator.setAcc, Accumulator.setPos,
        Accumulator.setNeg, toA, out, plistAppend, cacheClear, bind, Except.bind, pure, Except.pure]

/-- `_delacc_` over the regenerated deleters is the model's `Accumulator.clear` (what `step · (.delAcc p)` applies) -/
theorem gen_delacc (dec : Dec α) (a : AccS α) :
    out (toA dec) (delaccP a) = ((toA dec a).clear, .ok ()) := gen_clear dec a

/-- `_setacc_` keeps the accumulator well formed -/
theorem setacc_wf (a : AccS α) (h : AWF a) (v : SetVal α) : AWF (stOf (setaccP a v)) := by
  cases v with
  | one v => exact setPos_wf a h v
  | pair vp vn =>
    cases vp <;> cases vn <;>
      simpa [setaccP, Accumulator_pos_setter, Accumulator_neg_setter, stOf, AWF, bind, Except.bind, pure, Except.pure]
        using h

/-- `_delacc_` keeps the accumulator well formed -/
theorem delacc_wf (a : AccS α) (h : AWF a) : AWF (stOf (delaccP a)) := clear_wf a h

/-- run a regenerated `Accumulator` program on the accumulator `self.updater.updates_[p]` and write the accumulator's new
state (returned or at the raise point) back; `o` converts the returned value / exception class to the model's output.
Without an updater, or on an undeclared name, nothing runs and the answer is the model's `unsupported` -/
def accExec {ρ : Type} (s : ModS α) (p : String) (f : AccS α → Except (Err × AccS α) (AccS α × ρ))
    (o : Except Err ρ → Out α) : ModS α × Out α :=
  match s.updater_ with
  | none => (s, .unsupported)
  | some u =>
    match alookup u p with
    | none => (s, .unsupported)
    | some a => ({ s with updater_ := some (aset u p (stOf (f a))) }, o (resOf (f a)))

/-- `accExec` seen through the abstraction: if the program `f` abstracts to the model function `G` on every well-formed
accumulator, then `accExec s p f o` is: `unsupported` without an updater / on an undeclared name, otherwise the accumulator
under `p` replaced by `(G A).1` and the output `o (G A).2` -/
theorem accExec_abs {ρ : Type} (dec : Dec α) (s : ModS α) (hwf : MWF s) (p : String)
    (f : AccS α → Except (Err × AccS α) (AccS α × ρ)) (o : Except Err ρ → Out α)
    (G : Accumulator α → Accumulator α × Except Err ρ)
    (h : ∀ a, AWF a → out (toA dec) (f a) = G (toA dec a)) :
    (toMod dec (accExec s p f o).1, (accExec s p f o).2) =
      (match (toMod dec s).updater with
       | none => (toMod dec s, .unsupported)
       | some U =>
         match alookup U.accs p with
         | none => (toMod dec s, .unsupported)
         | some A => ({ toMod dec s with updater := some ⟨aset U.accs p (G A).1⟩ }, o (G A).2)) := by
  unfold accExec
  cases hu : s.updater_ with
  | none => simp [toMod, hu]
  | some u =>
    simp only [toMod, hu, Option.map_some, toAccs]
    rw [alookup_map']
    cases ha : alookup u p with
    | none => simp [toMod, hu, toAccs]
    | some a =>
      have h' := h a (hwf u hu _ (alookup_mem' ha))
      have h1 : toA dec (stOf (f a)) = (G (toA dec a)).1 := by rw [← out_fst (toA dec), h']
      have h2 : resOf (f a) = (G (toA dec a)).2 := by rw [← out_snd (toA dec), h']
      simp only [Option.map_some, toMod, toAccs, h2]
      rw [← aset_map', h1]

/-- `accExec` preserves `MWF` whenever the program keeps a well-formed accumulator well formed -/
theorem accExec_wf {ρ : Type} (s : ModS α) (hwf : MWF s) (p : String)
    (f : AccS α → Except (Err × AccS α) (AccS α × ρ)) (o : Except Err ρ → Out α)
    (h : ∀ a, AWF a → AWF (stOf (f a))) : MWF (accExec s p f o).1 := by
  unfold accExec
  cases hu : s.updater_ with
  | none => simpa [hu] using hwf
  | some u =>
    dsimp only
    cases ha : alookup u p with
    | none => simpa [hu] using hwf
    | some a =>
      intro u' hu'
      simp at hu'
      subst hu'
      exact aset_forall' AWF _ _ _ (hwf u hu) (h a (hwf u hu _ (alookup_mem' ha)))

/-- run one regenerated `Updatable` method: the state it ends in (returned or at the raise point) and its output -/
def modExec (r : Except (Err × ModS α) (ModS α × Unit)) : ModS α × Out α := (stOf r, toOut (resOf r))

/-- `outM` of the glue theorems is `modExec` followed by the abstraction of the state -/
theorem outM_modExec (dec : Dec α) (r : Except (Err × ModS α) (ModS α × Unit)) :
    outM dec r = (toMod dec (modExec r).1, (modExec r).2) := by
  rcases r with ⟨e, s⟩ | ⟨s, v⟩ <;> rfl

/-- dispatch of the machine's operation alphabet (all of `Op α`) to the regenerated methods; returns the NEW private state
(after an exception: the state at the raise point) and the output.  Mixed run, see the header: the assignment of
`newUpdater`, `delUpdater`, `setParam` and the answers `unsupported` are the model's; `setAcc` / `delAcc` go through
`setaccP` / `delaccP` -/
def genExec (s : ModS α) : Op α → ModS α × Out α
  | .newUpdater ps r =>
    match Updater___init__ s.attrs ps r with
    | .ok v => ({ s with updater_ := some v.updates_ }, .unit)
    | .error e => (s, .err e)
  | .delUpdater => ({ s with updater_ := none }, .unit)
  | .setParam p v =>
    match alookup s.attrs p with
    | none => (s, .unsupported)
    | some _ => ({ s with attrs := aset s.attrs p v }, .unit)
  | .setPos p v => accExec s p (fun a => Accumulator_pos_setter a v) toOut
  | .setNeg p v => accExec s p (fun a => Accumulator_neg_setter a v) toOut
  | .setAcc p v => accExec s p (fun a => setaccP a v) toOut
  | .getPos p => accExec s p Accumulator_pos toVal
  | .getNeg p => accExec s p Accumulator_neg toVal
  | .delPos p => accExec s p Accumulator_pos_deleter toOut
  | .delNeg p => accExec s p Accumulator_neg_deleter toOut
  | .delAcc p => accExec s p delaccP toOut
  | .accClear p => accExec s p Accumulator_clear toOut
  | .reduction p fn => accExec s p (fun a => Accumulator_reduction a fn) toOut
  | .upperbound p b =>
    accExec s p (fun a => Accumulator_upperbound (κ := Unit) a (b.map fun f x u _ _ => f x u) none ()) toOut
  | .lowerbound p b =>
    accExec s p (fun a => Accumulator_lowerbound (κ := Unit) a (b.map fun f x u _ _ => f x u) none ()) toOut
  | .fullbound p b =>
    accExec s p (fun a => Accumulator_fullbound (κ := Unit) a (b.map fun fb x u v _ _ _ => fb.fn x u v) none none ())
      toOut
  | .accUpdate p =>
    match alookup s.attrs p with
    | none => (s, .unsupported)
    | some x => accExec s p (fun a => Accumulator_update a x) toVal
  | .update c => modExec (Updatable_update s c)
  | .updatesome ps c => modExec (Updatable_updatesome s ps c)
  | .clear => modExec (Updatable_clear s)

/-- the domain of `gen_step_eq`: the ghost assignment `dec` agrees with the decomposition a `fullbound` operation bundles its
function with (independent of the state; `True` for every other operation) -/
def Sup (dec : Dec α) : Op α → Prop
  | .fullbound _ (some b) => dec b.fn = b.halves?
  | _ => True

/-- `accExec` with a program that abstracts to a state-only model function is the model's `onAcc` -/
theorem accExec_onAcc (dec : Dec α) (s : ModS α) (hwf : MWF s) (p : String)
    (f : AccS α → Except (Err × AccS α) (AccS α × Unit)) (g : Accumulator α → Accumulator α)
    (h : ∀ a, AWF a → out (toA dec) (f a) = (g (toA dec a), .ok ())) :
    (toMod dec (accExec s p f toOut).1, (accExec s p f toOut).2) = (toMod dec s).onAcc p g := by
  rw [accExec_abs dec s hwf p f toOut (fun A => (g A, .ok ())) h]
  unfold Module.onAcc
  cases (toMod dec s).updater with
  | none => rfl
  | some U =>
    dsimp only
    cases hA : alookup U.accs p with
    | none => rfl
    | some A => dsimp only; rw [aset_eq_amodify _ _ g A hA]; rfl

/-- `accExec` with a getter is the model's `readAcc` -/
theorem accExec_readAcc (dec : Dec α) (s : ModS α) (hwf : MWF s) (p : String)
    (f : AccS α → Except (Err × AccS α) (AccS α × Option α)) (g : Accumulator α → Accumulator α × Option α)
    (h : ∀ a, AWF a → out (toA dec) (f a) = ((g (toA dec a)).1, .ok (g (toA dec a)).2)) :
    (toMod dec (accExec s p f toVal).1, (accExec s p f toVal).2) = (toMod dec s).readAcc p g := by
  rw [accExec_abs dec s hwf p f toVal (fun A => ((g A).1, .ok (g A).2)) h]
  unfold Module.readAcc
  cases (toMod dec s).updater with
  | none => rfl
  | some U =>
    dsimp only
    cases hA : alookup U.accs p with
    | none => rfl
    | some A => rfl

/-- one dispatched operation of the regenerated programs, abstracted, is one step of the hand-written machine (the `gen_*`
glue theorems collected over the whole operation alphabet) -/
theorem gen_step_eq (dec : Dec α) (hdec : DecUnbounded dec) (s : ModS α) (h : MWF s) (op : Op α)
    (hs : Sup dec op) : (toMod dec (genExec s op).1, (genExec s op).2) = step (toMod dec s) op := by
  cases op with
  | newUpdater ps r =>
    have hg := gen_updater_new dec hdec s.attrs ps r
    simp only [genExec, step]
    cases hi : Updater___init__ s.attrs ps r with
    | error e =>
      rw [hi] at hg
      by_cases hc : (ps.all fun p => (alookup s.attrs p).isSome) = true
      · simp [hc, Except.map] at hg
      · simp only [hc, Except.map, Bool.false_eq_true, ↓reduceIte, Except.error.injEq] at hg
        simp [toMod, hc, hg]
    | ok v =>
      rw [hi] at hg
      by_cases hc : (ps.all fun p => (alookup s.attrs p).isSome) = true
      · simp only [hc, Except.map, ↓reduceIte, Except.ok.injEq, Prod.mk.injEq] at hg
        simp only [toMod, hc, ↓reduceIte, Option.map_some]
        rw [show toAccs dec v.updates_ = toU dec v from rfl, hg.1]
      · simp [hc, Except.map] at hg
  | delUpdater => rfl
  | setParam p v =>
    simp only [genExec, step, toMod]
    cases alookup s.attrs p <;> rfl
  | setPos p v => exact accExec_onAcc dec s h p _ _ (fun a _ => gen_setPos dec a v)
  | setNeg p v => exact accExec_onAcc dec s h p _ _ (fun a _ => gen_setNeg dec a v)
  | setAcc p v => exact accExec_onAcc dec s h p _ _ (fun a _ => gen_setacc dec a v)
  | getPos p => exact accExec_readAcc dec s h p _ _ (fun a _ => gen_getPos dec a)
  | getNeg p => exact accExec_readAcc dec s h p _ _ (fun a _ => gen_getNeg dec a)
  | delPos p => exact accExec_onAcc dec s h p _ _ (fun a _ => gen_delPos dec a)
  | delNeg p => exact accExec_onAcc dec s h p _ _ (fun a _ => gen_delNeg dec a)
  | delAcc p => exact accExec_onAcc dec s h p _ _ (fun a _ => gen_delacc dec a)
  | accClear p => exact accExec_onAcc dec s h p _ _ (fun a _ => gen_clear dec a)
  | reduction p fn => exact accExec_onAcc dec s h p _ _ (fun a _ => gen_reduction dec a fn)
  | upperbound p b =>
    refine accExec_onAcc dec s h p _ _ (fun a ha => ?_)
    rw [gen_upperbound dec a ha]
    cases b <;> rfl
  | lowerbound p b =>
    refine accExec_onAcc dec s h p _ _ (fun a ha => ?_)
    rw [gen_lowerbound dec a ha]
    cases b <;> rfl
  | fullbound p b =>
    refine accExec_onAcc dec s h p _ _ (fun a ha => ?_)
    rw [gen_fullbound dec hdec a]
    cases b with
    | none => rfl
    | some fb =>
      obtain ⟨fn, hv⟩ := fb
      simp only [Sup] at hs
      simp only [Option.map_some, hs]
  | accUpdate p =>
    simp only [genExec, step]
    cases hx : alookup s.attrs p with
    | none =>
      simp only [toMod]
      cases s.updater_ with
      | none => rfl
      | some u => simp only [Option.map_some, hx]; cases alookup (toAccs dec u).accs p <;> rfl
    | some x =>
      dsimp only
      rw [accExec_abs dec s h p _ toVal (fun A => A.update x) (fun a ha => gen_update dec a ha x)]
      simp only [toMod]
      cases s.updater_ with
      | none => rfl
      | some u =>
        simp only [Option.map_some, hx]
        cases alookup (toAccs dec u).accs p with
        | none => rfl
        | some A => dsimp only; cases (A.update x).2 <;> rfl
  | update c => simp only [genExec, ← outM_modExec]; exact gen_mod_update dec s h c
  | updatesome ps c => simp only [genExec, ← outM_modExec]; exact gen_mod_updatesome dec s h ps c
  | clear => simp only [genExec, ← outM_modExec]; exact gen_mod_clear dec s

/-- the regenerated programs PRESERVE `MWF`: after any operation — successful or raising, no side condition — the private
state is again well formed, so the hypothesis of the glue theorems holds along a whole execution -/
theorem gen_step_wf (s : ModS α) (h : MWF s) (op : Op α) : MWF (genExec s op).1 := by
  cases op with
  | newUpdater ps r =>
    simp only [genExec]
    cases hi : Updater___init__ s.attrs ps r with
    | error e => exact h
    | ok v =>
      intro u hu
      simp only [Option.some.injEq] at hu
      subst hu
      exact (updater_new_wf s.attrs ps r v hi).1
  | delUpdater => intro u hu; simp [genExec] at hu
  | setParam p v =>
    simp only [genExec]
    cases alookup s.attrs p <;> exact h
  | setPos p v => exact accExec_wf s h p _ _ (fun a ha => setPos_wf a ha v)
  | setNeg p v => exact accExec_wf s h p _ _ (fun a ha => setNeg_wf a ha v)
  | setAcc p v => exact accExec_wf s h p _ _ (fun a ha => setacc_wf a ha v)
  | getPos p => exact accExec_wf s h p _ _ getPos_wf
  | getNeg p => exact accExec_wf s h p _ _ getNeg_wf
  | delPos p => exact accExec_wf s h p _ _ delPos_wf
  | delNeg p => exact accExec_wf s h p _ _ delNeg_wf
  | delAcc p => exact accExec_wf s h p _ _ delacc_wf
  | accClear p => exact accExec_wf s h p _ _ clear_wf
  | reduction p fn => exact accExec_wf s h p _ _ (fun a ha => reduction_wf a ha fn)
  | upperbound p b => exact accExec_wf s h p _ _ (fun a ha => upperbound_wf a ha _ _ _)
  | lowerbound p b => exact accExec_wf s h p _ _ (fun a ha => lowerbound_wf a ha _ _ _)
  | fullbound p b => exact accExec_wf s h p _ _ (fun a ha => fullbound_wf a _ _ _ _)
  | accUpdate p =>
    simp only [genExec]
    cases alookup s.attrs p with
    | none => exact h
    | some x => exact accExec_wf s h p _ _ (fun a ha => update_wf a ha x)
  | update c => exact mod_update_wf s h c
  | updatesome ps c => exact mod_updatesome_wf s h ps c
  | clear => exact mod_clear_wf s h

/-! ## Operation sequences -/

/-- fold of `genExec` over an operation list, collecting the outputs -/
def genRun (s : ModS α) : List (Op α) → ModS α × List (Out α)
  | [] => (s, [])
  | op :: ops =>
    let r := genExec s op
    let r' := genRun r.1 ops
    (r'.1, r.2 :: r'.2)

/-- `Sup` along a run (`Sup` does not depend on the state) -/
def SupRun (dec : Dec α) (ops : List (Op α)) : Prop := ∀ op ∈ ops, Sup dec op

/-- for every operation list in the domain, the regenerated programs and the hand-written machine `run` produce the same
abstract final state and the same outputs, and the final private state is well formed -/
theorem gen_run_eq (dec : Dec α) (hdec : DecUnbounded dec) (ops : List (Op α)) (s : ModS α) (h : MWF s)
    (hs : SupRun dec ops) :
    (toMod dec (genRun s ops).1, (genRun s ops).2) = run (toMod dec s) ops ∧ MWF (genRun s ops).1 := by
  induction ops generalizing s with
  | nil => exact ⟨rfl, h⟩
  | cons op ops ih =>
    have e := gen_step_eq dec hdec s h op (hs op List.mem_cons_self)
    obtain ⟨i1, i2⟩ := ih (genExec s op).1 (gen_step_wf s h op) (fun o ho => hs o (List.mem_cons_of_mem _ ho))
    simp only [genRun, run]
    rw [← e]
    simp only []
    rw [← i1]
    exact ⟨rfl, i2⟩

end Step

/-! ## The closures: any `(bound, limit, **kwargs)` presentation is covered -/
section Present
variable {α κ : Type} [Add α] [Sub α] [Neg α] [Zero α]

/-- the regenerated `upperbound(bound, max, **kwargs)` depends on its arguments only through the closure
`lambda x, p: bound(x, p, max, **kwargs)` it builds -/
theorem upperbound_presentation (a : AccS α) (bound : Option (HalfBounding α κ)) (mx : Option α) (kw : κ) :
    Accumulator_upperbound a bound mx kw
      = Accumulator_upperbound (κ := Unit) a (bound.map fun b x u _ _ => b x u mx kw) none () := by
  cases bound <;> rfl

/-- the regenerated `lowerbound(bound, min, **kwargs)` depends on its arguments only through the closure it builds -/
theorem lowerbound_presentation (a : AccS α) (bound : Option (HalfBounding α κ)) (mn : Option α) (kw : κ) :
    Accumulator_lowerbound a bound mn kw
      = Accumulator_lowerbound (κ := Unit) a (bound.map fun b x u _ _ => b x u mn kw) none () := by
  cases bound <;> rfl

/-- the regenerated `fullbound(bound, max, min, **kwargs)` depends on its arguments only through the closure it builds -/
theorem fullbound_presentation (a : AccS α) (bound : Option (FullBounding α κ)) (mx mn : Option α) (kw : κ) :
    Accumulator_fullbound a bound mx mn kw
      = Accumulator_fullbound (κ := Unit) a (bound.map fun b x u v _ _ _ => b x u v mx mn kw) none none () := by
  cases bound <;> rfl

/-- running the regenerated `upperbound` with ANY `bound`, `max`, `kwargs` on the accumulator `p` is `genExec` on the
machine's operation carrying the closure -/
theorem genExec_upperbound_any (s : ModS α) (p : String) (bound : Option (HalfBounding α κ)) (mx : Option α)
    (kw : κ) :
    genExec s (.upperbound p (bound.map fun b x u => b x u mx kw))
      = accExec s p (fun a => Accumulator_upperbound a bound mx kw) toOut := by
  simp only [genExec, Option.map_map, Function.comp_def]
  congr 1; funext a; exact (upperbound_presentation a bound mx kw).symm

/-- running the regenerated `lowerbound` with ANY `bound`, `min`, `kwargs` on the accumulator `p` is `genExec` on the
machine's operation carrying the closure -/
theorem genExec_lowerbound_any (s : ModS α) (p : String) (bound : Option (HalfBounding α κ)) (mn : Option α)
    (kw : κ) :
    genExec s (.lowerbound p (bound.map fun b x u => b x u mn kw))
      = accExec s p (fun a => Accumulator_lowerbound a bound mn kw) toOut := by
  simp only [genExec, Option.map_map, Function.comp_def]
  congr 1; funext a; exact (lowerbound_presentation a bound mn kw).symm

/-- running the regenerated `fullbound` with ANY `bound`, `max`, `min`, `kwargs` on the accumulator `p` is `genExec` on the
machine's operation carrying the closure (whatever decomposition it is bundled with) -/
theorem genExec_fullbound_any (s : ModS α) (p : String) (bound : Option (FullBounding α κ)) (mx mn : Option α)
    (kw : κ) (ghost : Full α → Option (Half α × Half α)) :
    genExec s (.fullbound p (bound.map fun b => ⟨fun x u v => b x u v mx mn kw, ghost (fun x u v => b x u v mx mn kw)⟩))
      = accExec s p (fun a => Accumulator_fullbound a bound mx mn kw) toOut := by
  simp only [genExec, Option.map_map, Function.comp_def]
  congr 1; funext a; exact (fullbound_presentation a bound mx mn kw).symm

end Present

/-! ## `unsupported` only outside the modelled domain -/
section Dom
variable {α : Type} [Add α] [Sub α] [Neg α] [Zero α]

/-- the accumulator named `p` exists -/
def HasAcc (s : ModS α) (p : String) : Prop := ∃ u a, s.updater_ = some u ∧ alookup u p = some a

/-- where the model describes the real code (does not answer `unsupported`): accumulator operations on a declared name
of an existing updater, `setParam` / `accUpdate` on an attribute of the module -/
def Dom (s : ModS α) : Op α → Prop
  | .setParam p _ => (alookup s.attrs p).isSome
  | .setPos p _ | .setNeg p _ | .setAcc p _ | .getPos p | .getNeg p | .delPos p | .delNeg p | .delAcc p
  | .accClear p | .reduction p _ | .upperbound p _ | .lowerbound p _ | .fullbound p _ => HasAcc s p
  | .accUpdate p => HasAcc s p ∧ (alookup s.attrs p).isSome
  | _ => True

/-- a method without return value never prints `unsupported` -/
theorem toOut_ne (r : Except Err Unit) : (toOut r : Out α) ≠ .unsupported := by
  cases r <;> (intro h; cases h)

/-- a method returning an optional tensor never prints `unsupported` -/
theorem toVal_ne (r : Except Err (Option α)) : (toVal r : Out α) ≠ .unsupported := by
  cases r <;> (intro h; cases h)

/-- on an existing accumulator `accExec` runs the program -/
theorem accExec_supported {ρ : Type} (s : ModS α) (p : String) (h : HasAcc s p)
    (f : AccS α → Except (Err × AccS α) (AccS α × ρ)) (o : Except Err ρ → Out α) (ho : ∀ r, o r ≠ .unsupported) :
    (accExec s p f o).2 ≠ .unsupported := by
  obtain ⟨u, a, hu, ha⟩ := h
  simp only [accExec, hu, ha]
  exact ho _

/-- on `Dom` the output of `genExec` is never `unsupported`: there every operation runs regenerated code (or the model's
three plain assignments) -/
theorem gen_step_supported (s : ModS α) (op : Op α) (h : Dom s op) : (genExec s op).2 ≠ .unsupported := by
  cases op with
  | newUpdater ps r =>
    simp only [genExec]
    cases Updater___init__ s.attrs ps r <;> (intro h; cases h)
  | delUpdater => intro h; cases h
  | setParam p v =>
    simp only [Dom] at h
    simp only [genExec]
    cases hx : alookup s.attrs p with
    | none => simp [hx] at h
    | some x => intro h; cases h
  | accUpdate p =>
    obtain ⟨h1, h2⟩ := h
    simp only [genExec]
    cases hx : alookup s.attrs p with
    | none => simp [hx] at h2
    | some x => exact accExec_supported s p h1 _ _ toVal_ne
  | update c => exact toOut_ne _
  | updatesome ps c => exact toOut_ne _
  | clear => exact toOut_ne _
  | getPos p => exact accExec_supported s p h _ _ toVal_ne
  | getNeg p => exact accExec_supported s p h _ _ toVal_ne
  | _ => exact accExec_supported s _ h _ _ toOut_ne

end Dom

/-! ## The capstone: composition with `run_refines` -/
section Capstone
variable {α : Type} [AddGroup α]

/-- CAPSTONE: for EVERY finite operation list (in the domain `SupRun`, with sound bundled decompositions), started in any
well-formed private state whose abstraction satisfies the model invariant, the programs regenerated from /repo's
`Accumulator` / `Updater` / `Updatable` return exactly what the specification machine `srun` — apply step
`new = old + ub(reduce pos parts) − lb(reduce neg parts)` — returns, end in the abstraction relation with it
(parameters included: `(mabs (toMod dec s)).params = s.attrs`), end well formed, and the invariant holds again -/
theorem gen_run_refines (dec : Dec α) (hdec : DecUnbounded dec) (ops : List (Op α)) (s : ModS α) (h : MWF s)
    (hi : MInv (toMod dec s)) (hs : SupRun dec ops) (hsound : ∀ op ∈ ops, op.Sound) :
    mabs (toMod dec (genRun s ops).1) = (srun (mabs (toMod dec s)) ops).1 ∧
    (genRun s ops).2 = (srun (mabs (toMod dec s)) ops).2 ∧
    MWF (genRun s ops).1 ∧ MInv (toMod dec (genRun s ops).1) := by
  obtain ⟨e, w⟩ := gen_run_eq dec hdec ops s h hs
  obtain ⟨r1, r2, r3⟩ := run_refines ops (toMod dec s) hi hsound
  rw [← e] at r1 r2 r3
  exact ⟨r1, r2, w, r3⟩

/-- one step of the capstone: a dispatched operation of the regenerated programs is one step of the specification machine,
and both hypotheses (`MWF`, the model invariant) hold again afterwards -/
theorem gen_step_refines (dec : Dec α) (hdec : DecUnbounded dec) (s : ModS α) (h : MWF s)
    (hi : MInv (toMod dec s)) (op : Op α) (hs : Sup dec op) (hsound : op.Sound) :
    mabs (toMod dec (genExec s op).1) = (sstep (mabs (toMod dec s)) op).1 ∧
    (genExec s op).2 = (sstep (mabs (toMod dec s)) op).2 ∧
    MWF (genExec s op).1 ∧ MInv (toMod dec (genExec s op).1) := by
  have e := gen_step_eq dec hdec s h op hs
  obtain ⟨r1, r2, r3⟩ := step_refines (toMod dec s) hi op hsound
  rw [← e] at r1 r2 r3
  exact ⟨r1, r2, gen_step_wf s h op, r3⟩

/-- the capstone from a freshly constructed module (attributes `prm`, no updater yet) — no hypothesis on the state: the
outputs of the regenerated programs and the final values of the module's parameters are the specification's, for every
operation list -/
theorem gen_run_refines_fresh (dec : Dec α) (hdec : DecUnbounded dec) (prm : List (String × α))
    (ops : List (Op α)) (hs : SupRun dec ops) (hsound : ∀ op ∈ ops, op.Sound) :
    (genRun (⟨prm, none⟩ : ModS α) ops).2 = (srun (⟨prm, none⟩ : SModule α) ops).2 ∧
    (genRun (⟨prm, none⟩ : ModS α) ops).1.attrs = (srun (⟨prm, none⟩ : SModule α) ops).1.params := by
  obtain ⟨r1, r2, -, -⟩ := gen_run_refines dec hdec ops (⟨prm, none⟩ : ModS α)
    (by intro u hu; cases hu) (by intro u hu; cases hu) hs hsound
  exact ⟨r2, congrArg SModule.params r1⟩

end Capstone

/-! ## Non-vacuity: concrete states and mixed operation lists inside the domain (`α = Int`) -/
section Examples

/-- ghost assignment for the examples: a callable is recognised by probing it at `(0, 1, 0)` (`1`: the default
`p - n`; `10`: `exMult`; raising: no decomposition) -/
def exDec : Dec Int := fun f =>
  match f 0 1 0 with
  | .ok v =>
    if v = 1 then some (fun _ p => p, fun _ n => n)
    else if v = 10 then some (fun x p => bound_upper_multiplicative x p 10, fun x n => bound_lower_multiplicative x n 0)
    else none
  | .error _ => none

/-- the example assignment satisfies the hypothesis of the glue theorems -/
theorem exDec_unbounded : DecUnbounded exDec := rfl

/-- `fullbound(bound_multiplicative, 10, 0)` -/
def exMult : FullBound Int := FullBound.multiplicative (some 10) (some 0)
/-- `fullbound(bound_scaled_multiplicative, 10, None)`: raises `TypeError` (`max - min`) whenever an update is computed -/
def exRaise : FullBound Int := FullBound.scaled_multiplicative (some 10) none

example : exDec exMult.fn = exMult.halves? := rfl
example : exDec exRaise.fn = exRaise.halves? := rfl

/-- the bundled decomposition of `exMult` is its meaning -/
theorem exMult_sound : exMult.Sound := by
  refine ⟨fun x p n => rfl, fun x => ?_, fun x => ?_⟩ <;>
    simp [bound_upper_multiplicative, bound_lower_multiplicative]

/-- `exRaise` always raises `TypeError` -/
theorem exRaise_sound : exRaise.Sound := fun x p n => rfl

/-- from a fresh module `{w: 2, b: 5}`: constructor with a duplicate name, a full bound, contributions in all setter forms,
cached reads, a half bound, `accUpdate`, `update` twice (the second a no-op), a rejected constructor (`RuntimeError`),
`updatesome` stopping at an unknown name (`KeyError`, `w` already assigned), `clear`, a plain assignment, `del updater`,
`updatesome` without updater (`TypeError`), a read without updater (`unsupported`) -/
def exOps0 : List (Op Int) :=
  [.newUpdater ["w", "b", "w"] none, .fullbound "w" (some exMult), .setAcc "w" (.pair (some 1) (some 1)),
   .getPos "w", .setPos "w" (some 2), .getPos "w", .upperbound "b" (some fun x p => (7 - x) * p),
   .setNeg "b" (some 3), .setAcc "b" (.one (some 1)), .accUpdate "b", .update true, .update true,
   .newUpdater ["v"] none, .setPos "w" (some 1), .updatesome ["w", "zz", "b"] false, .clear, .setParam "b" 0,
   .delUpdater, .updatesome ["w"] true, .getPos "w"]

example : (genRun (⟨[("w", 2), ("b", 5)], none⟩ : ModS Int) exOps0).1.attrs = [("w", 10), ("b", 0)] := by decide

example : (genRun (⟨[("w", 2), ("b", 5)], none⟩ : ModS Int) exOps0).2 =
    [.unit, .unit, .unit, .val (some 1), .unit, .val (some 3), .unit, .unit, .unit, .val (some (-1)), .unit, .unit,
     .err .RuntimeError, .unit, .err .KeyError, .unit, .unit, .unit, .err .TypeError, .unsupported] := rfl

/-- the first list is in the domain -/
theorem exOps0_sup : SupRun exDec exOps0 := by
  intro op hop
  simp only [exOps0, List.mem_cons, List.mem_nil_iff, or_false] at hop
  rcases hop with rfl | rfl | rfl | rfl | rfl | rfl | rfl | rfl | rfl | rfl | rfl | rfl | rfl | rfl | rfl | rfl | rfl
    | rfl | rfl | rfl <;> first | exact True.intro | exact (rfl : exDec exMult.fn = exMult.halves?)

/-- the bundled decompositions of the first list are sound -/
theorem exOps0_sound : ∀ op ∈ exOps0, op.Sound := by
  intro op hop
  simp only [exOps0, List.mem_cons, List.mem_nil_iff, or_false] at hop
  rcases hop with rfl | rfl | rfl | rfl | rfl | rfl | rfl | rfl | rfl | rfl | rfl | rfl | rfl | rfl | rfl | rfl | rfl
    | rfl | rfl | rfl <;> first | exact True.intro | exact exMult_sound

example : (genRun (⟨[("w", 2), ("b", 5)], none⟩ : ModS Int) exOps0).2
    = (srun (⟨[("w", 2), ("b", 5)], none⟩ : SModule Int) exOps0).2 :=
  (gen_run_refines_fresh exDec exDec_unbounded _ exOps0 exOps0_sup exOps0_sound).1

/-- from the non-fresh state `exMod` of the glue file (`w = 10`, parts `+3 +4 −2` pending): a raising full bound (`TypeError`
at `update`, the caches stay filled: the next read returns `7`), back to the default, a lower bound, `updatesome` with
`clear`, an order-dependent custom reduction (`rlast`), `del updater.w`, a final `update` with nothing pending -/
def exOps1 : List (Op Int) :=
  [.getNeg "w", .fullbound "w" (some exRaise), .update false, .getPos "w", .fullbound "w" none,
   .lowerbound "w" (some fun x n => x * n), .updatesome ["w"] true, .accUpdate "w", .reduction "w" (some rlast),
   .setAcc "w" (.pair (some 1) none), .setPos "w" (some 5), .accUpdate "w", .delAcc "w", .update true]

example : (genRun exMod exOps1).1.attrs = [("w", -3)] := by decide

example : (genRun exMod exOps1).2 =
    [.val (some 2), .unit, .err .TypeError, .val (some 7), .unit, .unit, .unit, .val none, .unit, .unit, .unit,
     .val (some 5), .unit, .unit] := rfl

/-- the glue file's example module is well formed -/
theorem exMod_wf : MWF exMod := by
  intro u hu kv hkv
  simp only [exMod, Option.some.injEq] at hu
  subst hu
  simp only [List.mem_cons, List.mem_nil_iff, or_false] at hkv
  subst hkv
  simp [AWF, exAcc, stOf, Accumulator_neg_setter, Accumulator_pos_setter, Accumulator___init__, pure, Except.pure]

/-- its abstraction satisfies the model invariant (caches empty, default bind sound) -/
theorem exMod_inv : MInv (toMod exDec exMod) := by
  intro u hu pa hpa
  simp only [toMod, exMod, Option.map_some, Option.some.injEq] at hu
  subst hu
  simp only [toAccs, List.map_cons, List.map_nil, List.mem_cons, List.mem_nil_iff, or_false] at hpa
  subst hpa
  refine ⟨⟨fun v hv => ?_, fun v hv => ?_⟩, ?_⟩
  · simp [toA, exAcc, stOf, Accumulator_neg_setter, Accumulator_pos_setter, Accumulator___init__, pure, Except.pure,
      functoolsCache, cacheClear] at hv
  · simp [toA, exAcc, stOf, Accumulator_neg_setter, Accumulator_pos_setter, Accumulator___init__, pure, Except.pure,
      functoolsCache, cacheClear] at hv
  · exact ⟨fun x p n => rfl, fun x => rfl, fun x => rfl⟩

/-- the second list is in the domain -/
theorem exOps1_sup : SupRun exDec exOps1 := by
  intro op hop
  simp only [exOps1, List.mem_cons, List.mem_nil_iff, or_false] at hop
  rcases hop with rfl | rfl | rfl | rfl | rfl | rfl | rfl | rfl | rfl | rfl | rfl | rfl | rfl | rfl <;>
    first | exact True.intro | exact (rfl : exDec exRaise.fn = exRaise.halves?)

/-- the bundled decompositions of the second list are sound -/
theorem exOps1_sound : ∀ op ∈ exOps1, op.Sound := by
  intro op hop
  simp only [exOps1, List.mem_cons, List.mem_nil_iff, or_false] at hop
  rcases hop with rfl | rfl | rfl | rfl | rfl | rfl | rfl | rfl | rfl | rfl | rfl | rfl | rfl | rfl <;>
    first | exact True.intro | exact exRaise_sound

example : (genRun exMod exOps1).2 = (srun (mabs (toMod exDec exMod)) exOps1).2 :=
  (gen_run_refines exDec exDec_unbounded exOps1 exMod exMod_wf exMod_inv exOps1_sup exOps1_sound).2.1

/-- the domain is a real restriction -/
example : ¬ Sup exDec (.fullbound "w" (some ⟨exMult.fn, none⟩)) := by
  intro h
  have h1 : exDec exMult.fn = none := h
  obtain ⟨v, h2⟩ : ∃ v, exDec exMult.fn = some v := ⟨_, rfl⟩
  rw [h2] at h1
  cases h1

end Examples
end InfernoVerif.Gen.UpdaterProg

