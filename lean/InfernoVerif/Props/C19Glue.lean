import InfernoVerif.Model.Encoder
import InfernoVerif.Gen.EncoderSitesR
import Mathlib.Data.Rat.Cast.Order
import Mathlib.Data.Rat.Floor
import Mathlib.Tactic.Ring
import Mathlib.Tactic.Linarith
import Mathlib.Tactic.FieldSimp
/-!
# Glue: the formula-level steps of the encoder model ARE the expressions in /repo's encoding functions

`Gen/EncoderSitesR.lean` is regenerated on every run from `neural/functional/encoding.py` by site
extraction: the refractory conversion (`refrac = step_time if refrac is None else refrac`,
`refrac / step_time`), the rate → interval-scale conversion with and without compensation, the
`sample * scale + refrac` interval of the offline and online exponential encoders (the sampler call is
a parameter), the online spike tests `intervals < 1`, the validity mask and mean interval of the
Poisson-interval encoders, and the per-step probability of the three Bernoulli encoders.

The encoder model (`Model/Encoder.lean`) works over exact rationals extended by ±∞ / NaN; the theorems
below say that on finite values (a positive rate, the only case in which the source's expression is a
real number) each model step is the cast of the generated real expression.  A change of a formula in
the Python source changes the generated definition and the theorem stops checking.
-/
namespace InfernoVerif.Enc.Glue
open InfernoVerif.Enc InfernoVerif.Gen
open Classical

/-- `refrac` in steps: `(step_time if refrac is None else refrac) / step_time`, offline and online -/
theorem gen_R (c : ExpCfg) :
    ((c.R : ℚ) : ℝ) = EncoderSitesR.exp_refrac_steps
        (EncoderSitesR.exp_refrac_ms (c.dt : ℝ) (c.refrac.map fun r => ((r : ℚ) : ℝ))) (c.dt : ℝ) ∧
    ((c.R : ℚ) : ℝ) = EncoderSitesR.expon_refrac_steps
        (EncoderSitesR.expon_refrac_ms (c.dt : ℝ) (c.refrac.map fun r => ((r : ℚ) : ℝ))) (c.dt : ℝ) := by
  unfold ExpCfg.R EncoderSitesR.exp_refrac_steps EncoderSitesR.exp_refrac_ms
    EncoderSitesR.expon_refrac_steps EncoderSitesR.expon_refrac_ms
  cases c.refrac <;> simp

/-- the scale of the exponential intervals for a non-zero rate: finite, and the generated expression
(`(1 / inputs) * (1000.0 / step_time)`, minus the refractory period when compensating) -/
theorem gen_scale (c : ExpCfg) (x : ℚ) (hx : x ≠ 0) :
    ∃ q : ℚ, c.scale x = .fin q ∧
      ((q : ℚ) : ℝ) = (if c.compensate = true
        then EncoderSitesR.exp_scale_compensated (EncoderSitesR.exp_scale (x : ℝ) (c.dt : ℝ)) ((c.R : ℚ) : ℝ)
        else EncoderSitesR.exp_scale (x : ℝ) (c.dt : ℝ)) ∧
      ((q : ℚ) : ℝ) = (if c.compensate = true
        then EncoderSitesR.expon_scale_compensated (EncoderSitesR.expon_scale (x : ℝ) (c.dt : ℝ)) ((c.R : ℚ) : ℝ)
        else EncoderSitesR.expon_scale (x : ℝ) (c.dt : ℝ)) := by
  unfold ExpCfg.scale Ext.recip
  simp only [hx, if_false]
  cases hc : c.compensate
  · refine ⟨1 / x * (1000 / c.dt), by simp [Ext.mulFin], ?_, ?_⟩ <;>
      simp [EncoderSitesR.exp_scale, EncoderSitesR.expon_scale] <;> norm_num
  · refine ⟨1 / x * (1000 / c.dt) + -c.R, by simp [Ext.mulFin, Ext.addFin], ?_, ?_⟩ <;>
      simp [EncoderSitesR.exp_scale, EncoderSitesR.expon_scale, EncoderSitesR.exp_scale_compensated,
        EncoderSitesR.expon_scale_compensated] <;> norm_num <;> ring

/-- one interval from one exponential sample, for a finite scale: `sample * scale + refrac` — the same
expression at the three places it occurs (offline, online initial draw, online redraw) -/
theorem gen_interval (c : ExpCfg) (sc s : ℚ) :
    ∃ q : ℚ, c.interval (.fin sc) s = .fin q ∧
      ((q : ℚ) : ℝ) = EncoderSitesR.exp_interval (s : ℝ) (sc : ℝ) ((c.R : ℚ) : ℝ) ∧
      ((q : ℚ) : ℝ) = EncoderSitesR.expon_first_interval (s : ℝ) (sc : ℝ) ((c.R : ℚ) : ℝ) ∧
      ((q : ℚ) : ℝ) = EncoderSitesR.expon_next_interval (s : ℝ) (sc : ℝ) ((c.R : ℚ) : ℝ) := by
  refine ⟨sc * s + c.R, by simp [ExpCfg.interval, Ext.mulFin, Ext.addFin], ?_, ?_, ?_⟩ <;>
    simp [EncoderSitesR.exp_interval, EncoderSitesR.expon_first_interval, EncoderSitesR.expon_next_interval] <;> ring

/-- the online spike test `intervals < 1` on a finite interval -/
theorem gen_expFires (e : ExpElem) (q : ℚ) (h : e.iv = .fin q) :
    (expFires e = true) ↔ EncoderSitesR.expon_spike (q : ℝ) := by
  unfold expFires EncoderSitesR.expon_spike
  rw [h]
  simp [Ext.ltFin]
  exact_mod_cast Iff.rfl

/-- the Poisson-interval online spike test `logical_and(intervals < 1, mask)` -/
theorem gen_poiFires (e : PoiElem) :
    (poiFires e = true) ↔ EncoderSitesR.poion_spike ((e.iv : ℤ) : ℝ) (e.mask = true) := by
  unfold poiFires EncoderSitesR.poion_spike
  simp
  intro _
  exact_mod_cast Iff.rfl

/-- the Bernoulli encoders' per-step probability `((inputs / 1000.0) * step_time).clamp_max(1.0)`:
homogeneous offline (two statements), homogeneous online (one), inhomogeneous (two) -/
theorem gen_prob (dt x : ℚ) :
    ((prob dt x : ℚ) : ℝ) = EncoderSitesR.bern_prob_clamped (EncoderSitesR.bern_prob (x : ℝ) (dt : ℝ)) ∧
    ((prob dt x : ℚ) : ℝ) = EncoderSitesR.bernon_prob (x : ℝ) (dt : ℝ) ∧
    ((prob dt x : ℚ) : ℝ) = EncoderSitesR.inhom_prob_clamped (EncoderSitesR.inhom_prob (x : ℝ) (dt : ℝ)) := by
  have key : ((prob dt x : ℚ) : ℝ) = min (((x : ℝ) / 1000) * (dt : ℝ)) 1 := by
    unfold prob
    simp only []
    split_ifs with h
    · have h' : ((x : ℝ) / 1000) * (dt : ℝ) ≤ 1 := by exact_mod_cast h
      rw [min_eq_left h']; push_cast; ring
    · have h' : ¬ ((x : ℝ) / 1000) * (dt : ℝ) ≤ 1 := by exact_mod_cast h
      rw [min_eq_right (le_of_lt (not_le.mp h'))]; norm_num
  refine ⟨?_, ?_, ?_⟩ <;>
    simp only [key, EncoderSitesR.bern_prob_clamped, EncoderSitesR.bern_prob, EncoderSitesR.bernon_prob,
      EncoderSitesR.inhom_prob_clamped, EncoderSitesR.inhom_prob] <;> norm_num

/-- the validity mask `inputs > 0` and mean interval of the Poisson-interval encoders: one expression
offline and online, and the mean interval is the exponential encoders' uncompensated scale -/
theorem gen_poisson_sites (x dt : ℝ) :
    (EncoderSitesR.poi_mask x ↔ 0 < x) ∧ (EncoderSitesR.poion_mask x ↔ 0 < x) ∧
    EncoderSitesR.poi_mean_interval x dt = EncoderSitesR.exp_scale x dt ∧
    EncoderSitesR.poion_mean_interval x dt = EncoderSitesR.exp_scale x dt :=
  ⟨Iff.rfl, Iff.rfl, rfl, rfl⟩

end InfernoVerif.Enc.Glue
