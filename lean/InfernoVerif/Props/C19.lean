import InfernoVerif.Lemmas.Encoder
namespace InfernoVerif.Enc
theorem placeholder_c19 : True := trivial
end InfernoVerif.Enc
