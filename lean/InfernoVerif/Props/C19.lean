import InfernoVerif.Lemmas.Encoder
import Mathlib.Tactic.Ring
import Mathlib.Tactic.NormNum
/-!
# C19 — spike encoders respect shape, silence at zero, one spike per step and the refractory gap

Property theorems about the executable model of `Model/Encoder.lean` (definitions) with helper
lemmas in `Lemmas/Encoder.lean`.  Every theorem quantifies over EVERY sample list — that is the
"for all generator seeds" quantifier — every `steps`, every configuration and every input rate.

Hypotheses and where the real code gets them from:
* `0 < c.dt` — `argtest.gt("step_time", …)` in `StepTimeMixin`;
* `PosSamples ss` (`0 < s`) — support of `Tensor.exponential_`; `k = 0` for Poisson samples of a
  silent element — `torch.poisson(0) = 0`; `0 ≤ u` — `torch.rand ∈ [0, 1)` (trusted base, asserted
  on every replayed tensor by the harness);
* `c.compat x` — the interval scale `1000/(x·dt) − refrac/dt` is non-negative.  For the modules it
  follows (`compat_of_frequency_refrac`, `encoder_compat`) from `frequency · refrac < 1000`, which
  the constructor (D26) and every setter (D30 for `dt`) enforce: `encRun_inv`.  The functional API
  documents the excluded region as "nonsensical".
* minimum gap: `⌊refrac/dt⌋` steps for every rational `refrac/dt ≥ 0`; `= R` when `refrac = R·dt`.
-/
namespace InfernoVerif.Enc

/-- the support of `exponential_` -/
def PosSamples (ss : List Rat) : Prop := ∀ s ∈ ss, (0 : Rat) < s

/-! ## Offline refractory Poisson encoder (`homogeneous_poisson_exp_interval`) -/

/-- `shape_steps`: whatever was sampled, an element's train has exactly `steps` entries. -/
theorem exp_shape_steps (c : ExpCfg) (x : Rat) (ss : List Rat) (out : List Bool)
    (h : expOffline c x ss = some out) : out.length = c.steps := by
  unfold expOffline at h
  simp only [Option.map_eq_some_iff] at h
  obtain ⟨idx, _, rfl⟩ := h
  rw [scatter_succ_dropLast, scatter_length]

theorem timeFirst_shape (steps : Nat) (trains : List (List Bool)) :
    (timeFirst steps trains).length = steps ∧ ∀ r ∈ timeFirst steps trains, r.length = trains.length := by
  constructor
  · simp [timeFirst]
  · intro r hr
    simp only [timeFirst, List.mem_map] at hr
    obtain ⟨t, _, rfl⟩ := hr
    simp

/-- Time-first layout: row `t`, column `i` of the output is step `t` of element `i`'s train. -/
theorem timeFirst_entry (steps : Nat) (trains : List (List Bool)) (t i : Nat) (tr : List Bool)
    (ht : t < steps) (hi : trains[i]? = some tr) (hl : tr.length = steps) :
    ((timeFirst steps trains)[t]?).bind (·[i]?) = tr[t]? := by
  have h1 : (timeFirst steps trains)[t]? = some (trains.map fun tr => tr.getD t false) := by
    simp [timeFirst, ht]
  rw [h1]
  simp only [Option.bind_some, List.getElem?_map, hi, Option.map_some]
  rw [List.getD_eq_getElem?_getD, List.getElem?_eq_getElem (by omega)]
  simp

/-- `shape_steps` for the whole tensor: `steps` rows (time first), one entry per element. -/
theorem exp_time_first (c : ExpCfg) (cols : List (Rat × List Rat)) (rows : List (List Bool))
    (h : expOfflineT c cols = some rows) :
    rows.length = c.steps ∧ ∀ r ∈ rows, r.length = cols.length := by
  unfold expOfflineT at h
  simp only [Option.map_eq_some_iff] at h
  obtain ⟨trains, htr, rfl⟩ := h
  have hlen : trains.length = cols.length := by
    have := congrArg List.length ((allSome_eq_some _ _).1 htr)
    simpa using this.symm
  obtain ⟨h1, h2⟩ := timeFirst_shape c.steps trains
  exact ⟨h1, fun r hr => by rw [h2 r hr, hlen]⟩

/-- Under the audited hypotheses the encoder returns a train (no scatter index is invalid: the
real code does not raise). -/
theorem exp_total (c : ExpCfg) (x : Rat) (ss : List Rat) (hdt : 0 < c.dt) (hR : 0 ≤ c.R)
    (hx : 0 ≤ x) (hc : c.compat x = true) (hs : PosSamples ss) :
    ∃ out, expOffline c x ss = some out := by
  have hge := scale_ge_of_compat c x hdt hx hc
  cases hsc : c.scale x with
  | fin q => rw [hsc] at hge; exact ⟨_, expOffline_fin c x q ss hsc hge hR hs⟩
  | pinf => exact ⟨_, expOffline_pinf c x ss hsc hs⟩
  | ninf => rw [hsc] at hge; simp [GE] at hge
  | nan => rw [hsc] at hge; simp [GE] at hge

/-- `zero_is_silent`: an element of rate 0 never fires, for every sample sequence
(`1/0 = +∞` keeps every cumulative time at `+∞`, i.e. in the dropped row). -/
theorem exp_zero_is_silent (c : ExpCfg) (ss : List Rat) (hdt : 0 < c.dt) (hs : PosSamples ss) :
    ∃ out, expOffline c 0 ss = some out ∧ ∀ b ∈ out, b = false := by
  refine ⟨_, expOffline_pinf c 0 ss (scale_zero c hdt) hs, ?_⟩
  intro b hb
  simp only [scatter, List.mem_map, List.mem_range] at hb
  obtain ⟨t, ht, rfl⟩ := hb
  simp only [decide_eq_false_iff_not, not_exists, not_and]
  intro s _ h
  omega

/-- `at_most_one_per_step`, what it means for the scatter: step `t` carries a spike iff AT LEAST ONE
cumulative interval time falls into `[t, t+1)` — two times landing in the same step give one
spike, and no time below `steps` is lost (times `≥ steps` land in the dropped row). -/
theorem exp_spike_iff (c : ExpCfg) (x q : Rat) (ss : List Rat) (out : List Bool) (t : Nat)
    (hsc : c.scale x = .fin q) (hq : 0 ≤ q) (hR : 0 ≤ c.R) (hs : PosSamples ss)
    (h : expOffline c x ss = some out) (ht : t < c.steps) :
    out[t]? = some true ↔ ∃ T ∈ timesQ c q ss, (t : Rat) ≤ T ∧ T < (t : Rat) + 1 := by
  rw [expOffline_fin c x q ss hsc hq hR hs] at h
  simp only [Option.some.injEq] at h; subst h
  have hnn : ∀ T ∈ timesQ c q ss, 0 ≤ T := fun T hT => le_trans hR ((timesQ_sep c q ss hq hR hs).1 T hT)
  rw [scatter_getElem?, if_pos ht]
  simp only [Option.some.injEq, decide_eq_true_eq, List.mem_map]
  have hsteps : ((t : Rat) + 1) ≤ (c.steps : Rat) := by exact_mod_cast ht
  constructor
  · rintro ⟨T, hT, hidx⟩
    have hlt : T < (c.steps : Rat) := by
      by_contra hge
      have := idxQ_of_ge c.steps T (not_lt.1 hge)
      omega
    have hfl := idxQ_of_lt c.steps T (hnn T hT) hlt
    rw [hidx] at hfl
    refine ⟨T, hT, ?_, ?_⟩
    · have := Rat.floor_le T; rw [← hfl] at this; exact_mod_cast this
    · have := Rat.lt_floor_add_one T; rw [← hfl] at this; exact_mod_cast this
  · rintro ⟨T, hT, h1, h2⟩
    refine ⟨T, hT, ?_⟩
    have hlt : T < (c.steps : Rat) := lt_of_lt_of_le h2 hsteps
    have hfl := idxQ_of_lt c.steps T (hnn T hT) hlt
    have e1 : (t : Int) ≤ T.floor := by rw [Rat.le_floor_iff]; exact_mod_cast h1
    have e2 : T.floor < (t : Int) + 1 := by rw [Rat.floor_lt_iff]; exact_mod_cast h2
    omega

/-- `min_gap`: for every sample sequence, two spikes of one element are at least `⌊refrac/dt⌋`
steps apart (`T_{j+1} − T_j ≥ R ⇒ ⌊T_{j+1}⌋ − ⌊T_j⌋ ≥ ⌊R⌋`, by induction over the interval list). -/
theorem exp_min_gap (c : ExpCfg) (x : Rat) (ss : List Rat) (out : List Bool) (t1 t2 : Nat)
    (hdt : 0 < c.dt) (hR : 0 ≤ c.R) (hx : 0 ≤ x) (hc : c.compat x = true) (hs : PosSamples ss)
    (h : expOffline c x ss = some out) (h1 : out[t1]? = some true) (h2 : out[t2]? = some true)
    (h12 : t1 < t2) : c.R.floor ≤ (t2 : Int) - (t1 : Int) := by
  have hge := scale_ge_of_compat c x hdt hx hc
  cases hsc : c.scale x with
  | fin q =>
    rw [hsc] at hge
    rw [expOffline_fin c x q ss hsc hge hR hs] at h
    simp only [Option.some.injEq] at h; subst h
    obtain ⟨hlow, hsep⟩ := timesQ_sep c q ss hge hR hs
    exact scatter_gap c.steps c.R hR _ (fun t ht => le_trans hR (hlow t ht)) hsep t1 t2 h12 h1 h2
  | pinf =>
    rw [expOffline_pinf c x ss hsc hs] at h
    simp only [Option.some.injEq] at h; subst h
    rw [scatter_getElem?] at h1
    split at h1
    · simp only [Option.some.injEq, decide_eq_true_eq, List.mem_map] at h1
      obtain ⟨_, _, h⟩ := h1; omega
    · simp at h1
  | ninf => rw [hsc] at hge; simp [GE] at hge
  | nan => rw [hsc] at hge; simp [GE] at hge

/-- `refrac = R·dt` with `R ∈ ℕ`: the configured quotient is exactly `R`. -/
theorem R_of_multiple (c : ExpCfg) (k : Nat) (hdt : 0 < c.dt) (hr : c.refrac = some ((k : Rat) * c.dt)) :
    c.R = (k : Rat) := by
  unfold ExpCfg.R; rw [hr]; field_simp

/-- `refrac = None`: the refractory period is one step. -/
theorem R_of_none (c : ExpCfg) (hdt : 0 < c.dt) (hr : c.refrac = none) : c.R = 1 := by
  unfold ExpCfg.R; rw [hr]; field_simp

/-- `min_gap` as the property states it: `refrac = R·dt`, `R ∈ ℕ` ⇒ spikes are `≥ R` steps apart. -/
theorem exp_min_gap_multiple (c : ExpCfg) (k : Nat) (x : Rat) (ss : List Rat) (out : List Bool)
    (t1 t2 : Nat) (hdt : 0 < c.dt) (hr : c.refrac = some ((k : Rat) * c.dt)) (hx : 0 ≤ x)
    (hc : c.compat x = true) (hs : PosSamples ss) (h : expOffline c x ss = some out)
    (h1 : out[t1]? = some true) (h2 : out[t2]? = some true) (h12 : t1 < t2) : t1 + k ≤ t2 := by
  have hRk := R_of_multiple c k hdt hr
  have hR : 0 ≤ c.R := by rw [hRk]; exact Nat.cast_nonneg k
  have := exp_min_gap c x ss out t1 t2 hdt hR hx hc hs h h1 h2 h12
  have hfl : c.R.floor = (k : Int) := by
    rw [hRk]; have := Rat.floor_intCast (k : Int); simpa using this
  omega

/-- Hypothesis audit: `frequency · refrac < 1000` (what constructor and setters enforce) makes the
interval scale non-negative for every intensity in `[0, 1]`. -/
theorem compat_of_frequency_refrac (c : ExpCfg) (f i : Rat) (hdt : 0 < c.dt) (hR : 0 ≤ c.R)
    (hf : 0 ≤ f) (hi0 : 0 ≤ i) (hi1 : i ≤ 1) (hfr : f * (c.R * c.dt) < 1000) :
    c.compat (f * i) = true := by
  unfold ExpCfg.compat
  by_cases h0 : f * i = 0
  · simp [h0]
  · have hpos : 0 < f * i := lt_of_le_of_ne (mul_nonneg hf hi0) (Ne.symm h0)
    have hden : 0 < f * i * c.dt := mul_pos hpos hdt
    have hkey : c.R * (f * i * c.dt) ≤ 1000 := by
      have h1 : 0 ≤ f * (c.R * c.dt) := mul_nonneg hf (mul_nonneg hR (le_of_lt hdt))
      have h2 : c.R * (f * i * c.dt) = i * (f * (c.R * c.dt)) := by ring
      rw [h2]
      have : i * (f * (c.R * c.dt)) ≤ 1 * (f * (c.R * c.dt)) := mul_le_mul_of_nonneg_right hi1 h1
      linarith
    have : c.R ≤ 1000 / (f * i * c.dt) := by rw [le_div_iff₀ hden]; exact hkey
    simp [this]

/-! ## Online refractory Poisson encoder (`homogeneous_poisson_exp_interval_online`) -/

theorem expOnlineInit_get (c : ExpCfg) (xs s0 : List Rat) (i : Nat) (e : ExpElem)
    (h : (expOnlineInit c xs s0)[i]? = some e) :
    ∃ x s, xs[i]? = some x ∧ s0[i]? = some s ∧ e = { sc := c.scale x, iv := c.interval (c.scale x) s } := by
  unfold expOnlineInit at h
  rw [List.getElem?_zipWith] at h
  cases hx : xs[i]? with
  | none => simp [hx] at h
  | some x =>
    cases hs : s0[i]? with
    | none => simp [hx, hs] at h
    | some s =>
      simp only [hx, hs, Option.some.injEq] at h
      exact ⟨x, s, rfl, rfl, h.symm⟩

/-- `shape_steps` (online): exactly one slice per step, each with one entry per element. -/
theorem expOnline_shape (c : ExpCfg) (xs s0 : List Rat) (freshs : List (List Rat))
    (rows : List (List Bool)) (h : expOnline c xs s0 freshs = some rows) (hl : s0.length = xs.length) :
    rows.length = freshs.length ∧ ∀ r ∈ rows, r.length = xs.length := by
  obtain ⟨h1, h2⟩ := runT_shape _ _ _ _ freshs rows h
  refine ⟨h1, fun r hr => ?_⟩
  rw [h2 r hr]; simp [expOnlineInit, hl]

/-- `zero_is_silent` (online): an element of rate 0 never fires, whatever is sampled later. -/
theorem expOnline_zero_is_silent (c : ExpCfg) (xs s0 : List Rat) (freshs : List (List Rat))
    (rows : List (List Bool)) (hdt : 0 < c.dt) (h : expOnline c xs s0 freshs = some rows)
    (hs0 : PosSamples s0) (i : Nat) (hx : xs[i]? = some 0) (t : Nat) (row : List Bool)
    (ht : rows[t]? = some row) (hi : i < s0.length) : row[i]? = some false := by
  have hget : (expOnlineInit c xs s0)[i]? = some { sc := .pinf, iv := .pinf } := by
    unfold expOnlineInit
    have hs : s0[i]? = some s0[i] := List.getElem?_eq_getElem hi
    rw [List.getElem?_zipWith, hx, hs]
    have hpos : 0 < s0[i] := hs0 _ (List.getElem_mem hi)
    simp [scale_zero c hdt, ExpCfg.interval, Ext.mulFin, Ext.addFin, hpos]
  refine runT_never_fires expAdv expFires (expRedraw c) (fun e => e.iv = .pinf) ?_ _ freshs rows h i _ hget rfl t row ht
  intro e he
  simp [expFires, expAdv, he, Ext.addFin, Ext.ltFin]

/-- `online_gap`: the online count-down obeys the same minimum gap, for every sample sequence
(induction over the steps; after a spike the redrawn interval is `≥ R`, and an interval `≥ r`
cannot drop below 1 within fewer than `⌊r⌋` decrements). -/
theorem expOnline_gap (c : ExpCfg) (xs s0 : List Rat) (freshs : List (List Rat))
    (rows : List (List Bool)) (hdt : 0 < c.dt)
    (hx : ∀ x ∈ xs, 0 ≤ x ∧ c.compat x = true)
    (hs : ∀ fr ∈ freshs, PosSamples fr)
    (h : expOnline c xs s0 freshs = some rows)
    (i t1 t2 : Nat) (r1 r2 : List Bool) (h1 : rows[t1]? = some r1) (h2 : rows[t2]? = some r2)
    (s1 : r1[i]? = some true) (s2 : r2[i]? = some true) (h12 : t1 < t2) :
    c.R.floor ≤ (t2 : Int) - (t1 : Int) := by
  refine expRun_gap c _ freshs rows h ?_ hs i t1 t2 r1 r2 h1 h2 s1 s2 h12
  intro j e hj
  obtain ⟨x, s, hxj, _, rfl⟩ := expOnlineInit_get c xs s0 j e hj
  obtain ⟨hx0, hxc⟩ := hx x (List.mem_of_getElem? hxj)
  exact scale_ge_of_compat c x hdt hx0 hxc

/-- `online_gap` for `refrac = R·dt`. -/
theorem expOnline_gap_multiple (c : ExpCfg) (k : Nat) (xs s0 : List Rat) (freshs : List (List Rat))
    (rows : List (List Bool)) (hdt : 0 < c.dt) (hr : c.refrac = some ((k : Rat) * c.dt))
    (hx : ∀ x ∈ xs, 0 ≤ x ∧ c.compat x = true) (hs : ∀ fr ∈ freshs, PosSamples fr)
    (h : expOnline c xs s0 freshs = some rows)
    (i t1 t2 : Nat) (r1 r2 : List Bool) (h1 : rows[t1]? = some r1) (h2 : rows[t2]? = some r2)
    (s1 : r1[i]? = some true) (s2 : r2[i]? = some true) (h12 : t1 < t2) : t1 + k ≤ t2 := by
  have := expOnline_gap c xs s0 freshs rows hdt hx hs h i t1 t2 r1 r2 h1 h2 s1 s2 h12
  have hfl : c.R.floor = (k : Int) := by
    rw [R_of_multiple c k hdt hr]; have := Rat.floor_intCast (k : Int); simpa using this
  omega

/-! ## Poisson-interval encoder (`poisson_interval`, `poisson_interval_online`) -/

/-- `shape_steps`: `steps + 2` scattered rows minus the first and the last. -/
theorem poisson_shape_steps (steps : Nat) (x : Rat) (ks : List Nat) :
    (poissonOffline steps x ks).length = steps := by
  simp only [poissonOffline, scatter_drop_dropLast]; simp

/-- `zero_is_silent`: a zero-rate element is not bumped, its (zero) samples keep every cumulative
time at 0, and row 0 is removed. -/
theorem poisson_zero_is_silent (steps : Nat) (ks : List Nat) (hk : ∀ k ∈ ks, k = 0) :
    ∀ b ∈ poissonOffline steps 0 ks, b = false := by
  intro b hb
  simp only [poissonOffline, scatter_drop_dropLast, List.mem_map, List.mem_range] at hb
  obtain ⟨t, _, rfl⟩ := hb
  simp only [decide_eq_false_iff_not, not_exists, not_and]
  intro T hT
  have hbump : ks.map (bump (decide ((0 : Rat) < 0))) = ks := by
    have : bump (decide ((0 : Rat) < 0)) = id := by funext k; simp [bump]
    rw [this, List.map_id]
  rw [hbump] at hT
  have := cumsumNat_zeros ks hk T hT
  subst this
  simp

/-- Faithfulness note (an observation, NOT a clause of C19): the offline Poisson-interval encoder
fires every non-silent element at the LAST step — `steps + 2` bumped intervals sum to more than
`steps`, `clamp_max(steps)` parks the overflow in row `steps`, and `res[1:-1]` keeps that row. -/
theorem poisson_last_step_fires (steps : Nat) (x : Rat) (ks : List Nat) (hx : 0 < x)
    (hs : 1 ≤ steps) (hl : ks.length = steps + 2) :
    (poissonOffline steps x ks)[steps - 1]? = some true := by
  have hne : ks.map (bump (decide (0 < x))) ≠ [] := by
    intro h; have := congrArg List.length h; simp [hl] at this
  have hge : ∀ k ∈ ks.map (bump (decide (0 < x))), 1 ≤ k := by
    intro k hk
    simp only [List.mem_map] at hk
    obtain ⟨k0, _, rfl⟩ := hk
    simp only [bump, hx, decide_true, Bool.true_and]
    split
    · omega
    · rename_i h; simp at h; omega
  obtain ⟨T, hT, hle⟩ := cumsumNat_last 0 _ hne hge
  simp only [List.length_map, hl] at hle
  simp only [poissonOffline, scatter_drop_dropLast]
  rw [List.getElem?_map, List.getElem?_range (by omega)]
  simp only [Option.map_some, Option.some.injEq, decide_eq_true_eq, List.mem_map]
  exact ⟨T, hT, by omega⟩

theorem poissonOnline_shape (xs : List Rat) (k0 : List Nat) (freshs : List (List Nat))
    (rows : List (List Bool)) (h : poissonOnline xs k0 freshs = some rows) (hl : k0.length = xs.length) :
    rows.length = freshs.length ∧ ∀ r ∈ rows, r.length = xs.length := by
  obtain ⟨h1, h2⟩ := runT_shape _ _ _ _ freshs rows h
  refine ⟨h1, fun r hr => ?_⟩
  rw [h2 r hr]; simp [poissonOnlineInit, hl]

/-- `zero_is_silent` (online): the spike test is masked by `inputs > 0`. -/
theorem poissonOnline_zero_is_silent (xs : List Rat) (k0 : List Nat) (freshs : List (List Nat))
    (rows : List (List Bool)) (h : poissonOnline xs k0 freshs = some rows)
    (i : Nat) (hx : xs[i]? = some 0) (hi : i < k0.length) (t : Nat) (row : List Bool)
    (ht : rows[t]? = some row) : row[i]? = some false := by
  have hget : (poissonOnlineInit xs k0)[i]? = some { mask := false, iv := (k0[i] : Int) } := by
    unfold poissonOnlineInit
    rw [List.getElem?_zipWith, hx, List.getElem?_eq_getElem hi]
    simp
  refine runT_never_fires poiAdv poiFires poiRedraw (fun e => e.mask = false) ?_ _ freshs rows h i _ hget rfl t row ht
  intro e he
  simp [poiFires, poiAdv, he]

/-! ## Bernoulli approximations -/

/-- the probability clamp: `p ∈ [0, 1]` for every non-negative rate -/
theorem prob_mem (dt x : Rat) (hdt : 0 < dt) (hx : 0 ≤ x) : 0 ≤ prob dt x ∧ prob dt x ≤ 1 := by
  unfold prob
  have : 0 ≤ x / 1000 * dt := by positivity
  constructor <;> (simp only; split <;> linarith)

theorem bernoulli_shape (dt : Rat) (xs : List Rat) (U : List (List Rat)) (hU : ∀ r ∈ U, r.length = xs.length) :
    (bernoulliT dt xs U).length = U.length ∧ ∀ r ∈ bernoulliT dt xs U, r.length = xs.length := by
  constructor
  · simp [bernoulliT]
  · intro r hr
    simp only [bernoulliT, List.mem_map] at hr
    obtain ⟨u, hu, rfl⟩ := hr
    simp [hU u hu]

/-- `zero_is_silent`: `u < 0` is false for every uniform sample `u ≥ 0`. -/
theorem bernoulli_zero_is_silent (dt : Rat) (xs : List Rat) (U : List (List Rat))
    (hU : ∀ r ∈ U, ∀ u ∈ r, (0 : Rat) ≤ u) (t i : Nat) (row : List Bool)
    (ht : (bernoulliT dt xs U)[t]? = some row) (hx : xs[i]? = some 0) : row[i]? ≠ some true := by
  simp only [bernoulliT, List.getElem?_map, Option.map_eq_some_iff] at ht
  obtain ⟨u, hu, rfl⟩ := ht
  rw [List.getElem?_zipWith, hx]
  cases hui : u[i]? with
  | none => simp
  | some v =>
    have hv : 0 ≤ v := hU u (List.mem_of_getElem? hu) v (List.mem_of_getElem? hui)
    simp [prob, not_lt.2 hv]

/-- an input at or above the clamp (`x·dt ≥ 1000`) fires at every step: `u < 1` -/
theorem bernoulli_saturated (dt x u : Rat) (h : 1000 ≤ x * dt) (hu : u < 1) :
    decide (u < prob dt x) = true := by
  have : 1 ≤ x / 1000 * dt := by
    rw [div_mul_eq_mul_div, le_div_iff₀ (by norm_num)]; linarith
  unfold prob
  simp only
  split
  · simp only [decide_eq_true_eq]; linarith
  · simpa using hu

/-! ## Float rounding does not shrink the gap

The theorems above are about exact arithmetic.  These two say why IEEE rounding (monotone, exact
on integers below 2^53) cannot shorten the refractory gap when `refrac = k·dt`: the floors of the
ROUNDED running sums are still `k` apart, and the ROUNDED count-down still needs `k` decrements. -/

/-- offline: rounded `cumsum` of intervals `≥ k` -/
theorem min_gap_rounded (rnd : Rat → Rat) (hmono : ∀ a b, a ≤ b → rnd a ≤ rnd b)
    (hint : ∀ n : Int, rnd (n : Rat) = (n : Rat)) (k : Nat) (l : List Rat)
    (hl : ∀ x ∈ l, (k : Rat) ≤ x) :
    (cumsumR rnd 0 l).Pairwise (fun a b => a.floor + (k : Int) ≤ b.floor) :=
  (cumsumR_floor_sep rnd hmono hint k 0 l hl).2

/-- online: a rounded decrement of an interval `≥ r` leaves it `≥ r − 1` -/
theorem online_gap_rounded (rnd : Rat → Rat) (hmono : ∀ a b, a ≤ b → rnd a ≤ rnd b)
    (hint : ∀ n : Int, rnd (n : Rat) = (n : Rat)) (r : Int) (iv : Rat) (h : (r : Rat) ≤ iv) :
    ((r - 1 : Int) : Rat) ≤ rnd (iv - 1) := rounded_decrement rnd hmono hint r iv h

/-- inhomogeneous Bernoulli encoder: silent exactly where its rate is 0 -/
theorem bernoulliInhom_zero_is_silent (dt : Rat) (X U : List (List Rat))
    (hU : ∀ r ∈ U, ∀ u ∈ r, (0 : Rat) ≤ u) (t i : Nat) (xs : List Rat) (out : List Bool)
    (ht : (bernoulliInhomT dt X U)[t]? = some out) (hX : X[t]? = some xs) (hx : xs[i]? = some 0) :
    out[i]? ≠ some true := by
  simp only [bernoulliInhomT, List.getElem?_zipWith, hX] at ht
  cases hu : U[t]? with
  | none => simp [hu] at ht
  | some u =>
    simp only [hu, Option.some.injEq] at ht
    subst ht
    rw [List.getElem?_zipWith, hx]
    cases hui : u[i]? with
    | none => simp
    | some v =>
      have hv : 0 ≤ v := hU u (List.mem_of_getElem? hu) v (List.mem_of_getElem? hui)
      simp [prob, not_lt.2 hv]

/-! ## `deterministic`: the model is a pure function of inputs and samples

Trivial in Lean (every definition is a function); stated so that the clause has a name.  The
code-side counterpart — re-running from a cloned generator state — is tested on every case. -/
theorem deterministic (c : ExpCfg) (x x' : Rat) (ss ss' : List Rat) (hx : x = x') (hs : ss = ss') :
    expOffline c x ss = expOffline c x' ss' := by rw [hx, hs]

theorem deterministic_online (c : ExpCfg) (xs xs' s0 s0' : List Rat) (fr fr' : List (List Rat))
    (h1 : xs = xs') (h2 : s0 = s0') (h3 : fr = fr') :
    expOnline c xs s0 fr = expOnline c xs' s0' fr' := by rw [h1, h2, h3]

/-! ## Encoder modules: every accepted configuration meets the hypotheses -/

/-- The constructor only returns configurations satisfying the invariant (D26). -/
theorem enc_ctor_inv (steps : Int) (dt freq : Rat) (refrac : Option Rat) (comp : Bool) (s : EncState)
    (h : encCtor steps dt freq refrac comp = some s) : EncInv s := encCtor_inv steps dt freq refrac comp s h

/-- Every setter sequence keeps it (D30 for `dt`); a rejected setter changes nothing. -/
theorem enc_reachable_inv (steps : Int) (dt freq : Rat) (refrac : Option Rat) (comp : Bool)
    (s : EncState) (h : encCtor steps dt freq refrac comp = some s) (ops : List CfgOp) :
    EncInv (encRun s ops) := encRun_inv s ops (encCtor_inv steps dt freq refrac comp s h)

/-- A rejected setter leaves every public attribute as it was (the hidden "refrac follows dt" flag
may be cleared by a rejected negative `refrac`: `encFail`). -/
theorem enc_rejected_unchanged (s : EncState) (op : CfgOp) (h : encSet s op = none) :
    (encStep s op).2 = false ∧ (encStep s op).1.steps = s.steps ∧ (encStep s op).1.dt = s.dt ∧
    (encStep s op).1.freq = s.freq ∧ (encStep s op).1.refrac = s.refrac ∧ (encStep s op).1.comp = s.comp := by
  simp only [encStep, h]
  cases op with
  | setRefrac r =>
    cases r with
    | none => simp [encFail]
    | some r => simp only [encFail]; split <;> simp
  | _ => simp [encFail]

theorem expCfg_R (s : EncState) : s.expCfg.R = s.refrac / s.dt := rfl

/-- A reachable module configuration is compatible with every intensity in `[0, 1]`. -/
theorem encoder_compat (s : EncState) (hi : EncInv s) (i : Rat) (hi0 : 0 ≤ i) (hi1 : i ≤ 1) :
    s.expCfg.compat (s.freq * i) = true := by
  by_cases hc : s.comp = true
  · have hdt : 0 < s.expCfg.dt := hi.dt_pos
    have hR : 0 ≤ s.expCfg.R := by rw [expCfg_R]; exact div_nonneg hi.refrac_nonneg (le_of_lt hi.dt_pos)
    apply compat_of_frequency_refrac s.expCfg s.freq i hdt hR hi.freq_nonneg hi0 hi1
    have : s.expCfg.R * s.expCfg.dt = s.refrac := by
      rw [expCfg_R]; show s.refrac / s.dt * s.dt = s.refrac
      field_simp [ne_of_gt hi.dt_pos]
    rw [this]; exact hi.compat hc
  · simp [ExpCfg.compat, EncState.expCfg, hc]

/-- The property for the module: after ANY constructor + setter history that ends with
`refrac = R·dt`, for every intensity in `[0,1]` and every sample sequence, two spikes of an element
are at least `R` steps apart. -/
theorem encoder_min_gap (steps : Int) (dt freq : Rat) (refrac : Option Rat) (comp : Bool)
    (s0 : EncState) (h0 : encCtor steps dt freq refrac comp = some s0) (ops : List CfgOp)
    (k : Nat) (hk : (encRun s0 ops).refrac = (k : Rat) * (encRun s0 ops).dt)
    (i : Rat) (hi0 : 0 ≤ i) (hi1 : i ≤ 1) (ss : List Rat) (hs : PosSamples ss) (out : List Bool)
    (h : expOffline (encRun s0 ops).expCfg ((encRun s0 ops).freq * i) ss = some out)
    (t1 t2 : Nat) (h1 : out[t1]? = some true) (h2 : out[t2]? = some true) (h12 : t1 < t2) :
    t1 + k ≤ t2 := by
  have hinv := enc_reachable_inv steps dt freq refrac comp s0 h0 ops
  exact exp_min_gap_multiple _ k _ ss out t1 t2 hinv.dt_pos (by simp [EncState.expCfg, hk])
    (mul_nonneg hinv.freq_nonneg hi0) (encoder_compat _ hinv i hi0 hi1) hs h h1 h2 h12

/-! ## Non-vacuity: concrete instances meeting the hypotheses -/

/-- 100 Hz maximum, dt = 1 ms, refrac = 3 ms with compensation: accepted (`100·3 < 1000`). -/
def exEnc : EncState := ⟨10, 1, 100, 3, false, true⟩
example : encCtor 10 1 100 (some 3) true = some exEnc := by decide +kernel
example : exEnc.expCfg.compat (100 * 1) = true := by decide +kernel
example : exEnc.expCfg.R = 3 := by decide +kernel
example : EncInv exEnc := enc_ctor_inv 10 1 100 (some 3) true exEnc (by decide +kernel)
/-- the audited hypothesis `frequency · refrac < 1000` is satisfiable: 100 Hz · 3 ms -/
example : (100 : Rat) * (exEnc.expCfg.R * exEnc.expCfg.dt) < 1000 := by decide +kernel
/-- … and necessary: at 400 Hz · 3 ms (negative interval scale, D26) the samples `4, 4, 1` put spikes at
steps 1 and 2, one step apart although `refrac = 3·dt`; online the element fires at every step. -/
example : (⟨10, 1, some 3, true⟩ : ExpCfg).compat 400 = false := by decide +kernel
example : expOffline ⟨10, 1, some 3, true⟩ 400 [4, 4, 1] =
    some [false, true, true, false, true, false, false, false, false, false] := by decide +kernel
example : expOnline ⟨3, 1, some 3, true⟩ [400] [4] [[4], [4], [4]] = some [[true], [true], [true]] := by
  decide +kernel
/-- 400 Hz × 3 ms is rejected by the constructor (D26) and by every setter path (D30 for `dt`). -/
example : encCtor 20 1 400 (some 3) true = none := by decide +kernel
example : encSet ⟨20, 1, 400, 2, false, true⟩ (.setRefrac (some 3)) = none := by decide +kernel
example : encSet ⟨20, 1, 400, 1, true, true⟩ (.setDt 3) = none := by decide +kernel
/-- samples `1/2, 1/4, 2, 1/8` at full intensity: times `3+7/2, …` — spikes at steps 6 and 9. -/
example : expOffline exEnc.expCfg 100 [1/2, 1/4, 2] =
    some [false, false, false, false, false, false, true, false, false, false] := by decide +kernel
example : PosSamples [1/2, 1/4, 2] := by intro s hs; simp at hs; rcases hs with rfl | rfl | rfl <;> norm_num
/-- a silent element next to an active one, online: first spike at step 5 (`6.5 − 6 < 1`), redraw
`1/7·7 + 3 = 4`, next spike 4 steps later (≥ R = 3) -/
example : expOnline exEnc.expCfg [0, 100] [1, 1/2] [[], [], [], [], [], [1/7], [], [], [], [1/4]] =
    some [[false, false], [false, false], [false, false], [false, false], [false, false], [false, true],
          [false, false], [false, false], [false, false], [false, true]] := by decide +kernel
/-- the Poisson-interval observation on a concrete instance -/
example : poissonOffline 4 10 [2, 0, 5, 1, 1, 1] = [false, true, true, true] := by decide +kernel

end InfernoVerif.Enc
