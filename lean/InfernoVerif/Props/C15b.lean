import InfernoVerif.Lemmas.Lifecycle2
import InfernoVerif.Props.C15
/-!
# C15 (continued) — the four statements `Props/C15.lean` left as comments

Property theorems about `Model/Lifecycle.lean`; helper lemmas are in `Lemmas/Lifecycle2.lean`.  Core Lean
only.  As in `Props/C15.lean`, every statement quantifies over EVERY layer topology, any number of trainers
of both kinds and EVERY finite operation list from the empty state.

* `listed_cells_registered` — every group of `named_monitors` belongs to a registered cell name.
* `layer_ok` — every monitor listed for a cell was constructed on (and registers with) that cell's layer
  (repaired rule D36; `cross_layer_alias_old_rule` is the negation witness for the old rule).
* `hook_count` — the number of forward hooks is the sum, over the trainers that are alive and in training
  mode, of the number of distinct monitors of their pools.
* `noAbort_of_single_registration` — the statement AS WRITTEN in `Props/C15.lean` ("no cell is the target
  of two `register_cell`" ⇒ no layer step raises) is FALSE for the model:
  `single_registration_not_enough_delMonitor`, `single_registration_not_enough_failing_add`.  It is proved
  with the additional hypothesis `benign` on every operation: no `del_monitor`, and no
  `add_monitor(unique=True)` that names an attribute the cell does not have.
-/
namespace InfernoVerif.Lifecycle

/-! ## Listings -/

/-- **listed_cells_registered**: after ANY finite history (either alias rule `f`), for every trainer `t`
(alive or dropped — the hypothesis `alive t` of the statement in `Props/C15.lean` is not needed), every
group of its pool (`named_monitors` lists exactly the entries of these groups: `listings_exact`) is keyed by
the name of a cell the trainer has registered (`cells` lists it). -/
theorem listed_cells_registered (topo : List (Nat × Nat × Nat)) (ops : List Op) (f : Bool) (t : Nat) :
    let s := exec (init topo f) ops
    ∀ g ∈ (s.trainers t).groups, (lookup (s.trainers t).cells g.1).isSome = true := by
  intro s g hg
  obtain ⟨c, hc⟩ := (exec_linv topo ops f t).keys g.1 ⟨g.2, hg⟩
  exact lookup_isSome_of_mem hc

/-- … and a registered cell name names exactly one cell, which exists in the topology. -/
theorem registered_cells_unique (topo : List (Nat × Nat × Nat)) (ops : List Op) (f : Bool) (t : Nat) :
    let s := exec (init topo f) ops
    (∀ n c c', (n, c) ∈ (s.trainers t).cells → (n, c') ∈ (s.trainers t).cells → c = c') ∧
    (∀ n c, (n, c) ∈ (s.trainers t).cells → c < topo.length) := by
  intro s
  have h := exec_linv topo ops f t
  refine ⟨h.cf, fun n c hc => ?_⟩
  have := h.range n c hc
  rwa [(static_exec ops (init topo f)).topo] at this

/-- **layer_ok** (repaired alias rule, D36): after ANY finite history from `init topo true`, for every live
trainer `t`, every cell name `n` it has registered (for cell `c`) and every entry `e` of the group listed
under `n`: the monitor object `e.2` was constructed on — and therefore registers its hook with — the layer
that owns cell `c`.  This is the invariant behind the S-field `L<layer>` of the correspondence check.
`cross_layer_alias_old_rule` shows that it fails for the rule before the repair (`init topo false`). -/
theorem layer_ok (topo : List (Nat × Nat × Nat)) (ops : List Op) (t n c : Nat) (g : List (Nat × Nat))
    (e : Nat × Nat) :
    let s := exec (init topo true) ops
    (s.trainers t).alive = true → lookup (s.trainers t).cells n = some c →
    lookup (s.trainers t).groups n = some g → e ∈ g → (s.mons e.2).layer = cellLayer s c := by
  intro s hal hc hg he
  exact (exec_linv topo ops true t).layer (reachable_layerFilter topo true ops).1 hal n c e.1 e.2
    (lookup_mem hc) ⟨g, lookup_mem hg, he⟩

/-! ## Hooks -/

/-- **hook_count**: after ANY finite history, the number of forward hooks registered with the layers equals
the sum, over the trainers that are alive and in training mode, of the number of DISTINCT monitor objects
held by their pools (`MonitorPool.monitors`); every live trainer has an index below `nTrainers`, so the
range of the sum covers them all.  (`no_dangling_handle` gives the two inclusions; here the hook list is shown
to be a permutation of the disjoint union of the pools.) -/
theorem hook_count (topo : List (Nat × Nat × Nat)) (ops : List Op) (f : Bool) :
    let s := exec (init topo f) ops
    s.post.length =
      (((List.range s.nTrainers).filter (fun t => (s.trainers t).alive && (s.trainers t).training)).map
        (fun t => (distinctMids (s.trainers t)).length)).sum ∧
    ∀ t, (s.trainers t).alive = true → t < s.nTrainers := by
  intro s
  have w : WF s := exec_wf topo ops f
  exact ⟨post_length_wf w, w.trainer_lt⟩

/-! ## A syntactic sufficient condition for `NoAbort` -/

/-- one cell, one eligibility-trace trainer -/
def topo1 : List (Nat × Nat × Nat) := [(0, 0, 0)]

/-- the cell is registered once; then `trace_pre` (name 2), which `elig_post` reads, is deleted -/
def delprog : List Op := [.newTrainer 1, .registerCell 0 0 0 0, .delMonitor 0 0 2, .layerStep 0]

/-- the cell is registered once; then `add_monitor("trace_pre", "nonexistent", unique=True)` drops the
existing monitor and raises -/
def badaddprog : List Op := [.newTrainer 1, .registerCell 0 0 0 0, .addMonitor 0 0 2 .bad true false 0, .layerStep 0]

/-- **single_registration_not_enough_delMonitor** (counterexample to the statement as written in
`Props/C15.lean`): no cell is the target of two `register_cell` operations, yet the layer step raises —
the user deleted a monitor that a MultiStateMonitor of the same registration reads. -/
theorem single_registration_not_enough_delMonitor :
    (delprog.filterMap regTarget).Nodup ∧ ¬ NoAbort (init topo1) delprog ∧
    (step (exec (init topo1) (delprog.take 3)) (.layerStep 0)).2 = .err .AttributeError := by
  refine ⟨by decide, ?_, by decide⟩
  simp only [NoAbort, delprog]; decide

/-- **single_registration_not_enough_failing_add** (second counterexample): a failing
`add_monitor(unique=True)` has already dropped the monitor it was to replace. -/
theorem single_registration_not_enough_failing_add :
    (badaddprog.filterMap regTarget).Nodup ∧ ¬ NoAbort (init topo1) badaddprog ∧
    (step (exec (init topo1) (badaddprog.take 3)) (.layerStep 0)).2 = .err .AttributeError := by
  refine ⟨by decide, ?_, by decide⟩
  simp only [NoAbort, badaddprog]; decide

/-- **noAbort_of_single_registration** (strongest variant that holds; either alias rule `f`): if
* no cell index is the target of two `register_cell` operations of `ops` (by whichever trainers / names;
  `regTarget`), and
* `ops` contains no `del_monitor` and no `add_monitor(unique=True)` naming an attribute the cell does not
  have (`benign`; ADDED hypothesis — without it the statement is false:
  `single_registration_not_enough_delMonitor`, `single_registration_not_enough_failing_add`),
then no layer step of the history raises — the hypothesis `NoAbort` of `one_obs_per_training_step`.
With one registration per cell, `cell.monitors[name]` is always the entry of that registration's group, and
every MultiStateMonitor sits in the group that also lists what it reads.  `second_trainer_breaks_layer_step`
shows that the first condition cannot be dropped (D18). -/
theorem noAbort_of_single_registration (topo : List (Nat × Nat × Nat)) (ops : List Op) (f : Bool)
    (hsingle : (ops.filterMap regTarget).Nodup) (hbenign : ∀ op ∈ ops, benign op = true) :
    NoAbort (init topo f) ops := by
  have key : ∀ (ops : List Op) (s : State), Good s ops → NoAbort s ops := by
    intro ops
    induction ops with
    | nil => intro _ _; trivial
    | cons op ops ih =>
      intro s g
      refine ⟨?_, ih _ g.step⟩
      cases op <;> first | rfl | (simp only [stepOk, decide_eq_true_eq]; exact g.layerStep_ok _)
  exact key ops _ (good_init topo f ops hbenign hsingle)

/-- … hence the conclusion of `one_obs_per_training_step` under the syntactic condition alone. -/
theorem one_obs_of_single_registration (topo : List (Nat × Nat × Nat)) (ops : List Op) (f : Bool)
    (hsingle : (ops.filterMap regTarget).Nodup) (hbenign : ∀ op ∈ ops, benign op = true) :
    let s := exec (init topo f) ops
    ∀ t, (s.trainers t).alive = true → ∀ e ∈ namedMonitors (s.trainers t),
      (s.mons e.2).alive = true ∧ (s.mons e.2).owner = t ∧
      ((s.mons e.2).handle.isSome = (s.trainers t).training) ∧
      (s.mons e.2).count = (s.mons e.2).expected :=
  one_obs_per_training_step topo ops f (noAbort_of_single_registration topo ops f hsingle hbenign)

/-! ## Non-vacuity: concrete programs meeting the hypotheses -/

-- listed_cells_registered: two groups, both keyed by registered names
example : (((exec (init topo2) shared).trainers 0).groups.map (·.1), ((exec (init topo2) shared).trainers 0).cells)
    = ([0, 1], [(0, 0), (1, 1)]) := by decide
-- … also after a cell was deleted and another name registered
example : (((exec (init topo2) (shared ++ [.delCell 0 0, .registerCell 0 5 0 1])).trainers 0).groups.map (·.1),
    ((exec (init topo2) (shared ++ [.delCell 0 0, .registerCell 0 5 0 1])).trainers 0).cells)
    = ([1, 5], [(1, 1), (5, 0)]) := by decide

-- layer_ok: the hypotheses hold for cell name 1 (cell 1, layer 1) of `xlprog`, whose monitors are 4–7
example : ((exec (init topoXL true) xlprog).trainers 0).alive = true ∧
    lookup ((exec (init topoXL true) xlprog).trainers 0).cells 1 = some 1 ∧
    lookup ((exec (init topoXL true) xlprog).trainers 0).groups 1 = some [(0, 4), (1, 5), (2, 6), (3, 7)] ∧
    ((exec (init topoXL true) xlprog).mons 4).layer = 1 ∧ cellLayer (exec (init topoXL true) xlprog) 1 = 1 := by
  decide

/-- two trainers on the shared-neuron topology: trainer 0 (training) pools six monitors over two cells,
trainer 1 (eligibility traces, switched to evaluation mode) holds six that are not registered -/
def twoTrainers : List Op :=
  [.newTrainer 0, .newTrainer 1, .registerCell 0 0 0 0, .registerCell 0 1 1 0, .registerCell 1 0 0 0,
   .trainerTrain 1 false]

-- hook_count: both sides are 6 (trainer 0 only); 12 once trainer 1 trains again
example : (exec (init topo2) twoTrainers).post.length = 6 ∧
    (((List.range (exec (init topo2) twoTrainers).nTrainers).filter (fun t =>
        ((exec (init topo2) twoTrainers).trainers t).alive && ((exec (init topo2) twoTrainers).trainers t).training)).map
      (fun t => (distinctMids ((exec (init topo2) twoTrainers).trainers t)).length)).sum = 6 := by decide
example : (exec (init topo2) (twoTrainers ++ [.trainerTrain 1 true])).post.length = 12 := by decide

/-- an eligibility-trace trainer and a plain one, each cell registered once; monitors added, a cell deleted,
mode switches, a trainer dropped, layer steps in between -/
def okprog : List Op :=
  [.newTrainer 1, .newTrainer 0, .registerCell 0 0 0 0, .layerStep 0, .registerCell 1 7 1 1,
   .addMonitor 0 0 2 (.conn 0) true false 3, .layerStep 0, .addMonitor 0 0 9 .bad false false 0,
   .trainerTrain 0 false, .layerStep 0, .trainerTrain 0 true, .delCell 1 7, .layerStep 0, .collect 0, .layerStep 0]

-- noAbort_of_single_registration: `okprog` meets both hypotheses (and contains layer steps that run hooks)
example : (okprog.filterMap regTarget).Nodup ∧ (∀ op ∈ okprog, benign op = true) := by decide
example : ((exec (init topo2) (okprog.take 7)).mons 4).count = 2 := by decide
example : (layerHooks (exec (init topo2) (okprog.take 6)) 0).length = 10 := by decide

end InfernoVerif.Lifecycle
