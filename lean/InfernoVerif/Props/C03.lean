import InfernoVerif.Lemmas.Neuron
/-!
# C03 — Neuron step contract: threshold, reset, absolute refractory period, spike flag

The theorems are about the GENERATED definitions (`Gen/NeuronDynamicsR.lean`,
`Gen/NeuronAdaptationR.lean`, regenerated from /repo on every run): `Lemmas/Neuron.lean` shows the
two generated thresholding functions are instances of `thresholdG` (`gen_constant_eq`,
`gen_linear_eq`) and proves the single-step contract; here are the trajectory theorems (for EVERY
input sequence, threshold sequence — hence adaptive thresholds — and voltage dynamics
`dyn : voltage → masked input → voltage` — hence all eight neuron classes), the adaptation and
integration-kernel facts, and non-vacuity examples.
-/
namespace InfernoVerif.Neuron
open InfernoVerif.Gen.NeuronDynamicsR InfernoVerif.Gen.NeuronAdaptationR
open Classical

/-- State (voltage, remaining refractory time) BEFORE step `n` of a neuron driven by the input
sequence `I` with (possibly time-varying, e.g. adaptive) threshold `θ`. -/
noncomputable def traj (ρ : ℝ → ℝ) (dt rt : ℝ) (dyn : ℝ → ℝ → ℝ) (lock : Bool) (θ I : ℕ → ℝ) (v0 r0 : ℝ) :
    ℕ → ℝ × ℝ
  | 0 => (v0, r0)
  | n + 1 =>
    let s := traj ρ dt rt dyn lock θ I v0 r0 n
    let o := stepG ρ dt rt dyn lock (θ n) s.1 s.2 (I n)
    (o.2.1, o.2.2)

/-- The spike output of step `n`. -/
noncomputable def spikeAt (ρ : ℝ → ℝ) (dt rt : ℝ) (dyn : ℝ → ℝ → ℝ) (lock : Bool) (θ I : ℕ → ℝ) (v0 r0 : ℝ) (n : ℕ) : Prop :=
  (stepG ρ dt rt dyn lock (θ n) (traj ρ dt rt dyn lock θ I v0 r0 n).1
    (traj ρ dt rt dyn lock θ I v0 r0 n).2 (I n)).1

theorem traj_refrac_inv (ρ : ℝ → ℝ) (dt rt : ℝ) (dyn : ℝ → ℝ → ℝ) (lock : Bool) (θ I : ℕ → ℝ) (v0 r0 : ℝ)
    (hdt : 0 < dt) (hrt : 0 ≤ rt) (h0 : 0 ≤ r0) (h1 : r0 ≤ rt) (n : ℕ) :
    0 ≤ (traj ρ dt rt dyn lock θ I v0 r0 n).2 ∧ (traj ρ dt rt dyn lock θ I v0 r0 n).2 ≤ rt := by
  induction n with
  | zero => exact ⟨h0, h1⟩
  | succ n ih => exact stepG_refrac_inv ρ dt rt dyn lock _ _ _ _ hdt hrt ih.1 ih.2

/-- Absolute refractory period: a neuron that spikes at step `t` is silent at steps
`t+1 … t+k` for every `k` with `k·dt < refrac_t`; its refractory time is `refrac_t − k·dt` after
step `t+k`, and with voltage locking its voltage stays at the reset voltage — for EVERY input
sequence, threshold sequence and voltage dynamics. -/
theorem refractory_window (ρ : ℝ → ℝ) (dt rt : ℝ) (dyn : ℝ → ℝ → ℝ) (lock : Bool) (θ I : ℕ → ℝ) (v0 r0 : ℝ)
    (hdt : 0 < dt) (t : ℕ) (hs : spikeAt ρ dt rt dyn lock θ I v0 r0 t) (k : ℕ) (hk : (k : ℝ) * dt < rt) :
    (traj ρ dt rt dyn lock θ I v0 r0 (t + 1 + k)).2 = rt - k * dt ∧
    (lock = true → (traj ρ dt rt dyn lock θ I v0 r0 (t + 1 + k)).1 = (traj ρ dt rt dyn lock θ I v0 r0 (t + 1)).1) ∧
    (1 ≤ k → ¬ spikeAt ρ dt rt dyn lock θ I v0 r0 (t + k)) := by
  induction k with
  | zero =>
    have := stepG_spike_resets ρ dt rt dyn lock (θ t) _ _ (I t) hs
    refine ⟨?_, ?_, by omega⟩
    · simp only [Nat.add_zero, traj]; rw [this.2]; simp
    · intro _; rfl
  | succ k ih =>
    have hk' : (k : ℝ) * dt < rt := by
      have : ((k + 1 : ℕ) : ℝ) * dt = k * dt + dt := by push_cast; ring
      linarith
    obtain ⟨ihr, ihv, _⟩ := ih hk'
    have hpos : 0 < (traj ρ dt rt dyn lock θ I v0 r0 (t + 1 + k)).2 - dt := by
      rw [ihr]
      have : ((k + 1 : ℕ) : ℝ) * dt = k * dt + dt := by push_cast; ring
      linarith
    have hsil := stepG_refractory_silent ρ dt rt dyn lock (θ (t + 1 + k))
      (traj ρ dt rt dyn lock θ I v0 r0 (t + 1 + k)).1 _ (I (t + 1 + k)) hpos
    have e : t + 1 + (k + 1) = (t + 1 + k) + 1 := by omega
    refine ⟨?_, ?_, ?_⟩
    · rw [e]; simp only [traj]
      rw [stepG_nospike_refrac _ _ _ _ _ _ _ _ _ hsil, max_eq_left (le_of_lt hpos), ihr]
      push_cast; ring
    · intro hl
      subst hl
      rw [e]; simp only [traj]
      rw [stepG_locked_voltage_frozen _ _ _ _ _ _ _ _ hpos]
      exact ihv rfl
    · intro _
      have e2 : t + (k + 1) = t + 1 + k := by omega
      unfold spikeAt; rw [e2]; exact hsil

/-- The window in the property's wording: `k < max 1 ⌈refrac_t / dt⌉` (for `k ≥ 1`) is
`k·dt < refrac_t`. -/
theorem window_iff (dt rt : ℝ) (hdt : 0 < dt) (k : ℕ) (hk : 1 ≤ k) :
    k < max 1 ⌈rt / dt⌉₊ ↔ (k : ℝ) * dt < rt := by
  have h1 : k < max 1 ⌈rt / dt⌉₊ ↔ k < ⌈rt / dt⌉₊ := by
    constructor
    · intro h; rcases lt_max_iff.mp h with h | h
      · omega
      · exact h
    · intro h; exact lt_max_iff.mpr (Or.inr h)
  rw [h1, Nat.lt_ceil, lt_div_iff₀ hdt]

/-- The property's clause verbatim: a neuron that spikes at step `t` does not spike again
before step `t + max(1, ⌈refrac_t / dt⌉)`. -/
theorem no_spike_before_window_end (ρ : ℝ → ℝ) (dt rt : ℝ) (dyn : ℝ → ℝ → ℝ) (lock : Bool) (θ I : ℕ → ℝ) (v0 r0 : ℝ)
    (hdt : 0 < dt) (t : ℕ) (hs : spikeAt ρ dt rt dyn lock θ I v0 r0 t)
    (k : ℕ) (h1 : 1 ≤ k) (hk : k < max 1 ⌈rt / dt⌉₊) :
    ¬ spikeAt ρ dt rt dyn lock θ I v0 r0 (t + k) :=
  (refractory_window ρ dt rt dyn lock θ I v0 r0 hdt t hs k ((window_iff dt rt hdt k h1).mp hk)).2.2 h1


/-- …and with voltage locking the voltage does not change during the window (it stays at the
post-spike reset voltage `ρ (…)`, which is `reset_v` for the constant-reset classes). -/
theorem voltage_frozen_in_window (ρ : ℝ → ℝ) (dt rt : ℝ) (dyn : ℝ → ℝ → ℝ) (θ I : ℕ → ℝ) (v0 r0 : ℝ)
    (hdt : 0 < dt) (t : ℕ) (hs : spikeAt ρ dt rt dyn true θ I v0 r0 t) (k : ℕ) (hk : (k : ℝ) * dt < rt) :
    (traj ρ dt rt dyn true θ I v0 r0 (t + 1 + k)).1 = ρ (dyn (traj ρ dt rt dyn true θ I v0 r0 t).1 (I t)) := by
  rw [(refractory_window ρ dt rt dyn true θ I v0 r0 hdt t hs k hk).2.1 rfl]
  simp only [traj]
  exact (stepG_spike_resets ρ dt rt dyn true (θ t) _ _ (I t) hs).1

/-! ## The contract for the generated functions themselves -/

/-- `voltage_thresholding_constant` (LIF, ALIF, GLIF1, QIF, Izhikevich, EIF, AdEx): spike iff out of
the refractory period and the integrated voltage reaches threshold; a spike resets voltage to
`reset_v` and refractory time to `refrac_t` in the same step. -/
theorem constant_contract (I r v dt reset θ rt : ℝ) (dyn : ℝ → ℝ → ℝ) (lock : Bool) :
    let o := voltage_thresholding_constant I r (dyn v) (if lock then some v else none) dt reset θ rt
    (o.1 ↔ (max (r - dt) 0 = 0 ∧ dyn v I ≥ θ)) ∧ (o.1 → o.2.1 = reset ∧ o.2.2 = rt) ∧
    (¬ o.1 → o.2.2 = max (r - dt) 0) := by
  rw [gen_constant_eq]
  exact ⟨stepG_spike_iff _ dt rt dyn lock θ v r I, stepG_spike_resets _ dt rt dyn lock θ v r I,
    stepG_nospike_refrac _ dt rt dyn lock θ v r I⟩

/-- `voltage_thresholding_linear` (GLIF2): same, with the documented linear reset. -/
theorem linear_contract (I r v dt rest slope icpt θ rt : ℝ) (dyn : ℝ → ℝ → ℝ) (lock : Bool) :
    let o := voltage_thresholding_linear I r (dyn v) (if lock then some v else none) dt rest slope icpt θ rt
    (o.1 ↔ (max (r - dt) 0 = 0 ∧ dyn v I ≥ θ)) ∧
    (o.1 → o.2.1 = rest + slope * (dyn v I - rest) - icpt ∧ o.2.2 = rt) ∧
    (¬ o.1 → o.2.2 = max (r - dt) 0) := by
  rw [gen_linear_eq]
  exact ⟨stepG_spike_iff _ dt rt dyn lock θ v r I, stepG_spike_resets _ dt rt dyn lock θ v r I,
    stepG_nospike_refrac _ dt rt dyn lock θ v r I⟩

/-- The remaining refractory time is never negative and never exceeds `refrac_t`, along every
trajectory from a cleared neuron (`r0 = 0`). -/
theorem refrac_never_negative (ρ : ℝ → ℝ) (dt rt : ℝ) (dyn : ℝ → ℝ → ℝ) (lock : Bool) (θ I : ℕ → ℝ) (v0 : ℝ)
    (hdt : 0 < dt) (hrt : 0 ≤ rt) (n : ℕ) :
    0 ≤ (traj ρ dt rt dyn lock θ I v0 0 n).2 ∧ (traj ρ dt rt dyn lock θ I v0 0 n).2 ≤ rt :=
  traj_refrac_inv ρ dt rt dyn lock θ I v0 0 hdt hrt (le_refl _) hrt n

/-- Spike attribute (`refrac == refrac_t`) equals the last step's output along every trajectory —
PARTIAL: `refrac_t > 0`.  FULL STATEMENT (false for `refrac_t = 0`, known finding D4, witness
`spike_attr_refrac0_counterexample` in `Lemmas/Neuron.lean`): the same without `0 < rt`. -/
theorem spike_attr_eq_output_partial (ρ : ℝ → ℝ) (dt rt : ℝ) (dyn : ℝ → ℝ → ℝ) (lock : Bool) (θ I : ℕ → ℝ) (v0 : ℝ)
    (hdt : 0 < dt) (hrt : 0 < rt) (n : ℕ) :
    ((traj ρ dt rt dyn lock θ I v0 0 (n + 1)).2 = rt) ↔ spikeAt ρ dt rt dyn lock θ I v0 0 n := by
  have inv := traj_refrac_inv ρ dt rt dyn lock θ I v0 0 hdt (le_of_lt hrt) (le_refl _) (le_of_lt hrt) n
  simp only [traj, spikeAt]
  exact stepG_spike_attr_partial ρ dt rt dyn lock (θ n) _ _ (I n) hdt hrt inv.2

/-! ## Adaptation updates are frozen during the refractory period; they act per element -/

theorem adaptive_thresholds_spike_frozen (a tc inc : List ℝ) (dt r : ℝ) (hr : 0 < r) (hl : inc.length = a.length) :
    adaptive_thresholds_linear_spike a False dt tc inc (some r) = a := by
  unfold adaptive_thresholds_linear_spike
  simp only [hr, if_true, if_false]
  induction a generalizing inc with
  | nil => simp
  | cons x xs ih =>
    cases inc with
    | nil => simp at hl
    | cons y ys => simp at hl ⊢; have := ih ys hl; simpa using this

theorem adaptive_currents_frozen (a tc vc inc : List ℝ) (v dt rest r : ℝ) (hr : 0 < r) (hl : inc.length = a.length) :
    adaptive_currents_linear a v False dt rest tc vc inc (some r) = a := by
  unfold adaptive_currents_linear
  simp only [hr, if_true, if_false]
  induction a generalizing inc with
  | nil => simp
  | cons x xs ih =>
    cases inc with
    | nil => simp at hl
    | cons y ys => simp at hl ⊢; have := ih ys hl; simpa using this

theorem adaptive_thresholds_voltage_frozen (a ar rr : List ℝ) (v dt rest r : ℝ) (hr : 0 < r) :
    adaptive_thresholds_linear_voltage a v dt rest ar rr none none (some r) = a := by
  unfold adaptive_thresholds_linear_voltage
  simp [hr]

/-! ## The integration kernels are the documented update equations -/

/-- LIF/ALIF/GLIF: exact solution of `τ dV/dt = −(V − V_rest) + R I` over one step. -/
theorem linear_kernel_closed_form (I v dt τ rest R : ℝ) :
    voltage_integration_linear I v dt τ rest R
      = (rest + R * I) + (v - (rest + R * I)) * Real.exp (-dt / τ) := by
  unfold voltage_integration_linear; ring

/-- QIF/Izhikevich: one explicit Euler step of `τ dV/dt = a (V − V_rest)(V − V_crit) + R I`. -/
theorem quadratic_kernel_euler (I v dt rest crit a τ R : ℝ) :
    voltage_integration_quadratic I v dt rest crit a τ R
      = v + (dt / τ) * (a * (v - rest) * (v - crit) + R * I) := by
  unfold voltage_integration_quadratic; ring

/-- EIF/AdEx: one explicit Euler step of `τ dV/dt = −(V − V_rest) + Δ exp((V − V_T)/Δ) + R I`. -/
theorem exponential_kernel_euler (I v dt rest vT Δ τ R : ℝ) :
    voltage_integration_exponential I v dt rest vT Δ τ R
      = v + (dt / τ) * (-(v - rest) + Δ * Real.exp ((v - vT) / Δ) + R * I) := by
  unfold voltage_integration_exponential; ring

/-! ## Non-vacuity -/

/-- a neuron one step after a spike with `refrac_t = 2.5·dt`: hypotheses of `refractory_window`
are satisfiable for k = 1, 2 (and the window has `max 1 ⌈2.5⌉ = 3` steps). -/
example : ((1:ℕ):ℝ) * 1 < 2.5 ∧ ((2:ℕ):ℝ) * 1 < 2.5 ∧ ¬ (((3:ℕ):ℝ) * 1 < 2.5) := by norm_num
example : (stepG (fun _ => (-65:ℝ)) 1 2.5 (fun v I => v + I) true (-50) (-60) 0 20).1 := by
  rw [stepG_spike_iff]; norm_num

end InfernoVerif.Neuron
