import InfernoVerif.Props.C07
import InfernoVerif.Gen.ReducerSitesR
/-!
# Glue: what each reducer class supplies to the fold machine IS what its methods say in /repo's source

`Gen/ReducerSitesR.lean` is regenerated on every run from the bodies of `fold` and `interpolate` and
from the two assignments `self.decay = …` (constructor and `dt` setter) of the twelve reducer classes
in `inferno/observe/reducers/{trace,general,stats}.py` (site extraction; calls into
`core/trace.py`, `functional/interpolation.py`, `core/math.py` resolve to the definitions GENERATED
from those files).  The theorems below state that the `Kind` records the C07 theorems are about
(`Model/Reducer.lean :: traceKind, eventKind, passKind, emaKind, caKind`, instantiated over ℝ as in
`Props/C07.lean`) have exactly those folds, interpolations and decay updates: which trace function a
class calls and with which attributes, which interpolation kernel it uses, how the decay follows the
step time.  A class wired to the wrong trace function, a swapped `amplitude` / `scale`, an interpolation
kernel exchanged, or a decay computed from the rate instead of the time constant changes the generated
text and the corresponding theorem stops checking.
-/
namespace InfernoVerif.Trace.Glue
open InfernoVerif.Trace InfernoVerif.Reducer InfernoVerif.Gen
open InfernoVerif.Gen.TraceR InfernoVerif.Gen.InterpolationR InfernoVerif.Gen.SmoothingR
open Classical

variable (τ A target scale : ℝ) (tol : Option ℝ) (E : Env) (p : Params ℝ) (dt ob : ℝ) (prev : Option ℝ)

/-! ### trace reducers: fold = the class's trace function on `(obs, state, decay, …)` -/

theorem gen_NearestTraceReducer_fold :
    (traceKindR (fun o s d => trace_nearest o s d A target tol) τ E).fold p dt ob prev
      = ReducerSitesR.NearestTraceReducer_fold ob prev p.decay A target tol := rfl
theorem gen_CumulativeTraceReducer_fold :
    (traceKindR (fun o s d => trace_cumulative o s d A target tol) τ E).fold p dt ob prev
      = ReducerSitesR.CumulativeTraceReducer_fold ob prev p.decay A target tol := rfl
theorem gen_ScaledNearestTraceReducer_fold (J : ℝ → Prop) :
    (traceKindR (fun o s d => trace_nearest_scaled o s d A scale J) τ E).fold p dt ob prev
      = ReducerSitesR.ScaledNearestTraceReducer_fold ob prev p.decay A scale J := rfl
theorem gen_ScaledCumulativeTraceReducer_fold (J : ℝ → Prop) :
    (traceKindR (fun o s d => trace_cumulative_scaled o s d A scale J) τ E).fold p dt ob prev
      = ReducerSitesR.ScaledCumulativeTraceReducer_fold ob prev p.decay A scale J := rfl
/-- conditional reducers: the criterion is the second input, constant in the observation -/
theorem gen_ConditionalNearestTraceReducer_fold (oc : ℝ × Prop) :
    (traceKindR (fun (oc : ℝ × Prop) s d => trace_nearest_scaled oc.1 s d A scale (fun _ => oc.2)) τ E).fold p dt oc prev
      = ReducerSitesR.ConditionalNearestTraceReducer_fold oc.1 prev p.decay A scale (fun _ => oc.2) := rfl
theorem gen_ConditionalCumulativeTraceReducer_fold (oc : ℝ × Prop) :
    (traceKindR (fun (oc : ℝ × Prop) s d => trace_cumulative_scaled oc.1 s d A scale (fun _ => oc.2)) τ E).fold p dt oc prev
      = ReducerSitesR.ConditionalCumulativeTraceReducer_fold oc.1 prev p.decay A scale (fun _ => oc.2) := rfl

/-! ### trace reducers: interpolation and decay (the same for all six classes) -/

theorem gen_trace_interpolate {ω : Type} (trace : ω → Option ℝ → ℝ → ℝ) (a b sa st : ℝ) :
    (traceKindR trace τ E).interp a b sa st = ReducerSitesR.NearestTraceReducer_interpolate a b sa st τ ∧
    (traceKindR trace τ E).interp a b sa st = ReducerSitesR.CumulativeTraceReducer_interpolate a b sa st τ ∧
    (traceKindR trace τ E).interp a b sa st = ReducerSitesR.ScaledNearestTraceReducer_interpolate a b sa st τ ∧
    (traceKindR trace τ E).interp a b sa st = ReducerSitesR.ScaledCumulativeTraceReducer_interpolate a b sa st τ ∧
    (traceKindR trace τ E).interp a b sa st = ReducerSitesR.ConditionalNearestTraceReducer_interpolate a b sa st τ ∧
    (traceKindR trace τ E).interp a b sa st = ReducerSitesR.ConditionalCumulativeTraceReducer_interpolate a b sa st τ :=
  ⟨rfl, rfl, rfl, rfl, rfl, rfl⟩

/-- `reducer.dt = v` recomputes `decay = exp(-dt / time_constant)`; the constructor computes the same -/
theorem gen_trace_decay {ω : Type} (trace : ω → Option ℝ → ℝ → ℝ) (v : ℝ) :
    ((traceKindR trace τ E).onDt p v).decay = ReducerSitesR.NearestTraceReducer_decay_dt v τ ∧
    ReducerSitesR.NearestTraceReducer_decay_init v τ = ReducerSitesR.NearestTraceReducer_decay_dt v τ ∧
    ReducerSitesR.CumulativeTraceReducer_decay_dt v τ = ReducerSitesR.NearestTraceReducer_decay_dt v τ ∧
    ReducerSitesR.CumulativeTraceReducer_decay_init v τ = ReducerSitesR.NearestTraceReducer_decay_dt v τ ∧
    ReducerSitesR.ScaledNearestTraceReducer_decay_dt v τ = ReducerSitesR.NearestTraceReducer_decay_dt v τ ∧
    ReducerSitesR.ScaledNearestTraceReducer_decay_init v τ = ReducerSitesR.NearestTraceReducer_decay_dt v τ ∧
    ReducerSitesR.ScaledCumulativeTraceReducer_decay_dt v τ = ReducerSitesR.NearestTraceReducer_decay_dt v τ ∧
    ReducerSitesR.ScaledCumulativeTraceReducer_decay_init v τ = ReducerSitesR.NearestTraceReducer_decay_dt v τ ∧
    ReducerSitesR.ConditionalNearestTraceReducer_decay_dt v τ = ReducerSitesR.NearestTraceReducer_decay_dt v τ ∧
    ReducerSitesR.ConditionalNearestTraceReducer_decay_init v τ = ReducerSitesR.NearestTraceReducer_decay_dt v τ ∧
    ReducerSitesR.ConditionalCumulativeTraceReducer_decay_dt v τ = ReducerSitesR.NearestTraceReducer_decay_dt v τ ∧
    ReducerSitesR.ConditionalCumulativeTraceReducer_decay_init v τ = ReducerSitesR.NearestTraceReducer_decay_dt v τ :=
  ⟨rfl, rfl, rfl, rfl, rfl, rfl, rfl, rfl, rfl, rfl, rfl, rfl⟩

/-! ### event, pass-through, EMA and cumulative-average reducers -/

/-- `EventReducer.fold`: `where(criterion(obs), 0, initial)` first, `where(criterion(obs), 0, state + dt)` after -/
theorem gen_EventReducer_fold (crit : ℝ → Bool) (initial : ℝ) :
    (eventKind crit initial 0 E.1 E.2).fold p dt ob prev
      = ReducerSitesR.EventReducer_fold ob prev (fun o => crit o = true) initial dt := by
  cases prev <;> simp [eventKind, eventFold, ReducerSitesR.EventReducer_fold]

theorem gen_EventReducer_interpolate (crit : ℝ → Bool) (initial a b sa st : ℝ) :
    (eventKind crit initial 0 E.1 E.2).interp a b sa st = ReducerSitesR.EventReducer_interpolate a b sa st := rfl

theorem gen_PassthroughReducer :
    (passKind interp_previous 0 E.1 E.2).fold p dt ob prev = ReducerSitesR.PassthroughReducer_fold ob prev ∧
    ∀ a b sa st, (passKind interp_previous 0 E.1 E.2).interp a b sa st
      = ReducerSitesR.PassthroughReducer_interpolate a b sa st := ⟨rfl, fun _ _ _ _ => rfl⟩

theorem gen_EMAReducer (alpha : ℝ) :
    (emaKind exponential_smoothing interp_linear alpha 0 E.1 E.2).fold p dt ob prev
      = ReducerSitesR.EMAReducer_fold ob prev alpha ∧
    ∀ a b sa st, (emaKind exponential_smoothing interp_linear alpha 0 E.1 E.2).interp a b sa st
      = ReducerSitesR.EMAReducer_interpolate a b sa st := ⟨rfl, fun _ _ _ _ => rfl⟩

/-- `CAReducer.fold` (after `self._count += 1`, modelled by `Kind.pre`): first observation stored as is,
afterwards `state + (obs - state) / count` -/
theorem gen_CAReducer (state : ℝ) :
    (caKind interp_linear (fun k : ℕ => (k : ℝ)) 0 E.1 E.2).fold p dt ob none
      = ReducerSitesR.CAReducer_fold_first ob ∧
    (caKind interp_linear (fun k : ℕ => (k : ℝ)) 0 E.1 E.2).fold p dt ob (some state)
      = ReducerSitesR.CAReducer_fold_next ob state (p.count : ℝ) ∧
    ∀ a b sa st, (caKind interp_linear (fun k : ℕ => (k : ℝ)) 0 E.1 E.2).interp a b sa st
      = ReducerSitesR.CAReducer_interpolate a b sa st := ⟨rfl, rfl, fun _ _ _ _ => rfl⟩

end InfernoVerif.Trace.Glue
