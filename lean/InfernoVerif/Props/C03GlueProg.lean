import InfernoVerif.Gen.NeuronProg
import InfernoVerif.Model.NeuronF
/-!
# Glue: the class wiring executed by the C03 driver IS the `forward` / `clear` / property code of the neuron classes

`Gen/NeuronProg.lean` is regenerated on every run by `harness/progtx_neuron.py` from the *whole bodies* of `forward`,
`clear`, `_integrate_v` of `LIF`, `ALIF`, `GLIF1`, `GLIF2` (`inferno/neural/neurons/linear.py`), `QIF`, `Izhikevich`,
`EIF`, `AdEx` (`neurons/nonlinear.py`) and of the members of the state mixins (`neurons/mixins.py`: `voltage`, `refrac`,
`threshold_adaptation`, `current_adaptation` getters and setters, `spike`), as programs over the object `Neuron` of
`Gen/NeuronPrelude.lean`; the element-wise kernels they call are the generated `Gen/NeuronDynamicsF.lean` /
`Gen/NeuronAdaptationF.lean` that `Model/NeuronF.lean` is written with too.  `Props/C03GlueF.lean` ties the call SITES
(one expression each); this file ties the REST of each body: the order of the statements (adapted threshold / adapted
input computed before thresholding, from the state BEFORE the step), the write-back of voltage and refractory time
through the property setters, the condition `adapt or (adapt is None and self.training)`, the adaptation update reading
the refractory time AFTER the write-back and stored through the setter with its shape test and batch reduction, what
`clear` resets to, and the `spike` property `refrac == getattr(self, <absrefrac>)` with the string each constructor
passes.

The theorems state, class by class, that running the regenerated method on a neuron object `n` returns EXACTLY the
object `put k n s'` — `n` with voltage, refractory time and (adaptive classes) the adaptation vector replaced by those
of the model state `s'`, every other field untouched — where `(s', spike) = NeuronF.step (cfgOf k n) lock adapt (stOf k n) I`
(resp. `s' = NeuronF.clear …`), and returns the model's spike.  `cfgOf` / `stOf` read the model's configuration and
state off the object (which attribute is the time constant, the threshold, `tcA = 1 / rc_adaptation` for `GLIF2`, …).
Proofs are definitional unfolding (no floating-point evaluation is involved).  A change to a method body (a flipped
condition, a dropped write-back, a swapped argument, the adaptation update reading the old refractory time, another
reset value, another attribute name) changes the generated text and the corresponding theorem stops checking.

What the abstraction forgets / what is assumed (not papered over):
* ONE element, batch size 1, as in `Model/NeuronF.lean` and the correspondence check: a `(batch, *shape)` tensor is its
  entry at the element followed; the tensor an adaptation kernel returns is `ATensor.ofKernel` (shape
  `1 :: stored shape`, one row).  The setters themselves are tied for EVERY batch (`gen_set_threshold_adaptation_batched`:
  a value whose `shape[1:]` is the stored shape is replaced by the user's reduction of its rows).
* hypotheses of the adaptive classes (`WFT` / `WFC`): the stored adaptation tensor has one vector at this neuron
  (`more = []`), a non-empty shape (it is `(*shape, k)`; only used by `clear(keep_adaptations=False)`, where
  `zeros_like(stored)` must FAIL the shape test), and the batch reduction of a one-sample batch is that sample
  (`reduce1`; true of `torch.mean`, `torch.sum`, `torch.amax`).  `wft_put` / `wfc_put`: every method preserves them.
* `adapt : bool | None` and `self.training` are folded into the model's Boolean by `adaptFlag`.
* `cfgOf` fills the fields of `NeuronF.Cfg` a class does not have (`a`, `b`, `slope`, `icpt`, `tcA`, … of `LIF`;
  `reset` of `GLIF2`) with the defaults the harness sends / an unused field of the object; `NeuronF.step` does not
  read them for that class.
* `self.voltage_.value = v` is a plain store because the mixins create their `ShapedTensor`s with `live=False` (checked
  by the translator); the shape compatibility of `inputs` with the neuron is not modelled (one element).
* `gen_spike_attr`: hypothesis `n.…__absrefrac_attr = <Class>_absrefrac` — the object was built by the class's
  constructor, whose `absrefrac` argument is the GENERATED constant (`gen_absrefrac`: all eight pass `"refrac_t"`).
  The attribute is `refrac == refrac_t` as a Float comparison; that this equals the last step's output only for
  `refrac_t > 0` is `Neuron.spike_attr_eq_output_partial` / known finding D4 (`Props/C03.lean`).
* `GLIF1` has no body of its own: `GLIF1.forward` is `LIF.forward(self, …)` run on a `GLIF1` (whose `_integrate_v`
  delegates to `LIF._integrate_v`); the regenerated chain is tied to the model's `GLIF1` kind.
-/
set_option linter.unusedSimpArgs false
namespace InfernoVerif.NeuronF.GlueProg
open InfernoVerif.NeuronF InfernoVerif.Gen InfernoVerif.Gen.NeuronPrelude InfernoVerif.Gen.NeuronProg

/-! ## Abstraction -/

/-- the model's configuration read off a neuron object of class `k` (which attribute plays which role) -/
def cfgOf (k : Kind) (n : Neuron) : Cfg :=
  match k with
  | .LIF | .GLIF1 | .QIF | .EIF | .Izhikevich | .AdEx =>
    { kind := k, dt := n.step_time, rest := n.rest_v, reset := n.reset_v, thresh := n.thresh_v, refracT := n.refrac_t,
      tau := (match k with | .Izhikevich | .AdEx => n.tc_membrane | _ => n.time_constant), R := n.resistance,
      a := (match k with | .QIF | .Izhikevich => n.crit_v | .EIF | .AdEx => n.rheobase_v | _ => 0),
      b := (match k with | .QIF | .Izhikevich => n.affinity | .EIF | .AdEx => n.sharpness | _ => 0),
      tcA := (match k with | .Izhikevich | .AdEx => n.tc_adaptation | _ => []),
      vcA := (match k with | .Izhikevich | .AdEx => n.adapt_vc_coupling | _ => []),
      incA := (match k with | .Izhikevich | .AdEx => n.adapt_increment | _ => []) }
  | .ALIF =>
    { kind := .ALIF, dt := n.step_time, rest := n.rest_v, reset := n.reset_v, thresh := n.thresh_eq_v,
      refracT := n.refrac_t, tau := n.tc_membrane, R := n.resistance, tcA := n.tc_adaptation, incA := n.adapt_increment }
  | .GLIF2 =>
    { kind := .GLIF2, dt := n.step_time, rest := n.rest_v, reset := n.reset_v, thresh := n.thresh_eq_v,
      refracT := n.refrac_t, tau := n.tc_membrane, R := n.resistance, slope := n.reset_v_mul, icpt := n.reset_v_add,
      tcA := n.rc_adaptation.map (fun b => (1 : Float) / b), incA := n.adapt_increment }

/-- the adaptation vector of the model state: the stored tensor of the class's adaptation mixin at this neuron -/
def adaptOf (k : Kind) (n : Neuron) : List Float :=
  match k with
  | .ALIF | .GLIF2 => n.threshold_adaptation_.elem
  | .Izhikevich | .AdEx => n.current_adaptation_.elem
  | _ => []

/-- abstraction: neuron object of class `k` → state of `NeuronF.step` -/
def stOf (k : Kind) (n : Neuron) : St := ⟨n.voltage_, n.refrac_, adaptOf k n⟩

/-- the object `n` with the model state `s` written into it (nothing else changes) -/
def put (k : Kind) (n : Neuron) (s : St) : Neuron :=
  match k with
  | .ALIF | .GLIF2 =>
    { n with voltage_ := s.v, refrac_ := s.r, threshold_adaptation_ := { n.threshold_adaptation_ with first := s.adapt } }
  | .Izhikevich | .AdEx =>
    { n with voltage_ := s.v, refrac_ := s.r, current_adaptation_ := { n.current_adaptation_ with first := s.adapt } }
  | _ => { n with voltage_ := s.v, refrac_ := s.r }

/-- the condition `adapt or (adapt is None and self.training)` as the model's Boolean -/
def adaptFlag (adapt : Option Bool) (training : Bool) : Bool := optTruth adapt || (adapt.isNone && training)

/-- well-formed threshold adaptation state (`ALIF`, `GLIF2`) -/
structure WFT (n : Neuron) : Prop where
  single : n.threshold_adaptation_.more = []
  shape : n.threshold_adaptation_.shape ≠ []
  reduce1 : ∀ r, n.AdaptiveThresholdMixin__batchreduce [r] = r

/-- well-formed current adaptation state (`Izhikevich`, `AdEx`) -/
structure WFC (n : Neuron) : Prop where
  single : n.current_adaptation_.more = []
  shape : n.current_adaptation_.shape ≠ []
  reduce1 : ∀ r, n.AdaptiveCurrentMixin__batchreduce [r] = r

/-- the string the constructor of class `k` hands to `SpikeRefractoryMixin.__init__` (generated constants) -/
def absrefracOf : Kind → String
  | .LIF => LIF_absrefrac | .ALIF => ALIF_absrefrac | .GLIF1 => GLIF1_absrefrac | .GLIF2 => GLIF2_absrefrac
  | .QIF => QIF_absrefrac | .Izhikevich => Izhikevich_absrefrac | .EIF => EIF_absrefrac | .AdEx => AdEx_absrefrac

/-- writing a state does not change the configuration -/
theorem cfgOf_put (k : Kind) (n : Neuron) (s : St) : cfgOf k (put k n s) = cfgOf k n := by
  cases k <;> rfl

/-- reading back a written state (the model state of a non-adaptive class has no adaptations) -/
theorem stOf_put (k : Kind) (n : Neuron) (s : St) :
    stOf k (put k n s) = ⟨s.v, s.r, match k with | .ALIF | .GLIF2 | .Izhikevich | .AdEx => s.adapt | _ => []⟩ := by
  cases k <;> rfl

/-- `WFT` is preserved by writing a state -/
theorem wft_put (k : Kind) (n : Neuron) (s : St) (h : WFT n) : WFT (put k n s) := by
  obtain ⟨h1, h2, h3⟩ := h
  cases k <;> exact ⟨h1, h2, h3⟩

/-- `WFC` is preserved by writing a state -/
theorem wfc_put (k : Kind) (n : Neuron) (s : St) (h : WFC n) : WFC (put k n s) := by
  obtain ⟨h1, h2, h3⟩ := h
  cases k <;> exact ⟨h1, h2, h3⟩

/-! ## Mixin members -/

/-- the regenerated `voltage` getter reads the model state's voltage -/
theorem gen_voltage (k : Kind) (n : Neuron) : VoltageMixin_voltage n = (stOf k n).v := rfl

/-- the regenerated `voltage` setter stores the value (`ShapedTensor` with `live=False`) and changes nothing else -/
theorem gen_set_voltage (n : Neuron) (x : Float) :
    VoltageMixin_voltage_setter n x = .ok ({ n with voltage_ := x }, ()) := rfl

/-- the regenerated `refrac` getter reads the model state's refractory time -/
theorem gen_refrac (k : Kind) (n : Neuron) : RefractoryMixin_refrac n = (stOf k n).r := rfl

/-- the regenerated `refrac` setter stores the value and changes nothing else -/
theorem gen_set_refrac (n : Neuron) (x : Float) :
    RefractoryMixin_refrac_setter n x = .ok ({ n with refrac_ := x }, ()) := rfl

/-- the regenerated `threshold_adaptation` getter returns the stored tensor, whose vector at this neuron is the model
state's adaptation (classes with `AdaptiveThresholdMixin`) -/
theorem gen_threshold_adaptation (n : Neuron) :
    AdaptiveThresholdMixin_threshold_adaptation n = n.threshold_adaptation_ ∧
    (AdaptiveThresholdMixin_threshold_adaptation n).elem = (stOf .ALIF n).adapt ∧
    (AdaptiveThresholdMixin_threshold_adaptation n).elem = (stOf .GLIF2 n).adapt := ⟨rfl, rfl, rfl⟩

/-- the regenerated `current_adaptation` getter (classes with `AdaptiveCurrentMixin`) -/
theorem gen_current_adaptation (n : Neuron) :
    AdaptiveCurrentMixin_current_adaptation n = n.current_adaptation_ ∧
    (AdaptiveCurrentMixin_current_adaptation n).elem = (stOf .Izhikevich n).adapt ∧
    (AdaptiveCurrentMixin_current_adaptation n).elem = (stOf .AdEx n).adapt := ⟨rfl, rfl, rfl⟩

/-- the `threshold_adaptation` setter, batched value (ANY batch size): a value whose `shape[1:]` is the stored shape is
replaced by the batch reduction of its rows, with the leading dimension gone -/
theorem gen_set_threshold_adaptation_batched (n : Neuron) (v : ATensor) (h : shapeTail v.shape = n.threshold_adaptation_.shape) :
    AdaptiveThresholdMixin_threshold_adaptation_setter n v =
      .ok ({ n with threshold_adaptation_ :=
              ⟨n.threshold_adaptation_.shape, n.AdaptiveThresholdMixin__batchreduce (v.first :: v.more), []⟩ }, ()) := by
  simp [AdaptiveThresholdMixin_threshold_adaptation_setter, h, batchreduce0, ATensor.rows, pure, Except.pure]

/-- the `threshold_adaptation` setter, any other shape (e.g. `zeros_like` of the stored tensor): stored as it is -/
theorem gen_set_threshold_adaptation_plain (n : Neuron) (v : ATensor) (h : shapeTail v.shape ≠ n.threshold_adaptation_.shape) :
    AdaptiveThresholdMixin_threshold_adaptation_setter n v = .ok ({ n with threshold_adaptation_ := v }, ()) := by
  simp [AdaptiveThresholdMixin_threshold_adaptation_setter, h, pure, Except.pure]

/-- the `current_adaptation` setter, batched value (ANY batch size) -/
theorem gen_set_current_adaptation_batched (n : Neuron) (v : ATensor) (h : shapeTail v.shape = n.current_adaptation_.shape) :
    AdaptiveCurrentMixin_current_adaptation_setter n v =
      .ok ({ n with current_adaptation_ :=
              ⟨n.current_adaptation_.shape, n.AdaptiveCurrentMixin__batchreduce (v.first :: v.more), []⟩ }, ()) := by
  simp [AdaptiveCurrentMixin_current_adaptation_setter, h, batchreduce0, ATensor.rows, pure, Except.pure]

/-- the `current_adaptation` setter, any other shape: stored as it is -/
theorem gen_set_current_adaptation_plain (n : Neuron) (v : ATensor) (h : shapeTail v.shape ≠ n.current_adaptation_.shape) :
    AdaptiveCurrentMixin_current_adaptation_setter n v = .ok ({ n with current_adaptation_ := v }, ()) := by
  simp [AdaptiveCurrentMixin_current_adaptation_setter, h, pure, Except.pure]

/-- a list is never its own tail: `zeros_like(stored).shape[1:]` is not the stored shape -/
theorem shapeTail_ne (l : List Nat) (h : l ≠ []) : shapeTail l ≠ l := by
  intro e
  have := congrArg List.length e
  cases l with
  | nil => exact h rfl
  | cons x xs => simp [shapeTail] at this

/-- structure eta for a one-vector adaptation tensor -/
theorem atensor_eta (t : ATensor) (h : t.more = []) : ({ shape := t.shape, first := t.first, more := [] } : ATensor) = t := by
  cases t; simp_all

/-! ## `_integrate_v` -/

/-- `LIF._integrate_v` is the model's `integrate` at the current voltage -/
theorem gen_LIF__integrate_v (n : Neuron) : LIF__integrate_v n = integrate (cfgOf .LIF n) (stOf .LIF n).v := rfl
/-- `ALIF._integrate_v` (time constant `tc_membrane`) -/
theorem gen_ALIF__integrate_v (n : Neuron) : ALIF__integrate_v n = integrate (cfgOf .ALIF n) (stOf .ALIF n).v := rfl
/-- `GLIF1._integrate_v`: `LIF._integrate_v(self, …)` on a `GLIF1` -/
theorem gen_GLIF1__integrate_v (n : Neuron) : GLIF1__integrate_v n = integrate (cfgOf .GLIF1 n) (stOf .GLIF1 n).v := rfl
/-- `GLIF2._integrate_v` -/
theorem gen_GLIF2__integrate_v (n : Neuron) : GLIF2__integrate_v n = integrate (cfgOf .GLIF2 n) (stOf .GLIF2 n).v := rfl
/-- `QIF._integrate_v` (`a = crit_v`, `b = affinity`) -/
theorem gen_QIF__integrate_v (n : Neuron) : QIF__integrate_v n = integrate (cfgOf .QIF n) (stOf .QIF n).v := rfl
/-- `Izhikevich._integrate_v` (time constant `tc_membrane`) -/
theorem gen_Izhikevich__integrate_v (n : Neuron) :
    Izhikevich__integrate_v n = integrate (cfgOf .Izhikevich n) (stOf .Izhikevich n).v := rfl
/-- `EIF._integrate_v` (`a = rheobase_v`, `b = sharpness`) -/
theorem gen_EIF__integrate_v (n : Neuron) : EIF__integrate_v n = integrate (cfgOf .EIF n) (stOf .EIF n).v := rfl
/-- `AdEx._integrate_v` (time constant `tc_membrane`) -/
theorem gen_AdEx__integrate_v (n : Neuron) : AdEx__integrate_v n = integrate (cfgOf .AdEx n) (stOf .AdEx n).v := rfl

/-! ## `forward` -/

/-- unfolds a regenerated method and the model step -/
local macro "unfold_neuron" extra:Lean.Parser.Tactic.simpLemma,* : tactic =>
  `(tactic| simp [bind, Except.bind, pure, Except.pure, VoltageMixin_voltage_setter, RefractoryMixin_refrac_setter,
      VoltageMixin_voltage, RefractoryMixin_refrac, AdaptiveThresholdMixin_threshold_adaptation,
      AdaptiveCurrentMixin_current_adaptation, AdaptiveThresholdMixin_threshold_adaptation_setter,
      AdaptiveCurrentMixin_current_adaptation_setter, ATensor.elem, ATensor.ofKernel, ATensor.rows, ATensor.zeros_like,
      batchreduce0, full_like, zeros_like, step, clear, put, cfgOf, stOf, adaptOf, $extra,*])

/-- `LIF.forward(inputs, refrac_lock)` is one `NeuronF.step` of kind `LIF` (for either value of the model's `adapt`
flag, which a non-adaptive class does not have) -/
theorem gen_LIF_forward (n : Neuron) (I : Float) (lock adapt : Bool) :
    LIF_forward n I lock =
      .ok (put .LIF n (step (cfgOf .LIF n) lock adapt (stOf .LIF n) I).1,
           (step (cfgOf .LIF n) lock adapt (stOf .LIF n) I).2) := by
  cases adapt <;> rfl

/-- `GLIF1.forward`: `LIF.forward(self, inputs, refrac_lock=refrac_lock)` run on a `GLIF1` is one step of kind `GLIF1` -/
theorem gen_GLIF1_forward (n : Neuron) (I : Float) (lock adapt : Bool) :
    GLIF1_forward n I lock =
      .ok (put .GLIF1 n (step (cfgOf .GLIF1 n) lock adapt (stOf .GLIF1 n) I).1,
           (step (cfgOf .GLIF1 n) lock adapt (stOf .GLIF1 n) I).2) := by
  cases adapt <;> rfl

/-- `QIF.forward` is one step of kind `QIF` -/
theorem gen_QIF_forward (n : Neuron) (I : Float) (lock adapt : Bool) :
    QIF_forward n I lock =
      .ok (put .QIF n (step (cfgOf .QIF n) lock adapt (stOf .QIF n) I).1,
           (step (cfgOf .QIF n) lock adapt (stOf .QIF n) I).2) := by
  cases adapt <;> rfl

/-- `EIF.forward` is one step of kind `EIF` -/
theorem gen_EIF_forward (n : Neuron) (I : Float) (lock adapt : Bool) :
    EIF_forward n I lock =
      .ok (put .EIF n (step (cfgOf .EIF n) lock adapt (stOf .EIF n) I).1,
           (step (cfgOf .EIF n) lock adapt (stOf .EIF n) I).2) := by
  cases adapt <;> rfl

/-- `ALIF.forward(inputs, adapt, refrac_lock)` is one step of kind `ALIF`: threshold adapted from the OLD adaptations,
voltage and refractory time written back, then — iff `adapt or (adapt is None and self.training)` — the spike-driven
update computed with the NEW refractory time and stored through the batch-reducing setter -/
theorem gen_ALIF_forward (n : Neuron) (h : WFT n) (I : Float) (adapt : Option Bool) (lock : Bool) :
    ALIF_forward n I adapt lock =
      .ok (put .ALIF n (step (cfgOf .ALIF n) lock (adaptFlag adapt n.training) (stOf .ALIF n) I).1,
           (step (cfgOf .ALIF n) lock (adaptFlag adapt n.training) (stOf .ALIF n) I).2) := by
  have hs := h.single
  have he := atensor_eta _ hs
  have hr := h.reduce1
  have hi := gen_ALIF__integrate_v n
  cases hf : adaptFlag adapt n.training <;> simp only [adaptFlag] at hf <;> unfold_neuron ALIF_forward, hf, hi, hs, hr, he, shapeTail

/-- `GLIF2.forward`: linear reset (`rest_v`, `reset_v_mul`, `reset_v_add`), adapted threshold, adaptation time constants
`1 / rc_adaptation` -/
theorem gen_GLIF2_forward (n : Neuron) (h : WFT n) (I : Float) (adapt : Option Bool) (lock : Bool) :
    GLIF2_forward n I adapt lock =
      .ok (put .GLIF2 n (step (cfgOf .GLIF2 n) lock (adaptFlag adapt n.training) (stOf .GLIF2 n) I).1,
           (step (cfgOf .GLIF2 n) lock (adaptFlag adapt n.training) (stOf .GLIF2 n) I).2) := by
  have hs := h.single
  have he := atensor_eta _ hs
  have hr := h.reduce1
  have hi := gen_GLIF2__integrate_v n
  cases hf : adaptFlag adapt n.training <;> simp only [adaptFlag] at hf <;> unfold_neuron GLIF2_forward, hf, hi, hs, hr, he, shapeTail

/-- `Izhikevich.forward`: input adapted from the OLD adaptations, then the voltage- and spike-driven current adaptation
with the NEW voltage and refractory time -/
theorem gen_Izhikevich_forward (n : Neuron) (h : WFC n) (I : Float) (adapt : Option Bool) (lock : Bool) :
    Izhikevich_forward n I adapt lock =
      .ok (put .Izhikevich n (step (cfgOf .Izhikevich n) lock (adaptFlag adapt n.training) (stOf .Izhikevich n) I).1,
           (step (cfgOf .Izhikevich n) lock (adaptFlag adapt n.training) (stOf .Izhikevich n) I).2) := by
  have hs := h.single
  have he := atensor_eta _ hs
  have hr := h.reduce1
  have hi := gen_Izhikevich__integrate_v n
  cases hf : adaptFlag adapt n.training <;> simp only [adaptFlag] at hf <;>
    unfold_neuron Izhikevich_forward, hf, hi, hs, hr, he, shapeTail

/-- `AdEx.forward` -/
theorem gen_AdEx_forward (n : Neuron) (h : WFC n) (I : Float) (adapt : Option Bool) (lock : Bool) :
    AdEx_forward n I adapt lock =
      .ok (put .AdEx n (step (cfgOf .AdEx n) lock (adaptFlag adapt n.training) (stOf .AdEx n) I).1,
           (step (cfgOf .AdEx n) lock (adaptFlag adapt n.training) (stOf .AdEx n) I).2) := by
  have hs := h.single
  have he := atensor_eta _ hs
  have hr := h.reduce1
  have hi := gen_AdEx__integrate_v n
  cases hf : adaptFlag adapt n.training <;> simp only [adaptFlag] at hf <;> unfold_neuron AdEx_forward, hf, hi, hs, hr, he, shapeTail

/-! ## `clear` -/

/-- `LIF.clear()` is `NeuronF.clear` (voltage to `rest_v`, refractory time to 0; no adaptations to keep or drop) -/
theorem gen_LIF_clear (n : Neuron) (keep : Bool) :
    LIF_clear n = .ok (put .LIF n (clear (cfgOf .LIF n) keep (stOf .LIF n)), ()) := rfl

/-- `GLIF1.clear()`: `LIF.clear(self, **kwargs)` on a `GLIF1` -/
theorem gen_GLIF1_clear (n : Neuron) (keep : Bool) :
    GLIF1_clear n = .ok (put .GLIF1 n (clear (cfgOf .GLIF1 n) keep (stOf .GLIF1 n)), ()) := rfl

/-- `QIF.clear()` -/
theorem gen_QIF_clear (n : Neuron) (keep : Bool) :
    QIF_clear n = .ok (put .QIF n (clear (cfgOf .QIF n) keep (stOf .QIF n)), ()) := rfl

/-- `EIF.clear()` -/
theorem gen_EIF_clear (n : Neuron) (keep : Bool) :
    EIF_clear n = .ok (put .EIF n (clear (cfgOf .EIF n) keep (stOf .EIF n)), ()) := rfl

/-- `ALIF.clear(keep_adaptations)`: the adaptations are zeroed iff `not keep_adaptations` (the zero tensor has the
stored shape, fails the setter's shape test and is stored unreduced) -/
theorem gen_ALIF_clear (n : Neuron) (h : WFT n) (keep : Bool) :
    ALIF_clear n keep = .ok (put .ALIF n (clear (cfgOf .ALIF n) keep (stOf .ALIF n)), ()) := by
  have hs := h.single
  have he := atensor_eta _ hs
  have hne := shapeTail_ne _ h.shape
  cases keep <;> unfold_neuron ALIF_clear, hs, hne, he

/-- `GLIF2.clear(keep_adaptations)` -/
theorem gen_GLIF2_clear (n : Neuron) (h : WFT n) (keep : Bool) :
    GLIF2_clear n keep = .ok (put .GLIF2 n (clear (cfgOf .GLIF2 n) keep (stOf .GLIF2 n)), ()) := by
  have hs := h.single
  have he := atensor_eta _ hs
  have hne := shapeTail_ne _ h.shape
  cases keep <;> unfold_neuron GLIF2_clear, hs, hne, he

/-- `Izhikevich.clear(keep_adaptations)` -/
theorem gen_Izhikevich_clear (n : Neuron) (h : WFC n) (keep : Bool) :
    Izhikevich_clear n keep = .ok (put .Izhikevich n (clear (cfgOf .Izhikevich n) keep (stOf .Izhikevich n)), ()) := by
  have hs := h.single
  have he := atensor_eta _ hs
  have hne := shapeTail_ne _ h.shape
  cases keep <;> unfold_neuron Izhikevich_clear, hs, hne, he

/-- `AdEx.clear(keep_adaptations)` -/
theorem gen_AdEx_clear (n : Neuron) (h : WFC n) (keep : Bool) :
    AdEx_clear n keep = .ok (put .AdEx n (clear (cfgOf .AdEx n) keep (stOf .AdEx n)), ()) := by
  have hs := h.single
  have he := atensor_eta _ hs
  have hne := shapeTail_ne _ h.shape
  cases keep <;> unfold_neuron AdEx_clear, hs, hne, he

/-! ## The `spike` attribute -/

/-- every constructor hands `"refrac_t"` to `SpikeRefractoryMixin.__init__` (`GLIF1` through `LIF.__init__`) -/
theorem gen_absrefrac (k : Kind) : absrefracOf k = "refrac_t" := by
  cases k <;> rfl

/-- the regenerated `spike` property of an object built by the constructor of class `k` is the model's spike attribute
`refrac == refrac_t` (Float comparison of the state's refractory time with the configured absolute refractory period) -/
theorem gen_spike_attr (k : Kind) (n : Neuron) (h : n.SpikeRefractoryMixin__absrefrac_attr = absrefracOf k) :
    SpikeRefractoryMixin_spike n = .ok ((stOf k n).r == (cfgOf k n).refracT) := by
  rw [gen_absrefrac] at h
  have hc : (cfgOf k n).refracT = n.refrac_t := by cases k <;> rfl
  simp [SpikeRefractoryMixin_spike, h, getattrFloat, RefractoryMixin_refrac, hc, stOf, bind, Except.bind, pure, Except.pure]

/-- … hence, right after a `forward` / `clear` that produced the model state `s`, the attribute is `s.r == refrac_t`
(true after every spiking step; also true after a non-spiking step when `refrac_t = 0`: known finding D4) -/
theorem gen_spike_attr_put (k : Kind) (n : Neuron) (s : St) (h : n.SpikeRefractoryMixin__absrefrac_attr = absrefracOf k) :
    SpikeRefractoryMixin_spike (put k n s) = .ok (s.r == (cfgOf k n).refracT) := by
  have h' : (put k n s).SpikeRefractoryMixin__absrefrac_attr = absrefracOf k := by cases k <;> exact h
  rw [gen_spike_attr k _ h', cfgOf_put, stOf_put]

/-- any other attribute name would make the property read another attribute / raise: the tie is to the NAME -/
theorem gen_spike_attr_unknown (n : Neuron) (h : n.SpikeRefractoryMixin__absrefrac_attr = "refrac") :
    SpikeRefractoryMixin_spike n = .error Err.AttributeError := by
  simp [SpikeRefractoryMixin_spike, h, getattrFloat, bind, Except.bind]

/-! ## Non-vacuity -/

/-- objects satisfying the hypotheses of the adaptive theorems exist (reduction: first row, as `torch.mean` of one row) -/
def demo : Neuron :=
  { step_time := 1, rest_v := -65, reset_v := -70, thresh_v := -50, thresh_eq_v := -50, refrac_t := 2, time_constant := 20,
    tc_membrane := 20, resistance := 1, crit_v := -55, affinity := 1, rheobase_v := -55, sharpness := 1, reset_v_add := 1,
    reset_v_mul := 1, tc_adaptation := [10], rc_adaptation := [1], adapt_increment := [1], adapt_vc_coupling := [1],
    voltage_ := -65, refrac_ := 0, threshold_adaptation_ := ⟨[1, 1], [0], []⟩, current_adaptation_ := ⟨[1, 1], [0], []⟩,
    training := true, SpikeRefractoryMixin__absrefrac_attr := "refrac_t",
    AdaptiveThresholdMixin__batchreduce := fun rows => rows.headD [],
    AdaptiveCurrentMixin__batchreduce := fun rows => rows.headD [] }

example : WFT demo := ⟨rfl, by simp [demo], fun _ => rfl⟩
example : WFC demo := ⟨rfl, by simp [demo], fun _ => rfl⟩
example : demo.SpikeRefractoryMixin__absrefrac_attr = absrefracOf .ALIF := rfl

end InfernoVerif.NeuronF.GlueProg
