import InfernoVerif.Lemmas.BatchB
/-!
# C11 (part b) — sample independence of CONCRETE batched models

Definitions: `Model/BatchB.lean` (core Lean, executable): the state of a batched component is what
the code holds — ONE tensor for the whole batch (a record whose rows are the batch-major flattened
`B × N` observations; flat `B × I` inputs, flat `B × O` outputs) — not a list of per-sample states.
"The batch-1 copy" is always THE SAME FUNCTION run with `B = 1` on sample `b`'s part of the state
(`SynB.proj`, `DenseB.proj`, `NeuB.proj`: positions `b·N … b·N+N-1` of every stored row) and of the
inputs (`seg (b·N) N`).  Every theorem is for every batch size, shape, parameter value, arithmetic
(`Ops α`), interpolation kernel, and — where a run is involved — every finite input sequence.

* §1 batched delta synapse with history and delayed (gathered) reads;
* §2 batched dense connection (`F.linear` / `einsum "b i o, o i -> b o"`), alone and on top of §1;
* §3 neuron group with a shared batch-reduced adaptation: the only coupling;
* §4 Σ-reduction of tensor-valued updates: batched step = sum of the batch-1 steps, over a run.
-/
namespace InfernoVerif.BatchB
open InfernoVerif.Ring InfernoVerif.Select InfernoVerif.Synapse
open InfernoVerif.Batch (expandB)
variable {α : Type}

/-! ## §1 batched delta synapse with history -/

/-- Tie to the per-column model of C02/C04: `Select.selectTensor` (one storage column) is the range
test followed by `selectElem` reading that column. -/
theorem selectTensor_eq_selectElem (K : Ops α) (interp : Interp α) (r : Ring α) (dt tol t : α)
    (offset : Int) :
    selectTensor K interp r dt tol t offset =
      if !inRange K r.n dt tol t then .valueError else selectElem K interp r.read dt tol t offset :=
  rfl

/-- Tie to C01's tensor-offset read: `gatherAt` is the entry of `Ring.readrangeT` (length 1) at
position `p`. -/
theorem gatherAt_eq_readrangeT (r : Ring (List α)) (offs : List Int) (p : Nat) (o : Int)
    (h : offs[p]? = some o) : (r.readrangeT 1 offs)[p]? = some [gatherAt r p o] := by
  unfold Ring.readrangeT gatherAt
  rw [List.getElem?_map, List.getElem?_zipIdx, h]
  simp

/-- `select` with ANY `B·N × D` time tensor (not necessarily the same for every sample): whenever the
batched call returns, the call on sample `b`'s part of the record with sample `b`'s part of the
times returns exactly sample `b`'s part of the result. -/
theorem select_proj_ok (K : Ops α) (interp : Interp α) (r : Ring (List α)) (dt tol : α)
    (off : Int) (b N : Nat) (times : List (List α)) (rows : List (List (Outcome α)))
    (h : selectTensorB K interp r dt tol times off = .ok rows) :
    selectTensorB K interp (ringSeg (b * N) N r) dt tol (seg (b * N) N times) off =
      .ok (seg (b * N) N rows) :=
  selectTensorB_seg K interp r dt tol off (b * N) N times rows h

/-- `current_at(selector)` with the per-synapse delays `sel : N × D` EXPANDED over the batch (what
`LinearDense.selector` builds): the batch-1 copy's call with its own expansion (`expandB 1 sel`) is
sample `b`'s part of the batched call — values, the `ValueError` of the range test and missing
slots alike. -/
theorem current_at_expanded_proj (S : SOps α) (c : Cfg α) (s : SynB α) (sel : List (List α))
    (b : Nat) (hb : b < s.B) (hsel : sel.length = s.N) :
    (s.proj b).currentAt S c (expandB (s.proj b).B sel) =
      (s.currentAt S c (expandB s.B sel)).map (seg (b * s.N) s.N) := by
  unfold SynB.currentAt
  have h1 : (s.proj b).B = 1 := rfl
  have h2 : (s.proj b).spike = ringSeg (b * sel.length) sel.length s.spike := by
    simp [SynB.proj, hsel]
  rw [h1, expandB_one, h2, synparamAtB_proj S.K _ s.spike c.dt c.delay c.tol c.curOver _ sel s.B b hb,
    hsel]

/-- **`synapseB_proj`.**  Run the batched synapse (ONE record of `B·N`-entry rows; per step:
`forward` pushes the whole batched row, then the delayed read `current_at(selector)` with the
`B × N × D` selector expanded from the per-synapse delays, gather path) on any input sequence.
If the run returns, then the batch-1 machine started on sample `b`'s part of the state and fed
sample `b`'s part of every input returns sample `b`'s part of the final state and, at every step,
sample `b`'s part of the currents `forward` returned and of the delayed currents. -/
theorem synapseB_proj (S : SOps α) (c : Cfg α) (sel : List (List α)) (s s' : SynB α)
    (XXs : List (List α)) (outs : List (List α × Outcome (List (List (Outcome α))))) (b : Nat)
    (hb : b < s.B) (hsel : sel.length = s.N)
    (h : runO (SynB.step S c sel) s XXs = some (s', outs)) :
    runO (SynB.step S c sel) (s.proj b) (XXs.map (seg (b * s.N) s.N)) =
      some (s'.proj b, outs.map (projOut (b * s.N) s.N)) := by
  have key := runO_sim (SynB.step S c sel) (SynB.step S c sel)
    (fun s0 => s0.B = s.B ∧ s0.N = s.N) (SynB.proj b) (seg (b * s.N) s.N)
    (projOut (b * s.N) s.N)
    (by
      intro s0 X s1 o hI hs
      obtain ⟨cur, del⟩ := o
      obtain ⟨hB, hN⟩ := hI
      obtain ⟨h1, h2, h3⟩ := step_proj S c sel s0 s1 X cur del b (by omega) (by omega) hs
      rw [hN] at h1
      exact ⟨⟨by omega, by omega⟩, h1⟩)
    XXs s s' outs ⟨rfl, rfl⟩ h
  exact key.2

/-- … and from construction the batched run always returns on inputs of the batched shape, the
batch-1 copy of the freshly constructed synapse IS the freshly constructed batch-1 synapse, so:
for every input sequence of `B × N` rows, the batch-1 synapse fed sample `b`'s rows produces
sample `b`'s part of everything the batch-`B` synapse produces. -/
theorem synapseB_proj_from_init (S : SOps α) (c : Cfg α) (sel : List (List α)) (B N : Nat)
    (XXs : List (List α)) (b : Nat) (hb : b < B) (hsel : sel.length = N)
    (hX : ∀ X ∈ XXs, X.length = B * N) :
    ∃ s' outs, runO (SynB.step S c sel) (SynB.init S c B N) XXs = some (s', outs) ∧
      runO (SynB.step S c sel) (SynB.init S c 1 N) (XXs.map (seg (b * N) N)) =
        some (s'.proj b, outs.map (projOut (b * N) N)) := by
  obtain ⟨s', outs, h⟩ := synRun_total S c sel XXs (SynB.init S c B N) (init_wf S c B N) hX
  refine ⟨s', outs, h, ?_⟩
  have := synapseB_proj S c sel (SynB.init S c B N) s' XXs outs b hb hsel h
  rw [init_proj S c B N b hb] at this
  exact this

/-! ## §2 batched dense connection -/

/-- **`denseB_proj`.**  Both forms of `LinearDense.forward`'s arithmetic written with the batch index
explicit — undelayed `out[b][o] = Σ_i x[b][i]·W[o][i] + bias[o]` on the flat `B × I` currents,
delayed `out[b][o] = Σ_i x[b][i][o]·W[o][i] + bias[o]` on the `B·I × O` delayed currents: rows
`b·O … b·O+O-1` of the batched output are the batch-1 output on sample `b`'s rows of the input. -/
theorem denseB_proj (K : Ops α) (B I : Nat) (W : List (List α)) (bias : Option (List α)) (b : Nat)
    (hb : b < B) :
    (∀ x y, linearB K B I W bias x = some y →
      linearB K 1 I W bias (seg (b * I) I x) = some (seg (b * W.length) W.length y)) ∧
    (∀ x y, einsumB K B I W bias x = some y →
      einsumB K 1 I W bias (seg (b * I) I x) = some (seg (b * W.length) W.length y)) :=
  ⟨fun x y h => linearB_proj K B I W bias x y b hb h,
   fun x y h => einsumB_proj K B I W bias x y b hb h⟩

/-- **`delayed_denseB_proj`.**  The whole connection (`LinearDense` over a `DeltaCurrent` with
history, delayed or not): run `forward` on any input sequence; if the batched run returns, the
batch-1 copy (`B := 1`, the synapse record restricted to sample `b`, same weights, bias, delays)
fed sample `b`'s rows returns sample `b`'s part of the final state and, at every step, rows
`b·O … b·O+O-1` of the batched output. -/
theorem delayed_denseB_proj (S : SOps α) (cfg : Cfg α) (c c' : DenseB α) (XXs Ys : List (List α))
    (b : Nat) (hb : b < c.B) (hI : c.Inv)
    (h : runO (DenseB.forward S cfg) c XXs = some (c', Ys)) :
    runO (DenseB.forward S cfg) (c.proj b) (XXs.map (seg (b * c.I) c.I)) =
      some (c'.proj b, Ys.map (seg (b * c.W.length) c.W.length)) := by
  have key := runO_sim (DenseB.forward S cfg) (DenseB.forward S cfg)
    (fun c0 => c0.Inv ∧ c0.B = c.B ∧ c0.I = c.I ∧ c0.W = c.W) (DenseB.proj b)
    (seg (b * c.I) c.I) (seg (b * c.W.length) c.W.length)
    (by
      intro c0 X c1 Y hI0 hs
      obtain ⟨hInv, hB, hIe, hW⟩ := hI0
      obtain ⟨h1, h2, h3, h4, h5⟩ := denseForward_proj S cfg c0 c1 X Y b (by omega) hInv hs
      rw [hIe, hW] at h1
      exact ⟨⟨h2, by omega, by omega, by rw [h5, hW]⟩, h1⟩)
    XXs c c' Ys ⟨hI, rfl, rfl, rfl⟩ h
  exact key.2

/-! ## §3 neuron group with a shared, batch-reduced adaptation -/

variable {θ V A I O S' : Type}

/-- **`neuronB_proj_frozen`.**  With adaptation frozen (`adapt = False` at every step), for every
dynamics `dyn`, proposal function, reduction and input sequence: the batch-1 group holding sample
`b` (its state, the same shared adaptation), fed sample `b`'s inputs, ends in sample `b`'s part of
the batched final state and emits sample `b`'s outputs (spikes, …) at every step.  (No side
condition: a missing sample or input gives the empty batch on both sides.) -/
theorem neuronB_proj_frozen (dyn : θ → A → V → I → V × O) (prop : θ → A → V → O → A)
    (red : List A → A) (p : θ) (steps : List (Bool × List I))
    (hfrozen : ∀ ax ∈ steps, ax.1 = false) (s : NeuB V A) (b : Nat) :
    NeuB.run dyn prop red p (s.proj b) (sampleSteps b steps) =
      ((NeuB.run dyn prop red p s steps).1.proj b,
       (NeuB.run dyn prop red p s steps).2.map fun os => (os[b]?).toList) := by
  induction steps generalizing s with
  | nil => rfl
  | cons ax rest ih =>
    obtain ⟨fl, xs⟩ := ax
    have hfl : fl = false := hfrozen (fl, xs) (by simp)
    subst hfl
    simp only [sampleSteps, List.map_cons, NeuB.run]
    rw [neuStep_proj_frozen]
    have := ih (fun ax h => hfrozen ax (by simp [h])) (NeuB.step dyn prop red p s (false, xs)).1
    simp only [sampleSteps] at this
    rw [this]

/-- **`adaptation_only_coupling`.**  With adaptation ON, the other samples influence sample `b` ONLY
through the reduced adaptation sequence: two batches — of any sizes, with any other samples, even
with different proposal functions, reductions and `adapt` flags — that agree on sample `b`'s /
`b'`'s initial state and inputs and on the sequence of adaptations in effect give the same
trajectory (outputs at every step, final state) for that sample. -/
theorem adaptation_only_coupling (dyn : θ → A → V → I → V × O) (prop prop' : θ → A → V → O → A)
    (red red' : List A → A) (p : θ) (steps steps' : List (Bool × List I)) (s s' : NeuB V A)
    (b b' : Nat) (hv : s.vs[b]? = s'.vs[b']?)
    (hx : steps.map (·.2[b]?) = steps'.map (·.2[b']?))
    (ha : NeuB.adaptSeq dyn prop red p s steps = NeuB.adaptSeq dyn prop' red' p s' steps') :
    (NeuB.run dyn prop red p s steps).1.vs[b]? = (NeuB.run dyn prop' red' p s' steps').1.vs[b']? ∧
    (NeuB.run dyn prop red p s steps).2.map (·[b]?) =
      (NeuB.run dyn prop' red' p s' steps').2.map (·[b']?) := by
  induction steps generalizing steps' s s' with
  | nil =>
    cases steps' with
    | nil => exact ⟨hv, rfl⟩
    | cons _ _ => simp at hx
  | cons ax rest ih =>
    cases steps' with
    | nil => simp at hx
    | cons ax' rest' =>
      simp only [List.map_cons, List.cons.injEq] at hx
      simp only [NeuB.adaptSeq, List.cons.injEq] at ha
      obtain ⟨hx0, hxr⟩ := hx
      obtain ⟨ha0, har⟩ := ha
      have h1 := neuStep_getElem? dyn prop red p s ax b
      have h2 := neuStep_getElem? dyn prop' red' p s' ax' b'
      have hv1 : (NeuB.step dyn prop red p s ax).1.vs[b]? =
          (NeuB.step dyn prop' red' p s' ax').1.vs[b']? := by
        rw [h1.1, h2.1, hv, hx0, ha0]
      have ho1 : (NeuB.step dyn prop red p s ax).2[b]? =
          (NeuB.step dyn prop' red' p s' ax').2[b']? := by
        rw [h1.2, h2.2, hv, hx0, ha0]
      obtain ⟨i1, i2⟩ := ih rest' _ _ hv1 hxr har
      simp only [NeuB.run, List.map_cons]
      exact ⟨i1, by rw [ho1, i2]⟩

/-- … equivalently, sample `b`'s trajectory in the batch IS the run of that one sample driven by the
adaptation sequence (supplied from outside) and its own inputs. -/
theorem sample_trajectory_driven (dyn : θ → A → V → I → V × O) (prop : θ → A → V → O → A)
    (red : List A → A) (p : θ) (steps : List (Bool × List I)) (s : NeuB V A) (b : Nat) (v : V)
    (xs : List I) (hv : s.vs[b]? = some v)
    (hx : InfernoVerif.Batch.projSeq b (steps.map (·.2)) = some xs) :
    (NeuB.run dyn prop red p s steps).1.vs[b]? =
        some (drivenRun dyn p v ((NeuB.adaptSeq dyn prop red p s steps).zip xs)).1 ∧
    (NeuB.run dyn prop red p s steps).2.map (·[b]?) =
        (drivenRun dyn p v ((NeuB.adaptSeq dyn prop red p s steps).zip xs)).2.map some := by
  induction steps generalizing s v xs with
  | nil =>
    simp only [List.map_nil, InfernoVerif.Batch.projSeq, Option.some.injEq] at hx
    subst hx
    simp [NeuB.run, NeuB.adaptSeq, drivenRun, hv]
  | cons ax rest ih =>
    simp only [List.map_cons, InfernoVerif.Batch.projSeq] at hx
    split at hx
    · rename_i x xs' hxb hrest
      cases hx
      have h1 := neuStep_getElem? dyn prop red p s ax b
      rw [hv, hxb] at h1
      simp only [Option.bind_some, Option.map_some] at h1
      obtain ⟨i1, i2⟩ := ih (NeuB.step dyn prop red p s ax).1 _ xs' h1.1 hrest
      simp only [NeuB.run, NeuB.adaptSeq, List.zip_cons_cons, drivenRun, List.map_cons]
      exact ⟨i1, by rw [h1.2, i2]⟩
    · cases hx

/-! ## §4 Σ-reduction of tensor-valued updates -/

/-- **`sum_reduction_step`.**  With `batch_reduction = torch.sum`, one batched trainer step adds to
the accumulator (one entry per parameter element) exactly the element-wise sum of what the `B`
batch-1 steps — the same code on the singleton batches `[s_b]`, `[x_b]`, from a zero accumulator —
add.  (`hu`: every per-sample update has the parameter's `P` elements — the shape the code
enforces.) -/
theorem sum_reduction_step (u : S' → I → List Int) (P : Nat) (hu : ∀ s x, (u s x).length = P)
    (acc : List Int) (Ss : List S') (Xs : List I) :
    trainStepB u P acc Ss Xs =
      vadd acc (sumDim0 P ((Ss.zip Xs).map fun sx =>
        trainStepB u P (List.replicate P 0) [sx.1] [sx.2])) := by
  have : (fun sx : S' × I => trainStepB u P (List.replicate P 0) [sx.1] [sx.2]) =
      fun sx => u sx.1 sx.2 := by
    funext sx
    simp [trainStepB, sumDim0_single P _ (hu sx.1 sx.2), vadd_zero_left P _ (hu sx.1 sx.2)]
  rw [this]
  rfl

/-- **`sum_reduction_run`.**  Over a whole run (any number of steps, per-sample states advancing by
`step` with the shared parameters held while updates accumulate): the batched accumulator ends at
`acc + Σ_b` (what sample `b`, run ALONE as a batch of one from a zero accumulator, accumulates). -/
theorem sum_reduction_run (step : θ → S' → I → S' × O) (u : S' → I → List Int) (P : Nat) (p : θ)
    (hu : ∀ s x, (u s x).length = P) (XXs : List (List I)) (acc : List Int) (Ss : List S')
    (hacc : acc.length = P) (hX : ∀ Xs ∈ XXs, Xs.length = Ss.length) :
    (trainRunB step u P p acc Ss XXs).1 =
      vadd acc (sumDim0 P (Ss.zipIdx.map fun sb => aloneAcc step u P p sb.1 sb.2 XXs)) :=
  trainRunB_sum step u P p hu XXs acc Ss hacc hX

/-- … while the per-sample states of the training run are those of the plain batched run
(`Batch.runB`, to which `Batch.proj_commutes_run` applies): accumulation never feeds back. -/
theorem train_states (step : θ → S' → I → S' × O) (u : S' → I → List Int) (P : Nat) (p : θ)
    (XXs : List (List I)) (acc : List Int) (Ss : List S') :
    (trainRunB step u P p acc Ss XXs).2 = (InfernoVerif.Batch.runB step p Ss XXs).1 := by
  induction XXs generalizing acc Ss with
  | nil => rfl
  | cons Xs rest ih => simp only [trainRunB, InfernoVerif.Batch.runB]; exact ih _ _

/-! ## Non-vacuity, and the two places where samples DO meet -/

section Examples

/-- an exact toy arithmetic over `Int` (every theorem above holds for every `SOps`), so that concrete
runs are evaluated by `decide` -/
def intSOps : SOps Int where
  K := { add := (· + ·), sub := (· - ·), mul := (· * ·), div := (· / ·), neg := (- ·),
         abs := fun x => (x.natAbs : Int), ofInt := id, floor := id, ceil := id, round := id,
         le := fun a b => decide (a ≤ b), lt := fun a b => decide (a < b) }
  exp := fun _ => 1
  previous := fun p _ _ _ => p
  nearest := fun p _ _ _ => p
  expdecay := fun p _ _ _ _ => p

/-- `DeltaCurrent`, `dt = 1`, `delay = 2` (3 slots), `spike_charge = 3` -/
def exC : Cfg Int := ⟨.delta, 1, 2, 3, 1, 1, .previous, 0, none, none, true⟩
/-- per-synapse delays `N × D = 2 × 3` (input `i` towards output `o`) -/
def exSel : List (List Int) := [[0, 2, 1], [1, 1, 0]]
/-- three steps of a `B × N = 2 × 2` batch -/
def exX : List (List Int) := [[1, 0, 0, 1], [0, 0, 1, 1], [1, 1, 0, 0]]

example : exC.n intSOps = 3 := by decide
example : expandB 2 exSel = [[0, 2, 1], [1, 1, 0], [0, 2, 1], [1, 1, 0]] := by decide
-- the batched run returns; the record holds the three batched rows …
example : (runO (SynB.step intSOps exC exSel) (SynB.init intSOps exC 2 2) exX).map
      (fun r => (r.1.spike, r.2.map (·.1))) =
    some (⟨3, 0, [[1, 0, 0, 1], [0, 0, 1, 1], [1, 1, 0, 0]]⟩,
      [[3, 0, 0, 3], [0, 0, 3, 3], [3, 3, 0, 0]]) := by decide
-- … and the third step's delayed currents (B·N × D) differ from the undelayed ones: history is read
-- per position
example : (runO (SynB.step intSOps exC exSel) (SynB.init intSOps exC 2 2) exX).bind
      (fun r => (r.2.map (·.2))[2]?) =
    some (.ok [[.ok 3, .ok 3, .ok 0], [.ok 0, .ok 0, .ok 3], [.ok 0, .ok 0, .ok 3], [.ok 3, .ok 3, .ok 0]]) := by
  decide
-- sample 1 alone (batch-1 synapse, rows 2‥3 of every input): rows 2‥3 of everything above
example : (runO (SynB.step intSOps exC exSel) (SynB.init intSOps exC 1 2) (exX.map (seg 2 2))).map
      (fun r => (r.1.spike, r.2.map (·.1))) =
    some (⟨3, 0, [[0, 1], [1, 1], [0, 0]]⟩, [[0, 3], [3, 3], [0, 0]]) := by decide
example : (runO (SynB.step intSOps exC exSel) (SynB.init intSOps exC 1 2) (exX.map (seg 2 2))).bind
      (fun r => (r.2.map (·.2))[2]?) =
    some (.ok [[.ok 0, .ok 0, .ok 3], [.ok 3, .ok 3, .ok 0]]) := by decide

/-- a `2 × 2`-entry record (two samples, one synapse each … or one sample, two synapses) -/
def exR : Ring (List Int) := ⟨3, 1, [[1, 2], [3, 4], [5, 6]]⟩

/-- **Where samples DO meet (1): the error channel of `select`.**  `select_proj_ok` cannot be
strengthened to an equality of outcomes for time tensors that differ between samples: the range
test is over the WHOLE tensor (`amin`/`amax`), so an out-of-range time of sample 1 makes the batched
call raise, while sample 0 alone reads its value.  (With the EXPANDED selector of a connection —
`current_at_expanded_proj` — every sample has the same times and the outcomes agree exactly; and
`_synparam_at` clamps the selector first.) -/
example :
    selectTensorB intSOps.K intSOps.previous exR 1 0 [[1], [5]] 1 = .valueError ∧
    selectTensorB intSOps.K intSOps.previous (ringSeg (0 * 1) 1 exR) 1 0 (seg (0 * 1) 1 [[1], [5]]) 1 =
      .ok [[.ok 5]] := by decide

/-- a delayed dense connection `2 → 3` with bias, delays `O × I` -/
def exD : DenseB Int :=
  ⟨2, 2, [[1, 2], [3, 4], [5, 6]], some [10, 20, 30], some [[0, 1], [2, 1], [1, 0]], SynB.init intSOps exC 2 2⟩

example : exD.Inv := ⟨rfl, rfl⟩
example : exD.selector [[0, 1], [2, 1], [1, 0]] = expandB 2 exSel := by decide
-- delayed (`einsum "b i o, o i -> b o"` on the gathered currents), flat `B × O` per step …
example : (runO (DenseB.forward intSOps exC) exD exX).map (·.2) =
    some [[13, 20, 30, 10, 20, 48], [10, 20, 45, 19, 32, 48], [13, 29, 48, 16, 32, 45]] := by decide
-- … sample 1 alone gives entries 3‥5 of every step
example : (runO (DenseB.forward intSOps exC) (exD.proj 1) (exX.map (seg (1 * 2) 2))).map (·.2) =
    some [[10, 20, 48], [19, 32, 48], [16, 32, 45]] := by decide
-- undelayed (`F.linear`)
example : (runO (DenseB.forward intSOps exC) { exD with delay := none } exX).map (·.2) =
    some [[13, 29, 45, 16, 32, 48], [10, 20, 30, 19, 41, 63], [19, 41, 63, 10, 20, 30]] := by decide
-- a wrongly shaped input is refused (the guard of the theorems is not vacuous)
example : runO (DenseB.forward intSOps exC) exD [[1, 0, 0]] = none := by decide

/-- integrate-and-fire with an adaptive threshold: spike and reset when `v + x ≥ θ + a` -/
def exDyn (th a v x : Int) : Int × Bool := if v + x ≥ th + a then (0, true) else (v + x, false)
/-- every spiking sample proposes `a + 1` -/
def exProp (_ a _ : Int) (o : Bool) : Int := if o then a + 1 else a
/-- a batch reduction (`max` over the proposals) -/
def exRed (l : List Int) : Int := l.foldl max 0

-- adaptation frozen: sample 1 of the batch = sample 1 alone
example : NeuB.run exDyn exProp exRed 5 ⟨[0, 0], 0⟩ [(false, [5, 0]), (false, [0, 5])] =
    (⟨[0, 0], 0⟩, [[true, false], [false, true]]) := by decide
example : NeuB.run exDyn exProp exRed 5 (NeuB.proj 1 ⟨[0, 0], 0⟩)
      (sampleSteps 1 [(false, [5, 0]), (false, [0, 5])]) =
    (⟨[0], 0⟩, [[false], [true]]) := by decide
/-- **Where samples DO meet (2): the batch-reduced adaptation.**  `neuronB_proj_frozen` needs
`adapt = False`: with adaptation on, sample 0's spike at step 1 raises the SHARED threshold, and
sample 1 — which alone would spike at step 2 — does not.  The coupling is the adaptation sequence
(`[0, 1]` in the batch, `[0, 0]` alone), as `adaptation_only_coupling` says. -/
example :
    (NeuB.run exDyn exProp exRed 5 ⟨[0, 0], 0⟩ [(true, [5, 0]), (true, [0, 5])]).2 =
      [[true, false], [false, false]] ∧
    (NeuB.run exDyn exProp exRed 5 (NeuB.proj 1 ⟨[0, 0], 0⟩)
      (sampleSteps 1 [(true, [5, 0]), (true, [0, 5])])).2 = [[false], [true]] ∧
    NeuB.adaptSeq exDyn exProp exRed 5 ⟨[0, 0], 0⟩ [(true, [5, 0]), (true, [0, 5])] = [0, 1] ∧
    NeuB.adaptSeq exDyn exProp exRed 5 (NeuB.proj 1 ⟨[0, 0], 0⟩)
      (sampleSteps 1 [(true, [5, 0]), (true, [0, 5])]) = [0, 0] := by decide

-- Σ-reduction: two samples, a 2-element parameter, `u s x = [s·x, x]`, states advance by `s + k·x`
example : trainRunB (fun (k : Int) (s x : Int) => (s + k * x, s)) (fun s x => [s * x, x]) 2 1 [100, 200]
      [1, 2] [[10, 20], [1, 1]] = ([100 + (10 + 11) + (40 + 22), 200 + 11 + 21], [12, 23]) := by decide
example : aloneAcc (fun (k : Int) (s x : Int) => (s + k * x, s)) (fun s x => [s * x, x]) 2 1 2 1
      [[10, 20], [1, 1]] = [40 + 22, 21] := by decide

end Examples

end InfernoVerif.BatchB
