import InfernoVerif.Gen.InfraR
import InfernoVerif.Model.Record
import InfernoVerif.Model.Ring
import InfernoVerif.Model.Synapse
import InfernoVerif.Lemmas.Synapse
import Mathlib.Data.Rat.Floor
import Mathlib.Data.Rat.Cast.Order
/-!
# Glue: pointer arithmetic and the record-size formula of the models ARE the ones in /repo's source

`Gen/InfraR.lean` is regenerated on every run from `core/infrastructure.py`: the module-level
functions `_unwind_ptr`, `_unwind_tensor_ptr` and — by site extraction — the three inline occurrences
of the size expression `max(math.ceil(duration / step_time) + bool(inclusive), 1)` (constructor, `dt`
setter, `duration` setter of `RecordTensor`).  The theorems below tie to them

* `Ring.unwind` (`Model/Ring.lean`), the index function every read / write of the C01 ring machine
  goes through;
* `Record.recSize` (`Model/Record.lean`, C13 / C14) for exact rational times — the instance the
  size-formula theorems of `Props/C13.lean` are about — and for real times;
* `Synapse.recordsz` (`Model/Synapse.lean`, C04 / C06) at the real instance.

An off-by-one in the pointer formula, `floor` for `ceil`, a dropped `max(…, 1)` or an `inclusive` that
is added at one site only changes the generated text and the corresponding theorem stops checking.
-/
namespace InfernoVerif.Record.Glue
open InfernoVerif InfernoVerif.Gen
open Classical

/-- `_unwind_ptr(pointer, offset, size)` for a positive record size (Python's floor-mod is then the
Euclidean remainder the model uses) -/
theorem gen_unwind (ptr : ℕ) (off : ℤ) (n : ℕ) :
    ((Ring.unwind ptr off n : ℕ) : ℤ) = InfraR._unwind_ptr (ptr : ℤ) off (n : ℤ) ∨ n = 0 := by
  rcases Nat.eq_zero_or_pos n with h | h
  · exact Or.inr h
  · left
    unfold Ring.unwind InfraR._unwind_ptr
    rw [Int.fmod_eq_emod_of_nonneg _ (Int.natCast_nonneg n)]
    exact Int.toNat_of_nonneg (Int.emod_nonneg _ (by omega))

/-- the tensor-offset variant is the same formula applied per element -/
theorem gen_unwind_tensor (ptr off n : ℤ) :
    InfraR._unwind_tensor_ptr ptr off n = InfraR._unwind_ptr ptr off n := rfl

/-- the three inline copies of the size expression are one expression -/
theorem gen_size_sites_agree (dur dt : ℝ) (incl : Prop) :
    InfraR.RecordTensor_size_dt dur dt incl = InfraR.RecordTensor_size_init dur dt incl ∧
    InfraR.RecordTensor_size_duration dur dt incl = InfraR.RecordTensor_size_init dur dt incl := ⟨rfl, rfl⟩

theorem rat_ceil_eq (q : ℚ) : q.ceil = ⌈q⌉ := by
  apply eq_of_forall_ge_iff
  intro z
  rw [Rat.ceil_le_iff, Int.ceil_le]

/-- `Record.recSize` over exact rationals (the C13 size-formula instance) is the source's expression
evaluated at the same times as reals -/
theorem gen_recSize_rat (dt dur : ℚ) (incl : Bool) :
    ((Record.recSize Record.ratOps dt dur incl : ℕ) : ℤ)
      = InfraR.RecordTensor_size_init (dur : ℝ) (dt : ℝ) (incl = true) := by
  unfold Record.recSize Record.ratOps InfraR.RecordTensor_size_init
  simp only []
  rw [rat_ceil_eq, ← Rat.cast_div, Rat.ceil_cast]
  have h1 : (1 : ℤ) ≤ max (⌈dur / dt⌉ + (if incl = true then 1 else 0)) 1 := le_max_right _ _
  rw [Int.toNat_of_nonneg (by omega)]
  cases incl <;> simp

/-- the real-time instance of the size formula -/
noncomputable def realTimeOps : Record.TimeOps ℝ :=
  { pos := fun v => decide (0 < v), nonneg := fun v => decide (0 ≤ v), ceilDiv := fun dur dt => ⌈dur / dt⌉ }

theorem gen_recSize_real (dt dur : ℝ) (incl : Bool) :
    ((Record.recSize realTimeOps dt dur incl : ℕ) : ℤ)
      = InfraR.RecordTensor_size_init dur dt (incl = true) := by
  unfold Record.recSize realTimeOps InfraR.RecordTensor_size_init
  simp only []
  have h1 : (1 : ℤ) ≤ max (⌈dur / dt⌉ + (if incl = true then 1 else 0)) 1 := le_max_right _ _
  rw [Int.toNat_of_nonneg (by omega)]
  cases incl <;> simp

/-- `Synapse.recordsz` (history length of every synapse record; `inclusive=True` there) at the real
instance, for a non-negative quotient (constructors validate `delay ≥ 0`, `dt > 0`) -/
theorem gen_synapse_recordsz (dt dur : ℝ) (incl : Bool) (h : 0 ≤ dur / dt) :
    ((Synapse.recordsz Synapse.realSOps.K dt dur incl : ℕ) : ℤ)
      = InfraR.RecordTensor_size_init dur dt (incl = true) := by
  unfold Synapse.recordsz InfraR.RecordTensor_size_init
  have hc : (0 : ℤ) ≤ ⌈dur / dt⌉ := Int.ceil_nonneg h
  have e : Synapse.realSOps.K.ceil (Synapse.realSOps.K.div dur dt) = ⌈dur / dt⌉ := rfl
  rw [e]
  cases incl <;> simp [max_def] <;> split_ifs <;> omega

end InfernoVerif.Record.Glue
