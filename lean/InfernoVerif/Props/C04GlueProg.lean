import InfernoVerif.Gen.SynapseProg
import InfernoVerif.Model.Synapse
/-!
# Glue: the code-shaped synapse model IS the record plumbing of the four synapse classes in /repo's source

`Gen/SynapseProg.lean` is regenerated on every run by `harness/progtx_synapse.py` from the *whole bodies* of
`_synparam_at`, `CurrentMixin.current` (getter, setter) / `current_at`, `SpikeMixin.spike` (getter, setter) /
`spike_at`, `SpikeDerivedCurrentMixin._derived_current` / `current` / `current_at`
(`inferno/neural/synapses/mixins.py`), the closure `spike_to_current` of `DeltaCurrent.__init__`, `DeltaCurrent.clear` /
`forward`, `DeltaPlusCurrent.clear` / `forward` (`current.py`), `SingleExponentialCurrent.clear` / `forward`,
`DoubleExponentialCurrent.clear` / `current` / `pos_current` / `neg_current` / `current_at` / `forward`
(`expcurrent.py`): which record is pushed with what and with which `inplace` flag, the `.bool()` conversions, the
recurrences, what `clear` resets to, the property / `VirtualTensor` indirections, the `recordsz == 1` branch with its
trailing-dimension `expand`, the selector clamp, the `select` call with its keyword arguments, the overbound `where`,
the positional argument order of every `_synparam_at(...)` call, the `transform` lambda and the final `.to(dtype=…)`.
`RecordTensor` / `VirtualTensor` methods are the primitives of `Gen/SynapsePrelude.lean`.

The theorems below state, method by method, that running the regenerated program on the state `ofM S c nd s` — the
object a class's constructor builds from the configuration `c`, holding the records `s` — is exactly the hand-written,
code-shaped model of `Model/Synapse.lean` (`step` / `stepDelta` …, `clear`, `spikeAt`, `currentAt`, `synparamAt`,
`spikeNow`), the model all theorems of `Props/C04.lean` are about.  They hold for EVERY arithmetic `SOps α`, hence for the
`Float` instance the driver executes and for the `ℝ` instance of the property theorems.  For the state-changing methods
the statement is an equation of whole results: the new object is again `ofM S c nd s'` for the model's new state `s'`
(so nothing else of the object moved), the returned tensor has the batched dimensions and floating dtype, and the
program raises (`IndexError`) exactly where the model answers `none`.  A change to a body (a record pushed with the
other value, a dropped `.bool()`, `tolerance` and `overbound` swapped in a `_synparam_at` call, the other time constant
in `interp_kwargs`, a flipped `recordsz` test, the overbound mask taken against the unbounded selector, `clear`
resetting to another fill) changes the generated text and the corresponding theorem stops checking.

What the abstraction assumes / forgets (not papered over):
* `ofM` IS the constructor wiring, hand written: which configuration value each `__init__` stores into which private
  field (`__interp`, `__interp_kwargs`, `__overbound`, `__tolerance`, …), that `DeltaCurrent` passes its closure
  `spike_to_current` as `to_currents` (the generated definitions take it as the parameter `to_current`), the dtype class
  of each record (`spike_`: `bool`; currents: floating) and of the virtual `current_` (floating), `tc_decay` / `time_constant`
  both being the model's `tau`.  The `__init__` bodies are NOT regenerated.  What IS checked on every run by the
  translator (it refuses otherwise): every record is created by
  `RecordTensor.create(self, "<name>", self.dt, self.delay, <data>, …, inclusive=True)` — the `dt` / `duration` /
  `recordsz` that `recOf` and `Model/Synapse.lean :: Cfg.n` assume — and `current_` of `SpikeDerivedCurrentMixin` is
  `VirtualTensor.create(self, "current_", "_derived_current", …)`.
* One element of the batched tensor (`Model/Synapse.lean`); a tensor's `ndim` and dtype class are carried along
  (`Ten`).  `RecordTensor.select` raises `ValueError` unless the selector has an observation's dimensions or one more;
  the model has no such test, so the read theorems take `hdim`.  The trailing-dimension `expand` of the `recordsz == 1`
  branch changes `ndim` only — the value theorems show it never changes a value, and `gen_synparam_at_ndim` /
  `gen_spike_at_ndim` / `gen_current_at_ndim` show that every delayed read answers in the SELECTOR's dimensions
  (false without the `expand`: the past defect D33, which a per-element value model cannot see).
* `forward` is stated for a floating input (`hx`): `inputs[0].bool()` is then `toSpike`, as in the model.
* The model's `currentAtDouble` reports `valueError` when the first read has no slot and the second is out of range;
  the code raises at the first failing read.  Both records of a `DoubleExponentialCurrent` have the same size (`hn`,
  `Lemmas/Synapse.lean :: St.Sized`), which rules the combination out.
* an attribute a class does not have is `noRing` in `ofM` and is never touched by that class's programs.
-/
set_option linter.unusedSimpArgs false
namespace InfernoVerif.Gen.SynapseProg
open InfernoVerif.Ring InfernoVerif.Select InfernoVerif.Synapse InfernoVerif.Gen.SynapsePrelude

variable {α : Type}

/-! ## Abstraction -/

/-- a record of the model as the `RecordTensor` the constructors create:
`RecordTensor.create(self, name, self.dt, self.delay, data, …, inclusive=True)` -/
def recOf (c : Cfg α) (nd : Int) (d : DT) (r : Ring α) : Rec α := ⟨r, c.dt, c.delay, d, nd⟩

/-- an attribute the class does not have -/
def noRing : Ring α := ⟨0, 0, []⟩

/-- `current_interp` handed to `CurrentMixin.__init__`: `interp_expdecay` (single exponential), else the class's
`interp_mode` function -/
def curInterp (S : SOps α) (c : Cfg α) : KwInterp α :=
  match c.kind with
  | .singleExp => kwExpdecay S
  | _ => kwMode S c.mode

/-- `current_interp_kwargs`: `{"time_constant": self.time_constant}` (single exponential), else `{}` -/
def curKwargs (c : Cfg α) : Kwargs α :=
  match c.kind with
  | .singleExp => [("time_constant", c.tau)]
  | _ => []

/-- abstraction (constructor wiring, hand written): the synapse object of class `c.kind` built from the
configuration `c`, with `nd` batched dimensions, holding the model's records `s` -/
def ofM (S : SOps α) (c : Cfg α) (nd : Int) (s : St α) : SynT α where
  dt := c.dt
  delay := c.delay
  inplace := c.inplace
  spike_charge := c.Q
  time_constant := c.tau
  tc_decay := c.tau
  tc_rise := c.tauR
  spike_ := recOf c nd .bool s.spike
  current_ := recOf c nd .float (match c.kind with | .deltaPlus => s.cur | .singleExp => s.cur | _ => noRing)
  vcurrent_ := ⟨.float⟩
  pos_current_ := recOf c nd .float (match c.kind with | .doubleExp => s.cur | _ => noRing)
  neg_current_ := recOf c nd .float (match c.kind with | .doubleExp => s.neg | _ => noRing)
  SpikeMixin__interp := kwMode S c.mode
  SpikeMixin__interp_kwargs := []
  SpikeMixin__overbound := c.spkOver
  SpikeMixin__tolerance := c.tol
  CurrentMixin__interp := curInterp S c
  CurrentMixin__interp_kwargs := curKwargs c
  CurrentMixin__overbound := c.curOver
  CurrentMixin__tolerance := c.tol
  SpikeDerivedCurrentMixin__interp := kwMode S c.mode
  SpikeDerivedCurrentMixin__interp_kwargs := []
  SpikeDerivedCurrentMixin__current_overbound := c.curOver
  SpikeDerivedCurrentMixin__tolerance := c.tol
  DoubleExponentialCurrent__current_overbound := c.curOver
  DoubleExponentialCurrent__tolerance := c.tol

/-- what `forward` must return for the model's answer: the new object and the current (batched dimensions, floating),
or `IndexError` where the model has no slot to read -/
def stepOut (S : SOps α) (c : Cfg α) (nd : Int) : Option (St α × α) → Except Err (SynT α × Ten α)
  | some (s', v) => .ok (ofM S c nd s', ⟨nd, .float, v⟩)
  | none => .error .IndexError

/-- result of a regenerated read → outcome of the model's read functions (`ValueError` ↦ `valueError`, any other
exception ↦ `noSlot`) -/
def toOutcome {β γ : Type} (f : β → γ) : Except Err β → Outcome γ
  | .ok b => .ok (f b)
  | .error .ValueError => .valueError
  | .error _ => .noSlot

/-! ## Helper facts about the vocabulary -/

/-- `inputs[0]` of a non-empty `*inputs` -/
theorem pyGetItem_zero {β : Type} (x : β) (xs : List β) : pyGetItem (x :: xs) 0 = .ok x := rfl

/-- the value of a left fold of tensor additions is the fold of the values -/
theorem foldl_add_val (K : Ops α) (l : List (Ten α)) (t : Ten α) :
    (l.foldl (fun acc x => acc.add K x) t).val = (l.map (·.val)).foldl K.add t.val := by
  induction l generalizing t with
  | nil => rfl
  | cons a l ih =>
    simp only [List.foldl_cons, List.map_cons]
    rw [ih]
    rfl

/-- Python's `sum` on tensors: `0 + x₀ + x₁ + …` on the values -/
theorem pySum_val (K : Ops α) (l : List (Ten α)) :
    (pySum K l).val = (l.map (·.val)).foldl K.add (K.ofInt 0) := by
  simp only [pySum, foldl_add_val, Ten.ofInt]

/-- the value of a conditional whose branches have the same value -/
theorem ite_val (c : Prop) [Decidable c] (a b : Ten α) (h : a.val = b.val) : (if c then a else b).val = b.val := by
  split <;> simp [h]

/-- `interp_previous` / `interp_nearest` called with `**{}` -/
theorem kwMode_nil (S : SOps α) (m : Mode) : kwMode S m [] = .ok (modeInterp S m) := rfl

/-- `interp_expdecay` called with `**{"time_constant": tc}` is the model's `expInterp S tc` -/
theorem kwExpdecay_tc (S : SOps α) (tc : α) : kwExpdecay S [("time_constant", tc)] = .ok (expInterp S tc) := by
  simp [kwExpdecay]

/-- a float overbound value enters `torch.where` as itself -/
theorem enc_f (K : Ops α) (o : Option α) : (o.map PyVal.f).map (PyVal.enc K) = o := by
  cases o <;> rfl

/-- a getter-style method returns the object it was given and a tensor with the function's value -/
theorem toOutcome_bind_pair (f : Ten α → Ten α) (hf : ∀ t, (f t).val = t.val) (g : SynT α) (x : Except Err (Ten α)) :
    toOutcome (fun r : SynT α × Ten α => r.2.val) (Except.bind x (fun v => .ok (g, f v))) = toOutcome (·.val) x := by
  cases x with
  | error e => cases e <;> rfl
  | ok t => simp [Except.bind, toOutcome, hf]

/-- `select`'s range test fails: the model's `selectTensor` answers `valueError` -/
theorem selectTensor_out_of_range (K : Ops α) (interp : Interp α) (r : Ring α) (dt tol t : α) (off : Int)
    (h : inRange K r.n dt tol t = false) : selectTensor K interp r dt tol t off = .valueError := by
  unfold selectTensor; simp [h]

/-- `select`'s range test passes: `selectTensor` does not answer `valueError` -/
theorem selectTensor_in_range (K : Ops α) (interp : Interp α) (r : Ring α) (dt tol t : α) (off : Int)
    (h : inRange K r.n dt tol t = true) : selectTensor K interp r dt tol t off ≠ .valueError := by
  unfold selectTensor withPair
  simp only [h, Bool.not_true, Bool.false_eq_true, ↓reduceIte]
  split <;> simp

/-! ## `forward` -/

/-- **gen_delta_forward**: the regenerated `DeltaCurrent.forward` (`self.spike = inputs[0].bool()` through
`SpikeMixin.spike`'s setter, `return self.current` through the `VirtualTensor` / `_derived_current` /
`spike_to_current` chain) is the `.delta` case of `Synapse.step` -/
theorem gen_delta_forward (S : SOps α) (c : Cfg α) (nd : Int) (s : St α) (hk : c.kind = .delta)
    (x : Ten α) (rest : List (Ten α)) (hx : x.dtype = .float) :
    DeltaCurrent_forward S (DeltaCurrent_spike_to_current S) (ofM S c nd s) (x :: rest)
      = stepOut S c nd (Synapse.step S c s x.val (rest.map (·.val))) := by
  obtain ⟨ndx, dtx, vx⟩ := x
  simp only at hx; subst hx
  simp only [DeltaCurrent_forward, SpikeMixin_spike_setter, SpikeDerivedCurrentMixin_current,
    SpikeDerivedCurrentMixin__derived_current, SpikeMixin_spike, DeltaCurrent_spike_to_current, VirtualTensor_value,
    RecordTensor_push, RecordTensor_peek, pyGetItem_zero, Ten.bool, Ten.to, Ten.mulF,
    bind, Except.bind, pure, Except.pure, ofM, recOf, Synapse.step, stepDelta, spikeToCurrent, hk]
  cases h : (s.spike.push (toSpike S.K vx) c.inplace).read 1 <;> simp [stepOut, ofM, recOf, hk]

/-- **gen_deltaplus_forward**: the regenerated `DeltaPlusCurrent.forward` (spike pushed to `spike_`,
`sum((inputs[0] * (spike_charge / dt), *inputs[1:]))` pushed to `current_`, both with `self.inplace`, the pushed
current read back) is the `.deltaPlus` case of `Synapse.step`, injected currents included -/
theorem gen_deltaplus_forward (S : SOps α) (c : Cfg α) (nd : Int) (s : St α) (hk : c.kind = .deltaPlus)
    (x : Ten α) (rest : List (Ten α)) (hx : x.dtype = .float) :
    DeltaPlusCurrent_forward S (ofM S c nd s) (x :: rest)
      = stepOut S c nd (Synapse.step S c s x.val (rest.map (·.val))) := by
  obtain ⟨ndx, dtx, vx⟩ := x
  simp only at hx; subst hx
  simp only [DeltaPlusCurrent_forward, SpikeMixin_spike_setter, CurrentMixin_current_setter, CurrentMixin_current,
    RecordTensor_push, RecordTensor_peek, pyGetItem_zero, Ten.bool, Ten.mulF, pySum_val,
    bind, Except.bind, pure, Except.pure, ofM, recOf, Synapse.step, stepDeltaPlus, hk,
    List.drop_succ_cons, List.drop_zero, List.map_cons]
  cases h : (s.cur.push (List.foldl S.K.add (S.K.ofInt 0) (S.K.mul vx (S.K.div c.Q c.dt) :: List.map (fun x => x.val) rest))
      c.inplace).read 1 <;> simp [stepOut, ofM, recOf, hk]

/-- **gen_singleexp_forward**: the regenerated `SingleExponentialCurrent.forward` (the present current read from
`current_`, decayed by `math.exp(-dt / time_constant)`, plus `(spike_charge / time_constant) * inputs[0]`, pushed to
`current_` and read back) is the `.singleExp` case of `Synapse.step` -/
theorem gen_singleexp_forward (S : SOps α) (c : Cfg α) (nd : Int) (s : St α) (hk : c.kind = .singleExp)
    (x : Ten α) (rest : List (Ten α)) (hx : x.dtype = .float) :
    SingleExponentialCurrent_forward S (ofM S c nd s) (x :: rest)
      = stepOut S c nd (Synapse.step S c s x.val (rest.map (·.val))) := by
  obtain ⟨ndx, dtx, vx⟩ := x
  simp only at hx; subst hx
  simp only [SingleExponentialCurrent_forward, SpikeMixin_spike_setter, CurrentMixin_current_setter, CurrentMixin_current,
    RecordTensor_push, RecordTensor_peek, pyGetItem_zero, Ten.bool, Ten.mulF, Ten.fmul, Ten.add,
    bind, Except.bind, pure, Except.pure, ofM, recOf, Synapse.step, stepSingleExp, expUpdate, hk]
  cases h : s.cur.read 1 with
  | none => simp [stepOut]
  | some i =>
    simp only []
    cases h2 : (s.cur.push (S.K.add (S.K.mul i (S.exp (S.K.div (S.K.neg c.dt) c.tau))) (S.K.mul (S.K.div c.Q c.tau) vx))
        c.inplace).read 1 <;> simp [stepOut, ofM, recOf, hk]

/-- **gen_doubleexp_forward**: the regenerated `DoubleExponentialCurrent.forward` (`pos_current_` decayed with
`tc_decay`, `neg_current_` with `tc_rise`, both with the amplitude `spike_charge / (tc_decay - tc_rise)`, each pushed to
ITS record; the difference of the two read-backs returned) is the `.doubleExp` case of `Synapse.step` -/
theorem gen_doubleexp_forward (S : SOps α) (c : Cfg α) (nd : Int) (s : St α) (hk : c.kind = .doubleExp)
    (x : Ten α) (rest : List (Ten α)) (hx : x.dtype = .float) :
    DoubleExponentialCurrent_forward S (ofM S c nd s) (x :: rest)
      = stepOut S c nd (Synapse.step S c s x.val (rest.map (·.val))) := by
  obtain ⟨ndx, dtx, vx⟩ := x
  simp only at hx; subst hx
  simp only [DoubleExponentialCurrent_forward, SpikeMixin_spike_setter, DoubleExponentialCurrent_pos_current_setter,
    DoubleExponentialCurrent_neg_current_setter, DoubleExponentialCurrent_pos_current, DoubleExponentialCurrent_neg_current,
    DoubleExponentialCurrent_current,
    RecordTensor_push, RecordTensor_peek, pyGetItem_zero, Ten.bool, Ten.mulF, Ten.fmul, Ten.add, Ten.sub,
    bind, Except.bind, pure, Except.pure, ofM, recOf, Synapse.step, stepDoubleExp, expUpdate, hk]
  cases h : s.cur.read 1 with
  | none => simp [stepOut]
  | some p =>
    simp only []
    cases h' : s.neg.read 1 with
    | none => simp [stepOut]
    | some q =>
      simp only []
      cases h2 : (s.cur.push (S.K.add (S.K.mul p (S.exp (S.K.div (S.K.neg c.dt) c.tau)))
          (S.K.mul (S.K.div c.Q (S.K.sub c.tau c.tauR)) vx)) c.inplace).read 1 <;>
        cases h3 : (s.neg.push (S.K.add (S.K.mul q (S.exp (S.K.div (S.K.neg c.dt) c.tauR)))
          (S.K.mul (S.K.div c.Q (S.K.sub c.tau c.tauR)) vx)) c.inplace).read 1 <;>
        simp [stepOut, ofM, recOf, hk, DT.promote]

/-! ## `clear` -/

/-- **gen_delta_clear**: the regenerated `DeltaCurrent.clear` (`spike_.reset(False)`) is the model's `clear` -/
theorem gen_delta_clear (S : SOps α) (c : Cfg α) (nd : Int) (s : St α) (hk : c.kind = .delta) :
    DeltaCurrent_clear S (ofM S c nd s) = .ok (ofM S c nd (clear S s), ()) := by
  simp only [DeltaCurrent_clear, RecordTensor_reset, bind, Except.bind, pure, Except.pure, ofM, recOf, clear,
    PyVal.store, ofBool, hk]
  rfl

/-- **gen_deltaplus_clear**: the regenerated `DeltaPlusCurrent.clear` (`spike_.reset(False)`, `current_.reset(0.0)`)
is the model's `clear` -/
theorem gen_deltaplus_clear (S : SOps α) (c : Cfg α) (nd : Int) (s : St α) (hk : c.kind = .deltaPlus) :
    DeltaPlusCurrent_clear S (ofM S c nd s) = .ok (ofM S c nd (clear S s), ()) := by
  simp only [DeltaPlusCurrent_clear, RecordTensor_reset, bind, Except.bind, pure, Except.pure, ofM, recOf, clear,
    PyVal.store, ofBool, hk]
  rfl

/-- **gen_singleexp_clear**: the regenerated `SingleExponentialCurrent.clear` is the model's `clear` -/
theorem gen_singleexp_clear (S : SOps α) (c : Cfg α) (nd : Int) (s : St α) (hk : c.kind = .singleExp) :
    SingleExponentialCurrent_clear S (ofM S c nd s) = .ok (ofM S c nd (clear S s), ()) := by
  simp only [SingleExponentialCurrent_clear, RecordTensor_reset, bind, Except.bind, pure, Except.pure, ofM, recOf, clear,
    PyVal.store, ofBool, hk]
  rfl

/-- **gen_doubleexp_clear**: the regenerated `DoubleExponentialCurrent.clear` (all three records reset, the currents to
`0.0`) is the model's `clear` -/
theorem gen_doubleexp_clear (S : SOps α) (c : Cfg α) (nd : Int) (s : St α) (hk : c.kind = .doubleExp) :
    DoubleExponentialCurrent_clear S (ofM S c nd s) = .ok (ofM S c nd (clear S s), ()) := by
  simp only [DoubleExponentialCurrent_clear, RecordTensor_reset, bind, Except.bind, pure, Except.pure, ofM, recOf, clear,
    PyVal.store, ofBool, hk]
  rfl

/-! ## The `spike` / `current` properties -/

/-- the regenerated `SpikeMixin.spike` getter (all four classes): `spike_.peek()`, a `bool` tensor, nothing changed -/
theorem gen_spike (S : SOps α) (c : Cfg α) (nd : Int) (s : St α) :
    SpikeMixin_spike S (ofM S c nd s) =
      match s.spike.read 1 with
      | some v => .ok (ofM S c nd s, ⟨nd, .bool, v⟩)
      | none => .error .IndexError := by
  simp only [SpikeMixin_spike, RecordTensor_peek, bind, Except.bind, pure, Except.pure, ofM, recOf]
  cases s.spike.read 1 <;> rfl

/-- … which is the model's `spikeNow` -/
theorem gen_spike_now (S : SOps α) (c : Cfg α) (nd : Int) (s : St α) :
    (match SpikeMixin_spike S (ofM S c nd s) with
      | .ok (_, t) => some (isSpike S.K t.val)
      | .error _ => none) = spikeNow S s := by
  rw [gen_spike]
  unfold spikeNow
  cases s.spike.read 1 <;> rfl

/-- the regenerated `DeltaCurrent.current` (`SpikeDerivedCurrentMixin.current` → `VirtualTensor.value` →
`_derived_current` → the closure `spike_to_current` on `self.spike`) is the model's `spikeToCurrent` of the present spike -/
theorem gen_delta_current (S : SOps α) (c : Cfg α) (nd : Int) (s : St α) :
    SpikeDerivedCurrentMixin_current S (DeltaCurrent_spike_to_current S) (ofM S c nd s) =
      match s.spike.read 1 with
      | some v => .ok (ofM S c nd s, ⟨nd, .float, spikeToCurrent S c v⟩)
      | none => .error .IndexError := by
  simp only [SpikeDerivedCurrentMixin_current, SpikeDerivedCurrentMixin__derived_current, SpikeMixin_spike,
    DeltaCurrent_spike_to_current, VirtualTensor_value, RecordTensor_peek, bind, Except.bind, pure, Except.pure, ofM, recOf]
  cases s.spike.read 1 <;> rfl

/-- the regenerated `CurrentMixin.current` getter (delta-plus, single exponential): `current_.peek()` -/
theorem gen_current (S : SOps α) (c : Cfg α) (nd : Int) (s : St α) (hk : c.kind = .deltaPlus ∨ c.kind = .singleExp) :
    CurrentMixin_current S (ofM S c nd s) =
      match s.cur.read 1 with
      | some v => .ok (ofM S c nd s, ⟨nd, .float, v⟩)
      | none => .error .IndexError := by
  rcases hk with hk | hk <;>
  · simp only [CurrentMixin_current, RecordTensor_peek, bind, Except.bind, pure, Except.pure, ofM, recOf, hk]
    cases s.cur.read 1 <;> rfl

/-- the regenerated `DoubleExponentialCurrent.current` getter: `pos_current_.peek() - neg_current_.peek()` -/
theorem gen_doubleexp_current (S : SOps α) (c : Cfg α) (nd : Int) (s : St α) (hk : c.kind = .doubleExp) :
    DoubleExponentialCurrent_current S (ofM S c nd s) =
      match s.cur.read 1, s.neg.read 1 with
      | some p, some q => .ok (ofM S c nd s, ⟨nd, .float, S.K.sub p q⟩)
      | _, _ => .error .IndexError := by
  simp only [DoubleExponentialCurrent_current, RecordTensor_peek, bind, Except.bind, pure, Except.pure, ofM, recOf, hk]
  cases s.cur.read 1 <;> cases s.neg.read 1 <;> simp [Ten.sub, DT.promote]

/-! ## `_synparam_at` -/

/-- **gen_synparam_at**: the regenerated `_synparam_at(value, selector, interpolation, interp_kwargs, tolerance,
overbound, transform)` is the model's `synparamAt` on the record's ring, `dt` and `duration`: the `recordsz == 1`
branch (`peek`, `bounded_selector = 0`), else the selector clamped to `[0, duration]` and `select`ed with the kernel
`interpolation(…, **interp_kwargs)` and THIS tolerance, the transform, then the overbound replacement against the
bounded selector.  `interp` is what the interpolation function is under its keyword arguments (`hki`), `tr` what the
transform (identity when `None`) does to a value (`hT`, `hF`). -/
theorem gen_synparam_at (S : SOps α) (r : Rec α) (sel : Ten α) (ki : KwInterp α) (kw : Kwargs α) (interp : Interp α)
    (hki : ki kw = .ok interp) (tol : α) (over : Option (PyVal α)) (T : Option (Ten α → Except Err (Ten α)))
    (F : Ten α → Ten α) (tr : α → α) (hT : ∀ t, T.getD (fun x => pure x) t = .ok (F t)) (hF : ∀ t, (F t).val = tr t.val)
    (hdim : sel.ndim = r.ndim ∨ sel.ndim = r.ndim + 1) :
    toOutcome (·.val) (_synparam_at S r sel ki kw tol over T)
      = synparamAt S.K interp r.ring r.dt r.duration tol (over.map (PyVal.enc S.K)) tr sel.val := by
  unfold _synparam_at synparamAt rawAt boundedSel
  simp only [pure, Except.pure] at hT
  by_cases hn : r.ring.n = 1
  · -- undelayed access
    have hd : ((r.ring.n : Int) = 1) := by omega
    have hb : (r.ring.n == 1) = true := by simp [hn]
    simp only [RecordTensor_recordsz, hd, hb, decide_true, ↓reduceIte, bind, Except.bind, pure, Except.pure,
      RecordTensor_peek, readO]
    cases hr : r.ring.read 1 with
    | none => rfl
    | some v =>
      simp only [hT, Outcome.map]
      cases over with
      | none => simp [toOutcome, applyOverbound, ite_val, Ten.unsqueeze, Ten.expand, hF]
      | some o =>
        simp [toOutcome, applyOverbound, torch_where, Ten.sub, Ten.abs, Ten.le, Ten.ofInt, ite_val, Ten.unsqueeze,
          Ten.expand, hF, PyVal.enc]
  · -- delayed access
    have hd : ¬ ((r.ring.n : Int) = 1) := by omega
    have hb : (r.ring.n == 1) = false := by simp [hn]
    simp only [RecordTensor_recordsz, hd, hb, decide_false, Bool.false_eq_true, ↓reduceIte, bind, Except.bind, pure,
      Except.pure, RecordTensor_select, RecordTensor_duration, Ten.clamp, hdim, hki]
    generalize hb' : clamp S.K sel.val (S.K.ofInt 0) r.duration = b
    cases hin : inRange S.K r.ring.n r.dt tol b
    · have : selectTensor S.K interp r.ring r.dt tol b 1 = .valueError :=
        selectTensor_out_of_range S.K interp r.ring r.dt tol b 1 hin
      simp [this, toOutcome, Outcome.map]
    · simp only [↓reduceIte]
      cases hs : selectTensor S.K interp r.ring r.dt tol b 1 with
      | valueError => rfl
      | noSlot => rfl
      | ok v =>
        simp only [hT, Outcome.map]
        cases over with
        | none => simp [toOutcome, applyOverbound, hF]
        | some o => simp [toOutcome, applyOverbound, torch_where, Ten.sub, Ten.abs, Ten.le, hF, PyVal.enc]

/-- dtype class after the optional overbound `where` -/
def whereDtype (d : DT) : Option (PyVal α) → DT
  | none => d
  | some o => d.promote o.dtype

/-- the overbound `where` promotes the dtype class of the selected values with that of the overbound value -/
theorem overbound_dtype (S : SOps α) (d : DT) (sel b res t : Ten α) (tol : α) (over : Option (PyVal α))
    (hres : res.dtype = d)
    (ht : (match over with
        | some overbound => (Except.ok (torch_where S.K (((sel.sub S.K b).abs S.K).le S.K tol) res overbound) : Except Err (Ten α))
        | none => Except.ok res) = .ok t) : t.dtype = whereDtype d over := by
  cases over with
  | none => simp only [Except.ok.injEq] at ht; rw [← ht, hres]; rfl
  | some o => simp only [Except.ok.injEq] at ht; rw [← ht]; simp [torch_where, hres, whereDtype]

/-- dtype class of what `_synparam_at` returns without a transform: the record's, promoted with the overbound
value's (so `spike_at`'s final `.to(dtype=bool)` converts nothing) -/
theorem synparam_at_dtype (S : SOps α) (r : Rec α) (sel : Ten α) (ki : KwInterp α) (kw : Kwargs α) (tol : α)
    (over : Option (PyVal α)) (t : Ten α) (h : _synparam_at S r sel ki kw tol over none = .ok t) :
    t.dtype = whereDtype r.dtype over := by
  unfold _synparam_at at h
  simp only [Option.getD, bind, Except.bind, pure, Except.pure] at h
  by_cases hd : decide (RecordTensor_recordsz r = 1) = true
  · -- undelayed
    simp only [hd, ↓reduceIte, RecordTensor_peek] at h
    cases hr : r.ring.read 1 with
    | none => simp [hr] at h
    | some v =>
      simp only [hr] at h
      exact overbound_dtype S _ _ _ _ _ _ _ (by split <;> rfl) h
  · -- delayed
    simp only [hd, Bool.false_eq_true, ↓reduceIte] at h
    cases hs : RecordTensor_select S.K r (sel.clamp S.K (S.K.ofInt 0) (RecordTensor_duration r)) ki tol 1 kw with
    | error e => simp [hs] at h
    | ok v =>
      simp only [hs] at h
      refine overbound_dtype S _ _ _ _ _ _ _ ?_ h
      unfold RecordTensor_select at hs
      split at hs
      · split at hs
        · split at hs
          · simp at hs
          · split at hs
            · simp only [Except.ok.injEq] at hs; rw [← hs]
            · simp at hs
            · simp at hs
        · simp at hs
      · simp at hs

/-! ### dimensions of the result -/

/-- the trailing-dimension `expand` of the `recordsz == 1` branch gives the result the selector's dimensions -/
theorem expand_ndim (sel res : Ten α) (nd : Int) (hres : res.ndim = nd) (hdim : sel.ndim = nd ∨ sel.ndim = nd + 1) :
    (if decide (sel.ndim = res.ndim + 1) = true then (res.unsqueeze (-1)).expand sel.shape else res).ndim = sel.ndim := by
  split
  · rfl
  · rename_i hne
    simp only [decide_eq_true_eq, hres] at hne
    rcases hdim with h1 | h1
    · rw [hres, h1]
    · exact absurd h1 hne

/-- `select` with a tensor of times returns a tensor of the times' dimensions -/
theorem select_ndim (K : Ops α) (r : Rec α) (time : Ten α) (ki : KwInterp α) (tol : α) (off : Int) (kw : Kwargs α)
    (v : Ten α) (hs : RecordTensor_select K r time ki tol off kw = .ok v) : v.ndim = time.ndim := by
  unfold RecordTensor_select at hs
  split at hs
  · split at hs
    · split at hs
      · simp at hs
      · split at hs
        · simp only [Except.ok.injEq] at hs; rw [← hs]
        · simp at hs
        · simp at hs
    · simp at hs
  · simp at hs

/-- the overbound `where` keeps the dimensions of a result that has the selector's -/
theorem overbound_ndim (S : SOps α) (sel b res t : Ten α) (tol : α) (over : Option (PyVal α))
    (hb : b.ndim ≤ sel.ndim) (hres : res.ndim = sel.ndim)
    (ht : (match over with
        | some overbound => (Except.ok (torch_where S.K (((sel.sub S.K b).abs S.K).le S.K tol) res overbound) : Except Err (Ten α))
        | none => Except.ok res) = .ok t) : t.ndim = sel.ndim := by
  cases over with
  | none => simp only [Except.ok.injEq] at ht; rw [← ht, hres]
  | some o =>
    simp only [Except.ok.injEq] at ht; rw [← ht]
    simp only [torch_where, Ten.le, Ten.abs, Ten.sub, hres]
    omega

/-- **gen_synparam_at_ndim**: what the regenerated `_synparam_at` returns has the SELECTOR's dimensions (for a
transform that keeps dimensions) — in the `recordsz == 1` branch because of the trailing-dimension `expand`
(the D33 repair), in the delayed branch because `select` answers in the shape of its times, and the overbound `where`
broadcasts nothing further -/
theorem gen_synparam_at_ndim (S : SOps α) (r : Rec α) (sel : Ten α) (ki : KwInterp α) (kw : Kwargs α) (tol : α)
    (over : Option (PyVal α)) (T : Option (Ten α → Except Err (Ten α))) (F : Ten α → Ten α)
    (hT : ∀ t, T.getD (fun x => pure x) t = .ok (F t)) (hF : ∀ t, (F t).ndim = t.ndim)
    (hdim : sel.ndim = r.ndim ∨ sel.ndim = r.ndim + 1) (hsel : 0 ≤ sel.ndim) (t : Ten α)
    (h : _synparam_at S r sel ki kw tol over T = .ok t) : t.ndim = sel.ndim := by
  unfold _synparam_at at h
  simp only [pure, Except.pure] at hT
  simp only [bind, Except.bind, pure, Except.pure] at h
  by_cases hd : decide (RecordTensor_recordsz r = 1) = true
  · -- undelayed
    simp only [hd, ↓reduceIte, RecordTensor_peek] at h
    cases hr : r.ring.read 1 with
    | none => simp [hr] at h
    | some v =>
      simp only [hr, hT] at h
      refine overbound_ndim S _ _ _ _ _ _ (by simpa [Ten.ofInt] using hsel) ?_ h
      simp only [hF, Ten.unsqueeze, Ten.expand, Ten.shape]
      split
      · rfl
      · rename_i hne
        simp only [decide_eq_true_eq] at hne
        rw [hF]
        rcases hdim with h1 | h1
        · exact h1.symm
        · exact absurd h1 hne
  · -- delayed
    simp only [hd, Bool.false_eq_true, ↓reduceIte] at h
    cases hs : RecordTensor_select S.K r (sel.clamp S.K (S.K.ofInt 0) (RecordTensor_duration r)) ki tol 1 kw with
    | error e => simp [hs] at h
    | ok v =>
      simp only [hs, hT] at h
      refine overbound_ndim S _ _ _ _ _ _ (by simp [Ten.clamp]) ?_ h
      rw [hF, select_ndim _ _ _ _ _ _ _ _ hs]
      rfl


/-! ## `spike_at` -/

/-- **gen_spike_at**: the regenerated `SpikeMixin.spike_at` (the method all four classes inherit) — `_synparam_at`
on `spike_` with the class's `interp_mode` function, `{}`, the TOLERANCE in the tolerance position and the spike
OVERBOUND in the overbound position, no transform, `.to(dtype=bool)` — is the model's `spikeAt` -/
theorem gen_spike_at (S : SOps α) (c : Cfg α) (nd : Int) (s : St α) (sel : Ten α)
    (hdim : sel.ndim = nd ∨ sel.ndim = nd + 1) :
    toOutcome (fun r => isSpike S.K r.2.val) (SpikeMixin_spike_at S (ofM S c nd s) sel) = spikeAt S c s sel.val := by
  have hg := gen_synparam_at S (recOf c nd .bool s.spike) sel (kwMode S c.mode) [] (modeInterp S c.mode) (kwMode_nil S c.mode)
    c.tol (c.spkOver.map PyVal.b) none id id (fun _ => rfl) (fun _ => rfl) hdim
  have hd := synparam_at_dtype S (recOf c nd .bool s.spike) sel (kwMode S c.mode) [] c.tol (c.spkOver.map PyVal.b)
  simp only [SpikeMixin_spike_at, bind, Except.bind, pure, Except.pure, ofM, RecordTensor_value, spikeAt]
  simp only [recOf, Option.map_map] at hg hd ⊢
  have he : (PyVal.enc S.K ∘ PyVal.b) = ofBool S.K := rfl
  rw [he] at hg
  rw [← hg]
  cases hr : _synparam_at S { ring := s.spike, dt := c.dt, duration := c.delay, dtype := DT.bool, ndim := nd } sel
      (kwMode S c.mode) [] c.tol (Option.map PyVal.b c.spkOver) none with
  | error e => cases e <;> rfl
  | ok t =>
    have hb : t.dtype = .bool := by
      rw [hd t hr]
      cases c.spkOver <;> rfl
    simp [toOutcome, Outcome.map, Ten.to, Ten.bool, hb]

/-- `spike_at` of a `DeltaCurrent` -/
theorem gen_spike_at_delta (S : SOps α) (c : Cfg α) (nd : Int) (s : St α) (_hk : c.kind = .delta) (sel : Ten α)
    (hdim : sel.ndim = nd ∨ sel.ndim = nd + 1) :
    toOutcome (fun r => isSpike S.K r.2.val) (SpikeMixin_spike_at S (ofM S c nd s) sel) = spikeAt S c s sel.val :=
  gen_spike_at S c nd s sel hdim

/-- `spike_at` of a `DeltaPlusCurrent` -/
theorem gen_spike_at_deltaplus (S : SOps α) (c : Cfg α) (nd : Int) (s : St α) (_hk : c.kind = .deltaPlus) (sel : Ten α)
    (hdim : sel.ndim = nd ∨ sel.ndim = nd + 1) :
    toOutcome (fun r => isSpike S.K r.2.val) (SpikeMixin_spike_at S (ofM S c nd s) sel) = spikeAt S c s sel.val :=
  gen_spike_at S c nd s sel hdim

/-- `spike_at` of a `SingleExponentialCurrent` -/
theorem gen_spike_at_singleexp (S : SOps α) (c : Cfg α) (nd : Int) (s : St α) (_hk : c.kind = .singleExp) (sel : Ten α)
    (hdim : sel.ndim = nd ∨ sel.ndim = nd + 1) :
    toOutcome (fun r => isSpike S.K r.2.val) (SpikeMixin_spike_at S (ofM S c nd s) sel) = spikeAt S c s sel.val :=
  gen_spike_at S c nd s sel hdim

/-- `spike_at` of a `DoubleExponentialCurrent` -/
theorem gen_spike_at_doubleexp (S : SOps α) (c : Cfg α) (nd : Int) (s : St α) (_hk : c.kind = .doubleExp) (sel : Ten α)
    (hdim : sel.ndim = nd ∨ sel.ndim = nd + 1) :
    toOutcome (fun r => isSpike S.K r.2.val) (SpikeMixin_spike_at S (ofM S c nd s) sel) = spikeAt S c s sel.val :=
  gen_spike_at S c nd s sel hdim

/-- `.to(dtype=…)` keeps the dimensions -/
theorem to_ndim (K : Ops α) (t : Ten α) (d : DT) : (t.to K d).ndim = t.ndim := by
  cases d <;> simp only [Ten.to, Ten.bool] <;> split <;> rfl

/-- what the regenerated `spike_at` returns has the selector's dimensions -/
theorem gen_spike_at_ndim (S : SOps α) (c : Cfg α) (nd : Int) (s : St α) (sel : Ten α)
    (hdim : sel.ndim = nd ∨ sel.ndim = nd + 1) (hsel : 0 ≤ sel.ndim) (g : SynT α) (t : Ten α)
    (h : SpikeMixin_spike_at S (ofM S c nd s) sel = .ok (g, t)) : t.ndim = sel.ndim := by
  simp only [SpikeMixin_spike_at, bind, Except.bind, pure, Except.pure] at h
  split at h
  · cases h
  · rename_i v hv
    simp only [Except.ok.injEq, Prod.mk.injEq] at h
    rw [← h.2, to_ndim]
    exact gen_synparam_at_ndim S _ sel _ _ _ _ none id (fun _ => rfl) (fun _ => rfl) hdim hsel v hv

/-! ## `current_at` -/

/-- **gen_current_at_delta**: the regenerated `SpikeDerivedCurrentMixin.current_at` of a `DeltaCurrent` —
`_synparam_at` on `spike_` with the tolerance, the CURRENT overbound, and the transform
`lambda d: spike_to_current(self, current_.dtype, …, d)`, then `.to(dtype=current_.dtype)` — is the `.delta` case of
the model's `currentAt` -/
theorem gen_current_at_delta (S : SOps α) (c : Cfg α) (nd : Int) (s : St α) (hk : c.kind = .delta) (sel : Ten α)
    (hdim : sel.ndim = nd ∨ sel.ndim = nd + 1) :
    toOutcome (fun r => r.2.val) (SpikeDerivedCurrentMixin_current_at S (DeltaCurrent_spike_to_current S) (ofM S c nd s) sel)
      = currentAt S c s sel.val := by
  have hg := gen_synparam_at S (recOf c nd .bool s.spike) sel (kwMode S c.mode) [] (modeInterp S c.mode) (kwMode_nil S c.mode)
    c.tol (c.curOver.map PyVal.f)
    (some (fun d => do pure (← DeltaCurrent_spike_to_current S (ofM S c nd s) (ofM S c nd s).vcurrent_.dtype d).2))
    (fun d => (d.to S.K .float).mulF S.K (S.K.div c.Q c.dt)) (spikeToCurrent S c) (fun _ => rfl) (fun _ => rfl) hdim
  simp only [SpikeDerivedCurrentMixin_current_at, bind, pure, Except.pure, currentAt, hk]
  rw [enc_f] at hg
  simp only [recOf, bind, pure, Except.pure] at hg
  rw [← hg]
  exact toOutcome_bind_pair (fun t => t.to S.K .float) (fun _ => rfl) _ _

/-- **gen_current_at_deltaplus**: the regenerated `CurrentMixin.current_at` of a `DeltaPlusCurrent` (`current_`, the
class's `interp_mode` function, the tolerance, the current overbound, no transform) is the `.deltaPlus` case of
`currentAt` -/
theorem gen_current_at_deltaplus (S : SOps α) (c : Cfg α) (nd : Int) (s : St α) (hk : c.kind = .deltaPlus) (sel : Ten α)
    (hdim : sel.ndim = nd ∨ sel.ndim = nd + 1) :
    toOutcome (fun r => r.2.val) (CurrentMixin_current_at S (ofM S c nd s) sel) = currentAt S c s sel.val := by
  have hg := gen_synparam_at S (recOf c nd .float s.cur) sel (kwMode S c.mode) [] (modeInterp S c.mode) (kwMode_nil S c.mode)
    c.tol (c.curOver.map PyVal.f) none id id (fun _ => rfl) (fun _ => rfl) hdim
  simp only [CurrentMixin_current_at, bind, pure, Except.pure, currentAt, hk]
  rw [enc_f] at hg
  simp only [ofM, hk, curInterp, curKwargs]
  exact (toOutcome_bind_pair id (fun _ => rfl) _ _).trans hg

/-- **gen_current_at_singleexp**: the regenerated `CurrentMixin.current_at` of a `SingleExponentialCurrent`
(`current_`, `interp_expdecay` with `time_constant`) is the `.singleExp` case of `currentAt` -/
theorem gen_current_at_singleexp (S : SOps α) (c : Cfg α) (nd : Int) (s : St α) (hk : c.kind = .singleExp) (sel : Ten α)
    (hdim : sel.ndim = nd ∨ sel.ndim = nd + 1) :
    toOutcome (fun r => r.2.val) (CurrentMixin_current_at S (ofM S c nd s) sel) = currentAt S c s sel.val := by
  have hg := gen_synparam_at S (recOf c nd .float s.cur) sel (kwExpdecay S) [("time_constant", c.tau)] (expInterp S c.tau)
    (kwExpdecay_tc S c.tau) c.tol (c.curOver.map PyVal.f) none id id (fun _ => rfl) (fun _ => rfl) hdim
  simp only [CurrentMixin_current_at, bind, pure, Except.pure, currentAt, hk]
  rw [enc_f] at hg
  simp only [ofM, hk, curInterp, curKwargs]
  exact (toOutcome_bind_pair id (fun _ => rfl) _ _).trans hg

/-- **gen_current_at_doubleexp**: the regenerated `DoubleExponentialCurrent.current_at` — its own copy of
`_synparam_at` on two records: the branch on `spike_.recordsz == 1`, the clamp to `spike_.duration`, `pos_current_`
selected with `{"time_constant": tc_decay}` MINUS `neg_current_` selected with `{"time_constant": tc_rise}` (both
`interp_expdecay`, the class's tolerance), the overbound `where` — is the model's `currentAtDouble` -/
theorem gen_current_at_doubleexp (S : SOps α) (c : Cfg α) (nd : Int) (s : St α) (hk : c.kind = .doubleExp) (sel : Ten α)
    (hdim : sel.ndim = nd ∨ sel.ndim = nd + 1) (hn : s.cur.n = s.neg.n) :
    toOutcome (fun r => r.2.val) (DoubleExponentialCurrent_current_at S (kwExpdecay S) (ofM S c nd s) sel)
      = currentAt S c s sel.val := by
  simp only [currentAt, hk, currentAtDouble, rawAt, boundedSel]
  unfold DoubleExponentialCurrent_current_at
  simp only [ofM, hk, recOf]
  by_cases hn1 : s.spike.n = 1
  · -- undelayed access
    have hd : ((s.spike.n : Int) = 1) := by omega
    have hb : (s.spike.n == 1) = true := by simp [hn1]
    simp only [RecordTensor_recordsz, hd, hb, decide_true, ↓reduceIte, bind, Except.bind, pure, Except.pure,
      RecordTensor_peek, readO]
    cases hp : s.cur.read 1 with
    | none => cases hq : s.neg.read 1 <;> rfl
    | some p =>
      cases hq : s.neg.read 1 with
      | none => rfl
      | some q =>
        cases hov : c.curOver with
        | none => simp [toOutcome, applyOverbound, ite_val, Ten.unsqueeze, Ten.expand, Ten.sub]
        | some o =>
          simp [toOutcome, applyOverbound, torch_where, Ten.sub, Ten.abs, Ten.le, Ten.ofInt, ite_val, Ten.unsqueeze,
            Ten.expand, PyVal.enc]
  · -- delayed access
    have hd : ¬ ((s.spike.n : Int) = 1) := by omega
    have hb : (s.spike.n == 1) = false := by simp [hn1]
    simp only [RecordTensor_recordsz, hd, hb, decide_false, Bool.false_eq_true, ↓reduceIte, bind, Except.bind, pure,
      Except.pure, RecordTensor_select, RecordTensor_duration, Ten.clamp, hdim, kwExpdecay_tc]
    generalize clamp S.K sel.val (S.K.ofInt 0) c.delay = b
    cases hin : inRange S.K s.cur.n c.dt c.tol b
    · have h1 := selectTensor_out_of_range S.K (expInterp S c.tau) s.cur c.dt c.tol b 1 hin
      have hin' : inRange S.K s.neg.n c.dt c.tol b = false := by rw [← hn]; exact hin
      simp [h1, hin', toOutcome]
    · have hin' : inRange S.K s.neg.n c.dt c.tol b = true := by rw [← hn]; exact hin
      have h1 := selectTensor_in_range S.K (expInterp S c.tau) s.cur c.dt c.tol b 1 hin
      have h2 := selectTensor_in_range S.K (expInterp S c.tauR) s.neg c.dt c.tol b 1 hin'
      simp only [hin', ↓reduceIte]
      cases hs1 : selectTensor S.K (expInterp S c.tau) s.cur c.dt c.tol b 1 with
      | valueError => exact absurd hs1 h1
      | noSlot =>
        cases hs2 : selectTensor S.K (expInterp S c.tauR) s.neg c.dt c.tol b 1 with
        | valueError => exact absurd hs2 h2
        | noSlot => rfl
        | ok q => rfl
      | ok p =>
        cases hs2 : selectTensor S.K (expInterp S c.tauR) s.neg c.dt c.tol b 1 with
        | valueError => exact absurd hs2 h2
        | noSlot => rfl
        | ok q =>
          cases hov : c.curOver with
          | none => simp [toOutcome, applyOverbound, Ten.sub]
          | some o => simp [toOutcome, applyOverbound, torch_where, Ten.sub, Ten.abs, Ten.le, PyVal.enc]

/-! ## The delayed reads change nothing -/

/-- a method of the shape `pure (self, f (← pure computation))` hands back the object it was given -/
theorem bind_pair_state {β : Type} (x : Except Err β) (g g' : SynT α) (f : β → Ten α) (t : Ten α)
    (h : Except.bind x (fun v => .ok (g, f v)) = .ok (g', t)) : g' = g := by
  cases x with
  | error e => simp [Except.bind] at h
  | ok v => simp only [Except.bind, Except.ok.injEq, Prod.mk.injEq] at h; exact h.1.symm

/-- the regenerated `spike_at` leaves ANY object as it was -/
theorem gen_spike_at_pure (S : SOps α) (g g' : SynT α) (sel t : Ten α)
    (h : SpikeMixin_spike_at S g sel = .ok (g', t)) : g' = g := by
  simp only [SpikeMixin_spike_at, bind, pure, Except.pure] at h
  exact bind_pair_state _ _ _ _ _ h

/-- the three regenerated `current_at` leave ANY object as it was -/
theorem gen_current_at_pure (S : SOps α) (tc : ToCurrent α) (ki : KwInterp α) (g g' : SynT α) (sel t : Ten α) :
    (CurrentMixin_current_at S g sel = .ok (g', t) → g' = g) ∧
    (SpikeDerivedCurrentMixin_current_at S tc g sel = .ok (g', t) → g' = g) ∧
    (DoubleExponentialCurrent_current_at S ki g sel = .ok (g', t) → g' = g) := by
  refine ⟨?_, ?_, ?_⟩
  · intro h
    simp only [CurrentMixin_current_at, bind, pure, Except.pure] at h
    exact bind_pair_state _ _ _ _ _ h
  · intro h
    simp only [SpikeDerivedCurrentMixin_current_at, bind, pure, Except.pure] at h
    exact bind_pair_state _ _ _ _ _ h
  · intro h
    unfold DoubleExponentialCurrent_current_at at h
    simp only [bind, Except.bind, pure, Except.pure] at h
    split at h
    · cases h
    · rename_i v hv
      split at h
      · cases h
      · rename_i w hw
        simp only [Except.ok.injEq, Prod.mk.injEq] at h
        have h1 : v.1 = g := by
          repeat' split at hv
          all_goals first
            | (cases hv; rfl)
            | cases hv
        have h2 : w.1 = v.1 := by
          repeat' split at hw
          all_goals first
            | (cases hw; rfl)
            | cases hw
        rw [← h.1, h2, h1]

/-! ## The four classes at once: the model's `step` / `clear` / `currentAt` / `stateAt` -/

/-- `forward` of the class `k` -/
def forwardProg (S : SOps α) : Kind → SynT α → List (Ten α) → Except Err (SynT α × Ten α)
  | .delta => DeltaCurrent_forward S (DeltaCurrent_spike_to_current S)
  | .deltaPlus => DeltaPlusCurrent_forward S
  | .singleExp => SingleExponentialCurrent_forward S
  | .doubleExp => DoubleExponentialCurrent_forward S

/-- `clear` of the class `k` -/
def clearProg (S : SOps α) : Kind → SynT α → Except Err (SynT α × Unit)
  | .delta => DeltaCurrent_clear S
  | .deltaPlus => DeltaPlusCurrent_clear S
  | .singleExp => SingleExponentialCurrent_clear S
  | .doubleExp => DoubleExponentialCurrent_clear S

/-- `current_at` of the class `k` (the method its linearisation selects) -/
def currentAtProg (S : SOps α) : Kind → SynT α → Ten α → Except Err (SynT α × Ten α)
  | .delta => SpikeDerivedCurrentMixin_current_at S (DeltaCurrent_spike_to_current S)
  | .deltaPlus => CurrentMixin_current_at S
  | .singleExp => CurrentMixin_current_at S
  | .doubleExp => DoubleExponentialCurrent_current_at S (kwExpdecay S)

/-- **gen_forward**: for every class, the regenerated `forward(*inputs)` is the model's `step` with
`x = inputs[0]`, `inj = inputs[1:]` -/
theorem gen_forward (S : SOps α) (c : Cfg α) (nd : Int) (s : St α) (x : Ten α) (rest : List (Ten α))
    (hx : x.dtype = .float) :
    forwardProg S c.kind (ofM S c nd s) (x :: rest) = stepOut S c nd (Synapse.step S c s x.val (rest.map (·.val))) := by
  cases hk : c.kind
  · exact gen_delta_forward S c nd s hk x rest hx
  · exact gen_deltaplus_forward S c nd s hk x rest hx
  · exact gen_singleexp_forward S c nd s hk x rest hx
  · exact gen_doubleexp_forward S c nd s hk x rest hx

/-- **gen_clear**: for every class, the regenerated `clear()` is the model's `clear` -/
theorem gen_clear (S : SOps α) (c : Cfg α) (nd : Int) (s : St α) :
    clearProg S c.kind (ofM S c nd s) = .ok (ofM S c nd (clear S s), ()) := by
  cases hk : c.kind
  · exact gen_delta_clear S c nd s hk
  · exact gen_deltaplus_clear S c nd s hk
  · exact gen_singleexp_clear S c nd s hk
  · exact gen_doubleexp_clear S c nd s hk

/-- **gen_current_at**: for every class, the regenerated `current_at(selector)` is the model's `currentAt` -/
theorem gen_current_at (S : SOps α) (c : Cfg α) (nd : Int) (s : St α) (sel : Ten α)
    (hdim : sel.ndim = nd ∨ sel.ndim = nd + 1) (hn : c.kind = .doubleExp → s.cur.n = s.neg.n) :
    toOutcome (fun r => r.2.val) (currentAtProg S c.kind (ofM S c nd s) sel) = currentAt S c s sel.val := by
  cases hk : c.kind
  · exact gen_current_at_delta S c nd s hk sel hdim
  · exact gen_current_at_deltaplus S c nd s hk sel hdim
  · exact gen_current_at_singleexp S c nd s hk sel hdim
  · exact gen_current_at_doubleexp S c nd s hk sel hdim (hn hk)

/-- **gen_current_at_ndim**: for every class, what the regenerated `current_at` returns has the selector's
dimensions -/
theorem gen_current_at_ndim (S : SOps α) (c : Cfg α) (nd : Int) (s : St α) (sel : Ten α)
    (hdim : sel.ndim = nd ∨ sel.ndim = nd + 1) (hsel : 0 ≤ sel.ndim) (g : SynT α) (t : Ten α)
    (h : currentAtProg S c.kind (ofM S c nd s) sel = .ok (g, t)) : t.ndim = sel.ndim := by
  cases hk : c.kind <;> rw [hk] at h <;> simp only [currentAtProg] at h
  · -- delta
    simp only [SpikeDerivedCurrentMixin_current_at, bind, Except.bind, pure, Except.pure] at h
    split at h
    · cases h
    · rename_i v hv
      simp only [Except.ok.injEq, Prod.mk.injEq] at h
      rw [← h.2, to_ndim]
      exact gen_synparam_at_ndim S _ sel _ _ _ _ _ (fun d => (d.to S.K .float).mulF S.K (S.K.div c.Q c.dt))
        (fun _ => rfl) (fun _ => rfl) hdim hsel v hv
  · -- delta plus
    simp only [CurrentMixin_current_at, bind, Except.bind, pure, Except.pure] at h
    split at h
    · cases h
    · rename_i v hv
      simp only [Except.ok.injEq, Prod.mk.injEq] at h
      rw [← h.2]
      exact gen_synparam_at_ndim S _ sel _ _ _ _ none id (fun _ => rfl) (fun _ => rfl) hdim hsel v hv
  · -- single exponential
    simp only [CurrentMixin_current_at, bind, Except.bind, pure, Except.pure] at h
    split at h
    · cases h
    · rename_i v hv
      simp only [Except.ok.injEq, Prod.mk.injEq] at h
      rw [← h.2]
      exact gen_synparam_at_ndim S _ sel _ _ _ _ none id (fun _ => rfl) (fun _ => rfl) hdim hsel v hv
  · -- double exponential
    unfold DoubleExponentialCurrent_current_at at h
    simp only [bind, Except.bind, pure, Except.pure, ofM, hk, recOf] at h
    by_cases hd : decide (RecordTensor_recordsz (⟨s.spike, c.dt, c.delay, .bool, nd⟩ : Rec α) = 1) = true
    · -- undelayed
      simp only [hd, ↓reduceIte, RecordTensor_peek] at h
      cases hp : s.cur.read 1 with
      | none => simp [hp] at h
      | some p =>
        cases hq : s.neg.read 1 with
        | none => simp [hp, hq] at h
        | some q =>
          simp only [hp, hq] at h
          have he := expand_ndim sel ((⟨nd, .float, p⟩ : Ten α).sub S.K ⟨nd, .float, q⟩) nd (by simp [Ten.sub]) hdim
          cases hov : c.curOver with
          | none =>
            simp only [hov, Except.ok.injEq, Prod.mk.injEq] at h
            rw [← h.2]; exact he
          | some o =>
            simp only [hov, Except.ok.injEq, Prod.mk.injEq] at h
            rw [← h.2]
            simp only [torch_where, Ten.le, Ten.abs, Ten.sub, Ten.ofInt] at he ⊢
            omega
    · -- delayed
      simp only [hd, Bool.false_eq_true, ↓reduceIte] at h
      cases hs1 : RecordTensor_select S.K (⟨s.cur, c.dt, c.delay, .float, nd⟩ : Rec α)
          (sel.clamp S.K (S.K.ofInt 0) (RecordTensor_duration (⟨s.spike, c.dt, c.delay, .bool, nd⟩ : Rec α)))
          (kwExpdecay S) c.tol 1 [("time_constant", c.tau)] with
      | error e => simp [hs1] at h
      | ok v1 =>
        cases hs2 : RecordTensor_select S.K (⟨s.neg, c.dt, c.delay, .float, nd⟩ : Rec α)
            (sel.clamp S.K (S.K.ofInt 0) (RecordTensor_duration (⟨s.spike, c.dt, c.delay, .bool, nd⟩ : Rec α)))
            (kwExpdecay S) c.tol 1 [("time_constant", c.tauR)] with
        | error e => simp [hs1, hs2] at h
        | ok v2 =>
          have e1 := select_ndim _ _ _ _ _ _ _ _ hs1
          have e2 := select_ndim _ _ _ _ _ _ _ _ hs2
          simp only [Ten.clamp] at e1 e2
          cases hov : c.curOver with
          | none =>
            simp only [hs1, hs2, hov, Except.ok.injEq, Prod.mk.injEq] at h
            rw [← h.2]
            simp only [Ten.sub, e1, e2]
            omega
          | some o =>
            simp only [hs1, hs2, hov, Except.ok.injEq, Prod.mk.injEq] at h
            rw [← h.2]
            simp only [torch_where, Ten.le, Ten.abs, Ten.sub, Ten.clamp, e1, e2]
            omega

/-- the object after `n` calls of the regenerated `forward`, from the constructed object -/
def progStateAt (S : SOps α) (c : Cfg α) (nd : Int) (x : Nat → Ten α) (inj : Nat → List (Ten α)) :
    Nat → Except Err (SynT α)
  | 0 => .ok (ofM S c nd (init S c))
  | n + 1 => (progStateAt S c nd x inj n).bind fun g => (forwardProg S c.kind g (x n :: inj n)).map (·.1)

/-- **gen_stateAt**: running the regenerated `forward` `n` times from the constructed object gives the object of the
model's `stateAt` — the trajectories the theorems of `Props/C04.lean` are about -/
theorem gen_stateAt (S : SOps α) (c : Cfg α) (nd : Int) (x : Nat → Ten α) (inj : Nat → List (Ten α))
    (hx : ∀ i, (x i).dtype = .float) (n : Nat) :
    progStateAt S c nd x inj n =
      match stateAt S c (fun i => (x i).val) (fun i => (inj i).map (·.val)) n with
      | some s => .ok (ofM S c nd s)
      | none => .error .IndexError := by
  induction n with
  | zero => rfl
  | succ n ih =>
    simp only [progStateAt, stateAt, ih]
    cases hs : stateAt S c (fun i => (x i).val) (fun i => (inj i).map (·.val)) n with
    | none => rfl
    | some s =>
      simp only [Except.bind, Option.bind_some, gen_forward S c nd s (x n) (inj n) (hx n)]
      cases Synapse.step S c s (x n).val ((inj n).map (·.val)) with
      | none => rfl
      | some r => rfl

/-! ## Non-vacuity: the regenerated programs run -/

/-- a toy integer arithmetic (kernels: "previous" / "expdecay" return the older value, "nearest" the newer) -/
def intS : SOps Int where
  K := ⟨(· + ·), (· - ·), (· * ·), (· / ·), (- ·), fun a => (a.natAbs : Int), id, id, id, id,
        fun a b => decide (a ≤ b), fun a b => decide (a < b)⟩
  exp := fun _ => 1
  previous := fun p _ _ _ => p
  nearest := fun _ q _ _ => q
  expdecay := fun p _ _ _ _ => p

/-- `dt = 1`, `delay = 2` (three slots), `spike_charge = 3`, current overbound `7`, spike overbound `False` -/
def exCfg (k : Kind) : Cfg Int := ⟨k, 1, 2, 3, 1, 1, .previous, 0, some 7, some false, false⟩

/-- `forward(x, 5)` for every `x` of the list, from the constructed object -/
def exRun (k : Kind) (xs : List Int) : Except Err (SynT Int) :=
  xs.foldlM (fun g x => (forwardProg intS k g [⟨2, .float, x⟩, ⟨2, .float, 5⟩]).map (·.1))
    (ofM intS (exCfg k) 2 (init intS (exCfg k)))

example : ((forwardProg intS .deltaPlus (ofM intS (exCfg .deltaPlus) 2 (init intS (exCfg .deltaPlus)))
    [⟨2, .float, 1⟩, ⟨2, .float, 5⟩]).toOption.map (·.2.val)) = some 8 := by decide
example : ((forwardProg intS .delta (ofM intS (exCfg .delta) 2 (init intS (exCfg .delta)))
    [⟨2, .float, 4⟩]).toOption.map (·.2.val)) = some 3 := by decide
example : ((exRun .deltaPlus [1, 0, 2]).toOption.map (·.current_.ring)) = some ⟨3, 0, [8, 5, 11]⟩ := by decide
-- two steps back (on the grid), one step back with a trailing selector dimension, beyond the record (overbound value)
example : (match exRun .deltaPlus [1, 0, 2] with
    | .ok g => (currentAtProg intS .deltaPlus g ⟨2, .float, 2⟩).toOption.map (·.2.val)
    | .error _ => none) = some 8 := by decide
example : (match exRun .deltaPlus [1, 0, 2] with
    | .ok g => (currentAtProg intS .deltaPlus g ⟨3, .float, 1⟩).toOption.map (·.2.val)
    | .error _ => none) = some 5 := by decide
example : (match exRun .deltaPlus [1, 0, 2] with
    | .ok g => (currentAtProg intS .deltaPlus g ⟨2, .float, 9⟩).toOption.map (·.2.val)
    | .error _ => none) = some 7 := by decide
example : (match exRun .doubleExp [1, 0, 2] with
    | .ok g => (SpikeMixin_spike_at intS g ⟨2, .float, 2⟩).toOption.map (fun r => isSpike intS.K r.2.val)
    | .error _ => none) = some true := by decide
-- a selector with the wrong number of dimensions is refused by `select` (ValueError), no inputs by `inputs[0]`
example : (match exRun .deltaPlus [1, 0, 2] with
    | .ok g => (match currentAtProg intS .deltaPlus g ⟨5, .float, 1⟩ with | .error e => some e | .ok _ => none)
    | .error _ => none) = some Err.ValueError := by decide
example : (match forwardProg intS .singleExp (ofM intS (exCfg .singleExp) 2 (init intS (exCfg .singleExp))) [] with
    | .error e => some e
    | .ok _ => none) = some Err.IndexError := by decide

end InfernoVerif.Gen.SynapseProg
