import InfernoVerif.Props.C15GlueProg
import InfernoVerif.Props.C15b
/-!
# C15, closing the loop: the programs regenerated from /repo refine the lifecycle specification over EVERY operation sequence

`Props/C15GlueProg.lean` proves, method by method, that one run of a method body REGENERATED from
`inferno/observe/pooling.py` (`Observable`, `MonitorPool`) and `inferno/learn/base.py` (`CellTrainer`)
(`Gen/LifecycleProg.lean`) in a world `w : LW`, seen through the abstraction `toM`, is one case of the hand-written
machine `Lifecycle.stepCore` / `Lifecycle.step` on trainer `w.me`.  `Props/C15.lean` / `Props/C15b.lean` prove the
property about that machine for every operation list from the initial state: `one_obs_per_training_step` (the count a
monitor's reducer has made = the SPECIFICATION's count, the ghost field `expected`: +1 per layer step taken while
trainer and layer are both in training mode), `hook_count`, `layer_ok`, `listed_cells_registered`, ….  This file
supplies the missing links and composes everything:

* a state BETWEEN operations of the regenerated programs: `GS` = the model state `st` (its trainer records hold the
  POOL's containers: `MonitorPool.training`, `observed_`, `monitors_`), `env` (what the model does not have: updaters),
  and, for every trainer object, the containers the model FORGETS: `CellTrainer.training`, `cells_`, `aux_states_`.  An
  operation on trainer `t` loads them as `self` (`load`), runs the regenerated method, writes `self`'s containers back
  and lets reference counting run (`store`: `toM` of the glue file, `upd`, the model's `gc`).  The abstraction is the
  component `st` (`toM_load`: loading does not change it).
* `genExec` dispatches the machine's operation alphabet `Lifecycle.Op` to the regenerated method it names and returns
  the NEW generated state; on an exception the world AT THE RAISE is stored, as the `lift` of the glue theorems
  prescribes, and the output is `Out.err e`.  `gen_step_eq`: one dispatched operation, abstracted, is one step of
  `Lifecycle.step`.
* `register_cell` — the glue file states it as "`add_cell` + `addTemplate`" WITHOUT proving the composition
  (`gen_register_cell`).  Here it is closed: `regProg` runs the regenerated `CellTrainer.add_cell` and then the trainer
  kind's `add_monitor` calls ONE BY ONE through the regenerated `CellTrainer.add_monitor` (`addMonitors`; an exception
  aborts, as in Python), and `gen_register` proves that this is the `.registerCell` case of `stepCore` (the calls never
  raise: `addMonitors_eq`).  This needed the frame facts of the result worlds the glue file lists as missing: `Fr` (`me`,
  the other trainers' records, topology, repair switch untouched) and `FrC` (`cells_`, `training`, `observed_`,
  `poolTraining` untouched), proved for EVERY outcome — returning or raising — of every regenerated method by unfolding
  the generated definitions (`clear_fr`, `train_keeps`, `del_cell_keeps`, `add_cell_keeps`, `del_monitor_frc`,
  `add_monitor_frc`).
* the regenerated programs PRESERVE the well-formedness `GWF` (`gen_step_wf`) = the hypotheses of the glue theorems along
  a whole execution: `Inv` (`Coh` of the glue file for every trainer object: its own `cells_` / `training` agree with its
  pool's `observed_` / `training` — the part the abstraction forgets; `gen_step_inv`, from the frame lemmas), `KN` (the
  group names of every pool are distinct — the hypothesis `hk` of `gen_del_monitor`; shown HERE to be an invariant of
  the machine: `step_kn`), `layerFilter = true` (the repaired alias rule D36; static), the machine's invariant
  `Lifecycle.WF`, and `gc st = st` (reference counting has nothing left to do between operations: `gc_idem`).
* `genRun` folds `genExec` over an operation list; `gen_run_eq`: for EVERY finite sequence of supported operations from
  ANY well-formed generated state, abstract state and outputs are those of `Lifecycle.run`.  The CAPSTONE
  `gen_run_refines` starts from the empty state `gInit topo env` (any topology) and composes with the model's run-level
  theorem `one_obs_per_training_step`: the state reached IS `exec (init topo) ops`, and if no layer step of the run
  raised (`layerStepsOk`, read off the outputs the regenerated programs returned) then the REGENERATED listing
  `CellTrainer.named_monitors` of every live trainer lists monitors that are alive, owned by it, registered iff the
  trainer object's own `training` flag is set, with observation count = specification count.  `gen_run_counts` is the
  same from any well-formed state (`CountOK` is preserved); `gen_hook_count`, `gen_layer_ok` transport `hook_count`,
  `layer_ok`, `listed_cells_registered` (stated with the regenerated `CellTrainer.monitors` and the trainer's own
  `cells_`).

MIXED RUN — which parts of `genExec` are NOT regenerated text (said explicitly):
* `Op.newTrainer` (the constructors are not translated), `Op.layerTrain` (`layer.train()` is torch's), `Op.layerStep`
  (`layer(...)`: torch's hook dispatch and the monitors' reducers), `Op.trainerStep` (`trainer()`: the `forward` of
  `learn/trainers/*.py`), `Op.collect` (dropping the last reference) are THE MODEL'S: `modelStep` runs `Lifecycle.step`
  on `st`; `newTrainer` also creates the new object's own containers (`training = True`, empty `cells_` / `aux_states_`).
* reference counting after a method has returned or raised is the model's `gc` (inside `store`).
* the dispatcher `onTrainer`: an operation naming a trainer object that does not exist (any more) runs NO code — state
  unchanged, `Out.noref`; likewise `register_cell` with a cell index outside the topology (the conventions of
  `stepCore`; these are the hypotheses `hal` / `hlt` of the glue theorems failing).
* `register_cell`: WHICH `add_monitor` calls a trainer kind makes, in which order and with which arguments
  (`Lifecycle.template`) is hand-written — `learn/trainers/*.py` is not regenerated —, and so are the auxiliary state and
  the required parameters it passes to `add_cell` (`RegArgs`, arbitrary).  Every call itself is regenerated text.
Everything else (`delCell`, `addMonitor`, `delMonitor`, `trainerTrain`, `clear`, and inside them `MonitorPool.*`,
`Observable.add_monitor`) is a regenerated method body.

Domain (`Sup R g op`, evaluated at the CURRENT state — exactly the side conditions of the glue theorems that are not
invariants): `registerCell` of an existing cell by a live trainer needs the cell to have an updater with the required
parameters (`hu` / `hp` of `gen_add_cell`: the model's cells are all updatable; the real `add_cell` raises
`RuntimeError` otherwise).  NOTHING else is excluded: all eleven operations of the alphabet, all arguments.
`supB` / `supRunB` are executable forms (`supB_sound`, `supRunB_sound`) used by the non-vacuity examples.

Nothing resisted: there is no unproved statement.  Core Lean only (no Mathlib).
-/
set_option linter.unusedSimpArgs false
set_option linter.unusedVariables false
namespace InfernoVerif.Lifecycle

/-! ## An invariant of the machine the glue theorems need: distinct group names -/

/-- the group names of every trainer's pool are distinct (`monitors_` is a dictionary) -/
def KN (s : State) : Prop := ∀ t, ((s.trainers t).groups.map (·.1)).Nodup

/-- `KN` only reads the trainer records -/
theorem kn_of_trainers_eq {s s' : State} (h : KN s) (e : s'.trainers = s.trainers) : KN s' := by
  intro t; rw [e]; exact h t

/-- overwriting one trainer record by one with distinct group names keeps `KN` -/
theorem kn_setTrainer {s : State} (h : KN s) (t : Nat) (T : Trainer) (hT : (T.groups.map (·.1)).Nodup) :
    KN (setTrainer s t T) := by
  intro t'
  rw [setTrainer_trainers]
  split
  · exact hT
  · exact h t'

/-- removing groups keeps the group names distinct -/
theorem nodup_keys_filter {gs : List (Nat × List (Nat × Nat))} (p : Nat × List (Nat × Nat) → Bool)
    (h : (gs.map (·.1)).Nodup) : ((gs.filter p).map (·.1)).Nodup :=
  List.Nodup.sublist (List.Sublist.map _ List.filter_sublist) h

/-- `monitors_[n][m] = mid` (a new group goes to the end under a name that was absent) keeps the group names distinct -/
theorem nodup_keys_groupsInsert {gs : List (Nat × List (Nat × Nat))} (n m mid : Nat)
    (h : (gs.map (·.1)).Nodup) : ((groupsInsert gs n m mid).map (·.1)).Nodup := by
  unfold groupsInsert
  split
  · have : (gs.map (fun g => if g.1 == n then
        (g.1, if g.2.any (fun e => e.1 == m) then g.2.map (fun e => if e.1 == m then (m, mid) else e)
              else g.2 ++ [(m, mid)]) else g)).map (·.1) = gs.map (·.1) := by
      simp only [List.map_map]
      congr 1
      funext g
      simp only [Function.comp]
      split <;> rfl
    rw [this]; exact h
  · rename_i hany
    simp only [List.map_append, List.map_cons, List.map_nil]
    rw [List.nodup_append]
    refine ⟨h, by simp, ?_⟩
    intro a ha b hb
    simp only [List.mem_singleton] at hb
    subst hb
    intro hab
    subst hab
    apply hany
    simp only [List.mem_map] at ha
    obtain ⟨g, hg, rfl⟩ := ha
    exact List.any_eq_true.2 ⟨g, hg, by simp⟩

/-- the tail of `add_monitor` keeps `KN` -/
theorem addMonitorTail_kn {s : State} (h : KN s) (t n mname mid cell : Nat) :
    KN (addMonitorTail s t n mname mid cell) := by
  unfold addMonitorTail poolInsert
  have h2 : KN (deregIfEval (writeCellMon s cell mname mid) t mid) :=
    kn_of_trainers_eq h (by rw [deregIfEval_trainers]; rfl)
  exact kn_setTrainer h2 t _ (nodup_keys_groupsInsert _ _ _ (h2 t))

/-- the model's `add_monitor` keeps `KN` -/
theorem addMonitor_kn {s : State} (h : KN s) (t n mname : Nat) (sel : AttrSel) (unique prepend : Bool) (tags : Nat)
    (reads : List Nat) : KN (addMonitor s t n mname sel unique prepend tags reads).1 := by
  have h1 : KN (eraseExisting s t n mname) := by
    unfold eraseExisting; simp only; split
    · exact kn_setTrainer h t _ (by rw [Gen.LifecycleProg.keys_groupsErase]; exact h t)
    · exact h
  unfold addMonitor
  split
  · exact h
  · simp only
    split
    · exact h
    · split
      · exact h1
      · exact addMonitorTail_kn (kn_of_trainers_eq h1 (obtainMonitor_trainers ..)) _ _ _ _ _

/-- the `add_monitor` calls of `register_cell` keep `KN` -/
theorem addTemplate_kn (tpl : List (Nat × AttrSel × Bool × Bool × Nat × List Nat)) (t n : Nat) (s : State)
    (h : KN s) : KN (addTemplate s t n tpl) := by
  induction tpl generalizing s with
  | nil => exact h
  | cons e rest ih => exact ih _ (addMonitor_kn h _ _ _ _ _ _ _ _)

/-- `del_observed` keeps `KN` -/
theorem delObserved_kn {s : State} (h : KN s) (t n : Nat) : KN (delObserved s t n) := by
  unfold delObserved
  split
  · exact h
  · rename_i g _
    unfold dropGroup
    have h' := kn_of_trainers_eq h (deregisterUnshared_trainers (otherMids (s.trainers t) n) g s)
    exact kn_setTrainer h' t _ (nodup_keys_filter _ (h' t))

/-- `del_monitor` keeps `KN` -/
theorem delEntry_kn {s : State} (h : KN s) (t n mname mid : Nat) : KN (delEntry s t n mname mid) := by
  unfold delEntry dropEmptyGroup
  have h1 : KN (eraseEntry s t n mname) := kn_setTrainer h t _ (by rw [Gen.LifecycleProg.keys_groupsErase]; exact h t)
  have h2 : KN (deregIfUnaliased (eraseEntry s t n mname) t mid) :=
    kn_of_trainers_eq h1 (same_deregIfUnaliased _ t mid).trainers
  exact kn_setTrainer h2 t _ (nodup_keys_filter _ (h2 t))

/-- every operation of the machine keeps the group names of every pool distinct -/
theorem stepCore_kn {s : State} (h : KN s) (op : Op) : KN (stepCore s op).1 := by
  cases op with
  | newTrainer kind =>
    simp only [stepCore]
    exact kn_setTrainer (s := { s with nTrainers := s.nTrainers + 1 }) h _ _ (by simp)
  | registerCell t n c v =>
    simp only [stepCore]
    split
    · exact h
    · split
      · exact h
      · split
        · exact h
        · apply addTemplate_kn
          unfold addCellEntry
          have h0 := delObserved_kn h t n
          exact kn_setTrainer h0 t _ (h0 t)
  | delCell t n =>
    simp only [stepCore]
    split
    · exact h
    · split
      · exact h
      · unfold dropCell
        have h0 := delObserved_kn h t n
        exact kn_setTrainer h0 t _ (h0 t)
  | addMonitor t n mname sel unique prepend tags =>
    simp only [stepCore]
    split
    · exact h
    · exact addMonitor_kn h _ _ _ _ _ _ _ _
  | delMonitor t n mname =>
    simp only [stepCore]
    split
    · exact h
    · split
      · exact h
      · split
        · exact h
        · split
          · exact h
          · exact delEntry_kn h _ _ _ _
  | trainerTrain t mode =>
    simp only [stepCore]
    split
    · exact h
    · exact kn_of_trainers_eq (kn_setTrainer h t { s.trainers t with training := mode } (h t)) (same_setAll ..).trainers
  | layerTrain l mode => exact h
  | layerStep l =>
    simp only [stepCore]
    split
    · exact h
    · exact h
  | trainerStep t =>
    simp only [stepCore]
    split
    · exact h
    · split <;> exact h
  | clear t =>
    simp only [stepCore]
    split
    · exact h
    · exact h
  | collect t =>
    simp only [stepCore]
    split
    · exact h
    · exact kn_setTrainer h t _ (h t)

/-- … and so does reference counting after it: `KN` is an invariant of `Lifecycle.step` (it supplies, along a whole run,
the hypothesis `hk` of `gen_del_monitor` that the glue file had to assume) -/
theorem step_kn {s : State} (h : KN s) (op : Op) : KN (step s op).1 :=
  kn_of_trainers_eq (stepCore_kn h op) rfl

end InfernoVerif.Lifecycle

namespace InfernoVerif.Gen.LifecycleProg
open InfernoVerif.Lifecycle InfernoVerif.Gen.LifecyclePrelude

/-! ## Frame lemmas: what every regenerated method leaves alone, for EVERY outcome (returning or raising) -/

/-- the world a regenerated method ends in: the result world, or the world at the raise -/
def final {α : Type} : Except (Err × LW) (LW × α) → LW
  | .ok (w', _) => w'
  | .error (_, w') => w'

/-- what no regenerated method touches -/
structure Fr (w w' : LW) : Prop where
  me : w'.me = w.me
  trainers : w'.st.trainers = w.st.trainers
  topo : w'.st.topo = w.st.topo
  filter : w'.st.layerFilter = w.st.layerFilter

/-- nothing done, nothing touched -/
theorem Fr.refl (w : LW) : Fr w w := ⟨rfl, rfl, rfl, rfl⟩

/-- frames compose -/
theorem Fr.trans {a b c : LW} (h1 : Fr a b) (h2 : Fr b c) : Fr a c :=
  ⟨h2.me.trans h1.me, h2.trainers.trans h1.trainers, h2.topo.trans h1.topo, h2.filter.trans h1.filter⟩

/-- … and the containers `add_monitor` / `del_monitor` / `clear` leave alone -/
structure FrC (w w' : LW) : Prop extends Fr w w' where
  cells_ : w'.cells_ = w.cells_
  training : w'.training = w.training
  observed_ : w'.observed_ = w.observed_
  poolTraining : w'.poolTraining = w.poolTraining

/-- a method that leaves the four containers alone keeps them coherent -/
theorem FrC.coh {w w' : LW} (h : FrC w w') (hc : Coh w) : Coh w' :=
  ⟨by rw [h.cells_, h.observed_]; exact hc.cells, by rw [h.training, h.poolTraining]; exact hc.training⟩

/-- frame lemma: the regenerated `CellTrainer.clear` (it never raises) writes monitor records only -/
theorem clear_fr (w : LW) : FrC w (final (CellTrainer_clear w)) := by
  unfold CellTrainer_clear
  simp only [gen_pool_monitors, bind, Except.bind, pure, Except.pure]
  rw [foldlM_ok (g := fun w m => Monitor_clear w m) (h := fun _ _ => rfl)]
  simp only [clear_loop, final]
  exact ⟨⟨rfl, rfl, rfl, rfl⟩, rfl, rfl, rfl, rfl⟩

/-- `Except.bind` on a returned value -/
theorem ebind_ok {ε α β : Type} (a : α) (f : α → Except ε β) : Except.bind (.ok a) f = f a := rfl
/-- `Except.bind` on a raised exception -/
theorem ebind_error {ε α β : Type} (e : ε) (f : α → Except ε β) : Except.bind (.error e : Except ε α) f = .error e := rfl
/-- `Except.bind` distributes over a conditional -/
theorem ebind_ite {ε α β : Type} (c : Prop) [Decidable c] (a b : Except ε α) (f : α → Except ε β) :
    Except.bind (if c then a else b) f = if c then Except.bind a f else Except.bind b f := by
  split <;> rfl
/-- `final` distributes over a conditional -/
theorem final_ite {α : Type} (c : Prop) [Decidable c] (a b : Except (Err × LW) (LW × α)) :
    final (if c then a else b) = if c then final a else final b := by
  split <;> rfl

/-- a method keeps what nobody touches, and the coherence of the trainer's containers with its pool's -/
def Keeps (w w' : LW) : Prop := Fr w w' ∧ (Coh w → Coh w')

/-- the container frame implies `Keeps` -/
theorem FrC.keeps {w w' : LW} (h : FrC w w') : Keeps w w' := ⟨h.toFr, h.coh⟩

/-- frame of the world after `MonitorPool.del_observed` -/
theorem delObservedW_fr (w : LW) (n : Nat) : Fr w (delObservedW w n) := by
  refine ⟨rfl, ?_, ?_, ?_⟩
  all_goals
    simp only [delObservedW]
    split
    · first
      | exact deregisterUnshared_trainers ..
      | exact (same_deregisterUnshared ..).topo
      | exact (same_deregisterUnshared ..).filter
    · rfl

/-- frame lemma: the regenerated `CellTrainer.del_cell`, returning or raising (`AttributeError`: nothing changed), keeps
the frame and the coherence of `cells_` / `observed_` (both lose the name) -/
theorem del_cell_keeps (w : LW) (n : Nat) : Keeps w (final (CellTrainer_del_cell w n)) := by
  have hf := delObservedW_fr w n
  have hcells : (delObservedW w n).cells_ = w.cells_ := rfl
  unfold CellTrainer_del_cell
  simp only [del_observed_eq, bind, ebind_ok, ebind_error, ebind_ite, pure, Except.pure, dict_delitem, throw, throwThe,
    MonadExceptOf.throw, final_ite, hcells]
  split
  · exact ⟨Fr.refl _, id⟩
  · rename_i hc
    simp only [Bool.not_eq_true', Bool.not_eq_false] at hc
    simp only [hc, if_true]
    split
    all_goals
      refine ⟨⟨hf.me, hf.trainers, hf.topo, hf.filter⟩, fun h => ⟨?_, h.training⟩⟩
      show w.cells_.filter _ = w.observed_.filter _
      rw [h.cells]

/-- frame lemma: the regenerated `CellTrainer.train` (it never raises) sets both training flags and writes monitor
records and the hook list only -/
theorem train_keeps (w : LW) (mode : Bool) : Keeps w (final (CellTrainer_train w mode)) := by
  unfold CellTrainer_train
  simp only [gen_pool_monitors, bind, Except.bind, pure, Except.pure]
  cases mode
  · simp only [Bool.false_eq_true, if_false]
    rw [foldlM_ok (g := fun w m => Monitor_deregister w m) (h := fun _ _ => rfl)]
    simp only [deregister_loop, final]
    exact ⟨⟨rfl, (same_setAll ..).trainers, (same_setAll ..).topo, (same_setAll ..).filter⟩, fun h => ⟨h.cells, rfl⟩⟩
  · simp only [if_true]
    rw [foldlM_ok (g := fun w m => Monitor_register w m) (h := fun _ _ => rfl)]
    simp only [register_loop, final]
    exact ⟨⟨rfl, (same_setAll ..).trainers, (same_setAll ..).topo, (same_setAll ..).filter⟩, fun h => ⟨h.cells, rfl⟩⟩

/-- frame lemma: the regenerated `MonitorPool.del_monitor`, returning or raising (three `AttributeError`s: nothing
changed), touches `monitors_`, the hook list and one monitor record only -/
theorem pool_del_monitor_frc (w : LW) (n mname : Nat) : FrC w (final (MonitorPool_del_monitor w n mname)) := by
  have hrefl : FrC w w := ⟨Fr.refl w, rfl, rfl, rfl, rfl⟩
  unfold MonitorPool_del_monitor
  simp only [contains_eq_lookup]
  cases hl : lookup w.monitors_ n with
  | none => simpa [final, throw, throwThe, MonadExceptOf.throw] using hrefl
  | some g =>
    cases ho : lookup w.observed_ n with
    | none => simpa [final, throw, throwThe, MonadExceptOf.throw] using hrefl
    | some c =>
      simp only [Option.isSome_some, Bool.not_true, Bool.or_self, Bool.false_eq_true, if_false,
        bind, Except.bind, getitem_of_lookup _ _ _ _ hl]
      cases hm : lookup g mname with
      | none => simpa [final, throw, throwThe, MonadExceptOf.throw] using hrefl
      | some mid =>
        have hcg : dict_contains g mname = true := by simp [contains_eq_lookup, hm]
        have hl1 := lookup_groupsErase_self w.monitors_ n mname g hl
        simp only [Option.isSome_some, Bool.not_true, Bool.false_eq_true, if_false, getitem_of_lookup _ _ _ _ hm,
          dict_delitem2, hl, hcg, if_true, pure, Except.pure]
        have he : (w.monitors_.map fun g => if (g.1 == n) = true then (g.1, g.2.filter fun e => e.1 != mname) else g)
            = groupsErase w.monitors_ n mname := rfl
        simp only [he, any_is_target]
        cases hcon : (gMids (groupsErase w.monitors_ n mname)).contains mid
        · simp only [Bool.not_false, if_true, Monitor_deregister, getitem_of_lookup _ _ _ _ hl1]
          by_cases h0 : (g.filter (fun e => e.1 != mname)).length = 0
          · simp only [h0, ne_eq, not_true_eq_false, decide_false, Bool.not_false, if_true, dict_delitem,
              contains_eq_lookup, hl1, Option.isSome_some, final]
            exact ⟨⟨rfl, rfl, rfl, rfl⟩, rfl, rfl, rfl, rfl⟩
          · simp only [h0, ne_eq, not_false_eq_true, decide_true, Bool.not_true, Bool.false_eq_true, if_false, final]
            exact ⟨⟨rfl, rfl, rfl, rfl⟩, rfl, rfl, rfl, rfl⟩
        · simp only [Bool.not_true, Bool.false_eq_true, if_false, getitem_of_lookup _ _ _ _ hl1]
          by_cases h0 : (g.filter (fun e => e.1 != mname)).length = 0
          · simp only [h0, ne_eq, not_true_eq_false, decide_false, Bool.not_false, if_true, dict_delitem,
              contains_eq_lookup, hl1, Option.isSome_some, final]
            exact ⟨⟨rfl, rfl, rfl, rfl⟩, rfl, rfl, rfl, rfl⟩
          · simp only [h0, ne_eq, not_false_eq_true, decide_true, Bool.not_true, Bool.false_eq_true, if_false, final]
            exact ⟨⟨rfl, rfl, rfl, rfl⟩, rfl, rfl, rfl, rfl⟩

/-- frame lemma: the regenerated `CellTrainer.del_monitor` -/
theorem del_monitor_frc (w : LW) (n mname : Nat) : FrC w (final (CellTrainer_del_monitor w n mname)) := by
  have h := pool_del_monitor_frc w n mname
  unfold CellTrainer_del_monitor
  cases hx : MonitorPool_del_monitor w n mname with
  | error e => rw [hx] at h; exact h
  | ok r => rw [hx] at h; exact h

/-- `Observable.add_monitor` does not touch the topology or the repair switch -/
theorem obsObtain_static (st : State) (cell mname : Nat) (c : Ctor) (pool : Option (List (Nat × List (Nat × Nat))))
    (tags : Nat) (path : Path) : Static st (obsObtain st cell mname c pool tags path).1 := by
  unfold obsObtain
  split
  · exact static_newMonitor ..
  · split
    · exact Static.refl _
    · exact static_newMonitor ..

/-- container frames compose -/
theorem FrC.trans {a b c : LW} (h1 : FrC a b) (h2 : FrC b c) : FrC a c :=
  ⟨h1.toFr.trans h2.toFr, h2.cells_.trans h1.cells_, h2.training.trans h1.training, h2.observed_.trans h1.observed_,
    h2.poolTraining.trans h1.poolTraining⟩

/-- frame lemma: the regenerated `MonitorPool.add_monitor` when the pool has no entry `(n, mname)`: returning, or raising
the realignment error (nothing changed), it touches `monitors_`, the heap of monitors, the hook list and the cell's weak
dictionary only -/
theorem pool_add_monitor_fresh_frc (w : LW) (n mname : Nat) (sel : AttrSel) (c : Ctor) (unique : Bool) (tags : Nat)
    (cell : Nat) (ho : lookup w.observed_ n = some cell) (hn : rgetitem2 w.monitors_ n mname = none) :
    FrC w (final (MonitorPool_add_monitor w n mname sel c unique tags)) := by
  unfold MonitorPool_add_monitor
  simp only [contains_eq_lookup, ho, hn, Option.isSome_some, Bool.not_true, Bool.false_eq_true, if_false,
    get_observed_eq w n cell ho, gen_pool, bind, Except.bind, pure, Except.pure]
  have hp : (if unique = true then (Except.ok none : Except (Err × LW) _)
      else Except.ok (some (poolOf w.monitors_ w.observed_))) =
      Except.ok (if unique then none else some (poolOf w.monitors_ w.observed_)) := by cases unique <;> rfl
  simp only [hp, gen_obs_add_monitor, obsWorld]
  cases hr : realign w.st cell sel with
  | error e => simp only [viaObs, final]; exact ⟨Fr.refl _, rfl, rfl, rfl, rfl⟩
  | ok path =>
    simp only [viaObs]
    have htr := obsObtain_trainers w.st cell mname c
      (if unique then none else some (poolOf w.monitors_ w.observed_)) tags path
    have hst := obsObtain_static w.st cell mname c
      (if unique then none else some (poolOf w.monitors_ w.observed_)) tags path
    revert htr hst
    generalize obsObtain w.st cell mname _ _ tags path = r
    obtain ⟨st1, mid⟩ := r
    intro htr hst
    simp only at htr hst
    simp only [← contains_eq_lookup]
    rcases Bool.eq_false_or_eq_true w.poolTraining with hpt | hpt
    · simp only [hpt, Bool.not_true, Bool.false_eq_true, if_false, if_true]
      rcases Bool.eq_false_or_eq_true (dict_contains w.monitors_ n) with hcn | hcn
      · have := ensure_set (σ := LW) (gs := w.monitors_) (n := n) (m := mname) (mid := mid)
        simp only [hcn, Bool.not_true, Bool.false_eq_true, if_false] at this
        simp only [hcn, Bool.not_true, Bool.false_eq_true, if_false, this, final]
        exact ⟨⟨rfl, htr, hst.topo, hst.filter⟩, rfl, rfl, rfl, hpt.symm⟩
      · have := ensure_set (σ := LW) (gs := w.monitors_) (n := n) (m := mname) (mid := mid)
        simp only [hcn, Bool.not_false, if_true] at this
        simp only [hcn, Bool.not_false, if_true, this, final]
        exact ⟨⟨rfl, htr, hst.topo, hst.filter⟩, rfl, rfl, rfl, hpt.symm⟩
    · simp only [hpt, Bool.not_false, if_true, Bool.false_eq_true, if_false, Monitor_deregister]
      rcases Bool.eq_false_or_eq_true (dict_contains w.monitors_ n) with hcn | hcn
      · have := ensure_set (σ := LW) (gs := w.monitors_) (n := n) (m := mname) (mid := mid)
        simp only [hcn, Bool.not_true, Bool.false_eq_true, if_false] at this
        simp only [hcn, Bool.not_true, Bool.false_eq_true, if_false, this, final]
        exact ⟨⟨rfl, htr, hst.topo, hst.filter⟩, rfl, rfl, rfl, hpt.symm⟩
      · have := ensure_set (σ := LW) (gs := w.monitors_) (n := n) (m := mname) (mid := mid)
        simp only [hcn, Bool.not_false, if_true] at this
        simp only [hcn, Bool.not_false, if_true, this, final]
        exact ⟨⟨rfl, htr, hst.topo, hst.filter⟩, rfl, rfl, rfl, hpt.symm⟩

/-- frame lemma: the regenerated `MonitorPool.add_monitor` on every path (unknown observable; existing monitor returned;
existing entry erased, then as above — also when the realignment error is raised after the erasure) -/
theorem pool_add_monitor_frc (w : LW) (n mname : Nat) (sel : AttrSel) (c : Ctor) (unique : Bool) (tags : Nat) :
    FrC w (final (MonitorPool_add_monitor w n mname sel c unique tags)) := by
  have hrefl : FrC w w := ⟨Fr.refl w, rfl, rfl, rfl, rfl⟩
  cases ho : lookup w.observed_ n with
  | none =>
    unfold MonitorPool_add_monitor
    simpa [contains_eq_lookup, ho, final, throw, throwThe, MonadExceptOf.throw] using hrefl
  | some cell =>
    cases hn : rgetitem2 w.monitors_ n mname with
    | none => exact pool_add_monitor_fresh_frc w n mname sel c unique tags cell ho hn
    | some m0 =>
      cases unique
      · unfold MonitorPool_add_monitor
        simpa [contains_eq_lookup, ho, hn, final, pure, Except.pure] using hrefl
      · obtain ⟨g, hg, hm0⟩ : ∃ g, lookup w.monitors_ n = some g ∧ lookup g mname = some m0 := by
          simp only [rgetitem2] at hn
          cases hg : lookup w.monitors_ n with
          | none => simp [hg] at hn
          | some g => exact ⟨g, rfl, by simpa [hg] using hn⟩
        have hcg : dict_contains g mname = true := by simp [contains_eq_lookup, hm0]
        let w1 : LW := { w with monitors_ := groupsErase w.monitors_ n mname }
        have hn1 : rgetitem2 w1.monitors_ n mname = none := by
          show (lookup (groupsErase w.monitors_ n mname) n).bind (lookup · mname) = none
          rw [lookup_groupsErase_self _ _ _ _ hg]
          exact lookup_filter_ne_self g mname
        have h2 := pool_add_monitor_fresh_frc w1 n mname sel c true tags cell ho hn1
        have hd : dict_delitem2 w w.monitors_ n mname = .ok (groupsErase w.monitors_ n mname) := by
          simp only [dict_delitem2, hg, hcg, if_true]
          rfl
        have h01 : FrC w w1 := ⟨⟨rfl, rfl, rfl, rfl⟩, rfl, rfl, rfl, rfl⟩
        refine h01.trans ?_
        unfold MonitorPool_add_monitor at h2 ⊢
        simp only [w1] at h2 hn1
        simp only [contains_eq_lookup, ho, hn, hn1, hd, Option.isSome_some, Bool.not_true, Bool.false_eq_true, if_false,
          if_true, bind, Except.bind, pure, Except.pure] at h2 ⊢
        exact h2

/-- frame lemma: the regenerated `CellTrainer.add_monitor` (the `cells_` test raising `AttributeError`, or the pool's) -/
theorem add_monitor_frc (w : LW) (n mname : Nat) (sel : AttrSel) (c : Ctor) (unique : Bool) (tags : Nat) :
    FrC w (final (CellTrainer_add_monitor w n mname sel c unique tags)) := by
  unfold CellTrainer_add_monitor
  split
  · simp only [final, throw, throwThe, MonadExceptOf.throw]; exact ⟨Fr.refl w, rfl, rfl, rfl, rfl⟩
  · exact pool_add_monitor_frc w n mname sel c unique tags

/-- frame lemma: the regenerated `CellTrainer.add_cell` on an updatable cell with the required parameters: raising
`ValueError` (nothing changed) or returning, it keeps the frame, and the world it ends in is coherent (`cells_` and
`observed_` both gain the name at the end) -/
theorem add_cell_keeps (w : LW) (n c : Nat) (state : Option Nat) (params : Option (List Nat)) (hc : Coh w)
    (hu : (Cell_updater w c).isSome = true)
    (hp : ∀ ps, params = some ps → ∀ p ∈ ps, Updater_hasattr w (Cell_updater w c) p = true) :
    Fr w (final (CellTrainer_add_cell w n c state params)) ∧ Coh (final (CellTrainer_add_cell w n c state params)) := by
  unfold CellTrainer_add_cell
  simp only [contains_eq_lookup, hu, Bool.not_true, Bool.false_eq_true, if_false]
  cases hl : lookup w.cells_ n with
  | some c0 => simp only [Option.isSome_some, if_true, final, throw, throwThe, MonadExceptOf.throw]; exact ⟨Fr.refl w, hc⟩
  | none =>
    simp only [Option.isSome_none, Bool.false_eq_true, if_false]
    have hloop : (do
        if (optseq_truthy params) then
          let self ← ((← optseq_iter w params)).foldlM (fun self e1_ => (do
              if (!(Updater_hasattr self (Cell_updater self c) e1_)) then
                throw (Err.RuntimeError, self)
              else
                pure self
              : Except (Err × LW) _)) w
          pure self
        else
          pure w
        : Except (Err × LW) _) = .ok w := by
      cases params with
      | none => rfl
      | some ps =>
        simp only [optseq_iter, bind, Except.bind, pure, Except.pure]
        rw [foldlM_fix _ w ps (fun p hpm => by simp [hp ps rfl p hpm])]
        split <;> rfl
    rw [hloop]
    simp only [bind, Except.bind, pure, Except.pure, del_observed_eq]
    have ho0 : dict_contains w.observed_ n = false := by rw [← hc.cells, contains_eq_lookup, hl]; rfl
    have hobs : (delObservedW w n).observed_ = w.observed_ := by
      simp only [delObservedW]; exact filter_key_ne_self _ _ ho0
    have hmon : lookup (delObservedW w n).monitors_ n = none := lookup_filter_ne_self _ _
    have hobs' : lookup (delObservedW w n).observed_ n = none := by rw [hobs, ← hc.cells]; exact hl
    have hany : w.cells_.any (fun e => e.1 == n) = false := by
      have := contains_eq_lookup w.cells_ n; rw [hl] at this; exact this
    have hcells : (delObservedW w n).cells_ = w.cells_ := rfl
    have hpt : (delObservedW w n).poolTraining = w.poolTraining := rfl
    have htr : (delObservedW w n).training = w.training := rfl
    have hget : ∀ (σ : Type) (x : σ), getitem x (w.cells_ ++ [(n, c)]) n = .ok c := fun σ x => by
      simp [getitem, dict_getitem, LifecycleProg.lookup_append_new _ _ _ hl]
    have hset : dict_setitem w.cells_ n c = w.cells_ ++ [(n, c)] := by simp [dict_setitem, hany]
    have hf := delObservedW_fr w n
    rcases Bool.eq_false_or_eq_true (lookup (delObservedW w n).aux_states_ n).isSome with hx | hx
    · have hca : dict_contains (delObservedW w n).aux_states_ n = true := by rw [contains_eq_lookup]; exact hx
      cases state <;>
      · simp only [hx, if_true, dict_delitem, hca, gen_add_observed, hobs', hmon, Option.isSome_none, Bool.or_self,
          Bool.false_eq_true, if_false, hcells, hset, hget, final]
        exact ⟨⟨hf.me, hf.trainers, hf.topo, hf.filter⟩, by simp [hobs, hc.cells], by simp [hpt, htr, hc.training]⟩
    · cases state <;>
      · simp only [hx, Bool.false_eq_true, if_false, gen_add_observed, hobs', hmon, Option.isSome_none, Bool.or_self,
          hcells, hset, hget, final]
        exact ⟨⟨hf.me, hf.trainers, hf.topo, hf.filter⟩, by simp [hobs, hc.cells], by simp [hpt, htr, hc.training]⟩

/-! ## The generated state between operations -/

/-- what `register_cell` of the shipped trainers passes to `add_cell` besides name and cell: the auxiliary state module
and the required updater parameters, as functions of (trainer, cell name, cell, hyper-parameter variant) -/
structure RegArgs where
  state  : Nat → Nat → Nat → Nat → Option Nat
  params : Nat → Nat → Nat → Nat → Option (List Nat)

/-- state of the regenerated programs between two operations: the model state (its trainer records hold the POOL's
containers `training` / `observed_` / `monitors_`), what the model does not have (`env`), and the containers of every
trainer object the model forgets: `CellTrainer.training`, `cells_`, `aux_states_` -/
structure GS where
  st          : State
  env         : Env
  training    : Nat → Bool
  cells_      : Nat → List (Nat × Nat)
  aux_states_ : Nat → List (Nat × Nat)

/-- entering a method of trainer `t`: its containers and its pool's are loaded as `self` -/
def load (g : GS) (t : Nat) : LW :=
  ⟨g.st, g.env, t, g.training t, g.cells_ t, g.aux_states_ t, (g.st.trainers t).training, (g.st.trainers t).groups,
    (g.st.trainers t).cells⟩

/-- function update -/
def upd {α : Type} (f : Nat → α) (t : Nat) (a : α) : Nat → α := fun i => if i = t then a else f i

/-- leaving a method: `self`'s containers are written back (`toM` of the glue file for the pool's, `upd` for the
trainer's own), then reference counting runs (`gc`) -/
def store (g : GS) (w : LW) : GS :=
  ⟨gc (toM w), g.env, upd g.training w.me w.training, upd g.cells_ w.me w.cells_, upd g.aux_states_ w.me w.aux_states_⟩

/-- loading trainer `t` does not change the abstract state -/
theorem toM_load (g : GS) (t : Nat) : toM (load g t) = g.st := setTrainer_self g.st t

/-- the part of well-formedness the abstraction forgets: every trainer's own containers agree with its pool's
(`Coh` of the glue file, for every trainer) -/
def Inv (g : GS) : Prop := ∀ t, g.cells_ t = (g.st.trainers t).cells ∧ g.training t = (g.st.trainers t).training

/-- a loaded world is coherent -/
theorem load_coh (g : GS) (h : Inv g) (t : Nat) : Coh (load g t) := ⟨(h t).1, (h t).2⟩

/-- well-formedness of a generated state: the hypotheses of the glue theorems (`Inv`: `Coh`; `KN`: distinct group
names; the repaired alias rule), the machine's invariant `WF`, and "reference counting has nothing left to do" -/
structure GWF (g : GS) : Prop where
  inv : Inv g
  kn : KN g.st
  filter : g.st.layerFilter = true
  wf : WF g.st
  stable : gc g.st = g.st

/-! ## Dispatch of the operation alphabet, one step -/

/-- output of a regenerated method as the machine reports it -/
def outOf {α : Type} : Except (Err × LW) (LW × α) → Out
  | .ok _ => .ok
  | .error (e, _) => .err e

/-- run one regenerated method to its end: the world it ends in (on an exception: the world at the raise) is stored -/
def exec1 {α : Type} (g : GS) (x : Except (Err × LW) (LW × α)) : GS × Out := (store g (final x), outOf x)

/-- `liftS` of the glue theorems is `exec1` followed by the abstraction of the state -/
theorem exec1_liftS {α : Type} (g : GS) (x : Except (Err × LW) (LW × α)) :
    ((exec1 g x).1.st, (exec1 g x).2) = liftS x := by
  cases x with
  | error r => rfl
  | ok r => rfl

/-- MIXED RUN: an operation with no regenerated method is executed by the hand-written model's own step -/
def modelStep (g : GS) (op : Op) : GS × Out := ({ g with st := (step g.st op).1 }, (step g.st op).2)

/-- dispatcher of the operations addressing trainer object `t`: an object that does not exist (any more) runs no code -/
def onTrainer (g : GS) (t : Nat) (k : GS × Out) : GS × Out :=
  if (g.st.trainers t).alive then k else (g, .noref)

/-- the `add_monitor` calls of a `register_cell`, one by one through the regenerated `CellTrainer.add_monitor`; an
exception aborts -/
def addMonitors (w : LW) (n : Nat) : List (Nat × AttrSel × Bool × Bool × Nat × List Nat) → Except (Err × LW) (LW × Unit)
  | [] => .ok (w, ())
  | e :: tpl =>
    match CellTrainer_add_monitor w n e.1 e.2.1 ⟨w.me, e.2.2.2.1, e.2.2.2.2.2⟩ e.2.2.1 e.2.2.2.2.1 with
    | .error x => .error x
    | .ok (w', _) => addMonitors w' n tpl

/-- `register_cell` of a shipped trainer: the regenerated `CellTrainer.add_cell`, then the trainer kind's `add_monitor`
calls -/
def regProg (w : LW) (n c : Nat) (state : Option Nat) (params : Option (List Nat))
    (tpl : List (Nat × AttrSel × Bool × Bool × Nat × List Nat)) : Except (Err × LW) (LW × Unit) :=
  match CellTrainer_add_cell w n c state params with
  | .error x => .error x
  | .ok (w1, _) => addMonitors w1 n tpl

/-- dispatch of the machine's operation alphabet to the regenerated method it names; returns the NEW generated state -/
def genExec (R : RegArgs) (g : GS) : Op → GS × Out
  | .newTrainer kind =>
    ({ g with st := (step g.st (.newTrainer kind)).1, training := upd g.training g.st.nTrainers true,
              cells_ := upd g.cells_ g.st.nTrainers [], aux_states_ := upd g.aux_states_ g.st.nTrainers [] },
     (step g.st (.newTrainer kind)).2)
  | .registerCell t n c v => onTrainer g t
      (if c ≥ g.st.topo.length then (g, .noref)
       else exec1 g (regProg (load g t) n c (R.state t n c v) (R.params t n c v) (template (g.st.trainers t).kind v)))
  | .delCell t n => onTrainer g t (exec1 g (CellTrainer_del_cell (load g t) n))
  | .addMonitor t n mname sel unique prepend tags => onTrainer g t
      (exec1 g (CellTrainer_add_monitor (load g t) n mname sel ⟨t, prepend, []⟩ unique tags))
  | .delMonitor t n mname => onTrainer g t (exec1 g (CellTrainer_del_monitor (load g t) n mname))
  | .trainerTrain t mode => onTrainer g t (exec1 g (CellTrainer_train (load g t) mode))
  | .clear t => onTrainer g t (exec1 g (CellTrainer_clear (load g t)))
  | .layerTrain l mode => modelStep g (.layerTrain l mode)
  | .layerStep l => modelStep g (.layerStep l)
  | .trainerStep t => modelStep g (.trainerStep t)
  | .collect t => modelStep g (.collect t)

/-- the domain of the glue theorems, evaluated at the current state `g` -/
def Sup (R : RegArgs) (g : GS) : Op → Prop
  | .registerCell t n c v => (g.st.trainers t).alive = true → c < g.st.topo.length →
      (Cell_updater (load g t) c).isSome = true ∧
      ∀ ps, R.params t n c v = some ps → ∀ p ∈ ps, Updater_hasattr (load g t) (Cell_updater (load g t) c) p = true
  | _ => True

/-! ## `register_cell` -/

/-- `gen_add_monitor` of the glue file for any `reads` (the calls `register_cell` makes) and without the dispatcher -/
theorem gen_add_monitor_reads (w : LW) (n mname : Nat) (sel : AttrSel) (unique prepend : Bool) (tags : Nat)
    (reads : List Nat) (hc : Coh w) (hf : w.st.layerFilter = true) :
    lift (CellTrainer_add_monitor w n mname sel ⟨w.me, prepend, reads⟩ unique tags) =
      addMonitor (toM w) w.me n mname sel unique prepend tags reads := by
  unfold CellTrainer_add_monitor
  simp only [contains_eq_lookup, hc.cells]
  cases hl : lookup w.observed_ n with
  | none =>
    have : lookup (selfTrainer w).cells n = none := hl
    simp [addMonitor, this, lift, throw, throwThe, MonadExceptOf.throw]
  | some c =>
    simp only [Option.isSome_some, Bool.not_true, Bool.false_eq_true, if_false]
    exact gen_pool_add_monitor w n mname sel prepend reads unique tags hf

/-- the model's `add_monitor` succeeds for a registered cell name and an attribute the cell has -/
theorem addMonitor_ok (s : State) (t n mname : Nat) (sel : AttrSel) (unique prepend : Bool) (tags : Nat)
    (reads : List Nat) (c : Nat) (hc : lookup (s.trainers t).cells n = some c) (hsel : sel ≠ .bad)
    (hr : c < s.topo.length) : (addMonitor s t n mname sel unique prepend tags reads).2 = .ok := by
  have htopo : (eraseExisting s t n mname).topo = s.topo := by
    unfold eraseExisting; simp only; split <;> rfl
  obtain ⟨p, hp⟩ := realign_ok (eraseExisting s t n mname) c sel hsel (by rw [htopo]; exact hr)
  unfold addMonitor
  simp only [hc]
  split
  · rfl
  · simp only [hp]

/-- the `add_monitor` calls of a `register_cell`, executed by the regenerated `CellTrainer.add_monitor`, never raise
(the cell is registered and has the attributes) and are the model's `addTemplate` -/
theorem addMonitors_eq (n c : Nat) (tpl : List (Nat × AttrSel × Bool × Bool × Nat × List Nat)) (w : LW)
    (hal : (w.st.trainers w.me).alive = true) (hc : Coh w) (hf : w.st.layerFilter = true)
    (ho : lookup w.observed_ n = some c) (hr : c < w.st.topo.length) (htpl : ∀ e ∈ tpl, e.2.1 ≠ .bad) :
    ∃ w', addMonitors w n tpl = .ok (w', ()) ∧ toM w' = addTemplate (toM w) w.me n tpl ∧ Fr w w' ∧ Coh w' := by
  induction tpl generalizing w with
  | nil => exact ⟨w, rfl, rfl, Fr.refl w, hc⟩
  | cons e rest ih =>
    have hg := gen_add_monitor_reads w n e.1 e.2.1 e.2.2.1 e.2.2.2.1 e.2.2.2.2.1 e.2.2.2.2.2 hc hf
    have hok := addMonitor_ok (toM w) w.me n e.1 e.2.1 e.2.2.1 e.2.2.2.1 e.2.2.2.2.1 e.2.2.2.2.2 c
      (by rw [toM_trainer]; exact ho) (htpl e List.mem_cons_self) hr
    have hfr := add_monitor_frc w n e.1 e.2.1 ⟨w.me, e.2.2.2.1, e.2.2.2.2.2⟩ e.2.2.1 e.2.2.2.2.1
    cases hx : CellTrainer_add_monitor w n e.1 e.2.1 ⟨w.me, e.2.2.2.1, e.2.2.2.2.2⟩ e.2.2.1 e.2.2.2.2.1 with
    | error r =>
      obtain ⟨er, w'⟩ := r
      rw [hx] at hg
      have := congrArg Prod.snd hg
      rw [hok] at this
      cases this
    | ok r =>
      obtain ⟨w1, a⟩ := r
      rw [hx] at hg hfr
      simp only [final] at hfr
      have h1 : toM w1 = (addMonitor (toM w) w.me n e.1 e.2.1 e.2.2.1 e.2.2.2.1 e.2.2.2.2.1 e.2.2.2.2.2).1 :=
        congrArg Prod.fst hg
      obtain ⟨w', e1, e2, e3, e4⟩ := ih w1 (by rw [hfr.trainers, hfr.me]; exact hal) (hfr.coh hc)
        (by rw [hfr.filter]; exact hf) (by rw [hfr.observed_]; exact ho) (by rw [hfr.topo]; exact hr)
        (fun x hx => htpl x (List.mem_cons_of_mem _ hx))
      refine ⟨w', ?_, ?_, hfr.toFr.trans e3, e4⟩
      · simp only [addMonitors, hx]; exact e1
      · rw [e2, h1, hfr.me]; rfl

/-- every call of the templates names an attribute a cell has -/
theorem template_sel (kind v : Nat) : ∀ e ∈ template kind v, e.2.1 ≠ .bad := by
  intro e he
  by_cases hk : kind = 1
  · simp [template, hk] at he
    rcases he with h | h | h | h | h | h <;> (subst h; simp)
  · simp [template, hk] at he
    rcases he with h | h | h | h <;> (subst h; simp)

/-- **gen_register**: `register_cell` executed by the regenerated `CellTrainer.add_cell` and `CellTrainer.add_monitor`
(`regProg`) is the `.registerCell` case of `Lifecycle.stepCore` — the composition `gen_register_cell` of the glue file
left open —, and keeps the frame and the coherence of the containers -/
theorem gen_register (w : LW) (n c v : Nat) (state : Option Nat) (params : Option (List Nat))
    (hal : (w.st.trainers w.me).alive = true) (hlt : c < w.st.topo.length) (hc : Coh w)
    (hf : w.st.layerFilter = true) (hu : (Cell_updater w c).isSome = true)
    (hp : ∀ ps, params = some ps → ∀ p ∈ ps, Updater_hasattr w (Cell_updater w c) p = true) :
    lift (regProg w n c state params (template (w.st.trainers w.me).kind v)) =
      stepCore (toM w) (.registerCell w.me n c v) ∧
    Fr w (final (regProg w n c state params (template (w.st.trainers w.me).kind v))) ∧
    Coh (final (regProg w n c state params (template (w.st.trainers w.me).kind v))) := by
  have hg := (gen_add_cell w n c state params hc hu hp).1
  have hk := add_cell_keeps w n c state params hc hu hp
  have ha : (selfTrainer w).alive = true := hal
  have hlt' : ¬ c ≥ (toM w).topo.length := by show ¬ c ≥ w.st.topo.length; omega
  have hstep : stepCore (toM w) (.registerCell w.me n c v) =
      if (lookup (selfTrainer w).cells n).isSome then (toM w, .err .ValueError)
      else (addTemplate (addCellEntry (delObserved (toM w) w.me n) w.me n c) w.me n
        (template (w.st.trainers w.me).kind v), .ok) := by
    simp only [stepCore, toM_trainer, ha, Bool.not_true, Bool.false_eq_true, if_false, hlt']
    rfl
  rw [hstep]
  rw [toM_trainer] at hg
  unfold regProg
  cases hx : CellTrainer_add_cell w n c state params with
  | error r =>
    obtain ⟨er, w'⟩ := r
    rw [hx] at hg hk
    simp only [final] at hk ⊢
    refine ⟨?_, hk.1, hk.2⟩
    cases hs : (lookup (selfTrainer w).cells n).isSome
    · rw [hs] at hg
      have := congrArg Prod.snd hg
      cases this
    · rw [hs] at hg
      simp only [if_true] at hg ⊢
      exact hg
  | ok r =>
    obtain ⟨w1, a⟩ := r
    rw [hx] at hg hk
    simp only [final] at hk
    cases hs : (lookup (selfTrainer w).cells n).isSome
    · rw [hs] at hg
      simp only [lift, Bool.false_eq_true, if_false] at hg
      have h1 : toM w1 = addCellEntry (delObserved (toM w) w.me n) w.me n c := congrArg Prod.fst hg
      have hnone : lookup w.observed_ n = none := by
        have : (lookup w.observed_ n).isSome = false := hs
        cases hl : lookup w.observed_ n with
        | none => rfl
        | some x => rw [hl] at this; cases this
      have ho : lookup w1.observed_ n = some c := by
        have := congrArg (fun s => (s.trainers w.me).cells) h1
        simp only [addCellEntry, setTrainer_trainers_self, LifecycleProg.delObserved_cells, toM_trainer] at this
        rw [← hk.1.me, toM_trainer] at this
        have e : w1.observed_ = w.observed_ ++ [(n, c)] := this
        rw [e]
        exact LifecycleProg.lookup_append_new _ _ _ hnone
      obtain ⟨w', e1, e2, e3, e4⟩ := addMonitors_eq n c (template (w.st.trainers w.me).kind v) w1
        (by rw [hk.1.trainers, hk.1.me]; exact hal) hk.2 (by rw [hk.1.filter]; exact hf) ho
        (by rw [hk.1.topo]; exact hlt) (template_sel _ _)
      simp only [e1, final, lift, Bool.false_eq_true, if_false]
      refine ⟨?_, hk.1.trans e3, e4⟩
      rw [e2, h1, hk.1.me]
    · rw [hs] at hg
      have := congrArg Prod.snd hg
      cases this

/-! ## One step -/

/-- one dispatched operation of the regenerated programs, abstracted, is one step of the hand-written machine (the glue
theorems collected over the operation alphabet; `newTrainer` / `layerTrain` / `layerStep` / `trainerStep` / `collect`
are the model's own step) -/
theorem gen_step_eq (R : RegArgs) (g : GS) (h : GWF g) (op : Op) (hs : Sup R g op) :
    ((genExec R g op).1.st, (genExec R g op).2) = step g.st op := by
  have noref : ∀ (op : Op),
      stepCore g.st op = (g.st, .noref) → ((g, Out.noref).1.st, (g, Out.noref).2) = step g.st op := by
    intro op hc
    simp only [step, hc, h.stable]
  cases op with
  | newTrainer kind => rfl
  | layerTrain l mode => rfl
  | layerStep l => rfl
  | trainerStep t => rfl
  | collect t => rfl
  | registerCell t n c v =>
    simp only [genExec, onTrainer]
    cases hal : (g.st.trainers t).alive
    · exact noref _ (by simp [stepCore, hal])
    · simp only [if_true]
      by_cases hlt : c ≥ g.st.topo.length
      · simp only [hlt, if_true]
        exact noref _ (by simp [stepCore, hal, hlt])
      · simp only [hlt, if_false, exec1_liftS]
        obtain ⟨hu, hp⟩ := hs hal (by omega)
        have := (gen_register (load g t) n c v (R.state t n c v) (R.params t n c v) hal (by show c < g.st.topo.length; omega)
          (load_coh g h.inv t) h.filter hu hp).1
        have := liftS_eq _ _ _ this
        rwa [toM_load] at this
  | delCell t n =>
    simp only [genExec, onTrainer]
    cases hal : (g.st.trainers t).alive
    · exact noref _ (by simp [stepCore, hal])
    · simp only [if_true, exec1_liftS]
      have := gen_del_cell_step (load g t) n hal (load_coh g h.inv t)
      rwa [toM_load] at this
  | addMonitor t n mname sel unique prepend tags =>
    simp only [genExec, onTrainer]
    cases hal : (g.st.trainers t).alive
    · exact noref _ (by simp [stepCore, hal])
    · simp only [if_true, exec1_liftS]
      have := gen_add_monitor_step (load g t) n mname sel unique prepend tags hal (load_coh g h.inv t) h.filter
      rwa [toM_load] at this
  | delMonitor t n mname =>
    simp only [genExec, onTrainer]
    cases hal : (g.st.trainers t).alive
    · exact noref _ (by simp [stepCore, hal])
    · simp only [if_true, exec1_liftS]
      have := gen_del_monitor_step (load g t) n mname hal (h.kn t)
      rwa [toM_load] at this
  | trainerTrain t mode =>
    simp only [genExec, onTrainer]
    cases hal : (g.st.trainers t).alive
    · exact noref _ (by simp [stepCore, hal])
    · simp only [if_true, exec1_liftS]
      have := gen_train_step (load g t) mode hal
      rwa [toM_load] at this
  | clear t =>
    simp only [genExec, onTrainer]
    cases hal : (g.st.trainers t).alive
    · exact noref _ (by simp [stepCore, hal])
    · simp only [if_true, exec1_liftS]
      have := gen_clear_step (load g t) hal
      rwa [toM_load] at this

/-! ## Preservation of well-formedness -/

/-- reference counting does not change which monitors are live -/
theorem live_gc (s : State) (mid : Nat) : live (gc s) mid = live s mid := by
  cases hl : live s mid
  · have e : ((gc s).mons mid).alive = false := by simp [gc, hl]
    simp only [live, e, Bool.false_and]
  · have e : (gc s).mons mid = s.mons mid := by simp [gc, hl]
    have : live (gc s) mid = live s mid := by simp only [live, referenced, e]; rfl
    rw [this]; exact hl

/-- reference counting is idempotent: right after it has run there is nothing left to collect -/
theorem gc_idem (s : State) : gc (gc s) = gc s := by
  have h : gc (gc s) = { gc s with
      mons := fun mid => if live (gc s) mid then (gc s).mons mid else { (gc s).mons mid with alive := false, handle := none },
      post := (gc s).post.filter (fun e => live (gc s) e.2),
      cellMons := (gc s).cellMons.filter (fun e => live (gc s) e.2.2) } := rfl
  rw [h]
  simp only [live_gc]
  simp only [gc, List.filter_filter, Bool.and_self]
  congr 1
  funext mid
  cases hl : live s mid <;> simp [hl]

/-- storing a world that kept the frame and is coherent keeps `Inv` -/
theorem store_inv (g : GS) (h : Inv g) (t : Nat) (w' : LW) (hf : Fr (load g t) w') (hc : Coh w') :
    Inv (store g w') := by
  intro t'
  show (upd g.cells_ w'.me w'.cells_) t' = ((toM w').trainers t').cells ∧
    (upd g.training w'.me w'.training) t' = ((toM w').trainers t').training
  simp only [upd]
  by_cases ht : t' = w'.me
  · subst ht
    simp only [if_true, toM_trainer]
    exact ⟨hc.cells, hc.training⟩
  · simp only [ht, if_false, toM, setTrainer_trainers]
    rw [hf.trainers]
    exact h t'

/-- the operations that are the model's own (except `newTrainer`) leave every trainer's `cells` and `training` alone -/
theorem model_ops_frame (s : State) (op : Op)
    (hop : (∃ l m, op = .layerTrain l m) ∨ (∃ l, op = .layerStep l) ∨ (∃ t, op = .trainerStep t) ∨ (∃ t, op = .collect t))
    (t' : Nat) : ((step s op).1.trainers t').cells = (s.trainers t').cells ∧
      ((step s op).1.trainers t').training = (s.trainers t').training := by
  have hgc : ∀ x : State, (gc x).trainers = x.trainers := fun _ => rfl
  rcases hop with ⟨l, m, rfl⟩ | ⟨l, rfl⟩ | ⟨t, rfl⟩ | ⟨t, rfl⟩
  · exact ⟨rfl, rfl⟩
  · simp only [step, stepCore, hgc]
    split <;> exact ⟨rfl, rfl⟩
  · simp only [step, stepCore, hgc]
    split
    · exact ⟨rfl, rfl⟩
    · split <;> exact ⟨rfl, rfl⟩
  · simp only [step, stepCore, hgc]
    split
    · exact ⟨rfl, rfl⟩
    · simp only [setTrainer_trainers]
      split
      · rename_i h; subst h; exact ⟨rfl, rfl⟩
      · exact ⟨rfl, rfl⟩

/-- `Inv` along the dispatcher `onTrainer` -/
theorem onTrainer_inv (g : GS) (h : Inv g) (t : Nat) (k : GS × Out)
    (hk : (g.st.trainers t).alive = true → Inv k.1) : Inv (onTrainer g t k).1 := by
  unfold onTrainer
  cases hal : (g.st.trainers t).alive
  · exact h
  · exact hk hal

/-- every supported operation preserves `Inv` (the frame lemmas collected over the operation alphabet) -/
theorem gen_step_inv (R : RegArgs) (g : GS) (h : GWF g) (op : Op) (hs : Sup R g op) : Inv (genExec R g op).1 := by
  cases op with
  | newTrainer kind =>
    intro t'
    show (upd g.cells_ g.st.nTrainers []) t' = ((setTrainer { g.st with nTrainers := g.st.nTrainers + 1 }
        g.st.nTrainers ⟨kind, true, true, [], []⟩).trainers t').cells ∧
      (upd g.training g.st.nTrainers true) t' = ((setTrainer { g.st with nTrainers := g.st.nTrainers + 1 }
        g.st.nTrainers ⟨kind, true, true, [], []⟩).trainers t').training
    simp only [upd, setTrainer_trainers]
    by_cases ht : t' = g.st.nTrainers
    · simp [ht]
    · simp only [ht, if_false]; exact h.inv t'
  | layerTrain l mode =>
    intro t'
    obtain ⟨a, b⟩ := model_ops_frame g.st (.layerTrain l mode) (Or.inl ⟨l, mode, rfl⟩) t'
    exact ⟨(h.inv t').1.trans a.symm, (h.inv t').2.trans b.symm⟩
  | layerStep l =>
    intro t'
    obtain ⟨a, b⟩ := model_ops_frame g.st (.layerStep l) (Or.inr (Or.inl ⟨l, rfl⟩)) t'
    exact ⟨(h.inv t').1.trans a.symm, (h.inv t').2.trans b.symm⟩
  | trainerStep t =>
    intro t'
    obtain ⟨a, b⟩ := model_ops_frame g.st (.trainerStep t) (Or.inr (Or.inr (Or.inl ⟨t, rfl⟩))) t'
    exact ⟨(h.inv t').1.trans a.symm, (h.inv t').2.trans b.symm⟩
  | collect t =>
    intro t'
    obtain ⟨a, b⟩ := model_ops_frame g.st (.collect t) (Or.inr (Or.inr (Or.inr ⟨t, rfl⟩))) t'
    exact ⟨(h.inv t').1.trans a.symm, (h.inv t').2.trans b.symm⟩
  | registerCell t n c v =>
    apply onTrainer_inv g h.inv
    intro hal
    by_cases hlt : c ≥ g.st.topo.length
    · simp only [hlt, if_true]; exact h.inv
    · simp only [hlt, if_false]
      obtain ⟨hu, hp⟩ := hs hal (by omega)
      obtain ⟨-, k1, k2⟩ := gen_register (load g t) n c v (R.state t n c v) (R.params t n c v) hal
        (by show c < g.st.topo.length; omega) (load_coh g h.inv t) h.filter hu hp
      exact store_inv g h.inv t _ k1 k2
  | delCell t n =>
    apply onTrainer_inv g h.inv
    intro hal
    obtain ⟨k1, k2⟩ := del_cell_keeps (load g t) n
    exact store_inv g h.inv t _ k1 (k2 (load_coh g h.inv t))
  | addMonitor t n mname sel unique prepend tags =>
    apply onTrainer_inv g h.inv
    intro hal
    obtain ⟨k1, k2⟩ := (add_monitor_frc (load g t) n mname sel ⟨t, prepend, []⟩ unique tags).keeps
    exact store_inv g h.inv t _ k1 (k2 (load_coh g h.inv t))
  | delMonitor t n mname =>
    apply onTrainer_inv g h.inv
    intro hal
    obtain ⟨k1, k2⟩ := (del_monitor_frc (load g t) n mname).keeps
    exact store_inv g h.inv t _ k1 (k2 (load_coh g h.inv t))
  | trainerTrain t mode =>
    apply onTrainer_inv g h.inv
    intro hal
    obtain ⟨k1, k2⟩ := train_keeps (load g t) mode
    exact store_inv g h.inv t _ k1 (k2 (load_coh g h.inv t))
  | clear t =>
    apply onTrainer_inv g h.inv
    intro hal
    obtain ⟨k1, k2⟩ := (clear_fr (load g t)).keeps
    exact store_inv g h.inv t _ k1 (k2 (load_coh g h.inv t))

/-- the regenerated programs preserve `GWF`: after any supported operation — successful or raising — the generated state
is again well formed, so the hypotheses of the glue theorems hold along a whole execution -/
theorem gen_step_wf (R : RegArgs) (g : GS) (h : GWF g) (op : Op) (hs : Sup R g op) : GWF (genExec R g op).1 := by
  have e : (genExec R g op).1.st = (step g.st op).1 := congrArg Prod.fst (gen_step_eq R g h op hs)
  refine ⟨gen_step_inv R g h op hs, ?_, ?_, ?_, ?_⟩
  · rw [e]; exact step_kn h.kn op
  · rw [e, (static_step g.st op).filter]; exact h.filter
  · rw [e]; exact step_wf h.wf op
  · rw [e]; exact gc_idem _

/-! ## Operation sequences -/

/-- fold of `genExec` over an operation list, collecting the outputs -/
def genRun (R : RegArgs) (g : GS) : List Op → GS × List Out
  | [] => (g, [])
  | op :: ops => let (g', o) := genExec R g op; let (g'', os) := genRun R g' ops; (g'', o :: os)

/-- `Sup` along a run: every operation is supported at the state the regenerated programs have reached -/
def SupRun (R : RegArgs) (g : GS) : List Op → Prop
  | [] => True
  | op :: ops => Sup R g op ∧ SupRun R (genExec R g op).1 ops

/-- for every operation list supported along the run, the regenerated programs and the hand-written machine `run` produce
the same abstract final state and the same outputs, and the final generated state is well formed -/
theorem gen_run_eq (R : RegArgs) (ops : List Op) (g : GS) (h : GWF g) (hs : SupRun R g ops) :
    ((genRun R g ops).1.st, (genRun R g ops).2) = run g.st ops ∧ GWF (genRun R g ops).1 := by
  induction ops generalizing g with
  | nil => exact ⟨rfl, h⟩
  | cons op ops ih =>
    obtain ⟨hs1, hs2⟩ := hs
    have e := gen_step_eq R g h op hs1
    obtain ⟨i1, i2⟩ := ih (genExec R g op).1 (gen_step_wf R g h op hs1) hs2
    refine ⟨?_, i2⟩
    simp only [genRun, run]
    rw [← e]
    simp only []
    rw [← i1]

/-- the state component of the machine's `run` is `exec` -/
theorem run_fst (s : State) (ops : List Op) : (run s ops).1 = exec s ops := by
  induction ops generalizing s with
  | nil => rfl
  | cons op ops ih => simp only [run, exec, List.foldl_cons]; exact ih _

/-- the outputs of `run`, one operation at a time -/
theorem run_snd_cons (s : State) (op : Op) (ops : List Op) :
    (run s (op :: ops)).2 = (step s op).2 :: (run (step s op).1 ops).2 := rfl

/-- no layer step of a history raised, read off the outputs -/
def layerStepsOk : List Op → List Out → Bool
  | .layerStep _ :: ops, o :: os => decide (o = .ok) && layerStepsOk ops os
  | _ :: ops, _ :: os => layerStepsOk ops os
  | _, _ => true

/-- the hypothesis `NoAbort` of `one_obs_per_training_step`, from the outputs of the machine's `run` -/
theorem noAbort_of_run (ops : List Op) (s : State) (h : layerStepsOk ops (run s ops).2 = true) : NoAbort s ops := by
  induction ops generalizing s with
  | nil => trivial
  | cons op ops ih =>
    rw [run_snd_cons] at h
    cases op <;> simp only [layerStepsOk, Bool.and_eq_true, decide_eq_true_eq] at h <;>
      first
      | exact ⟨rfl, ih _ h⟩
      | exact ⟨by simp only [stepOk, decide_eq_true_eq]; exact h.1, ih _ h.2⟩

/-- the generated state before any operation: no trainer object, no monitor, every layer in training mode -/
def gInit (topo : List (Nat × Nat × Nat)) (env : Env) : GS :=
  ⟨init topo true, env, fun _ => false, fun _ => [], fun _ => []⟩

/-- the initial generated state is well formed -/
theorem gInit_wf (topo : List (Nat × Nat × Nat)) (env : Env) : GWF (gInit topo env) := by
  refine ⟨fun t => ⟨rfl, rfl⟩, fun t => by simp [gInit, init, noTrainer], rfl, init_wf topo true, ?_⟩
  simp [gInit, gc, init, live, noMonitor]

/-- from the initial state: for every supported operation list the regenerated programs reach exactly the state
`Lifecycle.exec (init topo)` reaches — the state every theorem of `Props/C15.lean` / `Props/C15b.lean` is about — and
return exactly the outputs of `Lifecycle.run` -/
theorem gen_run_init (R : RegArgs) (topo : List (Nat × Nat × Nat)) (env : Env) (ops : List Op)
    (hs : SupRun R (gInit topo env) ops) :
    (genRun R (gInit topo env) ops).1.st = exec (init topo true) ops ∧
    (genRun R (gInit topo env) ops).2 = (run (init topo true) ops).2 ∧
    GWF (genRun R (gInit topo env) ops).1 := by
  obtain ⟨e, w⟩ := gen_run_eq R ops (gInit topo env) (gInit_wf topo env) hs
  have e1 := congrArg Prod.fst e
  have e2 := congrArg Prod.snd e
  simp only at e1 e2
  exact ⟨by rw [e1, run_fst]; rfl, e2, w⟩

/-- CAPSTONE: for EVERY topology, EVERY finite sequence of supported operations from the initial state, executed by the
programs regenerated from /repo's `MonitorPool` / `Observable` / `CellTrainer` (mixed run: see the header), the state
reached is the machine's, the outputs are the machine's, the generated state is well formed, and — composed with the
model's run-level theorem `one_obs_per_training_step` — if no layer step of the run raised, then for every live trainer
object `t` the REGENERATED listing `CellTrainer.named_monitors` returns, without raising or changing anything, entries
whose monitor objects are alive, owned by `t`, registered with their layer exactly when the trainer object's OWN flag
`CellTrainer.training` is set, and whose observation count equals the specification's count (`expected`: +1 per layer
step taken while trainer and layer are both in training mode, 0 at creation and after `clear`) -/
theorem gen_run_refines (R : RegArgs) (topo : List (Nat × Nat × Nat)) (env : Env) (ops : List Op)
    (hs : SupRun R (gInit topo env) ops) :
    let g := (genRun R (gInit topo env) ops).1
    let outs := (genRun R (gInit topo env) ops).2
    g.st = exec (init topo true) ops ∧ outs = (run (init topo true) ops).2 ∧ GWF g ∧
    (layerStepsOk ops outs = true →
      ∀ t, (g.st.trainers t).alive = true →
        ∃ l, CellTrainer_named_monitors (load g t) = .ok (load g t, l) ∧
          ∀ e ∈ l, (g.st.mons e.2).alive = true ∧ (g.st.mons e.2).owner = t ∧
            ((g.st.mons e.2).handle.isSome = g.training t) ∧
            (g.st.mons e.2).count = (g.st.mons e.2).expected) := by
  intro g outs
  obtain ⟨e1, e2, w⟩ := gen_run_init R topo env ops hs
  refine ⟨e1, e2, w, ?_⟩
  intro hok t hal
  have hn : NoAbort (init topo true) ops := noAbort_of_run ops _ (by rw [← e2]; exact hok)
  have hp := one_obs_per_training_step topo ops true hn
  simp only at hp
  rw [← e1] at hp
  refine ⟨_, gen_named_monitors (load g t), ?_⟩
  rw [toM_load]
  intro e he
  obtain ⟨p1, p2, p3, p4⟩ := hp t hal e he
  exact ⟨p1, p2, by rw [(w.inv t).2]; exact p3, p4⟩

/-- the refinement from ANY well-formed generated state (not only a reachable one) whose observation counts agree with
the specification's: after every supported operation list in which no layer step raised they still agree, for every
alive monitor (composition with `countOK_exec`) -/
theorem gen_run_counts (R : RegArgs) (ops : List Op) (g : GS) (h : GWF g) (hc : CountOK g.st)
    (hs : SupRun R g ops) (hok : layerStepsOk ops (genRun R g ops).2 = true) :
    CountOK (genRun R g ops).1.st ∧ GWF (genRun R g ops).1 := by
  obtain ⟨e, w⟩ := gen_run_eq R ops g h hs
  have e1 : (genRun R g ops).1.st = exec g.st ops := by rw [← run_fst]; exact congrArg Prod.fst e
  have e2 : (genRun R g ops).2 = (run g.st ops).2 := congrArg Prod.snd e
  refine ⟨?_, w⟩
  rw [e1]
  exact countOK_exec ops g.st h.wf hc (noAbort_of_run ops _ (by rw [← e2]; exact hok))

/-- `hook_count` transported to the regenerated programs: after any supported run the number of forward hooks is the sum,
over the trainer objects that are alive and whose own `training` flag is set, of the length of the REGENERATED listing
`CellTrainer.monitors` (which never raises) -/
theorem gen_hook_count (R : RegArgs) (topo : List (Nat × Nat × Nat)) (env : Env) (ops : List Op)
    (hs : SupRun R (gInit topo env) ops) :
    let g := (genRun R (gInit topo env) ops).1
    g.st.post.length =
      (((List.range g.st.nTrainers).filter (fun t => (g.st.trainers t).alive && g.training t)).map
        (fun t => match CellTrainer_monitors (load g t) with
          | .ok (_, l) => l.length
          | .error _ => 0)).sum := by
  intro g
  obtain ⟨e1, -, w⟩ := gen_run_init R topo env ops hs
  have hh := (hook_count topo ops true).1
  rw [← e1] at hh
  rw [hh]
  congr 1
  have hf : (fun t => (g.st.trainers t).alive && g.training t) =
      (fun t => (g.st.trainers t).alive && (g.st.trainers t).training) := by
    funext t; rw [(w.inv t).2]
  rw [hf]
  apply List.map_congr_left
  intro t _
  rw [gen_monitors, toM_load]
  rfl

/-- `listed_cells_registered` and `layer_ok` transported, stated on the containers a method of trainer `t` sees (`load`):
every group of the pool's `monitors_` is keyed by a name in the trainer's own `cells_`, and every monitor listed under
a name was constructed on the layer of the cell `cells_` holds under that name -/
theorem gen_layer_ok (R : RegArgs) (topo : List (Nat × Nat × Nat)) (env : Env) (ops : List Op)
    (hs : SupRun R (gInit topo env) ops) (t : Nat) :
    let g := (genRun R (gInit topo env) ops).1
    (∀ grp ∈ (load g t).monitors_, (lookup (load g t).cells_ grp.1).isSome = true) ∧
    ((g.st.trainers t).alive = true → ∀ n c grp e, lookup (load g t).cells_ n = some c →
      lookup (load g t).monitors_ n = some grp → e ∈ grp → (g.st.mons e.2).layer = cellLayer g.st c) := by
  intro g
  obtain ⟨e1, -, w⟩ := gen_run_init R topo env ops hs
  have hc : (load g t).cells_ = (g.st.trainers t).cells := (w.inv t).1
  rw [hc]
  refine ⟨?_, ?_⟩
  · have := listed_cells_registered topo ops true t
    simp only at this
    rw [← e1] at this
    exact this
  · intro hal n c grp e h1 h2 h3
    have := layer_ok topo ops t n c grp e
    simp only at this
    rw [← e1] at this
    exact this hal h1 h2 h3

/-! ## Executable form of the domain (for the examples) -/

/-- executable form of `Sup` -/
def supB (R : RegArgs) (g : GS) : Op → Bool
  | .registerCell t n c v => !(g.st.trainers t).alive || decide (g.st.topo.length ≤ c) ||
      ((Cell_updater (load g t) c).isSome &&
        (match R.params t n c v with
          | some ps => ps.all (fun p => Updater_hasattr (load g t) (Cell_updater (load g t) c) p)
          | none => true))
  | _ => true

/-- the executable check implies `Sup` -/
theorem supB_sound (R : RegArgs) (g : GS) (op : Op) (h : supB R g op = true) : Sup R g op := by
  cases op with
  | registerCell t n c v =>
    intro hal hlt
    have hlt' : ¬ g.st.topo.length ≤ c := by omega
    simp only [supB, hal, Bool.not_true, Bool.false_or, hlt', decide_false, Bool.and_eq_true] at h
    refine ⟨h.1, ?_⟩
    intro ps hps p hp
    rw [hps] at h
    exact List.all_eq_true.1 h.2 p hp
  | _ => trivial

/-- executable form of `SupRun` -/
def supRunB (R : RegArgs) (g : GS) : List Op → Bool
  | [] => true
  | op :: ops => supB R g op && supRunB R (genExec R g op).1 ops

/-- the executable check implies `SupRun` -/
theorem supRunB_sound (R : RegArgs) (ops : List Op) (g : GS) (h : supRunB R g ops = true) : SupRun R g ops := by
  induction ops generalizing g with
  | nil => trivial
  | cons op ops ih =>
    simp only [supRunB, Bool.and_eq_true] at h
    exact ⟨supB_sound R g op h.1, ih _ h.2⟩

/-! ## Non-vacuity: concrete operation lists inside the domain, run by the regenerated programs -/

/-- `register_cell` passes an auxiliary state module (number 3) and requires updater parameter 5 -/
def exR : RegArgs := ⟨fun _ _ _ _ => some 3, fun _ _ _ _ => some [5]⟩

/-- on the two-cell topology `topo2` (shared neuron), every cell updatable (`exEnv`): an eligibility-trace trainer and a
plain one; `register_cell` of both kinds (6 and 4 regenerated `add_monitor` calls, the second aliasing nothing across
trainers), a rejected second registration of a name (`ValueError` from the regenerated `add_cell`), a unique monitor
replacing a pooled one, an attribute the cell does not have (`RuntimeError` after the lookup), layer steps in training
and evaluation mode, `del_monitor` twice (the second raises `AttributeError`) -/
def exOps0 : List Op :=
  [.newTrainer 1, .newTrainer 0, .registerCell 0 0 0 0, .layerStep 0, .registerCell 1 7 1 1, .registerCell 1 7 0 0,
   .addMonitor 0 0 2 (.conn 0) true false 3, .layerStep 0, .addMonitor 0 0 9 .bad false false 0,
   .trainerTrain 0 false, .layerStep 0, .trainerTrain 0 true, .delMonitor 1 7 1, .delMonitor 1 7 1]

/-- continuing from the state `exOps0` ends in: a trainer step that misses the deleted monitor (`fail`), `del_cell`,
`clear` (then a trainer step finds no observation: `fail`), the first trainer dropped and collected, operations on the
collected object and on a cell that does not exist (`noref`) -/
def exOps1 : List Op :=
  [.trainerStep 1, .delCell 1 7, .layerStep 0, .clear 0, .trainerStep 0, .collect 0, .layerStep 0, .delCell 0 0,
   .registerCell 1 9 5 0]

/-- the generated state `exOps0` ends in -/
def exG1 : GS := (genRun exR (gInit topo2 exEnv) exOps0).1

example : SupRun exR (gInit topo2 exEnv) exOps0 := supRunB_sound _ _ _ (by decide)
set_option maxRecDepth 8192 in
example : SupRun exR exG1 exOps1 := supRunB_sound _ _ _ (by decide)

/-- what the regenerated programs return on the first list -/
example : (genRun exR (gInit topo2 exEnv) exOps0).2 =
    [.idx 0, .idx 1, .ok, .ok, .ok, .err .ValueError, .ok, .ok, .err .RuntimeError, .ok, .ok, .ok, .ok,
     .err .AttributeError] := by decide

set_option maxRecDepth 8192 in
/-- … and on the second, continuing from there -/
example : (genRun exR exG1 exOps1).2 = [.fail, .ok, .ok, .ok, .fail, .ok, .ok, .noref, .noref] := by decide

/-- the containers the model forgets, after the first list: both trainer objects hold their cell and its auxiliary
state, both are in training mode; nine hooks are registered (six of trainer 0, one of them re-made unique; three of
trainer 1, whose `spike_post` was deleted) -/
example : exG1.cells_ 0 = [(0, 0)] ∧ exG1.aux_states_ 0 = [(0, 3)] ∧ exG1.training 0 = true ∧
    exG1.cells_ 1 = [(7, 1)] ∧ exG1.aux_states_ 1 = [(7, 3)] ∧ exG1.training 1 = true := by decide
example : exG1.st.post.length = 9 := by decide

/-- the capstone instantiated: the outputs are the machine's, and (no layer step raised) every monitor the regenerated
`named_monitors` of trainer 0 lists has count = specification count -/
example : (genRun exR (gInit topo2 exEnv) exOps0).2 = (run (init topo2 true) exOps0).2 :=
  (gen_run_refines exR topo2 exEnv exOps0 (supRunB_sound _ _ _ (by decide))).2.1
example : ∃ l, CellTrainer_named_monitors (load exG1 0) = .ok (load exG1 0, l) ∧
    ∀ e ∈ l, (exG1.st.mons e.2).alive = true ∧ (exG1.st.mons e.2).owner = 0 ∧
      ((exG1.st.mons e.2).handle.isSome = exG1.training 0) ∧ (exG1.st.mons e.2).count = (exG1.st.mons e.2).expected :=
  (gen_run_refines exR topo2 exEnv exOps0 (supRunB_sound _ _ _ (by decide))).2.2.2 (by decide) 0 (by decide)
/-- the listing is not empty and the counts are not zero: the monitors of trainer 0 have seen two training steps (the
layer step taken in evaluation mode is not counted), the unique `trace_pre` made after the first one has seen one -/
example : (match CellTrainer_named_monitors (load exG1 0) with
    | .ok (_, l) => l.map (fun (e : (Nat × Nat) × Nat) => (e.1, e.2, (exG1.st.mons e.2).count))
    | .error _ => []) =
    [((0, 0), 0, 2), ((0, 1), 1, 2), ((0, 3), 3, 2), ((0, 4), 4, 2), ((0, 5), 5, 2), ((0, 2), 10, 1)] := by decide

set_option maxRecDepth 8192 in
/-- the general-state capstone instantiated on the second list (a layer step in it runs hooks) -/
example : CountOK (genRun exR exG1 exOps1).1.st :=
  (gen_run_counts exR exOps1 exG1 (gen_run_init exR topo2 exEnv exOps0 (supRunB_sound _ _ _ (by decide))).2.2
    (countOK_exec exOps0 _ (init_wf topo2 true) (by intro i hi; simp [init, noMonitor] at hi)
      (noAbort_of_run exOps0 _ (by decide)) |> fun h => by
        rw [← (gen_run_init exR topo2 exEnv exOps0 (supRunB_sound _ _ _ (by decide))).1] at h; exact h)
    (supRunB_sound _ _ _ (by decide)) (by decide)).1

/-- the domain is a real restriction: a cell without updater cannot be registered through the regenerated `add_cell`
(it raises `RuntimeError` where the model's cells are all updatable) -/
example : ¬ Sup exR (genRun exR (gInit topo2 ⟨fun _ => none, fun _ _ => false⟩) [.newTrainer 0]).1
    (.registerCell 0 0 0 0) := by
  intro h
  exact absurd (h (by decide) (by decide)).1 (by decide)

end InfernoVerif.Gen.LifecycleProg
