import InfernoVerif.Model.DelaySTDP
import InfernoVerif.Gen.DelaySTDPSitesR
import InfernoVerif.Gen.Routes
/-!
# Glue: the element-wise terms of the delay-adjusted trainers ARE the expressions in /repo's `forward`s

`Gen/DelaySTDPSitesR.lean` is regenerated on every run from the assignments `t_delta = …`,
`t_delta_abs = …` and the expressions under `nansum` in `dpos / dneg / dpost / dpre = …` inside the
`forward` methods of `DelayAdjustedSTDP`, `DelayAdjustedSTDPD`, `DelayAdjustedMSTDP`,
`DelayAdjustedMSTDPD` and from `t_delta = …` of the three kernel trainers (site extraction).  The
theorems state that the hand-written terms of `Model/DelaySTDP.lean` (about which `Props/C18.lean`
proves the formula and the cross-implementation equalities) are those expressions — with each rate and
time constant attached to the branch the source attaches it to.  A changed sign test (`>=` vs `>`), a
swapped `lr_pos` / `lr_neg`, a dropped delay term, or `tc` used without the minus sign changes the
generated text and the corresponding theorem stops checking.
-/
namespace InfernoVerif.DSTDP.Glue
open InfernoVerif.DSTDP.R InfernoVerif.STDP.R InfernoVerif.Gen
open Classical

/-! ### `t_delta` -/

/-- the delay-adjusted rules: `t_pre - t_post - delay` on the two "time since last spike" readings
(NaN-propagating: `none` as soon as one side has not spiked) -/
theorem gen_tDelta (dt : ℝ) (s : Syn) (d : ℝ) (t : ℕ) :
    tDelta dt s d t =
      (match sinceLast dt s.pre t, sinceLast dt s.post t with
       | some a, some b => some (DelaySTDPSitesR.DelayAdjustedSTDP_t_delta a b d)
       | _, _ => none) := by
  unfold tDelta
  cases sinceLast dt s.pre t <;> cases sinceLast dt s.post t <;> rfl

/-- all six delay-adjusted trainers compute the same `t_delta` expression -/
theorem gen_tDelta_same (a b d : ℝ) :
    DelaySTDPSitesR.DelayAdjustedSTDPD_t_delta a b d = DelaySTDPSitesR.DelayAdjustedSTDP_t_delta a b d ∧
    DelaySTDPSitesR.DelayAdjustedMSTDP_t_delta a b d = DelaySTDPSitesR.DelayAdjustedSTDP_t_delta a b d ∧
    DelaySTDPSitesR.DelayAdjustedMSTDPD_t_delta a b d = DelaySTDPSitesR.DelayAdjustedSTDP_t_delta a b d ∧
    DelaySTDPSitesR.DelayAdjustedKernelSTDP_t_delta a b d = DelaySTDPSitesR.DelayAdjustedSTDP_t_delta a b d ∧
    DelaySTDPSitesR.DelayAdjustedKernelSTDPD_t_delta a b d = DelaySTDPSitesR.DelayAdjustedSTDP_t_delta a b d :=
  ⟨rfl, rfl, rfl, rfl, rfl⟩

/-- the unadjusted `KernelSTDP`: `t_pre - t_post` -/
theorem gen_tDeltaU (dt : ℝ) (s : Syn) (t : ℕ) :
    tDeltaU dt s t =
      (match sinceLast dt s.pre t, sinceLast dt s.post t with
       | some a, some b => some (DelaySTDPSitesR.KernelSTDP_t_delta a b)
       | _, _ => none) := by
  unfold tDeltaU
  cases sinceLast dt s.pre t <;> cases sinceLast dt s.post t <;> rfl

/-! ### the exponential terms (weights) -/

/-- `DelayAdjustedSTDP.forward :: dpos`: `lr_pos`, `tc_pos` on the branch `t_delta >= 0` -/
theorem gen_daPosTerm (c : DCfg) (x : ℝ) :
    daPosTerm c x = DelaySTDPSitesR.DelayAdjustedSTDP_term_a x
      (DelaySTDPSitesR.DelayAdjustedSTDP_t_delta_abs x) c.lrPos c.tcPos := rfl
/-- `DelayAdjustedSTDP.forward :: dneg`: `lr_neg`, `tc_neg` on the branch `t_delta < 0` -/
theorem gen_daNegTerm (c : DCfg) (x : ℝ) :
    daNegTerm c x = DelaySTDPSitesR.DelayAdjustedSTDP_term_b x
      (DelaySTDPSitesR.DelayAdjustedSTDP_t_delta_abs x) c.lrNeg c.tcNeg := rfl
/-- `DelayAdjustedMSTDP.forward :: dpost / dpre` are the same two expressions -/
theorem gen_damTerms (c : DCfg) (x : ℝ) :
    daPosTerm c x = DelaySTDPSitesR.DelayAdjustedMSTDP_term_a x
      (DelaySTDPSitesR.DelayAdjustedMSTDP_t_delta_abs x) c.lrPos c.tcPos ∧
    daNegTerm c x = DelaySTDPSitesR.DelayAdjustedMSTDP_term_b x
      (DelaySTDPSitesR.DelayAdjustedMSTDP_t_delta_abs x) c.lrNeg c.tcNeg := ⟨rfl, rfl⟩

/-! ### the exponential terms (delays): the causal branch carries `lr_neg`, `tc_neg` -/

/-- `DelayAdjustedSTDPD.forward :: dneg` -/
theorem gen_dadNegTerm (c : DCfg) (x : ℝ) :
    dadNegTerm c x = DelaySTDPSitesR.DelayAdjustedSTDPD_term_a x
      (DelaySTDPSitesR.DelayAdjustedSTDPD_t_delta_abs x) c.lrNeg c.tcNeg := rfl
/-- `DelayAdjustedSTDPD.forward :: dpos` -/
theorem gen_dadPosTerm (c : DCfg) (x : ℝ) :
    dadPosTerm c x = DelaySTDPSitesR.DelayAdjustedSTDPD_term_b x
      (DelaySTDPSitesR.DelayAdjustedSTDPD_t_delta_abs x) c.lrPos c.tcPos := rfl
/-- `DelayAdjustedMSTDPD.forward :: dpost / dpre` -/
theorem gen_damdTerms (c : DCfg) (x : ℝ) :
    dadNegTerm c x = DelaySTDPSitesR.DelayAdjustedMSTDPD_term_a x
      (DelaySTDPSitesR.DelayAdjustedMSTDPD_t_delta_abs x) c.lrNeg c.tcNeg ∧
    dadPosTerm c x = DelaySTDPSitesR.DelayAdjustedMSTDPD_term_b x
      (DelaySTDPSitesR.DelayAdjustedMSTDPD_t_delta_abs x) c.lrPos c.tcPos := ⟨rfl, rfl⟩

/-! ### the delay trainers' routing tables (`Model/DelaySTDP.lean :: routeD, routeTD`) -/

theorem gen_routeD (a b : Bool) (dpost dpre : ℝ) :
    routeD a b dpost dpre = Routes.DelayAdjustedMSTDPD_route1 a b dpost dpre ∧
    routeD a b dpost dpre = Routes.DelayAdjustedSTDPD_route0 a b dpost dpre := by
  cases a <;> cases b <;> exact ⟨rfl, rfl⟩

theorem gen_routeTD (a b : Bool) (postReg postInv preReg preInv : List ℝ) :
    routeTD a b postReg postInv preReg preInv
      = Routes.DelayAdjustedMSTDPD_join0 a b postInv postReg preInv preReg := by
  cases a <;> cases b <;> rfl

/-- the kernel trainers' split, per signed pair: `clampMin0` / `clampMax0` of the model are the
generated clamps -/
theorem gen_kernel_clamps (x : ℝ) :
    clampMin0 x = Routes.clampMin0 x ∧ clampMax0 x = Routes.clampMax0 x := by
  unfold clampMin0 clampMax0 Routes.clampMin0 Routes.clampMax0
  constructor
  · split_ifs with h
    · exact (max_eq_right (le_of_lt h)).symm
    · exact (max_eq_left (not_lt.mp h)).symm
  · split_ifs with h
    · exact (min_eq_right (le_of_lt h)).symm
    · exact (min_eq_left (not_lt.mp h)).symm

end InfernoVerif.DSTDP.Glue
