import InfernoVerif.Lemmas.Synapse
import InfernoVerif.Gen.SynapseSitesR
/-!
# Glue: the per-step recurrences of the synapse model ARE the expressions in /repo's `forward` methods

`Gen/SynapseSitesR.lean` is regenerated on every run by the translator from the right-hand sides
assigned to `self.current`, `self.pos_current`, `self.neg_current` inside
`SingleExponentialCurrent.forward` / `DoubleExponentialCurrent.forward`, the first summand of
`DeltaPlusCurrent.forward`, the `spike_to_current` closure of `DeltaCurrent.__init__` and the
`DoubleExponentialCurrent.current` getter (site extraction, `harness/sites.py`).  The theorems below
state that the hand-written, code-shaped model of `Model/Synapse.lean` — instantiated at ℝ, the
instance all theorems of `Props/C04.lean` are about — computes exactly those expressions.  A change of
a formula in the Python source changes the generated definition and the corresponding theorem stops
checking (a broken proof obligation of C04).

Also regenerated: the selector clamp `selector.clamp(min=0, max=value.duration)` and the overbound
replacement of `_synparam_at` (`neural/synapses/mixins.py`), tied to `clamp` / `applyOverbound`.

What stays hand-written and tied by correspondence only: the record plumbing around the expressions
(`push`, `peek`, the order of the assignments) and the branch structure of `_synparam_at`.
-/
namespace InfernoVerif.Synapse.Glue
open InfernoVerif.Synapse InfernoVerif.Gen InfernoVerif.Select
open Classical

/-- `SingleExponentialCurrent.forward :: self.current = …` -/
theorem gen_single_exp_update (c : Cfg ℝ) (i x : ℝ) :
    expUpdate realSOps c.dt c.tau (realSOps.K.div c.Q c.tau) i x
      = SynapseSitesR.SingleExponentialCurrent_current i c.dt c.tau c.Q x := rfl

/-- `DoubleExponentialCurrent.forward :: self.pos_current = …` (decay time constant) -/
theorem gen_double_exp_pos (c : Cfg ℝ) (p x : ℝ) :
    expUpdate realSOps c.dt c.tau (realSOps.K.div c.Q (realSOps.K.sub c.tau c.tauR)) p x
      = SynapseSitesR.DoubleExponentialCurrent_pos_current p c.dt c.tau c.tauR c.Q x := rfl

/-- `DoubleExponentialCurrent.forward :: self.neg_current = …` (rise time constant, same amplitude) -/
theorem gen_double_exp_neg (c : Cfg ℝ) (q x : ℝ) :
    expUpdate realSOps c.dt c.tauR (realSOps.K.div c.Q (realSOps.K.sub c.tau c.tauR)) q x
      = SynapseSitesR.DoubleExponentialCurrent_neg_current q c.dt c.tau c.tauR c.Q x := rfl

/-- `DoubleExponentialCurrent.current` (getter): positive minus negative component -/
theorem gen_double_exp_current (p q : ℝ) :
    realSOps.K.sub p q = SynapseSitesR.DoubleExponentialCurrent_current p q := rfl

/-- `DeltaPlusCurrent.forward`: the spike summand `inputs[0] * (spike_charge / dt)` -/
theorem gen_delta_plus_pulse (c : Cfg ℝ) (x : ℝ) :
    realSOps.K.mul x (realSOps.K.div c.Q c.dt) = SynapseSitesR.DeltaPlusCurrent_pulse x c.Q c.dt := rfl

/-- `DeltaCurrent.__init__ / spike_to_current`: a stored spike (`0` / `1`) times `spike_charge / dt` -/
theorem gen_delta_spike_to_current (c : Cfg ℝ) (b : Bool) :
    spikeToCurrent realSOps c (ofBool realSOps.K b)
      = SynapseSitesR.DeltaCurrent_spike_to_current (b = true) c.Q c.dt := by
  cases b <;> simp [spikeToCurrent, ofBool, SynapseSitesR.DeltaCurrent_spike_to_current, realSOps, realOps]

/-- the whole single-exponential step, written with the generated expression -/
theorem gen_step_single_exp (c : Cfg ℝ) (s : St ℝ) (x : ℝ) :
    stepSingleExp realSOps c s x =
      (let spike := s.spike.push (toSpike realSOps.K x) c.inplace
       match s.cur.read 1 with
       | none => none
       | some i =>
         let cur := s.cur.push (SynapseSitesR.SingleExponentialCurrent_current i c.dt c.tau c.Q x) c.inplace
         match cur.read 1 with
         | some v => some ({ s with spike := spike, cur := cur }, v)
         | none => none) := by
  simp only [← gen_single_exp_update]
  unfold stepSingleExp
  cases h : s.cur.read 1 with
  | none => rfl
  | some i =>
    simp only []
    cases h2 : (s.cur.push (expUpdate realSOps c.dt c.tau (realSOps.K.div c.Q c.tau) i x) c.inplace).read 1 <;> rfl

/-- the whole double-exponential step, written with the generated expressions -/
theorem gen_step_double_exp (c : Cfg ℝ) (s : St ℝ) (x : ℝ) :
    stepDoubleExp realSOps c s x =
      (let spike := s.spike.push (toSpike realSOps.K x) c.inplace
       match s.cur.read 1, s.neg.read 1 with
       | some p, some q =>
         let pos := s.cur.push (SynapseSitesR.DoubleExponentialCurrent_pos_current p c.dt c.tau c.tauR c.Q x) c.inplace
         let neg := s.neg.push (SynapseSitesR.DoubleExponentialCurrent_neg_current q c.dt c.tau c.tauR c.Q x) c.inplace
         match pos.read 1, neg.read 1 with
         | some p', some q' => some (⟨spike, pos, neg⟩, SynapseSitesR.DoubleExponentialCurrent_current p' q')
         | _, _ => none
       | _, _ => none) := by
  simp only [← gen_double_exp_pos, ← gen_double_exp_neg, ← gen_double_exp_current]
  unfold stepDoubleExp
  cases h : s.cur.read 1 <;> cases h' : s.neg.read 1 <;> try rfl
  rename_i p q
  simp only []
  cases h2 : (s.cur.push (expUpdate realSOps c.dt c.tau (realSOps.K.div c.Q (realSOps.K.sub c.tau c.tauR)) p x) c.inplace).read 1 <;>
    cases h3 : (s.neg.push (expUpdate realSOps c.dt c.tauR (realSOps.K.div c.Q (realSOps.K.sub c.tau c.tauR)) q x) c.inplace).read 1 <;> rfl

/-! ### `_synparam_at`: the selector clamp and the overbound replacement -/

/-- `bounded_selector = selector.clamp(min=0, max=value.duration)` -/
theorem gen_clamp_selector (sel dur : ℝ) :
    clamp realSOps.K sel (realSOps.K.ofInt 0) dur = SynapseSitesR.synparam_bounded_selector sel dur := by
  unfold clamp SynapseSitesR.synparam_bounded_selector
  simp only [realSOps, realOps, decide_eq_true_eq, Int.cast_zero]
  by_cases h1 : sel < 0
  · rw [if_pos h1, max_eq_right (le_of_lt h1)]
    by_cases h2 : dur < 0
    · rw [if_pos h2, min_eq_right (le_of_lt h2)]
    · rw [if_neg h2, min_eq_left (not_lt.mp h2)]
  · rw [if_neg h1, max_eq_left (not_lt.mp h1)]
    by_cases h2 : dur < sel
    · rw [if_pos h2, min_eq_right (le_of_lt h2)]
    · rw [if_neg h2, min_eq_left (not_lt.mp h2)]

/-- `torch.where((selector - bounded_selector).abs() <= tolerance, res, overbound)` when an overbound
value is configured; the value is left alone when it is `None` -/
theorem gen_applyOverbound (tol sel bounded res o : ℝ) :
    applyOverbound realSOps.K tol (some o) sel bounded res = SynapseSitesR.synparam_overbound sel bounded tol res o ∧
    applyOverbound realSOps.K tol none sel bounded res = res := by
  refine ⟨?_, rfl⟩
  unfold applyOverbound SynapseSitesR.synparam_overbound
  simp only [realSOps, realOps, decide_eq_true_eq]

end InfernoVerif.Synapse.Glue
