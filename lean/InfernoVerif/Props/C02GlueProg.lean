import InfernoVerif.Gen.SelectProg
import InfernoVerif.Props.C01Glue
set_option linter.unusedSimpArgs false
set_option linter.unusedVariables false
namespace InfernoVerif.Gen.SelectProg
open InfernoVerif.Ring InfernoVerif.Gen InfernoVerif.Gen.Prog InfernoVerif.Gen.SelectPrelude InfernoVerif.Select
open InfernoVerif.Gen.RingProg (unwind_eq unwind_lt pyIndex_nat write_ok gen_writerange toM lift)

variable {α : Type}

def rowsOf (g : SelT α) : List (List α) :=
  match g.data with
  | .init _ _ s => s.rows
  | _ => []

def colRing (K : Ops α) (g : SelT α) (p : Nat) : Ring α :=
  ⟨g.recordsz.toNat, g.pointer.toNat, (rowsOf g).map (·.getD p (K.ofInt 0))⟩

structure Live (g : SelT α) (s : Stack α) : Prop where
  hdata : g.data = .init s.dt s.oshape s
  hn : 0 < g.recordsz
  hl : s.rows.length = g.recordsz.toNat
  hp0 : 0 ≤ g.pointer
  hp1 : g.pointer < g.recordsz
  hrows : ∀ r ∈ s.rows, r.length = prod s.oshape

def errOut {β : Type} : Err → Outcome β
  | .ValueError => .valueError
  | _ => .noSlot

def liftSelObs (p : Nat) : Except Err (SelT α × SelOut α) → Outcome α
  | .ok (_, .obs x) => match x.vals[p]? with
    | some v => .ok v
    | none => .noSlot
  | .ok (_, .ten _) => .noSlot
  | .error e => errOut e


theorem rowsOf_live {g : SelT α} {s : Stack α} (h : Live g s) : rowsOf g = s.rows := by
  simp [rowsOf, h.hdata]

theorem getD_of_lt {β : Type} (l : List β) (i : Nat) (d : β) (h : i < l.length) : l[i]? = some (l.getD i d) := by
  simp [List.getD, List.getElem?_eq_getElem h]

/-- `data[_unwind_ptr(ptr, o, recordsz), ...]` on well-formed storage: the row the model's `unwind` names -/
theorem rowE_unwind (s : Stack α) (ptr n : Int) (hn : 0 < n) (hp0 : 0 ≤ ptr) (hl : s.rows.length = n.toNat) (o : Int) :
    s.rowE (InfraF._unwind_ptr ptr o n) = .ok ⟨s.dt, s.oshape, s.rows.getD (unwind ptr.toNat o n.toNat) []⟩ := by
  rw [unwind_eq _ _ _ hn hp0]
  have hlt := unwind_lt ptr.toNat o n.toNat (by omega)
  simp only [Stack.rowE, hl, pyIndex_nat _ _ hlt]
  rw [getD_of_lt s.rows _ [] (by omega)]

theorem row_len {g : SelT α} {s : Stack α} (h : Live g s) (o : Int) :
    (s.rows.getD (unwind g.pointer.toNat o g.recordsz.toNat) []).length = prod s.oshape := by
  have hlt := unwind_lt g.pointer.toNat o g.recordsz.toNat (by have := h.hn; omega)
  have hk : unwind g.pointer.toNat o g.recordsz.toNat < s.rows.length := by rw [h.hl]; exact hlt
  apply h.hrows
  rw [List.getD_eq_getElem?_getD, List.getElem?_eq_getElem hk]
  exact List.getElem_mem hk

/-- a read of column `p` is entry `p` of the row read -/
theorem col_read (K : Ops α) {g : SelT α} {s : Stack α} (h : Live g s) (p : Nat) (o : Int) :
    (colRing K g p).read o
      = some ((s.rows.getD (unwind g.pointer.toNat o g.recordsz.toNat) []).getD p (K.ofInt 0)) := by
  have hlt := unwind_lt g.pointer.toNat o g.recordsz.toNat (by have := h.hn; omega)
  have hk : unwind g.pointer.toNat o g.recordsz.toNat < s.rows.length := by rw [h.hl]; exact hlt
  simp only [Ring.read, colRing, rowsOf_live h, List.getElem?_map, getD_of_lt s.rows _ [] hk, Option.map_some]

theorem interpObs_get (f : Interp α) (a b c : Obs α) (dt z : α) (p : Nat) (ha : p < a.vals.length)
    (hb : p < b.vals.length) (hc : p < c.vals.length) :
    (interpObs f a b c dt).vals[p]? = some (f (a.vals.getD p z) (b.vals.getD p z) (c.vals.getD p z) dt) := by
  simp only [interpObs, List.getElem?_zipWith, List.zip_eq_zipWith, getD_of_lt _ _ z ha, getD_of_lt _ _ z hb,
    getD_of_lt _ _ z hc]

theorem gen_select_scalar (K : Ops α) (E : Elem α) (nearest : Interp α) (g : SelT α) (s : Stack α) (h : Live g s)
    (p : Nat) (hp : p < prod s.oshape) (t tol : α) (f : Option (Interp α)) (offset : Int) :
    liftSelObs p (RecordTensor_select K E nearest g (.scalar t) f tol offset)
      = selectScalar K (f.getD nearest) (colRing K g p) g.dt tol t offset := by
  have en : ((g.recordsz.toNat : Nat) : Int) = g.recordsz := Int.toNat_of_nonneg (by have := h.hn; omega)
  have hn2 : (colRing K g p).n = g.recordsz.toNat := rfl
  unfold RecordTensor_select selectScalar
  simp only [h.hdata, bind, Except.bind, pure, Except.pure, inRange, hn2, en, Bool.not_not,
    rowE_unwind s g.pointer g.recordsz h.hn h.hp0 h.hl, col_read K h, readO, withPair]
  by_cases hr : (K.lt t (K.neg tol) || K.lt (K.add (K.mul g.dt (K.ofInt (g.recordsz - 1))) tol) t) = true
  · simp [hr, liftSelObs, errOut, throw, throwThe, MonadExceptOf.throw]
  · simp only [hr, Bool.false_eq_true, ↓reduceIte, onGrid]
    by_cases hg : K.le (K.abs (K.sub (K.mul g.dt (K.ofInt (K.round (K.div t g.dt)))) t)) tol = true
    · simp only [hg, ↓reduceIte, liftSelObs]
      rw [getD_of_lt _ p (K.ofInt 0) (by rw [row_len h]; exact hp)]
    · simp only [hg, Bool.false_eq_true, ↓reduceIte, liftSelObs]
      rw [interpObs_get _ _ _ _ _ (K.ofInt 0) p (by simp only; rw [row_len h]; exact hp)
        (by simp only; rw [row_len h]; exact hp) (by simp [fullc, hp])]
      simp [fullc, hp, sampleAt]

def liftIns (K : Ops α) (p : Nat) : Except Err (SelT α × Unit) → Outcome (Ring α)
  | .ok (g', _) => .ok (colRing K g' p)
  | .error e => errOut e

theorem map_write {β γ : Type} (f : β → γ) (r : Ring β) (x : β) (o : Int) (b : Bool) :
    (r.write x o b).data.map f = ((⟨r.n, r.ptr, r.data.map f⟩ : Ring γ).write (f x) o b).data := by
  cases b <;> simp [Ring.write, Ring.writeInplace, Ring.writeSplice, List.map_set, List.map_take, List.map_drop]

theorem map_writerangeScalar_false {β γ : Type} (f : β → γ) (r : Ring β) (xs : List β) (o : Int) :
    (r.writerangeScalar xs o false).data.map f
      = ((⟨r.n, r.ptr, r.data.map f⟩ : Ring γ).writerangeScalar (xs.map f) o false).data := by
  simp only [Ring.writerangeScalar, Bool.false_eq_true, ↓reduceIte, List.length_map]
  split <;> simp [Ring.writerangeWrapped, Ring.writerangeContig, Ring.slice, List.map_take, List.map_drop]

theorem conv_id (E : Elem α) (hE : ∀ a b v, E.conv a b v = v) (a b : DType) (l : List α) : l.map (E.conv a b) = l := by
  have : E.conv a b = id := by funext v; exact hE a b v
  rw [this, List.map_id]

/-- `data[_unwind_ptr(ptr, o, recordsz), ...] = x` on well-formed storage -/
theorem setRowE_unwind (E : Elem α) (hE : ∀ a b v, E.conv a b v = v) (s : Stack α) (ptr n : Int) (hn : 0 < n)
    (hp0 : 0 ≤ ptr) (hl : s.rows.length = n.toNat) (o : Int) (x : Obs α) :
    s.setRowE E (InfraF._unwind_ptr ptr o n) x
      = .ok { s with rows := s.rows.set (unwind ptr.toNat o n.toNat) x.vals } := by
  rw [unwind_eq _ _ _ hn hp0]
  have hlt := unwind_lt ptr.toNat o n.toNat (by omega)
  simp only [Stack.setRowE, hl, pyIndex_nat _ _ hlt, conv_id E hE, ite_self]

theorem getD_of_get? {β : Type} (l : List β) (i : Nat) (d v : β) (h : l[i]? = some v) : l.getD i d = v := by
  rw [List.getD_eq_getElem?_getD, h]; rfl

theorem write_eta {β : Type} (r : Ring β) (x : β) (o : Int) (b : Bool) :
    r.write x o b = ⟨r.n, r.ptr, (r.write x o b).data⟩ := by cases b <;> rfl

theorem extrapObs_get (f : Extrap α) (x a b c : Obs α) (dt z : α) (p : Nat) (hx : p < x.vals.length)
    (ha : p < a.vals.length) (hb : p < b.vals.length) (hc : p < c.vals.length) :
    (extrapObs f x a b c dt).1.vals.getD p z = (f (x.vals.getD p z) (a.vals.getD p z) (b.vals.getD p z) (c.vals.getD p z) dt).1
    ∧ (extrapObs f x a b c dt).2.vals.getD p z = (f (x.vals.getD p z) (a.vals.getD p z) (b.vals.getD p z) (c.vals.getD p z) dt).2 := by
  constructor <;> apply getD_of_get? <;>
  simp only [extrapObs, List.getElem?_map, List.getElem?_zipWith, List.zip_eq_zipWith,
    getD_of_lt _ _ z hx, getD_of_lt _ _ z ha, getD_of_lt _ _ z hb, getD_of_lt _ _ z hc, Option.map_some]

theorem fullc_getD (s : Stack α) (v z : α) (p : Nat) (hp : p < prod s.oshape) : (fullc s v).vals.getD p z = v := by
  apply getD_of_get?
  simp [fullc, hp]

/-- `self.writerange(stack((a, b), -1).to(dtype), o, forward=True, inplace=False)` on well-formed storage, through the
glue theorem of the regenerated `writerange` (`C01Glue.gen_writerange`): ValueError iff the record has fewer than
two slots, otherwise the rows are the model's `writerangeScalar`, the pointer stays -/
theorem writerange2 (E : Elem α) (hE : ∀ a b v, E.conv a b v = v) (s : Stack α) (ptr n : Int) (hn : 0 < n)
    (hp0 : 0 ≤ ptr) (hp1 : ptr < n) (hl : s.rows.length = n.toNat) (a b : Obs α) (ha : a.shape = s.oshape) (o : Int) :
    match RingProg.RecordTensor_writerange E ⟨.init s.dt s.oshape s, ptr, n⟩ ((stackLast a b).to E s.dt) (.int o) true false with
    | .ok (g', _) => ¬ 2 > n.toNat ∧ g'.pointer.toNat = ptr.toNat ∧ ∃ s', g'.data = .init s.dt s.oshape s' ∧
        s'.rows = (Ring.writerangeScalar ⟨n.toNat, ptr.toNat, s.rows⟩ [a.vals, b.vals] (shiftOffset o 2 true) false).data
    | .error e => e = .ValueError ∧ 2 > n.toNat := by
  have hT : (stackLast a b).to E s.dt = ⟨⟨s.dt, s.oshape, [a.vals, b.vals]⟩⟩ := by
    simp [stackLast, TimeLast.to, Stack.to, conv_id E hE, ha]
  have hG : RingProg.GWF (⟨.init s.dt s.oshape s, ptr, n⟩ : RT α) := ⟨hn, rfl, rfl, hl, hp0, hp1⟩
  have key := gen_writerange E ⟨.init s.dt s.oshape s, ptr, n⟩ hG s.dt s.oshape [a.vals, b.vals] o true false (by simp)
  rw [hT]
  simp only [toM, step, ne_eq, not_true_eq_false, ↓reduceIte, List.length_cons, List.length_nil, Nat.zero_add,
    Nat.reduceAdd, conv_id E hE, List.map_cons, List.map_nil] at key
  cases hres : RingProg.RecordTensor_writerange E ⟨.init s.dt s.oshape s, ptr, n⟩ ⟨⟨s.dt, s.oshape, [a.vals, b.vals]⟩⟩
      (.int o) true false with
  | error e =>
    rw [hres] at key
    simp only [lift] at key
    by_cases h2 : 2 > n.toNat
    · simp only [h2, ↓reduceIte] at key
      have := congrArg Prod.snd key
      simp at this
      exact ⟨this, h2⟩
    · simp [h2] at key
  | ok r =>
    obtain ⟨g', u⟩ := r
    rw [hres] at key
    simp only [lift] at key
    by_cases h2 : 2 > n.toNat
    · simp [h2] at key
    · simp only [h2, ↓reduceIte, (by decide : ¬ (2 : Nat) = 0)] at key
      have k1 := congrArg Prod.fst key
      simp only [toM] at k1
      refine ⟨h2, ?_⟩
      cases hd : g'.data with
      | init d sh s' =>
        rw [hd] at k1
        simp only [Prod.mk.injEq, Store.init.injEq] at k1
        obtain ⟨k0, kd, ksh, kr⟩ := k1
        have kp := congrArg Ring.ptr kr
        have kdat := congrArg Ring.data kr
        simp only at kp kdat
        refine ⟨?_, s', by rw [kd, ksh], kdat⟩
        rw [kp]
        simp [Ring.writerangeScalar]
        split <;> rfl
      | none => rw [hd] at k1; simp at k1
      | empty d => rw [hd] at k1; simp at k1
      | uninit d => rw [hd] at k1; simp at k1

theorem gen_insert_scalar (K : Ops α) (E : Elem α) (hE : ∀ a b v, E.conv a b v = v) (nearest : Extrap α)
    (g : SelT α) (s : Stack α) (h : Live g s) (p : Nat) (hp : p < prod s.oshape) (x : Obs α) (hx : x.shape = s.oshape)
    (hxl : x.vals.length = prod s.oshape) (t tol : α) (f : Option (Extrap α)) (offset : Int) (inplace : Bool) :
    liftIns K p (RecordTensor_insert K E nearest g x (.scalar t) f tol offset inplace)
      = insertScalar K (f.getD nearest) (colRing K g p) g.dt tol (x.vals.getD p (K.ofInt 0)) t offset inplace := by
  have en : ((g.recordsz.toNat : Nat) : Int) = g.recordsz := Int.toNat_of_nonneg (by have := h.hn; omega)
  have hn2 : (colRing K g p).n = g.recordsz.toNat := rfl
  unfold RecordTensor_insert insertScalar
  simp only [h.hdata, bind, Except.bind, pure, Except.pure, inRange, hn2, en, Bool.not_not, hx, ne_eq, not_true_eq_false,
    decide_false, Bool.false_eq_true, ↓reduceIte,
    rowE_unwind s g.pointer g.recordsz h.hn h.hp0 h.hl, col_read K h, withPair]
  by_cases hr : (K.lt t (K.neg tol) || K.lt (K.add (K.mul g.dt (K.ofInt (g.recordsz - 1))) tol) t) = true
  · simp [hr, liftIns, errOut, throw, throwThe, MonadExceptOf.throw]
  · simp only [hr, Bool.false_eq_true, ↓reduceIte, onGrid]
    by_cases hg : K.le (K.abs (K.sub (K.mul g.dt (K.ofInt (K.round (K.div t g.dt)))) t)) tol = true
    · simp only [hg, ↓reduceIte, viaRT, h.hdata]
      rw [write_ok E g.pointer g.recordsz s h.hn h.hl h.hp0 x hx _ inplace]
      simp only [liftIns, colRing, rowsOf, conv_id E hE, map_write, h.hdata]
      rw [write_eta]
    · simp only [hg, Bool.false_eq_true, ↓reduceIte, sampleAt]
      have hAl := row_len h (K.ceil (K.add (K.ofInt offset) (K.div t g.dt)))
      have hBl := row_len h (K.floor (K.add (K.ofInt offset) (K.div t g.dt)))
      generalize K.ceil (K.add (K.ofInt offset) (K.div t g.dt)) = ci at *
      generalize K.floor (K.add (K.ofInt offset) (K.div t g.dt)) = fi at *
      generalize s.rows.getD (unwind g.pointer.toNat ci g.recordsz.toNat) [] = A at *
      generalize s.rows.getD (unwind g.pointer.toNat fi g.recordsz.toNat) [] = B at *
      generalize K.sub g.dt (K.mul g.dt (mod1 K (K.div t g.dt))) = sa at *
      obtain ⟨e1, e2⟩ := extrapObs_get (f.getD nearest) x (fullc s sa) ⟨s.dt, s.oshape, A⟩ ⟨s.dt, s.oshape, B⟩ g.dt
        (K.ofInt 0) p (by omega) (by simp [fullc, hp]) (by simp only; omega) (by simp only; omega)
      rw [fullc_getD s sa _ p hp] at e1 e2
      simp only at e1 e2
      have hsh : (extrapObs (f.getD nearest) x (fullc s sa) ⟨s.dt, s.oshape, A⟩ ⟨s.dt, s.oshape, B⟩ g.dt).1.shape = s.oshape := hx
      generalize extrapObs (f.getD nearest) x (fullc s sa) ⟨s.dt, s.oshape, A⟩ ⟨s.dt, s.oshape, B⟩ g.dt = ex at *
      cases inplace
      · simp only [Bool.false_eq_true, ↓reduceIte, viaRT, h.hdata]
        have key := writerange2 E hE s g.pointer g.recordsz h.hn h.hp0 h.hp1 h.hl ex.1 ex.2 hsh ci
        cases hres : RingProg.RecordTensor_writerange E ⟨.init s.dt s.oshape s, g.pointer, g.recordsz⟩
            ((stackLast ex.1 ex.2).to E s.dt) (.int ci) true false with
        | error e =>
          rw [hres] at key
          simp only at key
          simp [liftIns, errOut, key.1, key.2]
        | ok r =>
          obtain ⟨g', u⟩ := r
          rw [hres] at key
          obtain ⟨h2, kp, s', hd', hr'⟩ := key
          simp only [h2, ↓reduceIte, liftIns, colRing, rowsOf, hd', hr', kp, h.hdata, map_writerangeScalar_false,
            List.map_cons, List.map_nil, e1, e2]
          simp [Ring.writerangeScalar]
          split <;> rfl
      · simp only [↓reduceIte]
        rw [setRowE_unwind E hE s g.pointer g.recordsz h.hn h.hp0 h.hl]
        simp only []
        rw [setRowE_unwind E hE _ g.pointer g.recordsz h.hn h.hp0 (by simp [h.hl])]
        simp only [liftIns, colRing, rowsOf, Store.ofStack, Ring.writeInplace, List.map_set, e1, e2, h.hdata]
end InfernoVerif.Gen.SelectProg
