import InfernoVerif.Gen.SelectProg
import InfernoVerif.Props.C01Glue
import InfernoVerif.Model.SelectQ
import InfernoVerif.Lemmas.Select
/-!
# Glue: the `select` / `insert` model IS the bodies of `RecordTensor.select` / `RecordTensor.insert` in /repo's source

`Gen/SelectProg.lean` is regenerated on every run by `harness/progtx_select.py` from the *whole bodies* of
`RecordTensor.select` and `RecordTensor.insert` (`inferno/core/infrastructure.py`): the default kernel, the `_ignore`
test, the shape / dimension tests, the scalar-time / tensor-time dispatch, the range tests (`amin` / `amax` on tensors)
with their `ValueError`, `shift`, the snap-to-grid `where`, the on-grid test, the bracket indices (`ceil` = prev first,
`floor` = next), `_unwind_ptr` / `_unwind_tensor_ptr`, the reads / `gather` / `tensor_split`, the kernel call with its
argument order, the "exact overwrite" `where`s, and the writes (`self.write`, the in-place pair, `self.writerange`,
`scatter_` / `scatter`).  `self.write` / `self.writerange` are the regenerated `RingProg.RecordTensor_write` /
`RecordTensor_writerange` (tied to the ring machine by `Props/C01Glue.lean`, used here through `write_ok` /
`gen_writerange`); torch primitives are the functions of `Gen/ProgPrelude.lean` and `Gen/SelectPrelude.lean`.

The theorems `gen_select_scalar`, `gen_select_tensor`, `gen_insert_scalar`, `gen_insert_tensor` state that running the
regenerated program on a live private state `g` (whole observations of `P = prod oshape` positions) and reading the result
column by column is EQUAL to the functions of `Model/Select.lean` on the columns `colRing K g p` — `selectScalar`,
`selectTensorAll` (hence `selectTensor`), `insertScalar`, `insertTensorAll` (hence `insertTensor`) — the functions about
which `Props/C02.lean` proves the on-grid / off-grid laws and the scalar = tensor equivalence (at `realOps`; `colRing_wf`
gives their well-formedness hypothesis, `realOps_ordLaws` the one extra hypothesis used here).  They hold for EVERY
`Select.Ops` (for the tensor paths: every one whose `lt` is a linear order's, `OrdLaws`), every kernel, every offset, every
time — so the `ValueError` branches of the range tests, the on-grid and off-grid branches, both `inplace` values, the
one-slot `ValueError` of `writerange`, and both accepted `ndim`s of a time tensor are covered.  A flipped comparison, a
bracket index swapped, a dropped `where`, a write to the wrong slot or in the wrong order changes the generated text and
the corresponding theorem stops checking.

What the abstraction adds / assumes (the model is per column and does not have these):
* kernels are scalar functions applied element-wise (`Gen/SelectPrelude.lean`); `interp=None` / `extrap=None` is the
  module-level default, a parameter (`nearest`) of the generated definitions;
* dtype conversion is the identity (`hE`; the model does not convert, the check stores float64);
* `Live g s`: initialised storage with `recordsz ≥ 1` slices of `P` entries, pointer in range; the observation and an
  observation-shaped time tensor have `P` entries (`hxl`, `htl`, `htt`);
* a time tensor has at least one element (`hne` / `hP`): torch's `amin` raises `RuntimeError` on an empty tensor whereas
  `selectTensorAll` / `insertTensorAll` of the empty list return the empty list;
* what the model does not have at all is proved separately: ignored storage raises `RuntimeError`
  (`gen_select_ignored`, `gen_insert_ignored`), a misshaped observation / time tensor raises `ValueError`
  (`gen_insert_obs_shape`, `gen_insert_time_shape`, `gen_select_tensor_ndim`); `select` returns the state it was given
  (`gen_select_scalar_total`).
Not proved here: that `insert` leaves a `Live` state (the theorems are per call; the model-side functions keep `Ring.WF`,
`Lemmas/Select.lean`).
-/
set_option linter.unusedSimpArgs false
set_option linter.unusedVariables false
namespace InfernoVerif.Gen.SelectProg
open InfernoVerif.Ring InfernoVerif.Gen InfernoVerif.Gen.Prog InfernoVerif.Gen.SelectPrelude InfernoVerif.Select
open InfernoVerif.Gen.RingProg (unwind_eq unwind_lt pyIndex_nat write_ok gen_writerange toM lift allSome_block)

variable {α : Type}


/-- the time slices of initialised storage (nothing for ignored storage) -/
def rowsOf (g : SelT α) : List (List α) :=
  match g.data with
  | .init _ _ s => s.rows
  | _ => []

/-- abstraction: column `p` of the private state — one scalar per time slot — as the ring `Model/Select.lean` works on
(the default `K.ofInt 0` of `getD` is never used under `Live` and `p < prod s.oshape`) -/
def colRing (K : Ops α) (g : SelT α) (p : Nat) : Ring.Ring α :=
  ⟨g.recordsz.toNat, g.pointer.toNat, (rowsOf g).map (·.getD p (K.ofInt 0))⟩

/-- well-formedness of a private state with initialised storage `s` (what the constructor and every method maintain):
the storage carries its own dtype / observation shape, has `recordsz ≥ 1` slices of `prod oshape` entries each, and the
pointer is in `[0, recordsz)` -/
structure Live (g : SelT α) (s : Stack α) : Prop where
  hdata : g.data = .init s.dt s.oshape s
  hn : 0 < g.recordsz
  hl : s.rows.length = g.recordsz.toNat
  hp0 : 0 ≤ g.pointer
  hp1 : g.pointer < g.recordsz
  hrows : ∀ r ∈ s.rows, r.length = prod s.oshape

/-- exception → outcome of the model: `ValueError` is the model's `valueError`; `IndexError` (an index outside `data`)
is its `noSlot`, and so is every other class — none of them occurs on a live state (`gen_select_scalar_total`) -/
def errOut {β : Type} : Err → Outcome β
  | .ValueError => .valueError
  | _ => .noSlot

/-- result of the regenerated `select` (scalar time) → outcome of the model on column `p` -/
def liftSelObs (p : Nat) : Except Err (SelT α × SelOut α) → Outcome α
  | .ok (_, .obs x) => match x.vals[p]? with
    | some v => .ok v
    | none => .noSlot
  | .ok (_, .ten _) => .noSlot
  | .error e => errOut e


/-- the slices of a live state -/
theorem rowsOf_live {g : SelT α} {s : Stack α} (h : Live g s) : rowsOf g = s.rows := by
  simp [rowsOf, h.hdata]

/-- an in-range `getElem?` is `getD` -/
theorem getD_of_lt {β : Type} (l : List β) (i : Nat) (d : β) (h : i < l.length) : l[i]? = some (l.getD i d) := by
  simp [List.getD, List.getElem?_eq_getElem h]

/-- `data[_unwind_ptr(ptr, o, recordsz), ...]` on well-formed storage: the row the model's `unwind` names -/
theorem rowE_unwind (s : Stack α) (ptr n : Int) (hn : 0 < n) (hp0 : 0 ≤ ptr) (hl : s.rows.length = n.toNat) (o : Int) :
    s.rowE (InfraF._unwind_ptr ptr o n) = .ok ⟨s.dt, s.oshape, s.rows.getD (unwind ptr.toNat o n.toNat) []⟩ := by
  rw [unwind_eq _ _ _ hn hp0]
  have hlt := unwind_lt ptr.toNat o n.toNat (by omega)
  simp only [Stack.rowE, hl, pyIndex_nat _ _ hlt]
  rw [getD_of_lt s.rows _ [] (by omega)]

/-- every slice of a live state has one entry per position -/
theorem row_len {g : SelT α} {s : Stack α} (h : Live g s) (o : Int) :
    (s.rows.getD (unwind g.pointer.toNat o g.recordsz.toNat) []).length = prod s.oshape := by
  have hlt := unwind_lt g.pointer.toNat o g.recordsz.toNat (by have := h.hn; omega)
  have hk : unwind g.pointer.toNat o g.recordsz.toNat < s.rows.length := by rw [h.hl]; exact hlt
  apply h.hrows
  rw [List.getD_eq_getElem?_getD, List.getElem?_eq_getElem hk]
  exact List.getElem_mem hk

/-- a live state's columns are well-formed rings: the hypothesis `Ring.WF` of the theorems of `Props/C02.lean` -/
theorem colRing_wf (K : Ops α) {g : SelT α} {s : Stack α} (h : Live g s) (p : Nat) : (colRing K g p).WF := by
  have h1 := h.hn
  have h2 := h.hp0
  have h3 := h.hp1
  refine ⟨?_, ?_, ?_⟩
  · show 0 < g.recordsz.toNat
    omega
  · show g.pointer.toNat < g.recordsz.toNat
    omega
  · show ((rowsOf g).map _).length = g.recordsz.toNat
    rw [rowsOf_live h, List.length_map, h.hl]

/-- a read of column `p` is entry `p` of the row read -/
theorem col_read (K : Ops α) {g : SelT α} {s : Stack α} (h : Live g s) (p : Nat) (o : Int) :
    (colRing K g p).read o
      = some ((s.rows.getD (unwind g.pointer.toNat o g.recordsz.toNat) []).getD p (K.ofInt 0)) := by
  have hlt := unwind_lt g.pointer.toNat o g.recordsz.toNat (by have := h.hn; omega)
  have hk : unwind g.pointer.toNat o g.recordsz.toNat < s.rows.length := by rw [h.hl]; exact hlt
  simp only [Ring.read, colRing, rowsOf_live h, List.getElem?_map, getD_of_lt s.rows _ [] hk, Option.map_some]

/-- the element-wise kernel application, entry `p` -/
theorem interpObs_get (f : Interp α) (a b c : Obs α) (dt z : α) (p : Nat) (ha : p < a.vals.length)
    (hb : p < b.vals.length) (hc : p < c.vals.length) :
    (interpObs f a b c dt).vals[p]? = some (f (a.vals.getD p z) (b.vals.getD p z) (c.vals.getD p z) dt) := by
  simp only [interpObs, List.getElem?_zipWith, List.zip_eq_zipWith, getD_of_lt _ _ z ha, getD_of_lt _ _ z hb,
    getD_of_lt _ _ z hc]

/-- **`select(time: float, interp, tolerance=tol, offset=offset)`**: the regenerated body, run on a live private state and
read at position `p`, is `selectScalar` on column `p` — same range test and `ValueError`, same on-grid test with the
direct read at `offset + round(shift)`, same bracket reads (`ceil` first) and kernel arguments off grid; `interp=None`
is the module-level default `interp_nearest`. -/
theorem gen_select_scalar (K : Ops α) (E : Elem α) (nearest : Interp α) (g : SelT α) (s : Stack α) (h : Live g s)
    (p : Nat) (hp : p < prod s.oshape) (t tol : α) (f : Option (Interp α)) (offset : Int) :
    liftSelObs p (RecordTensor_select K E nearest g (.scalar t) f tol offset)
      = selectScalar K (f.getD nearest) (colRing K g p) g.dt tol t offset := by
  have en : ((g.recordsz.toNat : Nat) : Int) = g.recordsz := Int.toNat_of_nonneg (by have := h.hn; omega)
  have hn2 : (colRing K g p).n = g.recordsz.toNat := rfl
  unfold RecordTensor_select selectScalar
  simp only [h.hdata, bind, Except.bind, pure, Except.pure, inRange, hn2, en, Bool.not_not,
    rowE_unwind s g.pointer g.recordsz h.hn h.hp0 h.hl, col_read K h, readO, withPair]
  by_cases hr : (K.lt t (K.neg tol) || K.lt (K.add (K.mul g.dt (K.ofInt (g.recordsz - 1))) tol) t) = true
  · simp [hr, liftSelObs, errOut, throw, throwThe, MonadExceptOf.throw]
  · simp only [hr, Bool.false_eq_true, ↓reduceIte, onGrid]
    by_cases hg : K.le (K.abs (K.sub (K.mul g.dt (K.ofInt (K.round (K.div t g.dt)))) t)) tol = true
    · simp only [hg, ↓reduceIte, liftSelObs]
      rw [getD_of_lt _ p (K.ofInt 0) (by rw [row_len h]; exact hp)]
    · simp only [hg, Bool.false_eq_true, ↓reduceIte, liftSelObs]
      rw [interpObs_get _ _ _ _ _ (K.ofInt 0) p (by simp only; rw [row_len h]; exact hp)
        (by simp only; rw [row_len h]; exact hp) (by simp [fullc, hp])]
      simp [fullc, hp, sampleAt]

/-- result of the regenerated `insert` → outcome of the model on column `p` (the column of the state reached) -/
def liftIns (K : Ops α) (p : Nat) : Except Err (SelT α × Unit) → Outcome (Ring.Ring α)
  | .ok (g', _) => .ok (colRing K g' p)
  | .error e => errOut e

/-- `write` commutes with a map over the slots (both paths) -/
theorem map_write {β γ : Type} (f : β → γ) (r : Ring.Ring β) (x : β) (o : Int) (b : Bool) :
    (r.write x o b).data.map f = ((⟨r.n, r.ptr, r.data.map f⟩ : Ring.Ring γ).write (f x) o b).data := by
  cases b <;> simp [Ring.write, Ring.writeInplace, Ring.writeSplice, List.map_set, List.map_take, List.map_drop]

/-- the out-of-place `writerange` (wrapped and contiguous branch) commutes with a map over the slots -/
theorem map_writerangeScalar_false {β γ : Type} (f : β → γ) (r : Ring.Ring β) (xs : List β) (o : Int) :
    (r.writerangeScalar xs o false).data.map f
      = ((⟨r.n, r.ptr, r.data.map f⟩ : Ring.Ring γ).writerangeScalar (xs.map f) o false).data := by
  simp only [Ring.writerangeScalar, Bool.false_eq_true, ↓reduceIte, List.length_map]
  split <;> simp [Ring.writerangeWrapped, Ring.writerangeContig, Ring.slice, List.map_take, List.map_drop]

/-- with the identity conversion (float64 storage, as in the check) `.to(dtype)` changes nothing -/
theorem conv_id (E : Elem α) (hE : ∀ a b v, E.conv a b v = v) (a b : DType) (l : List α) : l.map (E.conv a b) = l := by
  have : E.conv a b = id := by funext v; exact hE a b v
  rw [this, List.map_id]

/-- `data[_unwind_ptr(ptr, o, recordsz), ...] = x` on well-formed storage -/
theorem setRowE_unwind (E : Elem α) (hE : ∀ a b v, E.conv a b v = v) (s : Stack α) (ptr n : Int) (hn : 0 < n)
    (hp0 : 0 ≤ ptr) (hl : s.rows.length = n.toNat) (o : Int) (x : Obs α) :
    s.setRowE E (InfraF._unwind_ptr ptr o n) x
      = .ok { s with rows := s.rows.set (unwind ptr.toNat o n.toNat) x.vals } := by
  rw [unwind_eq _ _ _ hn hp0]
  have hlt := unwind_lt ptr.toNat o n.toNat (by omega)
  simp only [Stack.setRowE, hl, pyIndex_nat _ _ hlt, conv_id E hE, ite_self]

/-- `getD` of a present entry -/
theorem getD_of_get? {β : Type} (l : List β) (i : Nat) (d v : β) (h : l[i]? = some v) : l.getD i d = v := by
  rw [List.getD_eq_getElem?_getD, h]; rfl

/-- `write` touches only the data -/
theorem write_eta {β : Type} (r : Ring.Ring β) (x : β) (o : Int) (b : Bool) :
    r.write x o b = ⟨r.n, r.ptr, (r.write x o b).data⟩ := by cases b <;> rfl

/-- the element-wise extrapolation kernel application, entry `p` of both results -/
theorem extrapObs_get (f : Extrap α) (x a b c : Obs α) (dt z : α) (p : Nat) (hx : p < x.vals.length)
    (ha : p < a.vals.length) (hb : p < b.vals.length) (hc : p < c.vals.length) :
    (extrapObs f x a b c dt).1.vals.getD p z = (f (x.vals.getD p z) (a.vals.getD p z) (b.vals.getD p z) (c.vals.getD p z) dt).1
    ∧ (extrapObs f x a b c dt).2.vals.getD p z = (f (x.vals.getD p z) (a.vals.getD p z) (b.vals.getD p z) (c.vals.getD p z) dt).2 := by
  constructor <;> apply getD_of_get? <;>
  simp only [extrapObs, List.getElem?_map, List.getElem?_zipWith, List.zip_eq_zipWith,
    getD_of_lt _ _ z hx, getD_of_lt _ _ z ha, getD_of_lt _ _ z hb, getD_of_lt _ _ z hc, Option.map_some]

/-- every entry of `fullc(data, v, shape=data.shape[1:])` is `v` -/
theorem fullc_getD (s : Stack α) (v z : α) (p : Nat) (hp : p < prod s.oshape) : (fullc s v).vals.getD p z = v := by
  apply getD_of_get?
  simp [fullc, hp]

/-- `self.writerange(stack((a, b), -1).to(dtype), o, forward=True, inplace=False)` on well-formed storage, through the
glue theorem of the regenerated `writerange` (`C01Glue.gen_writerange`): ValueError iff the record has fewer than
two slots, otherwise the rows are the model's `writerangeScalar`, the pointer stays -/
theorem writerange2 (E : Elem α) (hE : ∀ a b v, E.conv a b v = v) (s : Stack α) (ptr n : Int) (hn : 0 < n)
    (hp0 : 0 ≤ ptr) (hp1 : ptr < n) (hl : s.rows.length = n.toNat) (a b : Obs α) (ha : a.shape = s.oshape) (o : Int) :
    match RingProg.RecordTensor_writerange E ⟨.init s.dt s.oshape s, ptr, n⟩ ((stackLast a b).to E s.dt) (.int o) true false with
    | .ok (g', _) => ¬ 2 > n.toNat ∧ g'.pointer.toNat = ptr.toNat ∧ ∃ s', g'.data = .init s.dt s.oshape s' ∧
        s'.rows = (Ring.writerangeScalar ⟨n.toNat, ptr.toNat, s.rows⟩ [a.vals, b.vals] (shiftOffset o 2 true) false).data
    | .error e => e = .ValueError ∧ 2 > n.toNat := by
  have hT : (stackLast a b).to E s.dt = ⟨⟨s.dt, s.oshape, [a.vals, b.vals]⟩⟩ := by
    simp [stackLast, TimeLast.to, Stack.to, conv_id E hE, ha]
  have hG : RingProg.GWF (⟨.init s.dt s.oshape s, ptr, n⟩ : RT α) := ⟨hn, rfl, rfl, hl, hp0, hp1⟩
  have key := gen_writerange E ⟨.init s.dt s.oshape s, ptr, n⟩ hG s.dt s.oshape [a.vals, b.vals] o true false (by simp)
  rw [hT]
  simp only [toM, step, ne_eq, not_true_eq_false, ↓reduceIte, List.length_cons, List.length_nil, Nat.zero_add,
    Nat.reduceAdd, conv_id E hE, List.map_cons, List.map_nil] at key
  cases hres : RingProg.RecordTensor_writerange E ⟨.init s.dt s.oshape s, ptr, n⟩ ⟨⟨s.dt, s.oshape, [a.vals, b.vals]⟩⟩
      (.int o) true false with
  | error e =>
    rw [hres] at key
    simp only [lift] at key
    by_cases h2 : 2 > n.toNat
    · simp only [h2, ↓reduceIte] at key
      have := congrArg Prod.snd key
      simp at this
      exact ⟨this, h2⟩
    · simp [h2] at key
  | ok r =>
    obtain ⟨g', u⟩ := r
    rw [hres] at key
    simp only [lift] at key
    by_cases h2 : 2 > n.toNat
    · simp [h2] at key
    · simp only [h2, ↓reduceIte, (by decide : ¬ (2 : Nat) = 0)] at key
      have k1 := congrArg Prod.fst key
      simp only [toM] at k1
      refine ⟨h2, ?_⟩
      cases hd : g'.data with
      | init d sh s' =>
        rw [hd] at k1
        simp only [Prod.mk.injEq, Store.init.injEq] at k1
        obtain ⟨k0, kd, ksh, kr⟩ := k1
        have kp := congrArg Ring.ptr kr
        have kdat := congrArg Ring.data kr
        simp only at kp kdat
        refine ⟨?_, s', by rw [kd, ksh], kdat⟩
        rw [kp]
        simp [Ring.writerangeScalar]
        split <;> rfl
      | none => rw [hd] at k1; simp at k1
      | empty d => rw [hd] at k1; simp at k1
      | uninit d => rw [hd] at k1; simp at k1

/-- **`insert(obs, time: float, extrap, tolerance=tol, offset=offset, inplace=inplace)`**: the regenerated body, run on a
live private state with a well-shaped observation and read at column `p`, is `insertScalar` on column `p` — range test /
`ValueError`; on grid `self.write(obs, offset + round(shift), inplace)` (the regenerated `write`); off grid the bracket
reads, the kernel arguments, then the in-place pair (prev slot first, then next) or
`self.writerange(stack((prev, next), -1), ceil(offset), forward=True, inplace=False)` (the regenerated `writerange`,
including its `ValueError` on a one-slot record).  `hE`: dtype conversion is the identity (not part of the model). -/
theorem gen_insert_scalar (K : Ops α) (E : Elem α) (hE : ∀ a b v, E.conv a b v = v) (nearest : Extrap α)
    (g : SelT α) (s : Stack α) (h : Live g s) (p : Nat) (hp : p < prod s.oshape) (x : Obs α) (hx : x.shape = s.oshape)
    (hxl : x.vals.length = prod s.oshape) (t tol : α) (f : Option (Extrap α)) (offset : Int) (inplace : Bool) :
    liftIns K p (RecordTensor_insert K E nearest g x (.scalar t) f tol offset inplace)
      = insertScalar K (f.getD nearest) (colRing K g p) g.dt tol (x.vals.getD p (K.ofInt 0)) t offset inplace := by
  have en : ((g.recordsz.toNat : Nat) : Int) = g.recordsz := Int.toNat_of_nonneg (by have := h.hn; omega)
  have hn2 : (colRing K g p).n = g.recordsz.toNat := rfl
  unfold RecordTensor_insert insertScalar
  simp only [h.hdata, bind, Except.bind, pure, Except.pure, inRange, hn2, en, Bool.not_not, hx, ne_eq, not_true_eq_false,
    decide_false, Bool.false_eq_true, ↓reduceIte,
    rowE_unwind s g.pointer g.recordsz h.hn h.hp0 h.hl, col_read K h, withPair]
  by_cases hr : (K.lt t (K.neg tol) || K.lt (K.add (K.mul g.dt (K.ofInt (g.recordsz - 1))) tol) t) = true
  · simp [hr, liftIns, errOut, throw, throwThe, MonadExceptOf.throw]
  · simp only [hr, Bool.false_eq_true, ↓reduceIte, onGrid]
    by_cases hg : K.le (K.abs (K.sub (K.mul g.dt (K.ofInt (K.round (K.div t g.dt)))) t)) tol = true
    · simp only [hg, ↓reduceIte, viaRT, h.hdata]
      rw [write_ok E g.pointer g.recordsz s h.hn h.hl h.hp0 x hx _ inplace]
      simp only [liftIns, colRing, rowsOf, conv_id E hE, map_write, h.hdata]
      rw [write_eta]
    · simp only [hg, Bool.false_eq_true, ↓reduceIte, sampleAt]
      have hAl := row_len h (K.ceil (K.add (K.ofInt offset) (K.div t g.dt)))
      have hBl := row_len h (K.floor (K.add (K.ofInt offset) (K.div t g.dt)))
      generalize K.ceil (K.add (K.ofInt offset) (K.div t g.dt)) = ci at *
      generalize K.floor (K.add (K.ofInt offset) (K.div t g.dt)) = fi at *
      generalize s.rows.getD (unwind g.pointer.toNat ci g.recordsz.toNat) [] = A at *
      generalize s.rows.getD (unwind g.pointer.toNat fi g.recordsz.toNat) [] = B at *
      generalize K.sub g.dt (K.mul g.dt (mod1 K (K.div t g.dt))) = sa at *
      obtain ⟨e1, e2⟩ := extrapObs_get (f.getD nearest) x (fullc s sa) ⟨s.dt, s.oshape, A⟩ ⟨s.dt, s.oshape, B⟩ g.dt
        (K.ofInt 0) p (by omega) (by simp [fullc, hp]) (by simp only; omega) (by simp only; omega)
      rw [fullc_getD s sa _ p hp] at e1 e2
      simp only at e1 e2
      have hsh : (extrapObs (f.getD nearest) x (fullc s sa) ⟨s.dt, s.oshape, A⟩ ⟨s.dt, s.oshape, B⟩ g.dt).1.shape = s.oshape := hx
      generalize extrapObs (f.getD nearest) x (fullc s sa) ⟨s.dt, s.oshape, A⟩ ⟨s.dt, s.oshape, B⟩ g.dt = ex at *
      cases inplace
      · simp only [Bool.false_eq_true, ↓reduceIte, viaRT, h.hdata]
        have key := writerange2 E hE s g.pointer g.recordsz h.hn h.hp0 h.hp1 h.hl ex.1 ex.2 hsh ci
        cases hres : RingProg.RecordTensor_writerange E ⟨.init s.dt s.oshape s, g.pointer, g.recordsz⟩
            ((stackLast ex.1 ex.2).to E s.dt) (.int ci) true false with
        | error e =>
          rw [hres] at key
          simp only at key
          simp [liftIns, errOut, key.1, key.2]
        | ok r =>
          obtain ⟨g', u⟩ := r
          rw [hres] at key
          obtain ⟨h2, kp, s', hd', hr'⟩ := key
          simp only [h2, ↓reduceIte, liftIns, colRing, rowsOf, hd', hr', kp, h.hdata, map_writerangeScalar_false,
            List.map_cons, List.map_nil, e1, e2]
          simp [Ring.writerangeScalar]
          split <;> rfl
      · simp only [↓reduceIte]
        rw [setRowE_unwind E hE s g.pointer g.recordsz h.hn h.hp0 h.hl]
        simp only []
        rw [setRowE_unwind E hE _ g.pointer g.recordsz h.hn h.hp0 (by simp [h.hl])]
        simp only [liftIns, colRing, rowsOf, Store.ofStack, Ring.writeInplace, List.map_set, e1, e2, h.hdata]


/-- a `D × P` matrix given entry by entry (time-major) -/
def tab {β : Type} (D P : Nat) (f : Nat → Nat → β) : List (List β) :=
  (List.range D).map fun j => (List.range P).map fun p => f j p

/-- a table has `D` rows -/
theorem tab_length {β : Type} (D P : Nat) (f : Nat → Nat → β) : (tab D P f).length = D := by simp [tab]

/-- tables are equal when their entries are -/
theorem tab_congr {β : Type} (D P : Nat) (f f' : Nat → Nat → β) (h : ∀ j p, j < D → p < P → f j p = f' j p) :
    tab D P f = tab D P f' := by
  unfold tab
  apply List.map_congr_left
  intro j hj
  apply List.map_congr_left
  intro p hp
  exact h j p (List.mem_range.mp hj) (List.mem_range.mp hp)

/-- a rectangular matrix is the table of its entries -/
theorem tab_of_rect {β : Type} (m : List (List β)) (P : Nat) (z : β) (hm : ∀ r ∈ m, r.length = P) :
    m = tab m.length P (fun j p => (m.getD j []).getD p z) := by
  unfold tab
  apply List.ext_getElem
  · simp
  · intro j h1 h2
    have hl : (m[j]).length = P := hm _ (List.getElem_mem h1)
    apply List.ext_getElem
    · simp [hl]
    · intro p h3 h4
      simp [List.getD_eq_getElem?_getD, List.getElem?_eq_getElem h1, List.getElem?_eq_getElem h3]

/-- a unary element-wise operation on a table -/
theorem emap_tab {β γ : Type} (g : β → γ) (D P : Nat) (f : Nat → Nat → β) :
    emap g (tab D P f) = tab D P (fun j p => g (f j p)) := by
  simp [emap, tab]

/-- a binary element-wise operation on tables -/
theorem ezip_tab {β γ δ : Type} (g : β → γ → δ) (D P : Nat) (f : Nat → Nat → β) (f' : Nat → Nat → γ) :
    ezip g (tab D P f) (tab D P f') = tab D P (fun j p => g (f j p) (f' j p)) := by
  simp [ezip, tab, List.zipWith_map_left, List.zipWith_map_right, List.zipWith_self]

/-- `torch.where` on tables -/
theorem ewhere_tab {β : Type} (D P : Nat) (c : Nat → Nat → Bool) (a b : Nat → Nat → β) :
    ewhere (tab D P c) (tab D P a) (tab D P b) = tab D P (fun j p => if c j p then a j p else b j p) := by
  simp [ewhere, ezip_tab]

/-- `torch.cat((a, b), 0)` of tables -/
theorem tab_append {β : Type} (D D' P : Nat) (f f' : Nat → Nat → β) :
    tab D P f ++ tab D' P f' = tab (D + D') P (fun j p => if j < D then f j p else f' (j - D) p) := by
  unfold tab
  apply List.ext_getElem
  · simp
  · intro j h1 h2
    simp at h1 h2
    by_cases hj : j < D
    · rw [List.getElem_append_left (by simpa using hj)]
      simp [hj]
    · rw [List.getElem_append_right (by simpa using hj)]
      simp [hj]

/-- the first `D` rows of a table -/
theorem tab_take {β : Type} (D D' P : Nat) (f : Nat → Nat → β) : (tab (D + D') P f).take D = tab D P f := by
  unfold tab
  rw [← List.map_take, List.take_range]
  simp

/-- the rows of a table after the first `D` -/
theorem tab_drop {β : Type} (D D' P : Nat) (f : Nat → Nat → β) :
    (tab (D + D') P f).drop D = tab D' P (fun j p => f (j + D) p) := by
  unfold tab
  apply List.ext_getElem
  · simp
  · intro j h1 h2
    simp at h1 h2
    simp [Nat.add_comm]

/-- positions of a row given entry by entry -/
theorem zipIdx_map_range {β : Type} (P : Nat) (f : Nat → β) :
    ((List.range P).map f).zipIdx = (List.range P).map (fun p => (f p, p)) := by
  apply List.ext_getElem
  · simp
  · intro i h1 h2
    simp at h1 h2 ⊢

/-- `_unwind_tensor_ptr` of the source on a well-formed pointer is the model's `unwind` -/
theorem unwindT_eq (p o n : Int) (hn : 0 < n) (hp : 0 ≤ p) :
    InfraF._unwind_tensor_ptr p o n = (unwind p.toNat o n.toNat : Nat) := by
  have := unwind_eq p o n hn hp
  simp only [InfraF._unwind_ptr] at this
  simp only [InfraF._unwind_tensor_ptr, this]

/-- `torch.gather(data, 0, idx)` with in-range indices given entry by entry never fails: entry `(j, p)` of the
result is `data[idx[j][p]][p]` -/
theorem gather_tab (s : Stack α) (P : Nat) (hrows : ∀ r ∈ s.rows, r.length = P) (z : α) (D : Nat)
    (k : Nat → Nat → Nat) (hk : ∀ j p, k j p < s.rows.length) :
    s.gather0E (tab D P (fun j p => ((k j p : Nat) : Int)))
      = .ok { s with rows := tab D P (fun j p => (s.rows.getD (k j p) []).getD p z) } := by
  have hopt : s.gatherOpt (tab D P (fun j p => ((k j p : Nat) : Int)))
      = (tab D P (fun j p => (s.rows.getD (k j p) []).getD p z)).map (·.map some) := by
    unfold Stack.gatherOpt tab
    simp only [List.map_map]
    apply List.map_congr_left
    intro j _
    simp only [Function.comp_apply, zipIdx_map_range, List.map_map]
    apply List.map_congr_left
    intro p hp
    have hp' := List.mem_range.mp hp
    have hkk := hk j p
    have hlen : (s.rows.getD (k j p) []).length = P := by
      apply hrows
      rw [List.getD_eq_getElem?_getD, List.getElem?_eq_getElem hkk]
      exact List.getElem_mem hkk
    simp only [Function.comp_apply, pyIndex_nat _ _ hkk, Option.bind_some, getD_of_lt s.rows _ [] hkk]
    rw [getD_of_lt _ p z (by omega)]
  simp only [Stack.gather0E, hopt, allSome_block]

/-- what the reduction of the tensor range test (`amin` / `amax`) needs of the comparison `K.lt`: the laws of a
linear order's `<` (they hold for `ratOps` and `realOps`: `ratOps_ordLaws`, `realOps_ordLaws`) -/
structure OrdLaws (K : Ops α) : Prop where
  trans : ∀ a b c, K.lt a b = true → K.lt b c = true → K.lt a c = true
  lt_of_lt_of_not_lt : ∀ a b c, K.lt a b = true → K.lt c b = false → K.lt a c = true
  lt_of_not_lt_of_lt : ∀ a b c, K.lt b a = false → K.lt b c = true → K.lt a c = true

/-- `min a b < c` iff `a < c` or `b < c` -/
theorem min_lt (K : Ops α) (hK : OrdLaws K) (a b c : α) :
    K.lt (if K.lt b a then b else a) c = (K.lt a c || K.lt b c) := by
  by_cases h : K.lt b a = true
  · simp only [h, ↓reduceIte]
    cases hac : K.lt a c
    · simp
    · simp [hK.trans b a c h hac]
  · have h' : K.lt b a = false := by simpa using h
    simp only [h', Bool.false_eq_true, ↓reduceIte]
    cases hbc : K.lt b c
    · simp
    · simp [hK.lt_of_not_lt_of_lt a b c h' hbc]

/-- `c < max a b` iff `c < a` or `c < b` -/
theorem lt_max (K : Ops α) (hK : OrdLaws K) (a b c : α) :
    K.lt c (if K.lt a b then b else a) = (K.lt c a || K.lt c b) := by
  by_cases h : K.lt a b = true
  · simp only [h, ↓reduceIte]
    cases hca : K.lt c a
    · simp
    · simp [hK.trans c a b hca h]
  · have h' : K.lt a b = false := by simpa using h
    simp only [h', Bool.false_eq_true, ↓reduceIte]
    cases hcb : K.lt c b
    · simp
    · simp [hK.lt_of_lt_of_not_lt c b a hcb h']

/-- the running minimum is below `c` iff some element is -/
theorem foldl_min_lt (K : Ops α) (hK : OrdLaws K) (c : α) : ∀ (xs : List α) (x : α),
    K.lt (xs.foldl (fun a b => if K.lt b a then b else a) x) c = (K.lt x c || xs.any (fun t => K.lt t c))
  | [], x => by simp
  | b :: xs, x => by
    simp only [List.foldl_cons, List.any_cons]
    rw [foldl_min_lt K hK c xs, min_lt K hK, Bool.or_assoc]

/-- the running maximum is above `c` iff some element is -/
theorem foldl_lt_max (K : Ops α) (hK : OrdLaws K) (c : α) : ∀ (xs : List α) (x : α),
    K.lt c (xs.foldl (fun a b => if K.lt a b then b else a) x) = (K.lt c x || xs.any (fun t => K.lt c t))
  | [], x => by simp
  | b :: xs, x => by
    simp only [List.foldl_cons, List.any_cons]
    rw [foldl_lt_max K hK c xs, lt_max K hK, Bool.or_assoc]

/-- a rearrangement of four disjuncts -/
theorem bool_or4 (a b c d : Bool) : ((a || b) || (c || d)) = ((a || c) || (b || d)) := by
  cases a <;> cases b <;> cases c <;> cases d <;> rfl

/-- `any` of a disjunction -/
theorem any_or {β : Type} (f g : β → Bool) : ∀ l : List β, l.any (fun t => f t || g t) = (l.any f || l.any g)
  | [] => rfl
  | a :: l => by simp only [List.any_cons, any_or f g l, bool_or4]

/-- the tensor range test: `tmin < lo or tmax > hi` holds iff some element is out of `[lo, hi]` -/
theorem amin_amax_range (K : Ops α) (hK : OrdLaws K) (tt : TTen α) (hne : tt.rows.flatten ≠ []) (lo hi : α) :
    ∃ m M, tt.amin K = .ok m ∧ tt.amax K = .ok M ∧
      (K.lt m lo || K.lt hi M) = tt.rows.flatten.any (fun t => K.lt t lo || K.lt hi t) := by
  unfold TTen.amin TTen.amax
  cases hfl : tt.rows.flatten with
  | nil => exact absurd hfl hne
  | cons x xs =>
    refine ⟨_, _, rfl, rfl, ?_⟩
    rw [foldl_min_lt K hK, foldl_lt_max K hK]
    simp only [List.any_cons, any_or, bool_or4]

/-! ## select, tensor time -/

/-- the statements of the tensor-time branch of `select` after the dimension test (copied from the generated text;
`select_ten_shape` is proved by `rfl`) -/
def selectTenTail (K : Ops α) (interp : Interp α) (self : SelT α) (data : Stack α) (ptr recordsz : Int) (dt : α)
    (squeeze : Bool) (time : TTen α) (tolerance : α) (offset : Int) : Except Err (SelT α × SelOut α) := do
  let tmin := (← time.amin K)
  let tmax := (← time.amax K)
  if ((K.lt tmin (K.neg tolerance)) || (K.lt (K.add (K.mul dt (K.ofInt (recordsz - (1 : Int)))) tolerance) tmax)) then
    throw Err.ValueError
  else
    let shift := (time.emap (fun x_ => K.div x_ dt))
    let shiftr := (shift.emap (fun x_ => K.ofInt (K.round x_)))
    let shift := (TTen.ewhere (((TTen.ezip K.sub (shiftr.emap (fun x_ => K.mul dt x_)) time).emap K.abs).bmap (fun x_ => K.le x_ tolerance)) shiftr shift).timeMajor
    let offset := (emap (fun x_ => K.add (K.ofInt offset) x_) shift)
    let prev_idx := (emap K.ceil offset)
    let next_idx := (emap K.floor offset)
    let stacked_idx := ((prev_idx ++ next_idx).map (·.map (fun o_ => InfraF._unwind_tensor_ptr ptr o_ recordsz)))
    let pr0_ := (tensorSplitAt (← data.gather0E stacked_idx) (offset.length : Int))
    let prev_data := pr0_.1
    let next_data := pr0_.2
    let res := (interpStack interp prev_data next_data (emap (fun x_ => K.sub dt x_) (emap (fun x_ => K.mul dt x_) (emap (mod1 K) shift))) dt)
    let res := (TimeLast.mk (Stack.ewhere (ezip (fun a_ b_ => decide (a_ = b_)) prev_idx next_idx) prev_data res))
    pure (self, SelOut.ten (if squeeze then res.squeezeLast else res))

/-- **shape of the generated `select`, tensor time** (by `rfl` once the storage is known to be initialised): the dimension
test with the `squeeze` flag / `unsqueeze(-1)` / `ValueError`, then exactly the statements of `selectTenTail`, in this order -/
theorem select_ten_shape (K : Ops α) (E : Elem α) (nearest : Interp α) (g : SelT α) (s : Stack α)
    (hdata : g.data = .init s.dt s.oshape s) (tt : TTen α) (f : Option (Interp α)) (tol : α) (offset : Int) :
    RecordTensor_select K E nearest g (.ten tt) f tol offset = (do
      let (self, squeeze, time) ← (do
        if (decide (tt.ndim = (s.ndim - (1 : Int)))) then
          pure (g, true, tt.unsqueezeLast)
        else
          if (decide (tt.ndim = s.ndim)) then
            pure (g, false, tt)
          else
            throw Err.ValueError
        : Except Err _)
      selectTenTail K (f.getD nearest) self s g.pointer g.recordsz g.dt squeeze time tol offset) := by
  unfold RecordTensor_select
  simp only [hdata]
  rfl

/-- the `(column, time)` pairs a tensor-time call addresses: entry `(j, p)` of the time-major `ts` goes with column `p` -/
def selPairs (K : Ops α) (g : SelT α) (ts : List (List α)) : List (Ring.Ring α × α) :=
  ts.flatMap fun row => row.zipIdx.map fun tp => (colRing K g tp.2, tp.1)

/-- result of the regenerated `select` (tensor time) → outcome of `selectTensorAll`: the selections, time-major -/
def liftSelTen : Except Err (SelT α × SelOut α) → Outcome (List (Outcome α))
  | .ok (_, .ten r) => .ok (r.stack.rows.flatten.map .ok)
  | .ok (_, .obs _) => .noSlot
  | .error e => errOut e

/-- one entry of the tensor-time `select` -/
def selElem (K : Ops α) (f : Interp α) (s : Stack α) (ptr n : Nat) (dt tol : α) (offset : Int) (z : α) (p : Nat)
    (t : α) : α :=
  let shift := shiftOf K dt tol t
  let off := K.add (K.ofInt offset) shift
  let a := (s.rows.getD (unwind ptr (K.ceil off) n) []).getD p z
  let b := (s.rows.getD (unwind ptr (K.floor off) n) []).getD p z
  if K.ceil off = K.floor off then a else f a b (sampleAt K dt shift) dt

/-- `selectTensor` on column `p` of a live state, for an in-range time, is `selElem` -/
theorem selectTensor_elem (K : Ops α) (f : Interp α) {g : SelT α} {s : Stack α} (h : Live g s) (p : Nat)
    (t tol : α) (offset : Int) (hin : inRange K g.recordsz.toNat g.dt tol t = true) :
    selectTensor K f (colRing K g p) g.dt tol t offset
      = .ok (selElem K f s g.pointer.toNat g.recordsz.toNat g.dt tol offset (K.ofInt 0) p t) := by
  have hn2 : (colRing K g p).n = g.recordsz.toNat := rfl
  unfold selectTensor
  simp only [hn2, hin, Bool.not_true, Bool.false_eq_true, ↓reduceIte, col_read K h, withPair, selElem]

/-- the pairs of a table of times -/
theorem selPairs_tab (K : Ops α) (g : SelT α) (D P : Nat) (T : Nat → Nat → α) :
    selPairs K g (tab D P T) = (tab D P (fun j p => (colRing K g p, T j p))).flatten := by
  simp only [selPairs, tab, List.flatMap, List.map_map]
  congr 1
  apply List.map_congr_left
  intro j _
  simp only [Function.comp_apply, zipIdx_map_range, List.map_map]
  rfl

/-- a map over the entries of a table -/
theorem flatten_tab_map {β γ : Type} (F : β → γ) (D P : Nat) (f : Nat → Nat → β) :
    (tab D P f).flatten.map F = (tab D P (fun j p => F (f j p))).flatten := by
  simp only [tab, List.map_flatten, List.map_map]
  congr 1
  apply List.map_congr_left
  intro j _
  simp only [Function.comp_apply, List.map_map]
  rfl

/-- `any` over the entries of a table -/
theorem any_flatten_tab {β : Type} (F : β → Bool) (D P : Nat) (f : Nat → Nat → β) :
    (tab D P f).flatten.any F = (List.range D).any (fun j => (List.range P).any (fun p => F (f j p))) := by
  simp [tab, List.any_flatten, List.any_map, Function.comp_def]

/-- `emap` unfolded -/
theorem emap_def {β γ : Type} (f : β → γ) (m : List (List β)) : m.map (fun r => r.map f) = emap f m := rfl

/-- `torch.tensor_split(t, (D,), 0)` of a table with `D + D` rows -/
theorem tensorSplitAt_tab (d : DType) (sh : List Nat) (D P : Nat) (F : Nat → Nat → α) :
    tensorSplitAt ⟨d, sh, tab (D + D) P F⟩ (D : Int)
      = (⟨d, sh, tab D P F⟩, ⟨d, sh, tab D P (fun j p => F (j + D) p)⟩) := by
  simp only [tensorSplitAt, Stack.slice, RingProg.pyBound_nat, tab_length, Nat.min_eq_left (Nat.le_add_right D D),
    List.drop_zero, tab_take, List.take_of_length_le (Nat.le_of_eq (tab_length _ _ _)), tab_drop]

/-- the tensor-time branch after the dimension test is `selectTensorAll`: all-or-nothing range test through `amin` / `amax`,
then entry `(j, p)` is `selectTensor` on column `p` at `time[j][p]` -/
theorem selectTenTail_eq (K : Ops α) (hK : OrdLaws K) (f : Interp α) (g : SelT α) (s : Stack α) (h : Live g s)
    (sq : Bool) (tt : TTen α) (htt : ∀ r ∈ tt.rows, r.length = prod s.oshape) (hne : tt.rows.flatten ≠ [])
    (tol : α) (offset : Int) :
    liftSelTen (selectTenTail K f g s g.pointer g.recordsz g.dt sq tt tol offset)
      = selectTensorAll K f (selPairs K g tt.rows) g.dt tol offset := by
  have en : ((g.recordsz.toNat : Nat) : Int) = g.recordsz := Int.toNat_of_nonneg (by have := h.hn; omega)
  obtain ⟨m, M, hm, hM, hrange⟩ := amin_amax_range K hK tt hne (K.neg tol)
    (K.add (K.mul g.dt (K.ofInt (g.recordsz - 1))) tol)
  have hT := tab_of_rect tt.rows (prod s.oshape) (K.ofInt 0) htt
  generalize hTd : (fun j p => (tt.rows.getD j []).getD p (K.ofInt 0)) = T at hT
  generalize tt.rows.length = D at hT
  unfold selectTenTail selectTensorAll
  simp only [hm, hM, bind, Except.bind, pure, Except.pure, hrange]
  have hany : (selPairs K g tt.rows).any (fun ct => !inRange K ct.1.n g.dt tol ct.2)
      = tt.rows.flatten.any (fun t => K.lt t (K.neg tol) || K.lt (K.add (K.mul g.dt (K.ofInt (g.recordsz - 1))) tol) t) := by
    rw [hT, selPairs_tab, any_flatten_tab, any_flatten_tab]
    simp only [inRange, colRing, en, Bool.not_not]
  rw [hany]
  by_cases hr : tt.rows.flatten.any (fun t => K.lt t (K.neg tol) || K.lt (K.add (K.mul g.dt (K.ofInt (g.recordsz - 1))) tol) t) = true
  · simp [hr, liftSelTen, errOut, throw, throwThe, MonadExceptOf.throw]
  · simp only [hr, Bool.false_eq_true, ↓reduceIte]
    simp only [TTen.emap, TTen.ezip, TTen.ewhere, TTen.bmap, TTen.timeMajor, hT, emap_tab, ezip_tab, ewhere_tab, tab_length,
      emap_def, tab_append, unwindT_eq _ _ _ h.hn h.hp0]
    have hsh : ∀ t, (if K.le (K.abs (K.sub (K.mul g.dt (K.ofInt (K.round (K.div t g.dt)))) t)) tol = true then
        K.ofInt (K.round (K.div t g.dt)) else K.div t g.dt) = shiftOf K g.dt tol t := fun t => rfl
    simp only [hsh]
    have hpos : 0 < g.recordsz.toNat := by have := h.hn; omega
    rw [gather_tab s _ h.hrows (K.ofInt 0) (D + D) _ (fun j p => by rw [h.hl]; exact unwind_lt _ _ _ hpos)]
    simp only [tensorSplitAt_tab, interpStack, Stack.ewhere, ezip_tab, ewhere_tab,
      TimeLast.squeezeLast, ite_self, liftSelTen]
    rw [selPairs_tab, flatten_tab_map, flatten_tab_map]
    congr 2
    apply tab_congr
    intro j p hj hp
    have hin : inRange K g.recordsz.toNat g.dt tol (T j p) = true := by
      rw [hT, any_flatten_tab] at hr
      simp only [List.any_eq_true, List.mem_range, not_exists, not_and, Bool.not_eq_true] at hr
      have := hr j hj p hp
      simp only [inRange, en, this, Bool.not_false]
    rw [selectTensor_elem K f h p _ tol offset hin]
    have e1 : ¬ (j + D < D) := by omega
    have e2 : j + D - D = j := by omega
    simp only [selElem, hj, e1, e2, ↓reduceIte, sampleAt, decide_eq_true_eq]

/-- **`select(time: Tensor, interp, tolerance=tol, offset=offset)`**: the regenerated body, run on a live private state with a
time tensor of `D` selections per position (`ndim = data.ndim`) or one (`ndim = data.ndim - 1`, squeezed), is
`selectTensorAll` over the pairs (column `p`, `time[j][p]`) — `ValueError` iff ANY element fails the range test
(`amin` / `amax`; `hK`: `K.lt` is a linear order's `<`), otherwise every entry is `selectTensor`: snapped shift, `ceil` /
`floor` bracket, `gather`, kernel on (prev, next, `dt - dt * (shift % 1)`, `dt`), overwritten by the gathered prev value where
the two indices coincide.  `hne`: torch's `amin` raises on a tensor without elements, where the model's list function
returns the empty list. -/
theorem gen_select_tensor (K : Ops α) (hK : OrdLaws K) (E : Elem α) (nearest : Interp α) (g : SelT α) (s : Stack α)
    (h : Live g s) (tt : TTen α)
    (hnd : tt.shape.length = s.oshape.length ∨ tt.shape.length = s.oshape.length + 1)
    (htt : ∀ r ∈ tt.rows, r.length = prod s.oshape) (hne : tt.rows.flatten ≠ [])
    (tol : α) (f : Option (Interp α)) (offset : Int) :
    liftSelTen (RecordTensor_select K E nearest g (.ten tt) f tol offset)
      = selectTensorAll K (f.getD nearest) (selPairs K g tt.rows) g.dt tol offset := by
  rw [select_ten_shape K E nearest g s h.hdata]
  rcases hnd with hnd | hnd
  · have e1 : tt.ndim = s.ndim - 1 := by simp only [TTen.ndim, Stack.ndim, hnd]; omega
    simp only [e1, decide_true, ↓reduceIte, bind, Except.bind, pure, Except.pure]
    exact selectTenTail_eq K hK _ g s h true tt.unsqueezeLast htt hne tol offset
  · have e1 : ¬ tt.ndim = s.ndim - 1 := by simp only [TTen.ndim, Stack.ndim, hnd]; omega
    have e2 : tt.ndim = s.ndim := by simp only [TTen.ndim, Stack.ndim, hnd]; omega
    have e3 : ¬ (s.ndim = s.ndim - 1) := by omega
    simp only [e1, e2, e3, decide_true, decide_false, Bool.false_eq_true, ↓reduceIte, bind, Except.bind, pure, Except.pure]
    exact selectTenTail_eq K hK _ g s h false tt htt hne tol offset

/-- a time tensor with any other number of dimensions raises ValueError (the model has no such input) -/
theorem gen_select_tensor_ndim (K : Ops α) (E : Elem α) (nearest : Interp α) (g : SelT α) (s : Stack α)
    (h : Live g s) (tt : TTen α)
    (hnd : ¬ (tt.shape.length = s.oshape.length ∨ tt.shape.length = s.oshape.length + 1))
    (tol : α) (f : Option (Interp α)) (offset : Int) :
    RecordTensor_select K E nearest g (.ten tt) f tol offset = .error .ValueError := by
  rw [select_ten_shape K E nearest g s h.hdata]
  have e1 : ¬ tt.ndim = s.ndim - 1 := by simp only [TTen.ndim, Stack.ndim]; omega
  have e2 : ¬ tt.ndim = s.ndim := by simp only [TTen.ndim, Stack.ndim]; omega
  simp only [e1, e2, decide_false, Bool.false_eq_true, ↓reduceIte, bind, Except.bind]
  rfl

/-! ## insert, tensor time: `scatter` -/

/-- the writes of one time slice of a `scatter`, position by position -/
def scatRow (P : Nat) (kj : Nat → Nat) (vj : Nat → α) (d : List (List α)) : List (List α) :=
  (List.range P).foldl (fun d p => d.modify (kj p) (·.set p (vj p))) d

/-- the writes of a `scatter`, time slice by time slice -/
def scatAll (D P : Nat) (k : Nat → Nat → Nat) (V : Nat → Nat → α) (d : List (List α)) : List (List α) :=
  (List.range D).foldl (fun d j => scatRow P (k j) (V j) d) d

/-- a monadic fold over `range n` whose steps all succeed under an invariant is the pure fold -/
theorem foldlM_range_some {β : Type} (I : β → Prop) (F : β → Nat → Option β) (G : β → Nat → β)
    (hI : ∀ b j, I b → I (G b j)) (hF : ∀ b j, I b → F b j = some (G b j)) :
    ∀ (n : Nat) (b : β), I b → (List.range n).foldlM F b = some ((List.range n).foldl G b) ∧ I ((List.range n).foldl G b)
  | 0, b, hb => by simp [hb, pure]
  | n + 1, b, hb => by
    obtain ⟨h1, h2⟩ := foldlM_range_some I F G hI hF n b hb
    rw [List.range_succ, List.foldlM_append, List.foldl_append, h1]
    refine ⟨?_, hI _ n h2⟩
    simp only [bind, Option.bind, List.foldlM_cons, List.foldlM_nil, List.foldl_cons, List.foldl_nil, hF _ n h2, pure]

/-- the writes of one time slice with in-range indices all succeed and keep the number of slices -/
theorem scatRow_ok (P : Nat) (kj : Nat → Nat) (vj : Nat → α) (L : Nat) (hk : ∀ p, kj p < L) (d : List (List α))
    (hd : d.length = L) :
    (List.range P).foldlM (fun (d : List (List α)) p => scatter1 d ((kj p : Nat) : Int) p (vj p)) d
        = some (scatRow P kj vj d)
      ∧ (scatRow P kj vj d).length = L := by
  exact foldlM_range_some (fun d : List (List α) => d.length = L) _ (fun d p => d.modify (kj p) (·.set p (vj p)))
    (fun b j hb => by simp [hb])
    (fun b j hb => by simp [scatter1, pyIndex_nat _ _ (hb ▸ hk j)]) P d hd

/-- `scatter` with in-range indices given entry by entry never fails -/
theorem scatter_tab (s : Stack α) (dd : DType) (sh : List Nat) (D P : Nat) (k : Nat → Nat → Nat)
    (V : Nat → Nat → α) (hk : ∀ j p, k j p < s.rows.length) :
    s.scatter0E (tab D P (fun j p => ((k j p : Nat) : Int))) ⟨dd, sh, tab D P V⟩
      = .ok { s with rows := scatAll D P k V s.rows } := by
  unfold Stack.scatter0E
  simp only [tab, List.zip_map', List.foldlM_map, zipIdx_map_range]
  have := foldlM_range_some (fun d : List (List α) => d.length = s.rows.length)
    (fun (d : List (List α)) j => (List.range P).foldlM
        (fun (d : List (List α)) p => scatter1 d ((k j p : Nat) : Int) p (V j p)) d)
    (fun d j => scatRow P (k j) (V j) d)
    (fun b j hb => (scatRow_ok P (k j) (V j) _ (hk j) b hb).2)
    (fun b j hb => (scatRow_ok P (k j) (V j) _ (hk j) b hb).1) D s.rows rfl
  rw [this.1]
  rfl

/-- one `scatter` write keeps every slice's length -/
theorem rect_modify (P : Nat) (d : List (List α)) (hd : ∀ r ∈ d, r.length = P) (k q : Nat) (v : α) :
    ∀ r ∈ d.modify k (·.set q v), r.length = P := by
  intro r hr
  obtain ⟨i, hi⟩ := List.getElem?_of_mem hr
  rw [List.getElem?_modify] at hi
  cases hdi : d[i]? with
  | none => rw [hdi] at hi; simp at hi
  | some a =>
    rw [hdi] at hi
    have ha : a.length = P := hd a (List.mem_of_getElem? hdi)
    simp only [Option.map_eq_map, Option.map_some, Option.some.injEq] at hi
    rw [← hi]
    split <;> simp [ha]

/-- a `scatter` write at position `q` leaves column `p ≠ q` alone -/
theorem col_modify_ne (d : List (List α)) (k p q : Nat) (v z : α) (hpq : p ≠ q) :
    (d.modify k (·.set q v)).map (·.getD p z) = d.map (·.getD p z) := by
  apply List.ext_getElem?
  intro i
  simp only [List.getElem?_map, List.getElem?_modify]
  cases d[i]? with
  | none => rfl
  | some a =>
    simp only [Option.map_eq_map, Option.map_some]
    split
    · simp [List.getD_eq_getElem?_getD, List.getElem?_set, Ne.symm hpq]
    · rfl

/-- a `scatter` write at position `q` is a `set` on column `q` -/
theorem col_modify_eq (P : Nat) (d : List (List α)) (hd : ∀ r ∈ d, r.length = P) (k q : Nat) (hq : q < P) (v z : α) :
    (d.modify k (·.set q v)).map (·.getD q z) = (d.map (·.getD q z)).set k v := by
  apply List.ext_getElem?
  intro i
  simp only [List.getElem?_map, List.getElem?_modify, List.getElem?_set, List.length_map]
  cases hdi : d[i]? with
  | none =>
    have : ¬ i < d.length := by
      intro hlt
      rw [List.getElem?_eq_getElem hlt] at hdi
      cases hdi
    by_cases hki : k = i
    · subst hki; simp [this]
    · simp [hki]
  | some a =>
    have ha : a.length = P := hd a (List.mem_of_getElem? hdi)
    have hlt : i < d.length := by
      apply Classical.byContradiction
      intro hlt
      rw [List.getElem?_eq_none (by omega)] at hdi
      cases hdi
    by_cases hki : k = i
    · subst hki
      simp [hlt, List.getD_eq_getElem?_getD, List.getElem?_set, ha, hq]
    · simp [hki]

/-- column `p` after the writes of one time slice: one `set` -/
theorem col_scatRow (P : Nat) (kj : Nat → Nat) (vj : Nat → α) (z : α) (p : Nat) (d : List (List α))
    (hd : ∀ r ∈ d, r.length = P) :
    ∀ n, n ≤ P → (∀ r ∈ scatRow n kj vj d, r.length = P) ∧
      (scatRow n kj vj d).map (·.getD p z)
        = if p < n then (d.map (·.getD p z)).set (kj p) (vj p) else d.map (·.getD p z)
  | 0, _ => by simp only [scatRow, List.range_zero, List.foldl_nil]; exact ⟨hd, by simp⟩
  | n + 1, hn => by
    obtain ⟨h1, h2⟩ := col_scatRow P kj vj z p d hd n (by omega)
    have e : scatRow (n + 1) kj vj d = (scatRow n kj vj d).modify (kj n) (·.set n (vj n)) := by
      simp [scatRow, List.range_succ, List.foldl_append]
    rw [e]
    refine ⟨rect_modify P _ h1 _ _ _, ?_⟩
    by_cases hpn : p = n
    · subst hpn
      rw [col_modify_eq P _ h1 _ _ (by omega), h2]
      simp
    · rw [col_modify_ne _ _ _ _ _ _ hpn, h2]
      have : p < n + 1 ↔ p < n := by omega
      simp [this]

/-- the `(column, obs, time)` triples a tensor-time `insert` addresses: position `p` goes with column `p` -/
def insCols (K : Ops α) (g : SelT α) (x : Obs α) (trow : List α) (P : Nat) : List (Ring.Ring α × α × α) :=
  (List.range P).map fun p => (colRing K g p, x.vals.getD p (K.ofInt 0), trow.getD p (K.ofInt 0))

/-- result of the regenerated `insert` (tensor time) → outcome of `insertTensorAll`: the columns of the state reached -/
def liftInsTen (K : Ops α) (P : Nat) : Except Err (SelT α × Unit) → Outcome (List (Outcome (Ring.Ring α)))
  | .ok (g', _) => .ok ((List.range P).map fun p => .ok (colRing K g' p))
  | .error e => errOut e

/-- `torch.tensor_split(t, 2, 0)` of a table with two rows -/
theorem tensorSplit2_tab (d : DType) (sh : List Nat) (P : Nat) (F : Nat → Nat → α) :
    tensorSplit2 ⟨d, sh, tab (1 + 1) P F⟩ = (⟨d, sh, tab 1 P F⟩, ⟨d, sh, tab 1 P (fun j p => F (j + 1) p)⟩) := by
  have := tensorSplitAt_tab d sh 1 P F
  simp only [tensorSplit2, tab_length]
  exact this

/-- with the identity conversion `torch.cat` leaves the rows of its parts alone -/
theorem rowsAs_id (E : Elem α) (hE : ∀ a b v, E.conv a b v = v) (q : Stack α) (d : DType) : q.rowsAs E d = q.rows := by
  unfold Stack.rowsAs Stack.to
  split
  · rfl
  · have : E.conv q.dt d = id := by funext v; exact hE _ _ v
    simp [this]

/-- `torch.cat((a, b), 0).to(dtype=d)` with the identity conversion -/
theorem cat2_to (E : Elem α) (hE : ∀ a b v, E.conv a b v = v) (a b : Stack α) (d : DType) :
    (cat E [a, b]).to E d = ⟨d, a.oshape, a.rows ++ b.rows⟩ := by
  have hid : ∀ d1 d2, E.conv d1 d2 = id := by intro d1 d2; funext v; exact hE _ _ v
  simp [cat, Stack.to, rowsAs_id E hE, hid]

/-- a `scatter` of two time slices: the first, then the second -/
theorem scatAll_two (P : Nat) (k : Nat → Nat → Nat) (V : Nat → Nat → α) (d : List (List α)) :
    scatAll (1 + 1) P k V d = scatRow P (k 1) (V 1) (scatRow P (k 0) (V 0) d) := by
  simp [scatAll, List.range_succ]

/-- **`insert(obs, time: Tensor, extrap, tolerance=tol, offset=offset, inplace=inplace)`**: the regenerated body, run on a live
private state with a well-shaped observation and an observation-shaped time tensor, is `insertTensorAll` over the triples
(column `p`, `obs[p]`, `time[p]`) — `ValueError` iff ANY element fails the range test, otherwise column `p` becomes
`insertTensor`'s: extrapolate with the snapped shift, replace both results by `obs` where `ceil = floor`, write the prev
slot, then the next slot.  Both the `scatter_` (in place) and the `scatter` (out of place) branch. -/
theorem gen_insert_tensor (K : Ops α) (hK : OrdLaws K) (E : Elem α) (hE : ∀ a b v, E.conv a b v = v)
    (nearest : Extrap α) (g : SelT α) (s : Stack α) (h : Live g s) (x : Obs α) (hx : x.shape = s.oshape)
    (hxl : x.vals.length = prod s.oshape) (tt : TTen α) (hts : tt.shape = s.oshape) (trow : List α)
    (htr : tt.rows = [trow]) (htl : trow.length = prod s.oshape) (hP : 0 < prod s.oshape)
    (tol : α) (f : Option (Extrap α)) (offset : Int) (inplace : Bool) :
    liftInsTen K (prod s.oshape) (RecordTensor_insert K E nearest g x (.ten tt) f tol offset inplace)
      = insertTensorAll K (f.getD nearest) (insCols K g x trow (prod s.oshape)) g.dt tol offset := by
  have en : ((g.recordsz.toNat : Nat) : Int) = g.recordsz := Int.toNat_of_nonneg (by have := h.hn; omega)
  have hne : tt.rows.flatten ≠ [] := by
    rw [htr]; simp only [List.flatten_cons, List.flatten_nil, List.append_nil]
    intro e; rw [e] at htl; simp at htl; omega
  obtain ⟨m, M, hm, hM, hrange⟩ := amin_amax_range K hK tt hne (K.neg tol)
    (K.add (K.mul g.dt (K.ofInt (g.recordsz - 1))) tol)
  have hT : tt.rows = tab 1 (prod s.oshape) (fun _ p => trow.getD p (K.ofInt 0)) := by
    have := tab_of_rect tt.rows (prod s.oshape) (K.ofInt 0) (by rw [htr]; simpa using htl)
    rw [this, htr]
    apply tab_congr
    intro j p hj hp
    have : j = 0 := by simp at hj; omega
    subst this
    rfl
  have hX : x.unsqueeze0.rows = tab 1 (prod s.oshape) (fun _ p => x.vals.getD p (K.ofInt 0)) := by
    have := tab_of_rect [x.vals] (prod s.oshape) (K.ofInt 0) (by simpa using hxl)
    simp only [Obs.unsqueeze0]
    rw [this]
    apply tab_congr
    intro j p hj hp
    have : j = 0 := by simp at hj; omega
    subst this
    rfl
  unfold RecordTensor_insert insertTensorAll
  simp only [h.hdata, hx, hts, hm, hM, bind, Except.bind, pure, Except.pure, hrange, ne_eq, not_true_eq_false,
    decide_false, Bool.false_eq_true, ↓reduceIte]
  have hany : (insCols K g x trow (prod s.oshape)).any (fun c => !inRange K c.1.n g.dt tol c.2.2)
      = tt.rows.flatten.any (fun t => K.lt t (K.neg tol) || K.lt (K.add (K.mul g.dt (K.ofInt (g.recordsz - 1))) tol) t) := by
    rw [hT, any_flatten_tab]
    simp only [insCols, List.any_map, inRange, colRing, en, Bool.not_not, List.range_one, List.any_cons, List.any_nil,
      Bool.or_false, Function.comp_def]
  rw [hany]
  by_cases hr : tt.rows.flatten.any (fun t => K.lt t (K.neg tol) || K.lt (K.add (K.mul g.dt (K.ofInt (g.recordsz - 1))) tol) t) = true
  · simp [hr, liftInsTen, errOut, throw, throwThe, MonadExceptOf.throw]
  · simp only [hr, Bool.false_eq_true, ↓reduceIte]
    simp only [TTen.emap, TTen.ezip, TTen.ewhere, TTen.bmap, TTen.unsqueeze0, hT, emap_tab, ezip_tab, ewhere_tab, tab_length,
      emap_def, tab_append, unwindT_eq _ _ _ h.hn h.hp0]
    have hsh : ∀ t, (if K.le (K.abs (K.sub (K.mul g.dt (K.ofInt (K.round (K.div t g.dt)))) t)) tol = true then
        K.ofInt (K.round (K.div t g.dt)) else K.div t g.dt) = shiftOf K g.dt tol t := fun t => rfl
    simp only [hsh]
    have hpos : 0 < g.recordsz.toNat := by have := h.hn; omega
    rw [gather_tab s _ h.hrows (K.ofInt 0) (1 + 1) _ (fun j p => by rw [h.hl]; exact unwind_lt _ _ _ hpos)]
    simp only [tensorSplit2_tab, extrapStack, Stack.ewhere, hX, ezip_tab, emap_tab, ewhere_tab, cat2_to E hE, tab_append]
    rw [scatter_tab s _ _ (1 + 1) _ _ _ (fun j p => by rw [h.hl]; exact unwind_lt _ _ _ hpos)]
    simp only [ite_self, liftInsTen, insCols, List.map_map]
    congr 1
    apply List.map_congr_left
    intro p hp
    have hp' := List.mem_range.mp hp
    have hin : inRange K g.recordsz.toNat g.dt tol (trow.getD p (K.ofInt 0)) = true := by
      rw [hT, any_flatten_tab] at hr
      simp only [List.any_eq_true, List.mem_range, not_exists, not_and, Bool.not_eq_true] at hr
      have := hr 0 (by omega) p hp'
      simp only [inRange, en, this, Bool.not_false]
    have hn2 : (colRing K g p).n = g.recordsz.toNat := rfl
    simp only [Function.comp_apply, insertTensor, hn2, hin, Bool.not_true, Bool.false_eq_true, ↓reduceIte, col_read K h,
      withPair]
    rw [scatAll_two]
    obtain ⟨r1, c1⟩ := col_scatRow (prod s.oshape) _ _ (K.ofInt 0) p s.rows h.hrows (prod s.oshape) (Nat.le_refl _)
    obtain ⟨r2, c2⟩ := col_scatRow (prod s.oshape) _ _ (K.ofInt 0) p _ r1 (prod s.oshape) (Nat.le_refl _)
    simp only [colRing, rowsOf, Store.ofStack, h.hdata, Ring.writeInplace]
    rw [c2, c1]
    simp [hp', sampleAt]

/-! ## Branches the model does not have (it starts from a live ring and a well-shaped observation) -/

/-- `select` on ignored storage (`None`, `empty(0)`, uninitialised) raises RuntimeError, whatever the arguments -/
theorem gen_select_ignored (K : Ops α) (E : Elem α) (nearest : Interp α) (g : SelT α)
    (hg : ∀ d sh s, g.data ≠ .init d sh s) (time : TimeArg α) (f : Option (Interp α)) (tol : α) (offset : Int) :
    RecordTensor_select K E nearest g time f tol offset = .error .RuntimeError := by
  unfold RecordTensor_select
  cases hd : g.data with
  | init d sh s => exact absurd hd (hg d sh s)
  | none => rfl
  | empty d => rfl
  | uninit d => rfl

/-- `insert` on ignored storage raises RuntimeError, whatever the arguments -/
theorem gen_insert_ignored (K : Ops α) (E : Elem α) (nearest : Extrap α) (g : SelT α)
    (hg : ∀ d sh s, g.data ≠ .init d sh s) (x : Obs α) (time : TimeArg α) (f : Option (Extrap α)) (tol : α)
    (offset : Int) (inplace : Bool) :
    RecordTensor_insert K E nearest g x time f tol offset inplace = .error .RuntimeError := by
  unfold RecordTensor_insert
  cases hd : g.data with
  | init d sh s => exact absurd hd (hg d sh s)
  | none => rfl
  | empty d => rfl
  | uninit d => rfl

/-- `insert` of an observation whose shape is not the stored observations' raises ValueError before anything else -/
theorem gen_insert_obs_shape (K : Ops α) (E : Elem α) (nearest : Extrap α) (g : SelT α) (s : Stack α) (h : Live g s)
    (x : Obs α) (hx : x.shape ≠ s.oshape) (time : TimeArg α) (f : Option (Extrap α)) (tol : α) (offset : Int)
    (inplace : Bool) :
    RecordTensor_insert K E nearest g x time f tol offset inplace = .error .ValueError := by
  unfold RecordTensor_insert
  simp only [h.hdata, ne_eq, hx, not_false_eq_true, decide_true, ↓reduceIte]
  rfl

/-- tensor-time `insert` with a `time` tensor whose shape is not the stored observations' raises ValueError -/
theorem gen_insert_time_shape (K : Ops α) (E : Elem α) (nearest : Extrap α) (g : SelT α) (s : Stack α) (h : Live g s)
    (x : Obs α) (hx : x.shape = s.oshape) (tt : TTen α) (hts : tt.shape ≠ s.oshape) (f : Option (Extrap α)) (tol : α)
    (offset : Int) (inplace : Bool) :
    RecordTensor_insert K E nearest g x (.ten tt) f tol offset inplace = .error .ValueError := by
  unfold RecordTensor_insert
  simp only [h.hdata, ne_eq, hx, hts, not_true_eq_false, not_false_eq_true, decide_true, decide_false,
    Bool.false_eq_true, ↓reduceIte]
  rfl

/-- on a live ring the model's scalar `select` never reports `noSlot`; so (by `gen_select_scalar`) the program
returns an observation or raises ValueError, nothing else -/
theorem gen_select_scalar_total (K : Ops α) (E : Elem α) (nearest : Interp α) (g : SelT α) (s : Stack α)
    (h : Live g s) (t tol : α) (f : Option (Interp α)) (offset : Int) :
    (∃ x, RecordTensor_select K E nearest g (.scalar t) f tol offset = .ok (g, .obs x)) ∨
      RecordTensor_select K E nearest g (.scalar t) f tol offset = .error .ValueError := by
  unfold RecordTensor_select
  simp only [h.hdata, bind, Except.bind, pure, Except.pure, rowE_unwind s g.pointer g.recordsz h.hn h.hp0 h.hl]
  split
  · exact Or.inr rfl
  · split
    · exact Or.inl ⟨_, rfl⟩
    · exact Or.inl ⟨_, rfl⟩

/-! ## The order laws hold for the instances the model is run / reasoned at -/

/-- exact rationals (the driver's exact mode) -/
theorem ratOps_ordLaws : OrdLaws ratOps where
  trans := by intro a b c; simp only [ratOps, decide_eq_true_eq]; grind
  lt_of_lt_of_not_lt := by intro a b c; simp only [ratOps, decide_eq_true_eq, decide_eq_false_iff_not]; grind
  lt_of_not_lt_of_lt := by intro a b c; simp only [ratOps, decide_eq_true_eq, decide_eq_false_iff_not]; grind

/-- the reals (the instance the theorems of `Props/C02.lean` are about) -/
theorem realOps_ordLaws : OrdLaws realOps where
  trans := by intro a b c; simp only [realOps, decide_eq_true_eq]; exact lt_trans
  lt_of_lt_of_not_lt := by
    intro a b c; simp only [realOps, decide_eq_true_eq, decide_eq_false_iff_not, not_lt]; exact lt_of_lt_of_le
  lt_of_not_lt_of_lt := by
    intro a b c; simp only [realOps, decide_eq_true_eq, decide_eq_false_iff_not, not_lt]; exact lt_of_le_of_lt

/-! ## Non-vacuity: the generated programs run on a concrete well-formed state -/

/-- identity conversion, zero `0` -/
def exE : Elem Rat := ⟨fun _ _ v => v, 0⟩

/-- 4 slots of 2 positions, pointer 1, `dt = 1/2` -/
def exS : Stack Rat := ⟨false, [2], [[1, 10], [2, 20], [3, 30], [4, 40]]⟩
/-- its private state: pointer 1, 4 slots, `dt = 1/2` -/
def exG : SelT Rat := ⟨.init false [2] exS, 1, 4, 1/2⟩

example : Live exG exS := ⟨rfl, by decide, rfl, by decide, by decide, by decide⟩
-- on grid: the stored observation one step back; off grid: linear interpolation between the brackets
example : liftSelObs 1 (RecordTensor_select ratOps exE Q.interp_linear exG (.scalar (1/2)) none (1/1000) 1) = .ok 40 := by
  decide +kernel
example : liftSelObs 1 (RecordTensor_select ratOps exE Q.interp_linear exG (.scalar (3/4)) none (1/1000) 1) = .ok 35 := by
  decide +kernel
example : selectScalar ratOps Q.interp_linear (colRing ratOps exG 1) (1/2) (1/1000) (3/4) 1 = .ok 35 := by decide +kernel
-- out of range: ValueError
example : liftSelObs 1 (RecordTensor_select ratOps exE Q.interp_linear exG (.scalar (7/4)) none (1/1000) 1) = .valueError := by
  decide +kernel
-- tensor time: three selections per position, squeezed form, an out-of-range element
example : liftSelTen (RecordTensor_select ratOps exE Q.interp_linear exG
    (.ten ⟨[2, 3], [[1/2, 3/4], [0, 1], [5/4, 3/2]]⟩) none (1/1000) 1)
      = .ok [.ok 4, .ok 35, .ok 1, .ok 30, .ok (5/2), .ok 20] := by decide +kernel
example : liftSelTen (RecordTensor_select ratOps exE Q.interp_linear exG (.ten ⟨[2], [[1/2, 7/4]]⟩) none (1/1000) 1)
      = .valueError := by decide +kernel
-- insert: on grid (one slot), off grid out of place (`writerange`), off grid in place, tensor time (`scatter`)
example : liftIns ratOps 0 (RecordTensor_insert ratOps exE Q.extrap_neighbors exG ⟨false, [2], [7, 70]⟩ (.scalar (1/2)) none
    (1/1000) 0 false) = .ok ⟨4, 1, [7, 2, 3, 4]⟩ := by decide +kernel
example : liftIns ratOps 0 (RecordTensor_insert ratOps exE Q.extrap_neighbors exG ⟨false, [2], [7, 70]⟩ (.scalar (3/4)) none
    (1/1000) 0 false) = .ok ⟨4, 1, [7, 2, 3, 7]⟩ := by decide +kernel
example : liftIns ratOps 1 (RecordTensor_insert ratOps exE Q.extrap_neighbors exG ⟨false, [2], [7, 70]⟩ (.scalar (3/4)) none
    (1/1000) 0 true) = .ok ⟨4, 1, [70, 20, 30, 70]⟩ := by decide +kernel
example : liftInsTen ratOps 2 (RecordTensor_insert ratOps exE Q.extrap_neighbors exG ⟨false, [2], [7, 70]⟩
    (.ten ⟨[2], [[3/4, 1]]⟩) none (1/1000) 0 true) = .ok [.ok ⟨4, 1, [7, 2, 3, 7]⟩, .ok ⟨4, 1, [10, 20, 30, 70]⟩] := by
  decide +kernel

end InfernoVerif.Gen.SelectProg
