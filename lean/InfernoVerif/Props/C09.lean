import InfernoVerif.Lemmas.Split
import InfernoVerif.Props.C10
/-!
# C09 — every trainer's LTP / LTD split is non-negative and nets to the signed rule

Property theorems only (definitions: `Model/Split.lean`; the updater side: `Props/C10.lean`).
Over `ℝ`.  `partVal` reads a part handed to the updater: `None` appends nothing, i.e. contributes 0.

For each exported trainer family (STDP, TripletSTDP, MSTDP / MSTDPET with scalar and tensor reward,
DelayAdjustedSTDP / STDPD, DelayAdjustedMSTDP / MSTDPD, the three kernel trainers) and ALL FOUR sign
modes: `…_split_nonneg` (magnitudes ≥ 0 ⇒ both parts ≥ 0) and `…_split_nets` (potentiation minus
depression = the rule with signed rates).  The tables are finite (four sign modes), so case
analysis IS the full claim; the magnitudes are universally quantified reals.
Then `hebbian_direction`, `reward_sign_flips` (scalar and tensor reward), `kernel_split_nets`
(one pair, and whole batch × receptive tensors under the sum reduction),
`pos_through_upper_neg_through_lower` (with C10's apply formula), and for homeostasis the partial
result + the negation witness of known finding D9.
-/
namespace InfernoVerif.Split

/-! ## The sign-mode tables: `split_nonneg` and `split_nets` per family -/
section Tables
variable (a b : Bool) (x y : ℝ)

theorem stdp_split_nonneg (hx : 0 ≤ x) (hy : 0 ≤ y) : PartsNonneg (route_stdp a b x y) := by
  cases a <;> cases b <;> simp [route_stdp, PartsNonneg, partVal] <;> first | exact ⟨hy, hx⟩ | exact ⟨hx, hy⟩ | linarith
/-- `pos − neg = sgn(η_post)·dpost + sgn(η_pre)·dpre` -/
theorem stdp_split_nets : net (route_stdp a b x y) = sgnNonneg a * x + sgnNonneg b * y := by
  cases a <;> cases b <;> simp [route_stdp, net, partVal, sgnNonneg] <;> ring

theorem triplet_stdp_split_nonneg (hx : 0 ≤ x) (hy : 0 ≤ y) : PartsNonneg (route_triplet_stdp a b x y) := by
  cases a <;> cases b <;> simp [route_triplet_stdp, PartsNonneg, partVal] <;> first | exact ⟨hy, hx⟩ | exact ⟨hx, hy⟩ | linarith
theorem triplet_stdp_split_nets : net (route_triplet_stdp a b x y) = sgnNonneg a * x + sgnNonneg b * y := by
  cases a <;> cases b <;> simp [route_triplet_stdp, net, partVal, sgnNonneg] <;> ring

/-- MSTDP / MSTDPET, scalar reward: the flags are `lr·signal >= 0`, so the signs are those of the
products `η·M` -/
theorem mstdp_split_nonneg (hx : 0 ≤ x) (hy : 0 ≤ y) : PartsNonneg (route_mstdp a b x y) := by
  cases a <;> cases b <;> simp [route_mstdp, PartsNonneg, partVal] <;> first | exact ⟨hy, hx⟩ | exact ⟨hx, hy⟩ | linarith
theorem mstdp_split_nets : net (route_mstdp a b x y) = sgnNonneg a * x + sgnNonneg b * y := by
  cases a <;> cases b <;> simp [route_mstdp, net, partVal, sgnNonneg] <;> ring

theorem delay_adjusted_stdp_split_nonneg (hx : 0 ≤ x) (hy : 0 ≤ y) :
    PartsNonneg (route_delay_adjusted_stdp a b x y) := by
  cases a <;> cases b <;> simp [route_delay_adjusted_stdp, PartsNonneg, partVal] <;> first | exact ⟨hy, hx⟩ | exact ⟨hx, hy⟩ | linarith
theorem delay_adjusted_stdp_split_nets :
    net (route_delay_adjusted_stdp a b x y) = sgnNonneg a * x + sgnNonneg b * y := by
  cases a <;> cases b <;> simp [route_delay_adjusted_stdp, net, partVal, sgnNonneg] <;> ring

/-- delays: flags are `lr_neg < 0`, `lr_pos < 0`; `x = dpos` belongs to `lr_pos` (flag `b`),
`y = dneg` to `lr_neg` (flag `a`) -/
theorem delay_adjusted_stdpd_split_nonneg (hx : 0 ≤ x) (hy : 0 ≤ y) :
    PartsNonneg (route_delay_adjusted_stdpd a b x y) := by
  cases a <;> cases b <;> simp [route_delay_adjusted_stdpd, PartsNonneg, partVal] <;> first | exact ⟨hy, hx⟩ | exact ⟨hx, hy⟩ | linarith
theorem delay_adjusted_stdpd_split_nets :
    net (route_delay_adjusted_stdpd a b x y) = sgnLt b * x + sgnLt a * y := by
  cases a <;> cases b <;> simp [route_delay_adjusted_stdpd, net, partVal, sgnLt] <;> ring

theorem delay_adjusted_mstdp_split_nonneg (hx : 0 ≤ x) (hy : 0 ≤ y) :
    PartsNonneg (route_delay_adjusted_mstdp a b x y) := by
  cases a <;> cases b <;> simp [route_delay_adjusted_mstdp, PartsNonneg, partVal] <;> first | exact ⟨hy, hx⟩ | exact ⟨hx, hy⟩ | linarith
theorem delay_adjusted_mstdp_split_nets :
    net (route_delay_adjusted_mstdp a b x y) = sgnNonneg a * x + sgnNonneg b * y := by
  cases a <;> cases b <;> simp [route_delay_adjusted_mstdp, net, partVal, sgnNonneg] <;> ring

/-- delays, scalar reward: `x = dpost` belongs to `lr_neg` (flag `a`), `y = dpre` to `lr_pos` (flag `b`) -/
theorem delay_adjusted_mstdpd_split_nonneg (hx : 0 ≤ x) (hy : 0 ≤ y) :
    PartsNonneg (route_delay_adjusted_mstdpd a b x y) := by
  cases a <;> cases b <;> simp [route_delay_adjusted_mstdpd, PartsNonneg, partVal] <;> first | exact ⟨hy, hx⟩ | exact ⟨hx, hy⟩ | linarith
theorem delay_adjusted_mstdpd_split_nets :
    net (route_delay_adjusted_mstdpd a b x y) = sgnLt a * x + sgnLt b * y := by
  cases a <;> cases b <;> simp [route_delay_adjusted_mstdpd, net, partVal, sgnLt] <;> ring

end Tables

/-! ## Direction -/
section Direction

/-- `hebbian_direction`: under Hebbian signs (`η_post ≥ 0`, `η_pre < 0`) the applied change is
`dpost − dpre`; `dpost` collects pre-before-post (causal) pairs, `dpre` post-before-pre pairs, so
causal-only activity strengthens and anti-causal-only activity weakens; anti-Hebbian signs give the
opposite. -/
theorem hebbian_direction (dpost dpre : ℝ) :
    net (route_stdp true false dpost dpre) = dpost - dpre ∧
    (0 ≤ dpost → dpre = 0 → 0 ≤ net (route_stdp true false dpost dpre)) ∧
    (dpost = 0 → 0 ≤ dpre → net (route_stdp true false dpost dpre) ≤ 0) ∧
    net (route_stdp false true dpost dpre) = -(dpost - dpre) := by
  refine ⟨?_, ?_, ?_, ?_⟩ <;> simp [route_stdp, net, partVal]
  · intro h1 h2; rw [h2]; simpa using h1
  · intro h1 h2; rw [h1]; simpa using h2

/-- `reward_sign_flips` (scalar reward): negating a non-zero reward, with non-zero rates, exchanges
the potentiating and the depressing part — the applied change is negated. -/
theorem reward_sign_flips (lr_post lr_pre signal : ℝ) (hs : signal ≠ 0) (h1 : lr_post ≠ 0) (h2 : lr_pre ≠ 0)
    (dpost dpre : ℝ) :
    route_mstdp (decide (0 ≤ lr_post * -signal)) (decide (0 ≤ lr_pre * -signal)) dpost dpre =
      ((route_mstdp (decide (0 ≤ lr_post * signal)) (decide (0 ≤ lr_pre * signal)) dpost dpre).2,
       (route_mstdp (decide (0 ≤ lr_post * signal)) (decide (0 ≤ lr_pre * signal)) dpost dpre).1) ∧
    net (route_mstdp (decide (0 ≤ lr_post * -signal)) (decide (0 ≤ lr_pre * -signal)) dpost dpre) =
      -net (route_mstdp (decide (0 ≤ lr_post * signal)) (decide (0 ≤ lr_pre * signal)) dpost dpre) := by
  have flip : ∀ lr : ℝ, lr ≠ 0 → decide (0 ≤ lr * -signal) = !decide (0 ≤ lr * signal) := by
    intro lr hlr
    have hne : lr * signal ≠ 0 := mul_ne_zero hlr hs
    by_cases h : 0 ≤ lr * signal
    · have : ¬ (0 ≤ lr * -signal) := by
        intro h'; rw [mul_neg] at h'; exact hne (le_antisymm (by linarith) h)
      rw [decide_eq_true h, decide_eq_false this]; rfl
    · have : 0 ≤ lr * -signal := by rw [mul_neg]; linarith [not_le.mp h]
      rw [decide_eq_false h, decide_eq_true this]; rfl
  rw [flip lr_post h1, flip lr_pre h2]
  cases decide (0 ≤ lr_post * signal) <;> cases decide (0 ≤ lr_pre * signal) <;>
    simp [route_mstdp, net, partVal]

/-- per-sample reward (tensor `signal`): exchanging the samples with non-negative and negative
reward exchanges the concatenated potentiating and depressing rows -/
theorem reward_sign_flips_tensor (a b : Bool) (pr pi qr qi : List ℝ) :
    join_mstdp a b pi pr qi qr = ((join_mstdp a b pr pi qr qi).2, (join_mstdp a b pr pi qr qi).1) := by
  cases a <;> cases b <;> rfl

/-- tensor reward, sum over the batch: potentiation minus depression is the signed rule with the
reward's sign per sample -/
theorem mstdp_tensor_split_nets (a b : Bool) (pr pi qr qi : List ℝ) :
    lsum (join_mstdp a b pr pi qr qi).1 - lsum (join_mstdp a b pr pi qr qi).2 =
      sgnNonneg a * (lsum pr - lsum pi) + sgnNonneg b * (lsum qr - lsum qi) := by
  cases a <;> cases b <;> simp [join_mstdp, lsum_append, sgnNonneg] <;> ring

theorem mstdpd_tensor_split_nets (a b : Bool) (pr pi qr qi : List ℝ) :
    lsum (join_mstdpd a b pr pi qr qi).1 - lsum (join_mstdpd a b pr pi qr qi).2 =
      sgnLt a * (lsum pr - lsum pi) + sgnLt b * (lsum qr - lsum qi) := by
  cases a <;> cases b <;> simp [join_mstdpd, lsum_append, sgnLt] <;> ring

/-- the concatenations only rearrange the rows: with non-negative rows both sides stay non-negative -/
theorem mstdp_tensor_split_nonneg (a b : Bool) (pr pi qr qi : List ℝ)
    (h : ∀ v ∈ pr ++ pi ++ qr ++ qi, 0 ≤ v) :
    (∀ v ∈ (join_mstdp a b pr pi qr qi).1, 0 ≤ v) ∧ (∀ v ∈ (join_mstdp a b pr pi qr qi).2, 0 ≤ v) := by
  cases a <;> cases b <;> simp only [join_mstdp] <;> constructor <;> intro v hv <;>
    apply h v <;> simp only [List.mem_append] at hv ⊢ <;> tauto

end Direction

/-! ## Only `|scale|` matters; every cell is routed by its own rates -/
section ScaleCells

/-- `scale_sign_irrelevant`: calling a three-factor rule (scalar reward) with `scale = −g` hands
exactly the parts of `scale = g`: the routing flags do not see `scale`, the magnitudes see
`|signal·scale|`. -/
theorem scale_sign_irrelevant (lr_post lr_pre signal g zpost zpre : ℝ) :
    mstdp_forward_scalar lr_post lr_pre signal (-g) zpost zpre =
      mstdp_forward_scalar lr_post lr_pre signal g zpost zpre := by
  unfold mstdp_forward_scalar absv
  rw [mul_neg, neg_neg, max_comm]

/-- with the reward's sign fixed, the applied change of the scalar branch is the signed rule scaled
by `|signal·scale|` -/
theorem mstdp_forward_scalar_nets (lr_post lr_pre signal g zpost zpre : ℝ) :
    net (mstdp_forward_scalar lr_post lr_pre signal g zpost zpre) =
      (sgnNonneg (decide (0 ≤ lr_post * signal)) * zpost + sgnNonneg (decide (0 ≤ lr_pre * signal)) * zpre)
        * |signal * g| := by
  unfold mstdp_forward_scalar
  rw [mstdp_split_nets]
  show _ = _ * max (signal * g) (-(signal * g))
  simp only [absv]; ring

/-- `per_cell_routing_uses_own_rates`: in a trainer's loop over its cells the parts of cell `i` are
the routing of cell `i`'s OWN sign flags and magnitudes — whatever the other cells (or the
trainer-level defaults) are. -/
theorem per_cell_routing_uses_own_rates (route : Bool → Bool → ℝ → ℝ → Parts ℝ)
    (cells : List (Bool × Bool × ℝ × ℝ)) (i : Nat) (h : i < cells.length) :
    (forward_cells route cells)[i]? =
      some (route cells[i].1 cells[i].2.1 cells[i].2.2.1 cells[i].2.2.2) := by
  simp [forward_cells, h]

end ScaleCells

/-! ## Kernel trainers: clamp split of signed kernel outputs -/
section Kernel

/-- `kernel_split_nets` (one pair): both parts are ≥ 0 for ANY signed kernel outputs, and
`pos − neg = dpost + dpre`. -/
theorem kernel_split_nets (dpost dpre : ℝ) :
    0 ≤ (kernel_split1 dpost dpre).1 ∧ 0 ≤ (kernel_split1 dpost dpre).2 ∧
    (kernel_split1 dpost dpre).1 - (kernel_split1 dpost dpre).2 = dpost + dpre := by
  simp only [kernel_split1, clamp_min0, clamp_max0]
  refine ⟨add_nonneg (le_max_right _ _) (le_max_right _ _), ?_, ?_⟩
  · have := min_le_right dpost 0; have := min_le_right dpre 0; linarith
  · have h1 := max_add_min dpost 0; have h2 := max_add_min dpre 0; linarith

/-- whole tensors (batch × receptive, NaN = no spike yet skipped by `nansum`), sum over the batch:
both parts ≥ 0 and `pos − neg = Σ dpost + Σ dpre`. -/
theorem kernel_split_nets_sum (dpost dpre : List (List (Option ℝ))) :
    PartsNonneg (kernel_split lsum dpost dpre) ∧
    net (kernel_split lsum dpost dpre) = lsum (dpost.map nansum) + lsum (dpre.map nansum) := by
  obtain ⟨p1, p2, p3⟩ := lsum_rows dpost
  obtain ⟨q1, q2, q3⟩ := lsum_rows dpre
  simp only [kernel_split, PartsNonneg, net, partVal]
  exact ⟨⟨by linarith, by linarith⟩, by linarith⟩

end Kernel

/-! ## Potentiation goes through the upper-bound function, depression through the lower-bound one -/
section Bounds
open InfernoVerif.Updater

/-- `pos_through_upper_neg_through_lower`: a trainer assigns `cell.updater.p = (pos, neg)` to an
accumulator without pending parts whose half bounding functions are `f` (upper) and `g` (lower);
applying then gives `old + f(old, reduce [pos]) − g(old, reduce [neg])` — by C10's apply formula.
In Hebbian mode `pos = dpost`, `neg = dpre` (`route_stdp true false`). -/
theorem pos_through_upper_neg_through_lower (a : Accumulator ℝ) (h : a.Inv) (hp : a.pos = []) (hn : a.neg = [])
    (f g : ℝ → ℝ → ℝ) (dpost dpre x : ℝ) :
    let parts := route_stdp true false dpost dpre
    ((((a.upperbound (some f)).lowerbound (some g)).setAcc (.pair parts.1 parts.2)).forward x).2
      = .ok (x + (f x (a.reduce [dpost]) - g x (a.reduce [dpre]))) := by
  intro parts
  have hinv : (((a.upperbound (some f)).lowerbound (some g)).setAcc (.pair parts.1 parts.2)).Inv :=
    setAcc_inv _ (lowerbound_inv _ (upperbound_inv a h _) _) _
  have := apply_formula_both _ hinv x f g rfl
    (by simp [parts, route_stdp, Accumulator.setAcc, Accumulator.setPos, Accumulator.setNeg,
          Accumulator.upperbound, Accumulator.lowerbound])
    (by simp [parts, route_stdp, Accumulator.setAcc, Accumulator.setPos, Accumulator.setNeg,
          Accumulator.upperbound, Accumulator.lowerbound])
  rw [this]
  simp [parts, route_stdp, Accumulator.setAcc, Accumulator.setPos, Accumulator.setNeg,
    Accumulator.upperbound, Accumulator.lowerbound, hp, hn]

end Bounds

/-! ## Homeostasis -/
section Homeostasis

-- FULL STATEMENT (unproved): the property requires of `LinearHomeostasis`, for every signed `k`
-- (`k = λ·(r* − r)/r*`, positive when the rate is below target),
--   theorem homeostasis_split (k : ℝ) :
--       0 ≤ homeostasis_pos k ∧ 0 ≤ homeostasis_neg k ∧ homeostasis_pos k - homeostasis_neg k = k
-- i.e. `homeostasis_split reduce ks = signed_split_spec reduce ks`.  It is FALSE for the code as it
-- is (`homeostasis_neg_part_negative` below is the negation witness; known finding D9, key
-- `C09:homeostasis:neg-part-sign`): the depressive part is `k.clamp_max(0) ≤ 0`, not `(−k).clamp_min(0)`.
-- What holds is the potentiating half:

/-- `homeostasis_split_partial`: the potentiating part is `max k 0` (≥ 0), as the property
requires, per sample and after any batch reduction. -/
theorem homeostasis_split_partial (k : ℝ) (reduce : List ℝ → ℝ) (ks : List ℝ) :
    homeostasis_pos k = max k 0 ∧ 0 ≤ homeostasis_pos k ∧
    (homeostasis_split reduce ks).1 = (signed_split_spec reduce ks).1 :=
  ⟨rfl, le_max_right _ _, rfl⟩

/-- what the code's split actually nets to: `|k|` for every `k` -/
theorem homeostasis_net_is_abs (k : ℝ) : homeostasis_pos k - homeostasis_neg k = |k| := by
  simp only [homeostasis_pos, homeostasis_neg, clamp_min0, clamp_max0]
  rcases le_total 0 k with h | h
  · rw [max_eq_left h, min_eq_right h, abs_of_nonneg h]; ring
  · rw [max_eq_right h, min_eq_left h, abs_of_nonpos h]; ring

/-- `homeostasis_neg_part_negative` (negation witness of the full statement; `decide`-free, concrete
`k = −1`): a rate above target gives a NEGATIVE "depressive" part, and the applied change is `|k|`,
so the parameter still moves up. -/
theorem homeostasis_neg_part_negative :
    ∃ k : ℝ, k < 0 ∧ homeostasis_neg k < 0 ∧ homeostasis_pos k - homeostasis_neg k = |k| := by
  refine ⟨-1, by norm_num, ?_, homeostasis_net_is_abs (-1)⟩
  simp [homeostasis_neg, clamp_max0]

end Homeostasis

/-! ## Non-vacuity -/
section Examples

/-- Hebbian mode with both magnitudes positive: `pos = 3/4`, `neg = 1/4`, net `1/2` -/
example : net (route_stdp true false (3/4) (1/4)) = 1/2 ∧ PartsNonneg (route_stdp true false (3/4) (1/4)) := by
  constructor
  · rw [stdp_split_nets]; norm_num [sgnNonneg]
  · exact stdp_split_nonneg _ _ _ _ (by norm_num) (by norm_num)

/-- a reward of `−2` against `+2` with rates `(1, −1/2)` -/
example : net (route_mstdp (decide ((0:ℝ) ≤ 1 * -2)) (decide ((0:ℝ) ≤ (-1/2) * -2)) 3 5) =
    -net (route_mstdp (decide ((0:ℝ) ≤ 1 * 2)) (decide ((0:ℝ) ≤ (-1/2) * 2)) 3 5) :=
  (reward_sign_flips 1 (-1/2) 2 (by norm_num) (by norm_num) (by norm_num) 3 5).2

/-- a kernel output of mixed sign: `(+2, −3)` splits into `pos = 2`, `neg = 3` -/
example : kernel_split1 (2 : ℝ) (-3) = (2, 3) := by
  simp [kernel_split1, clamp_min0, clamp_max0]

end Examples

end InfernoVerif.Split
