import InfernoVerif.Props.C17
import InfernoVerif.Lemmas.LayerInst
/-!
# C17 (second half, concrete components) — `clear()` restores the state at construction

`Props/C17.lean` proves the replay theorems for ARBITRARY components under the contract
`Obj.ClearOK` ("`clear` behaves like a fresh twin").  Here the contract is discharged for the
project's component models (definitions and helper lemmas in `Lemmas/LayerInst.lean`):

1. synapses — all four kinds, every configuration, every arithmetic `SOps α` (`ℝ` = `realSOps` and
   `Float` = `floatSOps` included): `clear` of the state after ANY finite sequence of `forward` calls
   from `init` is `init` EXACTLY (`synapse_clear_eq_init`, `synapse_clear_zeroed`), hence replay
   (`synapse_replay_after_clear`); such states exist for every input sequence (`synapse_run_total`);
2. `LinearDense` connection = synapse elements + linear map, undelayed and delayed branch
   (`Model/Delay.lean`), learned weights / bias / delays kept: `dense_conn_clearOK`, and exactly
   `dense_conn_clear_eq_constructed`;
3. neurons built from the GENERATED `voltage_thresholding_constant` with arbitrary dynamics:
   `neuron_elem_clearOK`, `neuron_group_clearOK`, exact versions;
4. `replay_after_clear_serial_concrete` (+ `clear_restores_constructed_serial`,
   `replay_after_clear_serial_wellshaped`, `…_biclique_concrete`, `…_recurrent_concrete`): no
   component hypothesis is left.

Tensors are `Tens α = Option (List α)`, `none` = "the call raised"; a component whose call raised is
in the absorbing state `none` (nothing is claimed about an object after an exception).  "Reachable
state" in (4) = state after any history of calls none of which returned a raised value;
`replay_after_clear_serial_wellshaped` shows that every history of well-shaped calls is such a history.
-/
namespace InfernoVerif.Layer
open InfernoVerif.Synapse InfernoVerif.Delay

/-! ## 1. synapses -/

/-- `clear()` on the state reached from construction by ANY finite sequence of `forward` calls
(`ins` = the arguments `(inputs[0], inputs[1:])` of each call) gives back the constructed state
EXACTLY — all four kinds (`c.kind` is arbitrary), every configuration, every arithmetic. -/
theorem synapse_clear_eq_init {α : Type} (S : SOps α) (c : Cfg α) (ins : List (α × List α)) (s : Synapse.St α)
    (vs : List α) (h : Synapse.run S c (Synapse.init S c) ins = some (s, vs)) :
    Synapse.clear S s = Synapse.init S c := by
  obtain ⟨hw, hz⟩ := run_wf_sized S c ins _ s vs (init_wf S c) (init_sized S c) h
  exact clear_of_wf_sized S c s hw hz

/-- …spelled out: after `clear()` every record (`spike_`, `current_` / `pos_current_`, `neg_current_`)
has the configured number of slots, all zero, and its pointer is `0`. -/
theorem synapse_clear_zeroed {α : Type} (S : SOps α) (c : Cfg α) (ins : List (α × List α)) (s : Synapse.St α)
    (vs : List α) (h : Synapse.run S c (Synapse.init S c) ins = some (s, vs)) :
    (Synapse.clear S s).spike = ⟨c.n S, 0, List.replicate (c.n S) (S.K.ofInt 0)⟩ ∧
    (Synapse.clear S s).cur = ⟨c.n S, 0, List.replicate (c.n S) (S.K.ofInt 0)⟩ ∧
    (Synapse.clear S s).neg = ⟨c.n S, 0, List.replicate (c.n S) (S.K.ofInt 0)⟩ := by
  rw [synapse_clear_eq_init S c ins s vs h]; exact ⟨rfl, rfl, rfl⟩

/-- replay: after `clear()` every sequence of calls returns what it returns on a freshly
constructed synapse (and leads to the same state). -/
theorem synapse_replay_after_clear {α : Type} (S : SOps α) (c : Cfg α) (ins : List (α × List α)) (s : Synapse.St α)
    (vs : List α) (h : Synapse.run S c (Synapse.init S c) ins = some (s, vs)) (ins' : List (α × List α)) :
    Synapse.run S c (Synapse.clear S s) ins' = Synapse.run S c (Synapse.init S c) ins' := by
  rw [synapse_clear_eq_init S c ins s vs h]

/-- the hypothesis of the three theorems above is met by EVERY input sequence: no `forward` call
fails from construction (no slot index ever leaves the record). -/
theorem synapse_run_total {α : Type} (S : SOps α) (c : Cfg α) (ins : List (α × List α)) :
    ∃ s vs, Synapse.run S c (Synapse.init S c) ins = some (s, vs) := by
  obtain ⟨⟨s, vs⟩, h⟩ := run_some S c ins _ (init_wf S c)
  exact ⟨s, vs, h⟩

/-! ## 2. the dense connection -/

/-- the `LinearDense` component (any parameters `P`: undelayed or with per-synapse delays, any
synapse kind; any state) honours the `clear` contract of `Model/Layer.lean`. -/
theorem dense_conn_clearOK {α : Type} (S : SOps α) (P : DenseP α) (s : Option (P.St S)) :
    (denseConnAt S P s).ClearOK := denseConnAt_clearOK S P s

/-- stronger: clearing a connection in ANY state of the invariant (in particular any state reached
by calls that did not raise) gives the connection as constructed with the same weights, bias and
delays — the same component, not just an equivalent one; and `fresh` IS that constructor. -/
theorem dense_conn_clear_eq_constructed {α : Type} (S : SOps α) (P : DenseP α) (s : P.St S) :
    (denseConnAt S P (some s)).clr = denseConn S P ∧ (denseConnAt S P (some s)).frs = denseConn S P := by
  refine ⟨?_, rfl⟩
  rw [denseConnAt_clr]
  show denseConnAt S P (some (P.clearSt S s)) = _
  rw [DenseP.clearSt_eq_initSt]; rfl

/-- replay for the connection alone: everything observable after `clear()` equals the constructed twin's. -/
theorem dense_conn_replay_after_clear {α : Type} (S : SOps α) (P : DenseP α) (s : P.St S)
    (xss : List (List (Tens α))) : (denseConnAt S P (some s)).clr.obs xss = (denseConn S P).obs xss := by
  rw [(dense_conn_clear_eq_constructed S P s).1]

/-- a well-shaped call on a live connection that cannot raise (`NoRaise`: undelayed, or every
element answers every delayed read) returns a row of `N` entries and leaves it live. -/
theorem dense_conn_live {α : Type} (S : SOps α) (P : DenseP α) (hP : P.NoRaise S) (s : P.St S)
    (xs : List (Tens α)) (hx : P.ArgsOK xs) :
    ∃ s' y, (denseConnAt S P (some s)).step (some s) xs = (some s', some y) ∧ y.length = P.N :=
  denseConnAt_step_live S P hP s xs hx

/-- over `ℝ`, a synapse configuration the constructors accept (`dt > 0`, `delay ≥ 0`, `tolerance ≥ 0`)
makes the delayed branch unable to raise (the selector is clamped into the record's range). -/
theorem dense_conn_noRaise_real (P : DenseP ℝ) (hv : Valid P.net.cfg) : P.NoRaise realSOps := noRaise_real P hv

/-- the component's synapse step without injected currents IS `Delay.stepAll`, the synapse step of the
connection model of C06 (so C04 / C06 describe the outputs this component produces). -/
theorem dense_conn_synapse_step_is_C06 {α : Type} (S : SOps α) (cfg : Cfg α) (sts : List (Synapse.St α)) (x : List α) :
    stepAllInj S cfg sts x (injOf S sts.length []) = stepAll S cfg sts x := stepAllInj_nil S cfg sts x

/-! ## 3. neurons -/

/-- the component's element step IS C03's `stepG` with the constant reset map (spike as `0` / `1`). -/
theorem neuron_step_is_C03 (Q : NeurP) (vr : ℝ × ℝ) (I : ℝ) :
    (Q.elemStep vr I).1 =
      ((InfernoVerif.Neuron.stepG (fun _ => Q.reset) Q.dt Q.refracT Q.dyn Q.lock Q.thresh vr.1 vr.2 I).2.1,
       (InfernoVerif.Neuron.stepG (fun _ => Q.reset) Q.dt Q.refracT Q.dyn Q.lock Q.thresh vr.1 vr.2 I).2.2) ∧
    ((Q.elemStep vr I).2 = 1 ↔ (InfernoVerif.Neuron.stepG (fun _ => Q.reset) Q.dt Q.refracT Q.dyn Q.lock Q.thresh vr.1 vr.2 I).1) := by
  rw [NeurP.elemStep_eq_stepG]
  refine ⟨rfl, ?_⟩
  by_cases h : (InfernoVerif.Neuron.stepG (fun _ => Q.reset) Q.dt Q.refracT Q.dyn Q.lock Q.thresh vr.1 vr.2 I).1
  · simp [h]
  · simp [h]

/-- one neuron (generated thresholding kernel, arbitrary dynamics): `clear` contract, and exactly:
`clear()` gives `(rest_v, 0)`, the constructed state. -/
theorem neuron_elem_clearOK (Q : NeurP) (vr : ℝ × ℝ) :
    (neuronElemAt Q vr).ClearOK ∧ (neuronElemAt Q vr).clr = neuronElem Q ∧ (neuronElemAt Q vr).frs = neuronElem Q :=
  ⟨neuronElemAt_clearOK Q vr, rfl, rfl⟩

/-- a neuron group of any size in any state. -/
theorem neuron_group_clearOK (Q : NeurP) (s : Option Q.St) : (neuronGroupAt Q s).ClearOK :=
  neuronGroupAt_clearOK Q s

theorem neuron_group_clear_eq_constructed (Q : NeurP) (s : Q.St) :
    (neuronGroupAt Q (some s)).clr = neuronGroup Q ∧ (neuronGroupAt Q (some s)).frs = neuronGroup Q := by
  refine ⟨?_, rfl⟩
  show neuronGroupAt Q (some (Q.clearSt s)) = _
  rw [NeurP.clearSt_eq_initSt]; rfl

/-! ## 4. layers of concrete components -/

/-- every history of calls of the constructed serial layer leads to a layer of the same
components (same parameters) in some states. -/
theorem serial_history_reaches (C : SerialCfg (Tens ℝ)) (S : SOps ℝ) (P : DenseP ℝ) (Q : NeurP)
    (hist : List (List (Tens ℝ))) (L' : LayerSt (Tens ℝ)) (outs : List (Tens ℝ × Tens ℝ))
    (h : Serial.exec C (serialLayer C S P Q) hist = some (L', outs)) :
    ∃ s r, L' = serialLayerAt C S P Q s r := by
  obtain ⟨s, r, hL, _⟩ := exec_serialLayerAt C S P Q hist _ _ L' outs h
  exact ⟨s, r, hL⟩

/-- `clear()` after ANY history in which no call returned a raised value restores the layer as
constructed, EXACTLY: connection (all synapse records zero, pointers `0`; weights, bias, delays kept)
and neurons (`voltage = rest_v`, `refrac = 0`). -/
theorem clear_restores_constructed_serial (C : SerialCfg (Tens ℝ)) (S : SOps ℝ) (P : DenseP ℝ) (Q : NeurP)
    (hist : List (List (Tens ℝ))) (L' : LayerSt (Tens ℝ)) (outs : List (Tens ℝ × Tens ℝ))
    (h : Serial.exec C (serialLayer C S P Q) hist = some (L', outs))
    (hok : ∀ p ∈ outs, p.1.isSome ∧ p.2.isSome) : Layer.clear L' = serialLayer C S P Q := by
  obtain ⟨s, r, hL, hlive⟩ := exec_serialLayerAt C S P Q hist _ _ L' outs h
  obtain ⟨hs, hr⟩ := hlive hok rfl rfl
  obtain ⟨s', rfl⟩ := Option.isSome_iff_exists.mp hs
  obtain ⟨r', rfl⟩ := Option.isSome_iff_exists.mp hr
  rw [hL]; exact serialLayerAt_clear C S P Q s' r'

/-- **replay after clear, concrete serial layer** — no component hypothesis: from the state reached
by ANY history without a raised value, `clear()` followed by any input sequence gives exactly the
outputs of the freshly constructed layer with the same parameters.  Obtained from C17's
`replay_after_clear_serial` with the contracts of (2) and (3). -/
theorem replay_after_clear_serial_concrete (C : SerialCfg (Tens ℝ)) (S : SOps ℝ) (P : DenseP ℝ) (Q : NeurP)
    (hist : List (List (Tens ℝ))) (L' : LayerSt (Tens ℝ)) (outs : List (Tens ℝ × Tens ℝ))
    (h : Serial.exec C (serialLayer C S P Q) hist = some (L', outs))
    (hok : ∀ p ∈ outs, p.1.isSome ∧ p.2.isSome) (xss : List (List (Tens ℝ))) :
    Serial.run C (Layer.clear L') xss = Serial.run C (serialLayer C S P Q) xss := by
  obtain ⟨s, r, hL, hlive⟩ := exec_serialLayerAt C S P Q hist _ _ L' outs h
  obtain ⟨hs, hr⟩ := hlive hok rfl rfl
  obtain ⟨s', rfl⟩ := Option.isSome_iff_exists.mp hs
  obtain ⟨r', rfl⟩ := Option.isSome_iff_exists.mp hr
  subst hL
  have := replay_after_clear_serial C (serialLayerAt C S P Q (some s') (some r'))
    (by intro kv hkv; simp only [serialLayerAt, List.mem_singleton] at hkv; subst hkv; exact denseConnAt_clearOK S P _)
    (by intro kv hkv; simp only [serialLayerAt, List.mem_singleton] at hkv; subst hkv; exact neuronGroupAt_clearOK Q _) xss
  rw [this, serialLayerAt_fresh]

/-- the same from ANY state of the components whatsoever (raised ones included), against the twin
`Layer.fresh`. -/
theorem replay_after_clear_serial_anystate (C : SerialCfg (Tens ℝ)) (S : SOps ℝ) (P : DenseP ℝ) (Q : NeurP)
    (s : Option (P.St S)) (r : Option Q.St) (xss : List (List (Tens ℝ))) :
    Serial.run C (Layer.clear (serialLayerAt C S P Q s r)) xss =
      Serial.run C (Layer.fresh (serialLayerAt C S P Q s r)) xss :=
  replay_after_clear_serial C _
    (by intro kv hkv; simp only [serialLayerAt, List.mem_singleton] at hkv; subst hkv; exact denseConnAt_clearOK S P _)
    (by intro kv hkv; simp only [serialLayerAt, List.mem_singleton] at hkv; subst hkv; exact neuronGroupAt_clearOK Q _) xss

/-- hypothesis-free form for well-shaped use: if the connection cannot raise (`NoRaise`), the
transform maps connection rows to neuron rows, and every call of the history has the right shapes,
then the history runs through and afterwards `clear()` + replay = the freshly constructed layer. -/
theorem replay_after_clear_serial_wellshaped (C : SerialCfg (Tens ℝ)) (S : SOps ℝ) (P : DenseP ℝ) (Q : NeurP)
    (hP : P.NoRaise S) (hT : TransOK C P Q) (hist : List (List (Tens ℝ))) (hh : ∀ xs ∈ hist, P.ArgsOK xs) :
    ∃ L' outs, Serial.exec C (serialLayer C S P Q) hist = some (L', outs) ∧
      Layer.clear L' = serialLayer C S P Q ∧
      ∀ xss, Serial.run C (Layer.clear L') xss = Serial.run C (serialLayer C S P Q) xss := by
  obtain ⟨L', outs, he, ho⟩ := exec_live C S P Q hP hT hist hh (P.initSt S) Q.initSt
  exact ⟨L', outs, he, clear_restores_constructed_serial C S P Q hist L' outs he ho,
    replay_after_clear_serial_concrete C S P Q hist L' outs he ho⟩

/-- biclique and recurrent layers whose dictionaries hold ANY number of the concrete components (any
parameters, any states): replay after `clear()` equals replay on the fresh twin. -/
theorem replay_after_clear_biclique_concrete (S : SOps ℝ) (B : BicliqueCfg (Tens ℝ)) (L : LayerSt (Tens ℝ))
    (hc : ∀ kv ∈ L.conns, IsDenseConn S kv.2) (hn : ∀ kv ∈ L.neurs, IsNeuronGroup kv.2)
    (xss : List (Dict (List (Tens ℝ)))) :
    Biclique.run B (Layer.clear L) xss = Biclique.run B (Layer.fresh L) xss :=
  replay_after_clear_biclique B L (fun kv h => (hc kv h).clearOK) (fun kv h => (hn kv h).clearOK) xss

theorem replay_after_clear_recurrent_concrete (S : SOps ℝ) (R : RecCfg (Tens ℝ)) (St : RecSt (Tens ℝ))
    (hc : ∀ kv ∈ St.L.conns, IsDenseConn S kv.2) (hn : ∀ kv ∈ St.L.neurs, IsNeuronGroup kv.2)
    (xss : List (List (Tens ℝ))) :
    Rec.run R (Rec.clear St) xss = Rec.run R (Rec.fresh St) xss :=
  replay_after_clear_recurrent R St (fun kv h => (hc kv h).clearOK) (fun kv h => (hn kv h).clearOK) xss

/-! ## Non-vacuity -/

section Examples
open InfernoVerif.Select

/-- an exact toy arithmetic over `Int` (the theorems of sections 1 and 2 hold for every `SOps`), so that
concrete runs can be evaluated by `decide` -/
def intSOps : SOps Int where
  K := { add := (· + ·), sub := (· - ·), mul := (· * ·), div := (· / ·), neg := (- ·), abs := fun x => (x.natAbs : Int),
         ofInt := id, floor := id, ceil := id, round := id, le := fun a b => decide (a ≤ b), lt := fun a b => decide (a < b) }
  exp := fun _ => 1
  previous := fun p _ _ _ => p
  nearest := fun p _ _ _ => p
  expdecay := fun p _ _ _ _ => p

def exCfgI (k : Kind) : Cfg Int :=
  { kind := k, dt := 1, delay := 2, Q := 3, tau := 1, tauR := 2, mode := .previous, tol := 0,
    curOver := none, spkOver := none, inplace := true }

example : (exCfgI .deltaPlus).n intSOps = 3 := by decide
-- all four kinds: two calls move the pointer and write the record — the reached state is not the constructed one …
example : ∀ k : Kind, (Synapse.run intSOps (exCfgI k) (Synapse.init intSOps (exCfgI k)) [(1, [5]), (0, [])]).map
    (fun r => r.1.spike) = some ⟨3, 2, [1, 0, 0]⟩ := by intro k; cases k <;> decide
-- … and `clear()` brings back the constructed state (evaluated, then as an instance of the theorem)
example : ∀ k : Kind, (Synapse.run intSOps (exCfgI k) (Synapse.init intSOps (exCfgI k)) [(1, [5]), (0, [])]).map
    (fun r => (Synapse.clear intSOps r.1).spike) = some ⟨3, 0, [0, 0, 0]⟩ := by intro k; cases k <;> decide
example (k : Kind) (s : Synapse.St Int) (vs : List Int)
    (h : Synapse.run intSOps (exCfgI k) (Synapse.init intSOps (exCfgI k)) [(1, [5]), (0, [])] = some (s, vs)) :
    Synapse.clear intSOps s = Synapse.init intSOps (exCfgI k) := synapse_clear_eq_init _ _ _ s vs h
-- a delta-plus synapse after two calls: records are NOT in the constructed state (pointer 2, data written) …
example : (Synapse.run intSOps (exCfgI .deltaPlus) (Synapse.init intSOps (exCfgI .deltaPlus)) [(1, [5]), (0, [])]).map
    (fun r => (r.1.spike, r.1.cur, r.2)) = some (⟨3, 2, [1, 0, 0]⟩, ⟨3, 2, [8, 0, 0]⟩, [8, 0]) := by decide

def exP (k : Kind) : DenseP Int :=
  { net := ⟨exCfgI k, true⟩, M := 2, N := 2, W := [[1, 2], [3, 4]], b := some [10, 20], D := [[0, 1], [2, 0]] }

def outsOf (c : Conn (Tens Int)) : List (List (Tens Int)) → List (Tens Int)
  | [] => []
  | xs :: rest => (c.fwd xs).2 :: outsOf (c.fwd xs).1 rest


-- a delayed dense connection (2 → 2, delays 0/1/2 steps, bias) on four calls, the first with injected currents
example : outsOf (denseConn intSOps (exP .deltaPlus)) [[some [1, 0], some [2, 3]], [some [0, 1]], [some [0,0]], [some [0,0]]]
    = [some [15, 32], some [16, 32], some [16, 35], some [10, 20]] := by decide
-- history matters (delays 1 and 2 steps): without `clear()` the next call sees the past …
example : outsOf ((denseConn intSOps (exP .deltaPlus)).fwd [some [1, 0], some [2, 3]]).1 [[some [0, 1]]] = [some [16, 32]] := by decide
-- … after `clear()` it returns what the constructed connection returns
example : outsOf ((denseConn intSOps (exP .deltaPlus)).fwd [some [1, 0], some [2, 3]]).1.clr [[some [0, 1]]] = [some [10, 32]] := by decide
example : outsOf (denseConn intSOps (exP .deltaPlus)) [[some [0, 1]]] = [some [10, 32]] := by decide
-- a call with a wrong shape raises; afterwards nothing is claimed
example : outsOf (denseConn intSOps (exP .deltaPlus)) [[some [1, 0]], [some [1]], [some [0,0]]] = [some [13, 20], none, none] := by decide

/-! ### over `ℝ` -/

noncomputable def exCfgR : Cfg ℝ :=
  { kind := .singleExp, dt := 1, delay := 2.5, Q := 2, tau := 4, tauR := 1, mode := .previous, tol := 0.25,
    curOver := some (-7), spkOver := some true, inplace := false }
noncomputable def exPR : DenseP ℝ :=
  { net := ⟨exCfgR, true⟩, M := 2, N := 2, W := [[1, 2], [3, 4]], b := none, D := [[0, 1], [2.5, 0.5]] }
noncomputable def exQ : NeurP :=
  { n := 2, dt := 1, rest := -60, reset := -65, thresh := -50, refracT := 2.5, dyn := fun v I => v + I, lock := true }
def exC : SerialCfg (Tens ℝ) := ⟨"serial", "serial", id⟩

example : Valid exCfgR := ⟨by norm_num [exCfgR], by norm_num [exCfgR], by norm_num [exCfgR]⟩
-- the connection takes its DELAYED branch, and cannot raise
example : useDelay realSOps exPR.net = true := by
  simp [useDelay, delayedby, truthy, exPR, exCfgR, realSOps, realOps]
  norm_num
example : exPR.NoRaise realSOps :=
  dense_conn_noRaise_real exPR ⟨by norm_num [exPR, exCfgR], by norm_num [exPR, exCfgR], by norm_num [exPR, exCfgR]⟩
example : TransOK exC exPR exQ := fun y hy => ⟨y, rfl, hy⟩
example : exPR.ArgsOK [some [1, 0]] := ⟨[1, 0], [], rfl, rfl, by simp⟩
example : exPR.ArgsOK [some [0, 1], some [3, 4]] := ⟨[0, 1], [[3, 4]], rfl, rfl, by simp [exPR]⟩
-- a neuron that spikes: the state after the call is not the constructed one, `clear()` is not the identity
example : ((neuronElem exQ).fwd 20).2 = 1 ∧ ((neuronElem exQ).fwd 20).1.st = (-65, 2.5) := by
  have hs : (InfernoVerif.Neuron.stepG (fun _ => (-65 : ℝ)) 1 2.5 (fun v I => v + I) true (-50) (-60) 0 20).1 := by
    rw [InfernoVerif.Neuron.stepG_spike_iff]; norm_num
  have hr := InfernoVerif.Neuron.stepG_spike_resets _ _ _ _ _ _ _ _ _ hs
  simp only [Obj.fwd, neuronElem, neuronElemAt, NeurP.elemStep_eq_stepG, exQ, NeurP.initElem]
  rw [if_pos hs, hr.1, hr.2]; exact ⟨rfl, rfl⟩
-- the hypothesis-free theorem applied to a two-call history (the second call injects currents)
example : ∃ L' outs, Serial.exec exC (serialLayer exC realSOps exPR exQ) [[some [1, 0]], [some [0, 1], some [3, 4]]] = some (L', outs) ∧
    Layer.clear L' = serialLayer exC realSOps exPR exQ ∧
    ∀ xss, Serial.run exC (Layer.clear L') xss = Serial.run exC (serialLayer exC realSOps exPR exQ) xss :=
  replay_after_clear_serial_wellshaped exC realSOps exPR exQ
    (dense_conn_noRaise_real exPR ⟨by norm_num [exPR, exCfgR], by norm_num [exPR, exCfgR], by norm_num [exPR, exCfgR]⟩)
    (fun y hy => ⟨y, rfl, hy⟩) _
    (by
      intro xs hxs
      simp only [List.mem_cons, List.not_mem_nil, or_false] at hxs
      rcases hxs with rfl | rfl
      · exact ⟨[1, 0], [], rfl, rfl, by simp⟩
      · exact ⟨[0, 1], [[3, 4]], rfl, rfl, by simp [exPR]⟩)

end Examples

end InfernoVerif.Layer
