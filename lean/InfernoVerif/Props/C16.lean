import InfernoVerif.Lemmas.Hooks
import InfernoVerif.Lemmas.HooksReal
import Mathlib.Analysis.Normed.Lp.PiLp
/-!
# C16 — State hooks fire exactly when armed (part 1: the firing state machine)

Property theorems about `Model/Hooks.lean`; helper lemmas are in `Lemmas/Hooks.lean`.
Part 1 uses core Lean only.  All statements quantify over EVERY finite operation list
`ops` over {new hook, register, deregister, module.train/eval, module call, manual StateHook call
(force, ignore_mode), assign trainexec / evalexec, delete hook object}, any number of hooks, all
enable-flag combinations and pre / post / prepend placements, starting from the empty module.

The post-conditions of `Clamping` / `Normalization` over `ℝ` are in part 2 at the end.
-/
namespace InfernoVerif.Hooks

/-! ## Reachable states and refinement -/

theorem exec_append (s : State) (a b : List Op) : exec s (a ++ b) = exec (exec s a) b := by
  simp [exec, List.foldl_append]

theorem sexec_append (s : SState) (a b : List Op) : sexec s (a ++ b) = sexec (sexec s a) b := by
  simp [sexec, List.foldl_append]

/-- Every state reachable from a well-formed state is well formed. -/
theorem exec_wf (s : State) (w : WF s) (ops : List Op) : WF (exec s ops) := by
  induction ops generalizing s with
  | nil => exact w
  | cons op ops ih => exact ih _ (step_wf s w op)

/-- **no_dangling_handle** (invariant, every finite op sequence): in the state reached by ANY
operation list, each entry of the module's `_forward_pre_hooks` / `_forward_hooks` has a fresh
handle id, belongs to an alive hook object whose handle field is that id (`WF.pre_ok/post_ok`),
every handle stored in a hook object is in the dictionary, ids are pairwise distinct, and the
finaliser holds exactly the current handles (`WF.hook_ok`); so a module call never meets a
dead weak reference, and the dictionaries hold exactly one entry per registered, alive hook
configured for that position — nothing else. -/
theorem no_dangling_handle (ops : List Op) :
    let s := exec init ops
    WF s ∧
    (∀ e ∈ s.pre ++ s.post, ∃ hk, s.hooks[e.2]? = some hk ∧ hk.alive = true ∧ hk.registered = true) ∧
    (∃ evs, callTrace s = .trace evs) ∧
    s.pre.length = (sabs s).nHandles .pre ∧ s.post.length = (sabs s).nHandles .post := by
  intro s
  have w : WF s := exec_wf init init_wf ops
  refine ⟨w, ?_, ⟨_, (callTrace_spec s w).1⟩, dict_length s w .pre, dict_length s w .post⟩
  intro e he
  rcases List.mem_append.mp he with he | he
  · obtain ⟨_, k, h1, h2, h3⟩ := w.pre_ok e he
    exact ⟨k, h1, h2, by simp [Hook.registered, h3]⟩
  · obtain ⟨_, k, h1, h2, h3⟩ := w.post_ok e he
    exact ⟨k, h1, h2, by simp [Hook.registered, h3]⟩

/-- The code-shaped machine refines the specification machine on every finite operation
sequence: abstract states agree and every output agrees (a module-call trace is compared as
"how often did each hook run in each position"). -/
theorem run_refines (ops : List Op) (s : State) (w : WF s) :
    sabs (exec s ops) = sexec (sabs s) ops ∧ runAbs s ops = (srun (sabs s) ops).2 := by
  induction ops generalizing s with
  | nil => exact ⟨rfl, rfl⟩
  | cons op ops ih =>
    obtain ⟨h1, h2⟩ := step_refines s w op
    obtain ⟨i1, i2⟩ := ih _ (step_wf s w op)
    constructor
    · show sabs (exec (step s op).1 ops) = sexec (sstep (sabs s) op).1 ops
      rw [← h1]; exact i1
    · simp only [runAbs, srun]
      rw [h2, i2, h1]

theorem exec_refines (ops : List Op) : sabs (exec init ops) = sexec sinit ops :=
  (run_refines ops init init_wf).1

/-! ## The firing predicate -/

/-- **fires_iff**: after ANY operation list, a module call
* runs `forward` once, every pre-position hook event before it and every post-position event
  after it (`evs = pres ++ [fwd] ++ posts`, `pres` only `pre` events, `posts` only `post` events);
* runs hook `h` in position `p` exactly once if `h` is registered ∧ alive ∧ configured for `p`
  ∧ enabled for the module's current mode (`trainexec ∧ training ∨ evalexec ∧ ¬training`), and
  not at all otherwise;
* leaves the state unchanged. -/
theorem fires_iff (ops : List Op) :
    let s := exec init ops
    ∃ pres posts, step s .call = (s, .trace (pres ++ [Ev.fwd] ++ posts)) ∧
      (∀ ev ∈ pres, ∃ h, ev = Ev.hook h .pre) ∧ (∀ ev ∈ posts, ∃ h, ev = Ev.hook h .post) ∧
      (∀ h hk p, s.hooks[h]? = some hk →
        countEv (pres ++ [Ev.fwd] ++ posts) h p =
          if hk.registered = true ∧ hk.alive = true ∧ hk.cfg.has p = true ∧ hk.enabled s.training = true
          then 1 else 0) ∧
      (∀ h p, s.hooks[h]? = none → countEv (pres ++ [Ev.fwd] ++ posts) h p = 0) := by
  intro s
  have w : WF s := exec_wf init init_wf ops
  obtain ⟨h1, h2⟩ := callTrace_spec s w
  refine ⟨firedOf s s.pre .pre, firedOf s s.post .post, by simp [step, h1], ?_, ?_, ?_, ?_⟩
  · intro ev hev; simp only [firedOf, List.mem_map] at hev
    obtain ⟨e, _, rfl⟩ := hev; exact ⟨_, rfl⟩
  · intro ev hev; simp only [firedOf, List.mem_map] at hev
    obtain ⟨e, _, rfl⟩ := hev; exact ⟨_, rfl⟩
  · intro h hk p hh
    rw [h2 h p, hh]
    have e : hk.abs.fires s.training p =
        (hk.registered && hk.alive && hk.cfg.has p && hk.enabled s.training) := rfl
    simp only [e, b2n]
    by_cases hc : hk.registered = true ∧ hk.alive = true ∧ hk.cfg.has p = true ∧ hk.enabled s.training = true
    · rw [if_pos hc]; obtain ⟨a, b, c, d⟩ := hc; simp [a, b, c, d]
    · rw [if_neg hc, if_neg]; intro h'; apply hc
      simpa only [Bool.and_eq_true, and_assoc] using h'
  · intro h p hh
    rw [h2 h p, hh]

/-- **manual_call_rule**: after ANY operation list, calling an alive `StateHook` object by hand
runs its hook iff `(registered ∨ force) ∧ (ignore_mode ∨ enabled for the module's mode)`, and
changes nothing. -/
theorem manual_call_rule (ops : List Op) (h : Nat) (hk : Hook) (force ignoreMode : Bool) :
    let s := exec init ops
    s.hooks[h]? = some hk → hk.alive = true → hk.cfg.kind = .state →
    step s (.manual h force ignoreMode) =
      (s, .fired ((hk.registered || force) && (ignoreMode || hk.enabled s.training))) := by
  intro s hh hal hkind
  simp only [step, hh, hal, hkind, Bool.not_true, Bool.false_eq_true, if_false, Hook.enabled]
  cases hk.registered <;> cases force <;> cases ignoreMode <;> cases hk.trainexec <;>
    cases hk.evalexec <;> cases s.training <;> simp

/-! ## After deregistration / collection -/

theorem sexec_unregistered_stable (h : Nat) (ops : List Op) (hops : ∀ op ∈ ops, op ≠ .register h)
    (s : SState) (hP : ∀ hk, s.hooks[h]? = some hk → hk.registered = false) :
    ∀ hk, (sexec s ops).hooks[h]? = some hk → hk.registered = false := by
  induction ops generalizing s with
  | nil => exact hP
  | cons op ops ih =>
    exact ih (fun o ho => hops o (List.mem_cons_of_mem _ ho)) _
      (sstep_unregistered_stable s h op (hops op List.mem_cons_self) hP)

theorem sexec_dead_stable (h : Nat) (ops : List Op) (s : SState) (hlt : h < s.hooks.length)
    (hP : ∀ hk, s.hooks[h]? = some hk → hk.alive = false ∧ hk.registered = false) :
    h < (sexec s ops).hooks.length ∧
    ∀ hk, (sexec s ops).hooks[h]? = some hk → hk.alive = false ∧ hk.registered = false := by
  induction ops generalizing s with
  | nil => exact ⟨hlt, hP⟩
  | cons op ops ih =>
    obtain ⟨a, b⟩ := sstep_dead_stable s h op hlt hP
    exact ih _ a b

/-- what "never runs and leaves no handle" means in a state `s` for hook index `h` -/
def Silent (s : State) (h : Nat) : Prop :=
  (∀ e ∈ s.pre ++ s.post, e.2 ≠ h) ∧
  (∃ evs, (step s .call).2 = .trace evs ∧ ∀ p, countEv evs h p = 0) ∧
  (∀ ignoreMode, (step s (.manual h false ignoreMode)).2 ≠ .fired true)

theorem silent_of_unregistered (s : State) (w : WF s) (h : Nat)
    (hP : ∀ hk, s.hooks[h]? = some hk → hk.registered = false) : Silent s h := by
  refine ⟨?_, ⟨_, by simp only [step]; exact (callTrace_spec s w).1, ?_⟩, ?_⟩
  · intro e he hc
    rcases List.mem_append.mp he with he | he
    · obtain ⟨_, k, h1, _, h3⟩ := w.pre_ok e he
      rw [hc] at h1; have := hP k h1; simp [Hook.registered, h3] at this
    · obtain ⟨_, k, h1, _, h3⟩ := w.post_ok e he
      rw [hc] at h1; have := hP k h1; simp [Hook.registered, h3] at this
  · intro p
    rw [(callTrace_spec s w).2 h p]
    cases hh : s.hooks[h]? with
    | none => rfl
    | some hk => simp [SHook.fires, Hook.abs, hP hk hh, b2n]
  · intro g
    simp only [step]
    cases hh : s.hooks[h]? with
    | none => simp
    | some hk =>
      simp only
      split
      · simp
      · cases hk.cfg.kind <;> simp [hP hk hh]

/-- **after_deregister_never_runs**: take ANY history `ops₁`, then `deregister h`, then ANY
continuation `ops₂` that does not register `h` again (mode switches, calls, flag assignments,
registration of OTHER hooks, creation and deletion of hooks, …).  In the resulting state hook
`h` is unregistered, no entry of either hook dictionary refers to it, a module call does not run
it in any position, and a manual call without `force` does not run it. -/
theorem after_deregister_never_runs (ops₁ ops₂ : List Op) (h : Nat)
    (hops : ∀ op ∈ ops₂, op ≠ .register h) :
    let s := exec init (ops₁ ++ [.deregister h] ++ ops₂)
    (∀ hk, s.hooks[h]? = some hk → hk.registered = false) ∧ Silent s h := by
  intro s
  have w1 : WF (exec init ops₁) := exec_wf init init_wf ops₁
  have w2 : WF (exec init (ops₁ ++ [.deregister h])) := exec_wf init init_wf _
  have w : WF s := exec_wf init init_wf _
  -- right after the deregistration the specification state has `registered = false`
  have hmid : ∀ hk, (sabs (exec init (ops₁ ++ [.deregister h]))).hooks[h]? = some hk → hk.registered = false := by
    rw [exec_append]
    show ∀ hk, (sabs (step (exec init ops₁) (.deregister h)).1).hooks[h]? = some hk → _
    rw [(step_refines _ w1 _).1]
    intro hk hh
    simp only [sstep] at hh
    cases hi : (sabs (exec init ops₁)).hooks[h]? with
    | none => simp [hi] at hh
    | some k =>
      simp only [hi] at hh
      by_cases hal : k.alive = true
      · simp only [hal, Bool.not_true, Bool.false_eq_true, if_false] at hh
        have hlt := (List.getElem?_eq_some_iff.mp hi).1
        simp [ssetHook, hlt] at hh
        rw [← hh]
      · simp only [Bool.not_eq_true] at hal
        simp only [hal, Bool.not_false, if_true, hi] at hh
        cases hh
        -- a dead object: its handles are gone, hence unregistered
        rw [sabs_getElem?] at hi
        cases hk0 : (exec init ops₁).hooks[h]? with
        | none => simp [hk0] at hi
        | some k0 =>
          simp [hk0] at hi; subst hi
          have := dead_no_handles _ w1 h k0 hk0 hal
          simp [Hook.abs, Hook.registered, this.1, this.2]
  have hfin : ∀ hk, (sabs s).hooks[h]? = some hk → hk.registered = false := by
    show ∀ hk, (sabs (exec init (ops₁ ++ [.deregister h] ++ ops₂))).hooks[h]? = some hk → _
    rw [exec_append, (run_refines ops₂ _ w2).1]
    exact sexec_unregistered_stable h ops₂ hops _ hmid
  have hP : ∀ hk, s.hooks[h]? = some hk → hk.registered = false := by
    intro hk hh
    exact hfin hk.abs (by rw [sabs_getElem?, hh]; rfl)
  exact ⟨hP, silent_of_unregistered s w h hP⟩

/-- **after_gc_never_runs_and_no_handle**: take ANY history `ops₁` in which hook object `h`
exists, drop its last strong reference (`delete h`: the finaliser runs), then ANY continuation
`ops₂` whatsoever.  In the resulting state the object is still gone (it cannot be re-registered,
re-armed or called: those requests have no object to address), no entry of either hook
dictionary refers to it, and a module call does not run it in any position. -/
theorem after_gc_never_runs_and_no_handle (ops₁ ops₂ : List Op) (h : Nat)
    (hex : h < (exec init ops₁).hooks.length) :
    let s := exec init (ops₁ ++ [.delete h] ++ ops₂)
    (∃ hk, s.hooks[h]? = some hk ∧ hk.alive = false ∧ hk.preH = none ∧ hk.postH = none ∧ hk.fin = none) ∧
    Silent s h ∧
    (step s (.register h)).2 = .noref ∧ (∀ f g, (step s (.manual h f g)).2 = .noref) := by
  intro s
  have w1 : WF (exec init ops₁) := exec_wf init init_wf ops₁
  have w2 : WF (exec init (ops₁ ++ [.delete h])) := exec_wf init init_wf _
  have w : WF s := exec_wf init init_wf _
  have hmid : h < (sabs (exec init (ops₁ ++ [.delete h]))).hooks.length ∧
      ∀ hk, (sabs (exec init (ops₁ ++ [.delete h]))).hooks[h]? = some hk → hk.alive = false ∧ hk.registered = false := by
    rw [exec_append]
    show h < (sabs (step (exec init ops₁) (.delete h)).1).hooks.length ∧
      ∀ hk, (sabs (step (exec init ops₁) (.delete h)).1).hooks[h]? = some hk → _
    rw [(step_refines _ w1 _).1]
    have hlt : h < (sabs (exec init ops₁)).hooks.length := by simpa [sabs] using hex
    have hi : (sabs (exec init ops₁)).hooks[h]? = some (sabs (exec init ops₁)).hooks[h] :=
      List.getElem?_eq_getElem hlt
    simp only [sstep, hi]
    by_cases hal : ((sabs (exec init ops₁)).hooks[h]).alive = true
    · simp only [hal, Bool.not_true, Bool.false_eq_true, if_false]
      refine ⟨by simpa [ssetHook] using hlt, ?_⟩
      intro hk hh
      simp [ssetHook, hlt] at hh
      rw [← hh]; exact ⟨rfl, rfl⟩
    · simp only [Bool.not_eq_true] at hal
      simp only [hal, Bool.not_false, if_true]
      refine ⟨hlt, ?_⟩
      intro hk hh
      rw [hi] at hh; cases hh
      refine ⟨hal, ?_⟩
      have hk0 : (exec init ops₁).hooks[h]? = some (exec init ops₁).hooks[h] := List.getElem?_eq_getElem hex
      have hd : ((exec init ops₁).hooks[h]).alive = false := by simpa [sabs, Hook.abs] using hal
      have := dead_no_handles _ w1 h _ hk0 hd
      simp [sabs, Hook.abs, Hook.registered, this.1, this.2]
  have hfin : h < (sabs s).hooks.length ∧
      ∀ hk, (sabs s).hooks[h]? = some hk → hk.alive = false ∧ hk.registered = false := by
    show h < (sabs (exec init (ops₁ ++ [.delete h] ++ ops₂))).hooks.length ∧
      ∀ hk, (sabs (exec init (ops₁ ++ [.delete h] ++ ops₂))).hooks[h]? = some hk → _
    rw [exec_append, (run_refines ops₂ _ w2).1]
    exact sexec_dead_stable h ops₂ _ hmid.1 hmid.2
  have hlt : h < s.hooks.length := by simpa [sabs] using hfin.1
  have hh : s.hooks[h]? = some s.hooks[h] := List.getElem?_eq_getElem hlt
  have hd := hfin.2 (s.hooks[h]).abs (by rw [sabs_getElem?, hh]; rfl)
  have hdead : (s.hooks[h]).alive = false := hd.1
  have hno := dead_no_handles s w h _ hh hdead
  have hfinal : (s.hooks[h]).fin = none := by
    have := (w.hook_ok h _ hh).2.2.1
    simpa [Hook.registered, hno.1, hno.2] using this
  refine ⟨⟨_, hh, hdead, hno.1, hno.2, hfinal⟩, ?_, ?_, ?_⟩
  · apply silent_of_unregistered s w h
    intro hk hk'; rw [hh] at hk'; cases hk'
    simp [Hook.registered, hno.1, hno.2]
  · simp [step, hh, hdead]
  · intro f g; simp [step, hh, hdead]

/-- **register_twice_rejected**: after ANY history, registering an alive hook object and then
registering it again: the second request leaves the state untouched (so no second handle is
created) and answers as the code does — `RuntimeError` from `Hook.register`, silently ignored
by `StateHook.register`. -/
theorem register_twice_rejected (ops : List Op) (h : Nat) :
    let s := exec init (ops ++ [.register h])
    ∀ hk, s.hooks[h]? = some hk → hk.alive = true →
      hk.registered = true ∧
      step s (.register h) = (s, match hk.cfg.kind with | .plain => .err .RuntimeError | .state => .ok) := by
  intro s hk hh hal
  have w1 : WF (exec init ops) := exec_wf init init_wf ops
  have hreg : hk.registered = true := by
    have hs : (sabs s).hooks[h]? = some hk.abs := by rw [sabs_getElem?, hh]; rfl
    have e : sabs s = (sstep (sabs (exec init ops)) (.register h)).1 := by
      show sabs (exec init (ops ++ [.register h])) = _
      rw [exec_append]; exact (step_refines _ w1 _).1
    rw [e] at hs
    simp only [sstep] at hs
    cases hi : (sabs (exec init ops)).hooks[h]? with
    | none => simp [hi] at hs
    | some k =>
      have hlt := (List.getElem?_eq_some_iff.mp hi).1
      simp only [hi] at hs
      by_cases hka : k.alive = true
      · simp only [hka, Bool.not_true, Bool.false_eq_true, if_false] at hs
        by_cases hkr : k.registered = true
        · simp only [hkr, if_true] at hs
          have : k = hk.abs := by
            cases hkk : k.cfg.kind <;> (rw [hkk] at hs; simp only [hi] at hs; exact Option.some.inj hs)
          rw [this] at hkr; exact hkr
        · simp only [hkr, Bool.false_eq_true, if_false] at hs
          simp [ssetHook, hlt] at hs
          have : hk.abs.registered = true := by rw [← hs]
          exact this
      · simp only [Bool.not_eq_true] at hka
        simp only [hka, Bool.not_false, if_true, hi] at hs
        have : k = hk.abs := Option.some.inj hs
        rw [this] at hka
        have : hk.alive = false := hka
        rw [hal] at this; cases this
  refine ⟨hreg, ?_⟩
  simp only [step, hh, hal, hreg, Bool.not_true, Bool.false_eq_true, if_false, if_true]
  cases hk.cfg.kind <;> rfl

/-- registering changes the dictionaries as torch does: a new entry at the end, or at the
front with `prepend=True` (so that "position" includes the documented ordering hook). -/
theorem register_prepend_front (s : State) (i : Nat) (hk : Hook) (hc : hk.cfg.hasPre = true)
    (hp : hk.cfg.prependPre = true) :
    (registerHook s i hk).pre = (s.nextId, i) :: s.pre := by
  unfold registerHook
  cases hq : hk.cfg.hasPost <;> simp [hc, hp, setHook, insertHandle]

/-! ## Non-vacuity -/

def cfgA : Cfg := ⟨.plain, true, true, false, false⟩
def cfgB : Cfg := ⟨.state, false, true, false, true⟩
def cfgC : Cfg := ⟨.state, true, false, true, false⟩
def prog : List Op :=
  [.mk cfgA true true, .mk cfgB true false, .mk cfgC false true, .register 0, .register 1, .register 2]

-- three registered hooks; training mode: A fires pre and post, B (train only, post, prepended) fires, C (eval only) not
example : (step (exec init prog) .call).2 =
    .trace [.hook 0 .pre, .fwd, .hook 1 .post, .hook 0 .post] := by decide
example : (step (exec init (prog ++ [.setMode false])) .call).2 =
    .trace [.hook 2 .pre, .hook 0 .pre, .fwd, .hook 0 .post] := by decide
-- deleting B removes its handle; a second register of A is rejected, of C ignored
example : (exec init (prog ++ [.delete 1])).post = [(1, 0)] := by decide
example : (step (exec init prog) (.register 0)).2 = .err .RuntimeError := by decide
example : (step (exec init prog) (.register 2)).2 = .ok := by decide
example : (step (exec init (prog ++ [.deregister 2])) (.manual 2 true true)).2 = .fired true := by decide
example : (step (exec init (prog ++ [.deregister 2])) (.manual 2 false true)).2 = .fired false := by decide
example : 1 < (exec init prog).hooks.length := by decide

end InfernoVerif.Hooks

/-! # Part 2 — post-conditions of `Clamping` and `Normalization` over `ℝ`

`clampG` and `normalizeG` are the definitions of `Model/Hooks.lean` (the ones the driver executes
on `Float`), read over the reals through `realOps` (`Lemmas/HooksReal.lean`).  Vectors are
arbitrary finite lists (one fibre along the chosen dimensions). -/
namespace InfernoVerif.Hooks
open Real

/-- **clamp_post** (generic): with `min ≤ max`, the clamped value lies in `[min, max]`. -/
theorem clamp_post_linear {α : Type} [LinearOrder α] (lo hi x : α) (h : lo ≤ hi) :
    lo ≤ clampG (some lo) (some hi) x ∧ clampG (some lo) (some hi) x ≤ hi := by
  simp only [clampG]
  exact ⟨le_min le_sup_right h, min_le_right _ _⟩

theorem clamp_post (lo hi x : ℝ) (h : lo ≤ hi) :
    lo ≤ clampG (some lo) (some hi) x ∧ clampG (some lo) (some hi) x ≤ hi :=
  clamp_post_linear lo hi x h

theorem clamp_post_min_only (lo x : ℝ) : lo ≤ clampG (some lo) none x := by
  simp only [clampG]; exact le_max_right _ _

theorem clamp_post_max_only (hi x : ℝ) : clampG none (some hi) x ≤ hi := by
  simp only [clampG]; exact min_le_right _ _

theorem clamp_inside_unchanged (lo hi x : ℝ) (h1 : lo ≤ x) (h2 : x ≤ hi) :
    clampG (some lo) (some hi) x = x := by
  simp only [clampG]; rw [max_eq_left h1, min_eq_left h2]

/-- **normalize_post** (every real order `p ≠ 0`, in particular every `p ≥ 1` and the
quasi-norms `0 < p < 1`; every finite vector; every scale): if the `p`-norm of `x` is positive
and at least `eps` (so that `max(‖x‖_p, eps) = ‖x‖_p` and nothing is divided by zero), then the
`p`-norm of `scale * x / max(‖x‖_p, eps)` equals `|scale|`. -/
theorem normalize_post (p : ℝ) (hp : p ≠ 0) (scale eps : ℝ) (xs : List ℝ)
    (hpos : 0 < pnormG realOps (.fin p) xs) (heps : eps ≤ pnormG realOps (.fin p) xs) :
    pnormG realOps (.fin p) (normalizeG realOps (.fin p) scale eps xs) = |scale| := by
  set n := pnormG realOps (.fin p) xs with hn
  have hd : realOps.max n eps = n := max_eq_left heps
  have : normalizeG realOps (.fin p) scale eps xs = xs.map (fun x => scale * (x / n)) := by
    simp only [normalizeG, ← hn, hd]; rfl
  rw [this, pnorm_fin_smul p (|scale| / n) (div_nonneg (abs_nonneg _) hpos.le) hp xs _ ?_, ← hn]
  · field_simp
  · intro x; rw [abs_mul, abs_div, abs_of_pos hpos]; ring

/-- **normalize_zero**: with `eps > 0` (the constructor default is `1e-12`; with `eps = 0` the code
computes `0/0`) the denominator is positive on EVERY input, and a zero vector stays zero.
Holds for every order, including `inf`. -/
theorem normalize_zero (p : Order ℝ) (scale eps : ℝ) (heps : 0 < eps) (xs : List ℝ)
    (hz : ∀ x ∈ xs, x = 0) :
    0 < realOps.max (pnormG realOps p xs) eps ∧ ∀ y ∈ normalizeG realOps p scale eps xs, y = 0 := by
  refine ⟨lt_of_lt_of_le heps (le_max_right _ _), ?_⟩
  intro y hy
  simp only [normalizeG, List.mem_map] at hy
  obtain ⟨x, hx, rfl⟩ := hy
  rw [hz x hx]
  show scale * (0 / _) = 0
  simp

/-- `p = 1`: the absolute values of the normalised vector sum to `|scale|`. -/
theorem normalize_post_l1 (scale eps : ℝ) (xs : List ℝ)
    (hpos : 0 < (xs.map fun x => |x|).sum) (heps : eps ≤ (xs.map fun x => |x|).sum) :
    ((normalizeG realOps (.fin 1) scale eps xs).map fun y => |y|).sum = |scale| := by
  rw [← pnorm_one] at hpos heps ⊢
  exact normalize_post 1 one_ne_zero scale eps xs hpos heps

/-- `p = 2`: the Euclidean length of the normalised vector is `|scale|`. -/
theorem normalize_post_l2 (scale eps : ℝ) (xs : List ℝ)
    (hpos : 0 < √((xs.map fun x => x ^ 2).sum)) (heps : eps ≤ √((xs.map fun x => x ^ 2).sum)) :
    √(((normalizeG realOps (.fin 2) scale eps xs).map fun y => y ^ 2).sum) = |scale| := by
  rw [← pnorm_two] at hpos heps ⊢
  exact normalize_post 2 two_ne_zero scale eps xs hpos heps

/-- **normalize_post** for the maximum norm (`order = inf`). -/
theorem normalize_post_inf (scale eps : ℝ) (xs : List ℝ)
    (hpos : 0 < pnormG realOps .inf xs) (heps : eps ≤ pnormG realOps .inf xs) :
    pnormG realOps .inf (normalizeG realOps .inf scale eps xs) = |scale| := by
  set n := pnormG realOps .inf xs with hn
  have hd : realOps.max n eps = n := max_eq_left heps
  have : normalizeG realOps .inf scale eps xs = xs.map (fun x => scale * (x / n)) := by
    simp only [normalizeG, ← hn, hd]; rfl
  rw [this, pnorm_inf_smul (|scale| / n) (div_nonneg (abs_nonneg _) hpos.le) xs _ ?_, ← hn]
  · field_simp
  · intro x; rw [abs_mul, abs_div, abs_of_pos hpos]; ring

/-- between the two cases of the property (`0 < ‖x‖_p < eps`) the result has norm
`|scale|·‖x‖_p/eps`, strictly below `|scale|` — stated so that the gap is explicit. -/
theorem normalize_small (p : ℝ) (hp : p ≠ 0) (scale eps : ℝ) (xs : List ℝ) (heps : 0 < eps)
    (hsmall : pnormG realOps (.fin p) xs ≤ eps) :
    pnormG realOps (.fin p) (normalizeG realOps (.fin p) scale eps xs) =
      |scale| * pnormG realOps (.fin p) xs / eps := by
  have hd : realOps.max (pnormG realOps (.fin p) xs) eps = eps := max_eq_right hsmall
  have : normalizeG realOps (.fin p) scale eps xs = xs.map (fun x => scale * (x / eps)) := by
    simp only [normalizeG, hd]; rfl
  rw [this, pnorm_fin_smul p (|scale| / eps) (div_nonneg (abs_nonneg _) heps.le) hp xs _ ?_]
  · ring
  · intro x; rw [abs_mul, abs_div, abs_of_pos heps]; ring

/-- for `p ≥ 1` (indeed `p > 0`) the model's norm of a finite vector IS Mathlib's `L^p` norm on
`PiLp p (Fin n → ℝ)` -/
theorem pnorm_eq_piLp_norm {n : ℕ} (p : ℝ) (hp : 0 < p) (f : Fin n → ℝ) :
    pnormG realOps (.fin p) (List.ofFn f) =
      ‖(WithLp.toLp (ENNReal.ofReal p) f : PiLp (ENNReal.ofReal p) fun _ : Fin n => ℝ)‖ := by
  have h1 : (ENNReal.ofReal p).toReal = p := ENNReal.toReal_ofReal hp.le
  rw [PiLp.norm_eq_sum (by rw [h1]; exact hp), h1, pnorm_fin, List.map_ofFn, List.sum_ofFn]
  simp [Real.norm_eq_abs]

/-- `normalize_post` phrased with Mathlib's `L^p` norm: for `p ≥ 1` and a vector `f : Fin n → ℝ`
whose `L^p` norm is positive and at least `eps`, the normalised vector has `L^p` norm `|scale|`. -/
theorem normalize_post_piLp {n : ℕ} (p : ℝ) (hp : 1 ≤ p) (scale eps : ℝ) (f : Fin n → ℝ)
    (hpos : 0 < ‖(WithLp.toLp (ENNReal.ofReal p) f : PiLp (ENNReal.ofReal p) fun _ : Fin n => ℝ)‖)
    (heps : eps ≤ ‖(WithLp.toLp (ENNReal.ofReal p) f : PiLp (ENNReal.ofReal p) fun _ : Fin n => ℝ)‖) :
    pnormG realOps (.fin p) (normalizeG realOps (.fin p) scale eps (List.ofFn f)) = |scale| := by
  have h0 : 0 < p := lt_of_lt_of_le one_pos hp
  rw [← pnorm_eq_piLp_norm p h0] at hpos heps
  exact normalize_post p h0.ne' scale eps _ hpos heps

/-! ## Non-vacuity (concrete vectors meeting the hypotheses) -/

example : clampG (some (-1 : ℝ)) (some 2) 5 = 2 := by norm_num [clampG]
example : clampG (some (-1 : ℝ)) (some 2) (-3) = -1 := by norm_num [clampG]
-- [3, -4] has 1-norm 7 > 0 ≥ eps, 2-norm 5
example : (0 : ℝ) < (([3, -4] : List ℝ).map fun x => |x|).sum := by norm_num
example : (([3, -4] : List ℝ).map fun x => |x|).sum = 7 := by norm_num [abs_of_neg]

end InfernoVerif.Hooks
