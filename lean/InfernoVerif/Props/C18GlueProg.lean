import InfernoVerif.Gen.DelaySTDPProg
import InfernoVerif.Model.DelaySTDP
import InfernoVerif.Model.Split
/-!
# Glue: the per-weight model of the delay-adjusted, kernel and homeostasis trainers IS the `forward` bodies in /repo

`Gen/DelaySTDPProg.lean` is regenerated on every run by `harness/progtx_delaystdp.py` from the WHOLE bodies of
`DelayAdjustedSTDP.forward`, `DelayAdjustedSTDPD.forward`, `DelayAdjustedMSTDP.forward`, `DelayAdjustedMSTDPD.forward`,
`KernelSTDP.forward`, `DelayAdjustedKernelSTDP.forward`, `DelayAdjustedKernelSTDPD.forward` and
`LinearHomeostasis.forward`: the loop over the units with its gates, which monitors are read and how, which receptive
reshape is applied to which, the operand order and the `unsqueeze` of `t_pre - t_post - delay.unsqueeze(-1)`, every tensor
operation of the partial updates, `nansum(-1)`, `state.batchreduce(·, 0)`, the reward scaling, the kernel calls with
their keyword dictionaries, the routing tables and the attribute of `cell.updater` that receives the pair.  Python /
torch primitives are the functions of `Gen/DelaySTDPPrelude.lean` (everything is seen at ONE position of the trained
parameter, as in the models).

The theorems `gen_*_forward` state that running the regenerated program on a trainer whose active units satisfy the
abstraction hypotheses succeeds and leaves every unit untouched except that, for each ACTIVE unit (cell and trainer in
training mode, the cell has an updater, and — for the trainers with a `cells` argument — the unit's name is selected),
`cell.updater.<p> = v` has been executed once, with `p` the documented attribute and `v` EXACTLY the function of the
hand-written models the theorems of `Props/C18.lean` / `Props/C09.lean` are about:
`daStep`, `dadStep`, `damScalar` / `damTensor`, `damdScalar` / `damdTensor`, `kStep`, `dakStep` (`Model/DelaySTDP.lean`, each
unit with ITS OWN hyperparameters, delay and spike trains) and `Split.kernel_split`, `Split.homeostasis_split`
(`Model/Split.lean`).  A changed monitor name, a swapped pre / post reshape or operand, a dropped delay term or
`unsqueeze`, a rate or time constant on the wrong branch, a flipped sign test, a dropped `abs`, kernel keyword arguments
handed to the other kernel, a wrong updater attribute … changes the generated text and the corresponding theorem stops
checking.

What the abstraction adds / assumes (nothing is papered over):
* **One parameter position; `lift`.**  The models describe one weight by the spike trains `bt : List (List Syn)` of its
  receptive field per batch sample.  `DAAbs` / `KAbs` assume that the value of the two spike-time monitors, pushed
  through the connection's receptive reshapes and read at the position, is the `EventReducer` fold `sinceLast` of those
  trains (`none` = `NaN`).  That the reducer computes this fold is C07 / `Props/C18.lean :: event_time_eq`; that the
  reshapes address the right neurons is C05.  The hypotheses name the monitor (`"spike_post"`, `"spike_pre"`) and the
  reshape (`postsyn_receptive`, `presyn_receptive`) — reading the other one does not satisfy them.
* **`KernelSTDP` in delayed mode** reads `monitors["spike_pre"].view(selector, tolerance)`; the model `kStep` knows "no
  delays in effect" only.  `KUAbs.pre` is stated about the value the body actually reads (the `view` when
  `state.delayed and cell.connection.delayedby`, else `peek()`), so the theorem covers both modes, but WHAT `view` returns
  in delayed mode is not modelled here (C04 / C07).
* **Half kernels are point-wise and `NaN`-preserving** when called with the keyword dictionary
  `state.kernel_<x>_kwargs | dict(state.kernel_<x>_tensor_kwargs.named_buffers())` (`KAbs.kpost` / `kpre`): the model's
  kernels are functions `ℝ → ℝ` applied under `Option.map`.  The shipped exponential kernels are of this form.
* **The batch reduction is `torch.sum` / `torch.mean`** (`red : state.batchreduce = reduce r`) for the theorems about
  `Model/DelaySTDP.lean`; the `Split` theorems (`gen_kernel_parts_split`, `gen_homeostasis_forward`) hold for any reduction.
* **A per-sample reward has one entry per batch sample** (`sig.length = bt.length`), otherwise torch raises.
* **`LinearHomeostasis`**: the model (`Split.homeostasis_split`) starts from the per-sample factor `k`;
  `gen_homeostasis_forward` says `k` is `mean(dim=-1)` of the receptive reshape of `(target - rate) / target` (arithmetic
  on tensors in the neuron's layout is abstract: `NTOps`), scaled by `plasticity` (`-plasticity` for delays), split WITHOUT
  negating the second part (the known finding D9).  `target` is a local of `forward` that the loop REBINDS
  (`target = state.target`): `gen_homeostasis_target_carried` proves what the code does — when `forward(None)` is called,
  the default of the FIRST trained unit is used for every later unit too, whatever their own `state.target` is.
* **Exceptions** do not keep the state (nothing is claimed about the objects after a raise); `gen_*_forward` are about
  runs in which the hypotheses exclude every raise.  Units own distinct cells.
-/
set_option linter.unusedVariables false
set_option linter.unusedSimpArgs false
set_option linter.unusedSectionVars false
namespace InfernoVerif.DSTDP.GlueProg
open InfernoVerif.DSTDP.R InfernoVerif.STDP.R InfernoVerif.Gen.DelaySTDPPrelude InfernoVerif.Gen.DelaySTDPProg
open Classical

/-- `math.exp` / `torch.exp` and `abs` at `ℝ` (the models' `exp`, `absT`) -/
noncomputable instance instTorchFnReal : TorchFn ℝ := ⟨Real.exp, fun x => |x|⟩

variable {ν κ ε σ γ : Type}

/-! ### receptive-format tensors built from the spike trains of a weight -/

/-- the receptive-format tensor whose value at (batch sample, receptive element) is `g` of that element's pair of
spike trains -/
def lift (bt : List (List Syn)) (g : Syn → ε) : Rec ε := bt.map (·.map g)

theorem zipWith_map_same {α β γ δ : Type} (f : β → γ → δ) (g : α → β) (h : α → γ) (l : List α) :
    List.zipWith f (l.map g) (l.map h) = l.map (fun x => f (g x) (h x)) := by
  induction l <;> simp_all

/-- an element-wise binary operation of two lifted tensors succeeds (equal shapes) and is the lifted operation -/
theorem recZip_lift (f : ε → ε → ε) (bt : List (List Syn)) (g h : Syn → ε) :
    recZip f (lift bt g) (lift bt h) = .ok (lift bt fun s => f (g s) (h s)) := by
  unfold recZip lift
  rw [if_pos (by simp [List.map_map, Function.comp_def])]
  congr 1
  rw [zipWith_map_same]
  apply List.map_congr_left
  intro f _
  rw [zipWith_map_same]

theorem map2_lift {β : Type} (bt : List (List Syn)) (g : Syn → ε) (f : ε → β) :
    (lift bt g).map (·.map f) = lift bt (fun s => f (g s)) := by
  simp [lift, List.map_map, Function.comp_def]

/-- `t_pre - t_post - delay.unsqueeze(-1)` on the lifted event times is the lifted `tDelta` of the model -/
theorem tdelta_lift (dt d : ℝ) (bt : List (List Syn)) (t : ℕ) :
    recSubParamU (lift bt fun s => obin (· - ·) (sinceLast dt s.pre t) (sinceLast dt s.post t)) ⟨d⟩
      = lift bt (fun s => tDelta dt s d t) := by
  unfold recSubParamU
  rw [map2_lift]
  congr 1
  funext s
  unfold tDelta
  cases sinceLast dt s.pre t <;> cases sinceLast dt s.post t <;> rfl

/-- `t_pre - t_post` (no delay term) is the lifted `tDeltaU` -/
theorem tdeltaU_lift (dt : ℝ) (bt : List (List Syn)) (t : ℕ) :
    (lift bt fun s => obin (· - ·) (sinceLast dt s.pre t) (sinceLast dt s.post t))
      = lift bt (fun s => tDeltaU dt s t) := by
  congr 1
  funext s
  unfold tDeltaU
  cases sinceLast dt s.pre t <;> cases sinceLast dt s.post t <;> rfl

/-- `torch.exp(t_delta_abs / (-tc)) * (abs(lr) * (t_delta >= 0).to(dtype=…))` on a lifted `t_delta` -/
theorem term_ge_lift (bt : List (List Syn)) (td : Syn → Option ℝ) (tc lr : ℝ) :
    recMul (torchExp (recDivScalar (recAbs (lift bt td)) (-tc)))
        (scalarMulRec (TorchFn.abs lr) (recBoolTo (recGe0 (lift bt td))))
      = .ok (lift bt fun s => (td s).map fun x => exp (absT x / (-tc)) * (absT lr * (if x ≥ 0 then 1 else 0))) := by
  unfold recMul torchExp recDivScalar recAbs scalarMulRec recBoolTo recGe0
  simp only [map2_lift, recZip_lift]
  congr 2
  funext s
  cases td s with
  | none => rfl
  | some x => simp only [Option.map_some, obin, decide_eq_true_eq]; rfl

/-- `torch.exp(t_delta_abs / (-tc)) * (abs(lr) * (t_delta < 0).to(dtype=…))` on a lifted `t_delta` -/
theorem term_lt_lift (bt : List (List Syn)) (td : Syn → Option ℝ) (tc lr : ℝ) :
    recMul (torchExp (recDivScalar (recAbs (lift bt td)) (-tc)))
        (scalarMulRec (TorchFn.abs lr) (recBoolTo (recLt0 (lift bt td))))
      = .ok (lift bt fun s => (td s).map fun x => exp (absT x / (-tc)) * (absT lr * (if x < 0 then 1 else 0))) := by
  unfold recMul torchExp recDivScalar recAbs scalarMulRec recBoolTo recLt0
  simp only [map2_lift, recZip_lift]
  congr 2
  funext s
  cases td s with
  | none => rfl
  | some x => simp only [Option.map_some, obin, decide_eq_true_eq]; rfl

/-- `x.nansum(-1)` of a lifted tensor: the model's per-sample `nansum` over the receptive field -/
theorem nansum_lift (bt : List (List Syn)) (g : Syn → Option ℝ) :
    recNansumLast (lift bt g) = bt.map fun f => nansum (f.map g) := by
  simp only [recNansumLast, lift, List.map_map]
  rfl

/-- `state.batchreduce(x.nansum(-1), 0)` of a lifted tensor -/
theorem reduce_nansum_lift (r : Red) (bt : List (List Syn)) (g : Syn → Option ℝ) :
    callReduce0 (reduce r) (recNansumLast (lift bt g)) = reduce r (bt.map fun f => nansum (f.map g)) := by
  rw [nansum_lift]; rfl

/-- the models' clamps (`if x < 0 then 0 else x`) are the prelude's (`max x 0` / `min x 0`, as in `Gen/Routes.lean`) -/
theorem clamps_eq (x : ℝ) : Split.clamp_min0 x = clampMin0 x ∧ Split.clamp_max0 x = clampMax0 x := by
  unfold clampMin0 clampMax0 Split.clamp_min0 Split.clamp_max0
  constructor
  · split_ifs with h
    · exact max_eq_right (le_of_lt h)
    · exact max_eq_left (not_lt.mp h)
  · split_ifs with h
    · exact min_eq_right (le_of_lt h)
    · exact min_eq_left (not_lt.mp h)

/-! ### the loop over the units -/
section Loop
variable {α : Type}

/-- a loop whose body maps every unit `u` to `g u` and leaves the loop-carried locals `c` alone -/
theorem forUnitsAux_ok (self : Trainer σ α ε ν) (c : γ)
    (body : Trainer σ α ε ν → γ → String → Cell α ε ν → σ → List (String × Monitor α ν) → Except Err (Cell α ε ν × γ))
    (g : TUnit σ α ε ν → Cell α ε ν) (us : List (TUnit σ α ε ν))
    (h : ∀ u ∈ us, body self c u.name u.cell u.state u.monitors = .ok (g u, c)) :
    forUnitsAux self body us c = .ok (us.map fun u => { u with cell := g u }, c) := by
  induction us with
  | nil => rfl
  | cons u us ih =>
    simp only [forUnitsAux, h u (by simp), ih (fun v hv => h v (by simp [hv])), List.map_cons]

theorem forNamedUnits_ok (self : Trainer σ α ε ν) (c : γ)
    (body : Trainer σ α ε ν → γ → String → Cell α ε ν → σ → List (String × Monitor α ν) → Except Err (Cell α ε ν × γ))
    (g : TUnit σ α ε ν → Cell α ε ν)
    (h : ∀ u ∈ self.units, body self c u.name u.cell u.state u.monitors = .ok (g u, c)) :
    forNamedUnits self c body = .ok ({ self with units := self.units.map fun u => { u with cell := g u } }, c) := by
  unfold forNamedUnits
  rw [forUnitsAux_ok self c body g self.units h]

theorem forUnits_ok (self : Trainer σ α ε ν) (c : γ)
    (body : Trainer σ α ε ν → γ → Cell α ε ν → σ → List (String × Monitor α ν) → Except Err (Cell α ε ν × γ))
    (g : TUnit σ α ε ν → Cell α ε ν)
    (h : ∀ u ∈ self.units, body self c u.cell u.state u.monitors = .ok (g u, c)) :
    forUnits self c body = .ok ({ self with units := self.units.map fun u => { u with cell := g u } }, c) := by
  unfold forUnits
  exact forNamedUnits_ok self c _ g h

/-- the gate `not cell.training or not self.training or not cell.updater` is open: the unit is trained in this call -/
def active (self : Trainer σ α ε ν) (u : TUnit σ α ε ν) : Bool :=
  u.cell.training && self.training && u.cell.updater.isSome

/-- the gate `cells is not None and name not in cells` is open -/
def selected (cells : Option (List String)) (u : TUnit σ α ε ν) : Bool :=
  match cells with
  | some cs => cs.contains u.name
  | none => true

/-- the cell after `cell.updater.<p> = v` -/
def assign (cell : Cell α ε ν) (pv : String × Split.Parts α) : Cell α ε ν :=
  { cell with updater := cell.updater.map (· ++ [pv]) }

/-- the trainer after a `forward` that executes `cell.updater.<(f u).1> = (f u).2` once for every unit with `act u`
and touches nothing else -/
def stepped (self : Trainer σ α ε ν) (act : TUnit σ α ε ν → Bool) (f : TUnit σ α ε ν → String × Split.Parts α) :
    Trainer σ α ε ν :=
  { self with units := self.units.map fun u => { u with cell := if act u then assign u.cell (f u) else u.cell } }

theorem gate_eq (self : Trainer σ α ε ν) (u : TUnit σ α ε ν) :
    ((!u.cell.training) || (!self.training) || (!u.cell.updater.isSome)) = !active self u := by
  unfold active
  cases u.cell.training <;> cases self.training <;> cases u.cell.updater.isSome <;> rfl

theorem cells_gate_eq (cells : Option (List String)) (u : TUnit σ α ε ν) :
    (match cells with | some cells => (!(strIn u.name cells)) | none => false) = !selected cells u := by
  unfold selected strIn
  cases cells <;> rfl

theorem setattr_active (self : Trainer σ α ε ν) (u : TUnit σ α ε ν) (ha : active self u = true) (p : String)
    (v : Split.Parts α) : updater_setattr u.cell p v = .ok (assign u.cell (p, v)) := by
  unfold active at ha
  unfold updater_setattr assign
  cases hu : u.cell.updater with
  | none => simp [hu] at ha
  | some log => rfl

end Loop

/-! ### `DelayAdjustedSTDP.forward`, `DelayAdjustedSTDPD.forward` -/

/-- what the abstraction assumes of an active unit of a delay-adjusted trainer: the two spike-time monitors exist under
the names the trainer registers them with; their current values (`peek()`), pushed through the connection's
`postsyn_receptive` / `presyn_receptive` and read at the parameter position, are the `EventReducer` folds of the spike
trains of `bt`; the connection has a learned delay `d` at the position; the auxiliary state holds the hyperparameters of
`c` and the batch reduction `r` -/
structure DAAbs (u : TUnit (DAState ℝ) ℝ (Option ℝ) ν) (c : DCfg) (r : Red) (d : ℝ) (bt : List (List Syn)) (t : ℕ) :
    Prop where
  post : ∃ m, getitem u.monitors "spike_post" = .ok m ∧
    u.cell.connection.postsyn_receptive m.peek = lift bt (fun s => sinceLast c.dt s.post t)
  pre : ∃ m, getitem u.monitors "spike_pre" = .ok m ∧
    u.cell.connection.presyn_receptive m.peek = lift bt (fun s => sinceLast c.dt s.pre t)
  delay : u.cell.connection.delay = some d
  lr_pos : u.state.lr_pos = c.lrPos
  lr_neg : u.state.lr_neg = c.lrNeg
  tc_pos : u.state.tc_pos = c.tcPos
  tc_neg : u.state.tc_neg = c.tcNeg
  red : u.state.batchreduce = reduce r

/-- a unit of a delay-adjusted trainer -/
abbrev DAUnit (ν : Type) := TUnit (DAState ℝ) ℝ (Option ℝ) ν

/-- **`DelayAdjustedSTDP.forward`**: every active unit gets `cell.updater.weight = daStep …` (its own hyperparameters,
delay and spike trains; all four sign modes, `torch.sum` / `torch.mean`), nothing else changes -/
theorem gen_da_forward (self : Trainer (DAState ℝ) ℝ (Option ℝ) ν)
    (c : DAUnit ν → DCfg) (r : DAUnit ν → Red) (d : DAUnit ν → ℝ) (bt : DAUnit ν → List (List Syn)) (t : ℕ)
    (h : ∀ u ∈ self.units, active self u = true → DAAbs u (c u) (r u) (d u) (bt u) t) :
    DelayAdjustedSTDP_forward self
      = .ok (stepped self (active self) (fun u => ("weight", daStep (c u) (r u) (d u) (bt u) t)), ()) := by
  unfold DelayAdjustedSTDP_forward
  rw [forUnits_ok self () _ (fun u => if active self u then
      assign u.cell ("weight", daStep (c u) (r u) (d u) (bt u) t) else u.cell)]
  · rfl
  · intro u hu
    rw [gate_eq]
    cases ha : active self u with
    | false => rfl
    | true =>
      obtain ⟨⟨mpost, hm1, hp1⟩, ⟨mpre, hm2, hp2⟩, hd, h1, h2, h3, h4, h5⟩ := h u hu ha
      simp only [Bool.not_true, Bool.false_eq_true, if_false, if_true, hm1, hm2, hp1, hp2, hd, bind, Except.bind,
        recSub, recZip_lift, unsqueezeLast, tdelta_lift, term_ge_lift, term_lt_lift, h5, reduce_nansum_lift,
        h1, h2, h3, h4]
      unfold daStep partial_ daPosTerm daNegTerm
      cases decide ((c u).lrPos ≥ 0) <;> cases decide ((c u).lrNeg ≥ 0) <;>
        simp only [setattr_active self u ha, route, pure, Except.pure]

/-- **`DelayAdjustedSTDPD.forward`**: every active unit gets `cell.updater.delay = dadStep …` (the causal branch carries
`lr_neg`, `tc_neg`; subject `(lr_neg < 0, lr_pos < 0)`) -/
theorem gen_dad_forward (self : Trainer (DAState ℝ) ℝ (Option ℝ) ν)
    (c : DAUnit ν → DCfg) (r : DAUnit ν → Red) (d : DAUnit ν → ℝ) (bt : DAUnit ν → List (List Syn)) (t : ℕ)
    (h : ∀ u ∈ self.units, active self u = true → DAAbs u (c u) (r u) (d u) (bt u) t) :
    DelayAdjustedSTDPD_forward self
      = .ok (stepped self (active self) (fun u => ("delay", dadStep (c u) (r u) (d u) (bt u) t)), ()) := by
  unfold DelayAdjustedSTDPD_forward
  rw [forUnits_ok self () _ (fun u => if active self u then
      assign u.cell ("delay", dadStep (c u) (r u) (d u) (bt u) t) else u.cell)]
  · rfl
  · intro u hu
    rw [gate_eq]
    cases ha : active self u with
    | false => rfl
    | true =>
      obtain ⟨⟨mpost, hm1, hp1⟩, ⟨mpre, hm2, hp2⟩, hd, h1, h2, h3, h4, h5⟩ := h u hu ha
      simp only [Bool.not_true, Bool.false_eq_true, if_false, if_true, hm1, hm2, hp1, hp2, hd, bind, Except.bind,
        recSub, recZip_lift, unsqueezeLast, tdelta_lift, term_ge_lift, term_lt_lift, h5, reduce_nansum_lift,
        h1, h2, h3, h4]
      unfold dadStep partial_ dadPosTerm dadNegTerm
      cases decide ((c u).lrNeg < 0) <;> cases decide ((c u).lrPos < 0) <;>
        simp only [setattr_active self u ha, routeD, pure, Except.pure]

/-! ### the kernel trainers -/

/-- a unit of a kernel trainer -/
abbrev KUnit (ν κ : Type) := TUnit (KState ℝ κ) ℝ (Option ℝ) ν

/-- the keyword dictionary `kernel_post` is called with:
`state.kernel_post_kwargs | {k: v for k, v in state.kernel_post_tensor_kwargs.named_buffers()}` -/
def postKw (u : KUnit ν κ) : List (String × κ) :=
  dictUnion u.state.kernel_post_kwargs (dictOfPairs u.state.kernel_post_tensor_kwargs.named_buffers)

/-- the keyword dictionary `kernel_pre` is called with (the PRE dictionaries) -/
def preKw (u : KUnit ν κ) : List (String × κ) :=
  dictUnion u.state.kernel_pre_kwargs (dictOfPairs u.state.kernel_pre_tensor_kwargs.named_buffers)

/-- a half kernel `ℝ → ℝ` of the model as a function of receptive-format tensors: point-wise, `NaN` stays `NaN` -/
def pointwise (k : ℝ → ℝ) (X : Rec (Option ℝ)) : Rec (Option ℝ) := X.map (·.map (·.map k))

theorem pointwise_lift (k : ℝ → ℝ) (bt : List (List Syn)) (td : Syn → Option ℝ) :
    pointwise k (lift bt td) = lift bt (fun s => (td s).map k) := by
  unfold pointwise; rw [map2_lift]

theorem clampMin_lift (bt : List (List Syn)) (td : Syn → Option ℝ) (k : ℝ → ℝ) :
    recClampMin0 (lift bt fun s => (td s).map k) = lift bt fun s => (td s).map fun x => clampMin0 (k x) := by
  unfold recClampMin0; rw [map2_lift]; congr 1; funext s
  cases td s <;> simp [(clamps_eq _).1]

theorem clampMax_lift (bt : List (List Syn)) (td : Syn → Option ℝ) (k : ℝ → ℝ) :
    recClampMax0 (lift bt fun s => (td s).map k) = lift bt fun s => (td s).map fun x => clampMax0 (k x) := by
  unfold recClampMax0; rw [map2_lift]; congr 1; funext s
  cases td s <;> simp [(clamps_eq _).2]

/-- the pair the three kernel trainers assign, on lifted kernel outputs, is the model's `kernelSplit` -/
theorem kernel_parts_lift (r : Red) (bt : List (List Syn)) (td : Syn → Option ℝ) (kpost kpre : ℝ → ℝ) :
    ((some ((callReduce0 (reduce r) (recNansumLast (recClampMin0 (lift bt fun s => (td s).map kpost))))
        + (callReduce0 (reduce r) (recNansumLast (recClampMin0 (lift bt fun s => (td s).map kpre))))),
      some (-((callReduce0 (reduce r) (recNansumLast (recClampMax0 (lift bt fun s => (td s).map kpost))))
        + (callReduce0 (reduce r) (recNansumLast (recClampMax0 (lift bt fun s => (td s).map kpre))))))) :
        Split.Parts ℝ)
      = kernelSplit r kpost kpre td bt := by
  simp only [clampMin_lift, clampMax_lift, reduce_nansum_lift]
  rfl

/-- what the abstraction assumes of an active unit of a delay-adjusted kernel trainer: monitors, reshapes and delay as
in `DAAbs`; each half kernel, CALLED WITH ITS OWN keyword dictionary (`postKw` / `preKw`), is the point-wise kernel
`kpost` / `kpre` of the model -/
structure KAbs (u : KUnit ν κ) (dt : ℝ) (r : Red) (kpost kpre : ℝ → ℝ) (d : ℝ) (bt : List (List Syn)) (t : ℕ) :
    Prop where
  post : ∃ m, getitem u.monitors "spike_post" = .ok m ∧
    u.cell.connection.postsyn_receptive m.peek = lift bt (fun s => sinceLast dt s.post t)
  pre : ∃ m, getitem u.monitors "spike_pre" = .ok m ∧
    u.cell.connection.presyn_receptive m.peek = lift bt (fun s => sinceLast dt s.pre t)
  delay : u.cell.connection.delay = some d
  kpost : ∀ X, u.state.kernel_post X (postKw u) = pointwise kpost X
  kpre : ∀ X, u.state.kernel_pre X (preKw u) = pointwise kpre X
  red : u.state.batchreduce = reduce r

/-- **`DelayAdjustedKernelSTDP.forward`**: every active unit gets `cell.updater.weight = dakStep …` (any half kernels) -/
theorem gen_dakernel_forward (self : Trainer (KState ℝ κ) ℝ (Option ℝ) ν)
    (dt : KUnit ν κ → ℝ) (r : KUnit ν κ → Red) (kpost kpre : KUnit ν κ → ℝ → ℝ) (d : KUnit ν κ → ℝ)
    (bt : KUnit ν κ → List (List Syn)) (t : ℕ)
    (h : ∀ u ∈ self.units, active self u = true → KAbs u (dt u) (r u) (kpost u) (kpre u) (d u) (bt u) t) :
    DelayAdjustedKernelSTDP_forward self
      = .ok (stepped self (active self)
          (fun u => ("weight", dakStep (dt u) (r u) (kpost u) (kpre u) (d u) (bt u) t)), ()) := by
  unfold DelayAdjustedKernelSTDP_forward
  rw [forUnits_ok self () _ (fun u => if active self u then
      assign u.cell ("weight", dakStep (dt u) (r u) (kpost u) (kpre u) (d u) (bt u) t) else u.cell)]
  · rfl
  · intro u hu
    rw [gate_eq]
    cases ha : active self u with
    | false => rfl
    | true =>
      obtain ⟨⟨mpost, hm1, hp1⟩, ⟨mpre, hm2, hp2⟩, hd, hk1, hk2, h5⟩ := h u hu ha
      have hk1' := hk1; have hk2' := hk2
      unfold postKw at hk1'; unfold preKw at hk2'
      simp only [Bool.not_true, Bool.false_eq_true, if_false, if_true, hm1, hm2, hp1, hp2, hd, bind, Except.bind,
        recSub, recZip_lift, unsqueezeLast, tdelta_lift, hk1', hk2', pointwise_lift, h5, kernel_parts_lift,
        setattr_active self u ha, pure, Except.pure]
      rfl

/-- **`DelayAdjustedKernelSTDPD.forward`**: the same pair, assigned to `cell.updater.delay` -/
theorem gen_dakerneld_forward (self : Trainer (KState ℝ κ) ℝ (Option ℝ) ν)
    (dt : KUnit ν κ → ℝ) (r : KUnit ν κ → Red) (kpost kpre : KUnit ν κ → ℝ → ℝ) (d : KUnit ν κ → ℝ)
    (bt : KUnit ν κ → List (List Syn)) (t : ℕ)
    (h : ∀ u ∈ self.units, active self u = true → KAbs u (dt u) (r u) (kpost u) (kpre u) (d u) (bt u) t) :
    DelayAdjustedKernelSTDPD_forward self
      = .ok (stepped self (active self)
          (fun u => ("delay", dakStep (dt u) (r u) (kpost u) (kpre u) (d u) (bt u) t)), ()) := by
  unfold DelayAdjustedKernelSTDPD_forward
  rw [forUnits_ok self () _ (fun u => if active self u then
      assign u.cell ("delay", dakStep (dt u) (r u) (kpost u) (kpre u) (d u) (bt u) t) else u.cell)]
  · rfl
  · intro u hu
    rw [gate_eq]
    cases ha : active self u with
    | false => rfl
    | true =>
      obtain ⟨⟨mpost, hm1, hp1⟩, ⟨mpre, hm2, hp2⟩, hd, hk1, hk2, h5⟩ := h u hu ha
      have hk1' := hk1; have hk2' := hk2
      unfold postKw at hk1'; unfold preKw at hk2'
      simp only [Bool.not_true, Bool.false_eq_true, if_false, if_true, hm1, hm2, hp1, hp2, hd, bind, Except.bind,
        recSub, recZip_lift, unsqueezeLast, tdelta_lift, hk1', hk2', pointwise_lift, h5, kernel_parts_lift,
        setattr_active self u ha, pure, Except.pure]
      rfl

/-- what the abstraction assumes of an active unit of `KernelSTDP`: as `KAbs` without a delay term; the presynaptic
times are whatever the body reads — `monitors["spike_pre"].view(cell.connection.selector, state.tolerance)` when
`state.delayed and cell.connection.delayedby`, `monitors["spike_pre"].peek()` otherwise -/
structure KUAbs (u : KUnit ν κ) (dt : ℝ) (r : Red) (kpost kpre : ℝ → ℝ) (bt : List (List Syn)) (t : ℕ) : Prop where
  post : ∃ m, getitem u.monitors "spike_post" = .ok m ∧
    u.cell.connection.postsyn_receptive m.peek = lift bt (fun s => sinceLast dt s.post t)
  pre : ∃ m, getitem u.monitors "spike_pre" = .ok m ∧
    u.cell.connection.presyn_receptive
        (if (u.state.delayed && truthyOptFloat u.cell.connection.delayedby) = true
          then m.view u.cell.connection.selector u.state.tolerance else m.peek)
      = lift bt (fun s => sinceLast dt s.pre t)
  kpost : ∀ X, u.state.kernel_post X (postKw u) = pointwise kpost X
  kpre : ∀ X, u.state.kernel_pre X (preKw u) = pointwise kpre X
  red : u.state.batchreduce = reduce r

/-- **`KernelSTDP.forward`**: every active unit gets `cell.updater.weight = kStep …` -/
theorem gen_kernel_forward (self : Trainer (KState ℝ κ) ℝ (Option ℝ) ν)
    (dt : KUnit ν κ → ℝ) (r : KUnit ν κ → Red) (kpost kpre : KUnit ν κ → ℝ → ℝ)
    (bt : KUnit ν κ → List (List Syn)) (t : ℕ)
    (h : ∀ u ∈ self.units, active self u = true → KUAbs u (dt u) (r u) (kpost u) (kpre u) (bt u) t) :
    KernelSTDP_forward self
      = .ok (stepped self (active self)
          (fun u => ("weight", kStep (dt u) (r u) (kpost u) (kpre u) (bt u) t)), ()) := by
  unfold KernelSTDP_forward
  rw [forUnits_ok self () _ (fun u => if active self u then
      assign u.cell ("weight", kStep (dt u) (r u) (kpost u) (kpre u) (bt u) t) else u.cell)]
  · rfl
  · intro u hu
    rw [gate_eq]
    cases ha : active self u with
    | false => rfl
    | true =>
      obtain ⟨⟨mpost, hm1, hp1⟩, ⟨mpre, hm2, hp2⟩, hk1, hk2, h5⟩ := h u hu ha
      have hk1' := hk1; have hk2' := hk2
      unfold postKw at hk1'; unfold preKw at hk2'
      cases hc : (u.state.delayed && truthyOptFloat u.cell.connection.delayedby) <;>
      · rw [hc] at hp2
        simp only [Bool.false_eq_true, if_false, if_true] at hp2
        simp only [Bool.not_true, Bool.false_eq_true, if_false, if_true, hc, hm1, hm2, hp1, hp2, bind, Except.bind,
          recSub, recZip_lift, tdeltaU_lift, hk1', hk2', pointwise_lift, h5, kernel_parts_lift,
          setattr_active self u ha, pure, Except.pure]
        rfl
end InfernoVerif.DSTDP.GlueProg
