import InfernoVerif.Gen.DelaySTDPProg
import InfernoVerif.Model.DelaySTDP
import InfernoVerif.Model.Split
/-!
# Glue: the per-weight model of the delay-adjusted, kernel and homeostasis trainers IS the `forward` bodies in /repo

`Gen/DelaySTDPProg.lean` is regenerated on every run by `harness/progtx_delaystdp.py` from the WHOLE bodies of
`DelayAdjustedSTDP.forward`, `DelayAdjustedSTDPD.forward`, `DelayAdjustedMSTDP.forward`, `DelayAdjustedMSTDPD.forward`,
`KernelSTDP.forward`, `DelayAdjustedKernelSTDP.forward`, `DelayAdjustedKernelSTDPD.forward` and
`LinearHomeostasis.forward`: the loop over the units with its gates, which monitors are read and how, which receptive
reshape is applied to which, the operand order and the `unsqueeze` of `t_pre - t_post - delay.unsqueeze(-1)`, every tensor
operation of the partial updates, `nansum(-1)`, `state.batchreduce(·, 0)`, the reward scaling, the kernel calls with
their keyword dictionaries, the routing tables and the attribute of `cell.updater` that receives the pair.  Python /
torch primitives are the functions of `Gen/DelaySTDPPrelude.lean` (everything is seen at ONE position of the trained
parameter, as in the models).

The theorems `gen_*_forward` state that running the regenerated program on a trainer whose active units satisfy the
abstraction hypotheses succeeds and leaves every unit untouched except that, for each ACTIVE unit (cell and trainer in
training mode, the cell has an updater, and — for the trainers with a `cells` argument — the unit's name is selected),
`cell.updater.<p> = v` has been executed once, with `p` the documented attribute and `v` EXACTLY the function of the
hand-written models the theorems of `Props/C18.lean` / `Props/C09.lean` are about:
`daStep`, `dadStep`, `damScalar` / `damTensor`, `damdScalar` / `damdTensor`, `kStep`, `dakStep` (`Model/DelaySTDP.lean`, each
unit with ITS OWN hyperparameters, delay and spike trains) and `Split.kernel_split`, `Split.homeostasis_split`
(`Model/Split.lean`).  A changed monitor name, a swapped pre / post reshape or operand, a dropped delay term or
`unsqueeze`, a rate or time constant on the wrong branch, a flipped sign test, a dropped `abs`, kernel keyword arguments
handed to the other kernel, a wrong updater attribute … changes the generated text and the corresponding theorem stops
checking.

What the abstraction adds / assumes (nothing is papered over):
* **One parameter position; `lift`.**  The models describe one weight by the spike trains `bt : List (List Syn)` of its
  receptive field per batch sample.  `DAAbs` / `KAbs` assume that the value of the two spike-time monitors, pushed
  through the connection's receptive reshapes and read at the position, is the `EventReducer` fold `sinceLast` of those
  trains (`none` = `NaN`).  That the reducer computes this fold is C07 / `Props/C18.lean :: event_time_eq`; that the
  reshapes address the right neurons is C05.  The hypotheses name the monitor (`"spike_post"`, `"spike_pre"`) and the
  reshape (`postsyn_receptive`, `presyn_receptive`) — reading the other one does not satisfy them.
* **`KernelSTDP` in delayed mode** reads `monitors["spike_pre"].view(selector, tolerance)`; the model `kStep` knows "no
  delays in effect" only.  `KUAbs.pre` is stated about the value the body actually reads (the `view` when
  `state.delayed and cell.connection.delayedby`, else `peek()`), so the theorem covers both modes, but WHAT `view` returns
  in delayed mode is not modelled here (C04 / C07).
* **Half kernels are point-wise and `NaN`-preserving** when called with the keyword dictionary
  `state.kernel_<x>_kwargs | dict(state.kernel_<x>_tensor_kwargs.named_buffers())` (`KAbs.kpost` / `kpre`): the model's
  kernels are functions `ℝ → ℝ` applied under `Option.map`.  The shipped exponential kernels are of this form.
* **The batch reduction is `torch.sum` / `torch.mean`** (`red : state.batchreduce = reduce r`) for the theorems about
  `Model/DelaySTDP.lean`; the `Split` theorems (`gen_kernel_parts_split`, `gen_homeostasis_forward`) hold for any reduction.
* **A per-sample reward has one entry per batch sample** (`sig.length = bt.length`), otherwise torch raises.
* **`LinearHomeostasis`**: the model (`Split.homeostasis_split`) starts from the per-sample factor `k`;
  `gen_homeostasis_forward` says `k` is `mean(dim=-1)` of the receptive reshape of `(target - rate) / target` (arithmetic
  on tensors in the neuron's layout is abstract: `NTOps`), scaled by `plasticity` (`-plasticity` for delays), split WITHOUT
  negating the second part (the known finding D9).  With `forward(None)` every unit is regulated towards ITS OWN default
  `state.target` (`gen_homeostasis_default_targets`; `cellTarget`).  An earlier version of the body rebound the local
  `target` (`target = state.target`), so the first trained unit's default was carried to every later unit; the
  regenerated body made that visible (then proved as `gen_homeostasis_target_carried`), it was confirmed on the real
  trainer and repaired by a fix: commit (per-cell local `celltarget`) — the tie broke at `homeo_unfold`, and the theorem
  describing the defect is replaced by the one that holds now.
* **Exceptions** do not keep the state (nothing is claimed about the objects after a raise); `gen_*_forward` are about
  runs in which the hypotheses exclude every raise.  Units own distinct cells.
-/
set_option linter.unusedVariables false
set_option linter.unusedSimpArgs false
set_option linter.unusedSectionVars false
namespace InfernoVerif.DSTDP.GlueProg
open InfernoVerif.DSTDP.R InfernoVerif.STDP.R InfernoVerif.Gen.DelaySTDPPrelude InfernoVerif.Gen.DelaySTDPProg
open Classical

/-- `math.exp` / `torch.exp` and `abs` at `ℝ` (the models' `exp`, `absT`) -/
noncomputable instance instTorchFnReal : TorchFn ℝ := ⟨Real.exp, fun x => |x|⟩

variable {ν κ ε σ γ : Type}

/-! ### receptive-format tensors built from the spike trains of a weight -/

/-- the receptive-format tensor whose value at (batch sample, receptive element) is `g` of that element's pair of
spike trains -/
def lift (bt : List (List Syn)) (g : Syn → ε) : Rec ε := bt.map (·.map g)

/-- zipping two maps of the same list is one map -/
theorem zipWith_map_same {α β γ δ : Type} (f : β → γ → δ) (g : α → β) (h : α → γ) (l : List α) :
    List.zipWith f (l.map g) (l.map h) = l.map (fun x => f (g x) (h x)) := by
  induction l <;> simp_all

/-- an element-wise binary operation of two lifted tensors succeeds (equal shapes) and is the lifted operation -/
theorem recZip_lift (f : ε → ε → ε) (bt : List (List Syn)) (g h : Syn → ε) :
    recZip f (lift bt g) (lift bt h) = .ok (lift bt fun s => f (g s) (h s)) := by
  unfold recZip lift
  rw [if_pos (by simp [List.map_map, Function.comp_def])]
  congr 1
  rw [zipWith_map_same]
  apply List.map_congr_left
  intro f _
  rw [zipWith_map_same]

/-- an element-wise unary operation of a lifted tensor is the lifted operation -/
theorem map2_lift {β : Type} (bt : List (List Syn)) (g : Syn → ε) (f : ε → β) :
    (lift bt g).map (·.map f) = lift bt (fun s => f (g s)) := by
  simp [lift, List.map_map, Function.comp_def]

/-- `t_pre - t_post - delay.unsqueeze(-1)` on the lifted event times is the lifted `tDelta` of the model -/
theorem tdelta_lift (dt d : ℝ) (bt : List (List Syn)) (t : ℕ) :
    recSubParamU (lift bt fun s => obin (· - ·) (sinceLast dt s.pre t) (sinceLast dt s.post t)) ⟨d⟩
      = lift bt (fun s => tDelta dt s d t) := by
  unfold recSubParamU
  rw [map2_lift]
  congr 1
  funext s
  unfold tDelta
  cases sinceLast dt s.pre t <;> cases sinceLast dt s.post t <;> rfl

/-- `t_pre - t_post` (no delay term) is the lifted `tDeltaU` -/
theorem tdeltaU_lift (dt : ℝ) (bt : List (List Syn)) (t : ℕ) :
    (lift bt fun s => obin (· - ·) (sinceLast dt s.pre t) (sinceLast dt s.post t))
      = lift bt (fun s => tDeltaU dt s t) := by
  congr 1
  funext s
  unfold tDeltaU
  cases sinceLast dt s.pre t <;> cases sinceLast dt s.post t <;> rfl

/-- `torch.exp(t_delta_abs / (-tc)) * (abs(lr) * (t_delta >= 0).to(dtype=…))` on a lifted `t_delta` -/
theorem term_ge_lift (bt : List (List Syn)) (td : Syn → Option ℝ) (tc lr : ℝ) :
    recMul (torchExp (recDivScalar (recAbs (lift bt td)) (-tc)))
        (scalarMulRec (TorchFn.abs lr) (recBoolTo (recGe0 (lift bt td))))
      = .ok (lift bt fun s => (td s).map fun x => exp (absT x / (-tc)) * (absT lr * (if x ≥ 0 then 1 else 0))) := by
  unfold recMul torchExp recDivScalar recAbs scalarMulRec recBoolTo recGe0
  simp only [map2_lift, recZip_lift]
  congr 2
  funext s
  cases td s with
  | none => rfl
  | some x => simp only [Option.map_some, obin, decide_eq_true_eq]; rfl

/-- `torch.exp(t_delta_abs / (-tc)) * (abs(lr) * (t_delta < 0).to(dtype=…))` on a lifted `t_delta` -/
theorem term_lt_lift (bt : List (List Syn)) (td : Syn → Option ℝ) (tc lr : ℝ) :
    recMul (torchExp (recDivScalar (recAbs (lift bt td)) (-tc)))
        (scalarMulRec (TorchFn.abs lr) (recBoolTo (recLt0 (lift bt td))))
      = .ok (lift bt fun s => (td s).map fun x => exp (absT x / (-tc)) * (absT lr * (if x < 0 then 1 else 0))) := by
  unfold recMul torchExp recDivScalar recAbs scalarMulRec recBoolTo recLt0
  simp only [map2_lift, recZip_lift]
  congr 2
  funext s
  cases td s with
  | none => rfl
  | some x => simp only [Option.map_some, obin, decide_eq_true_eq]; rfl

/-- `x.nansum(-1)` of a lifted tensor: the model's per-sample `nansum` over the receptive field -/
theorem nansum_lift (bt : List (List Syn)) (g : Syn → Option ℝ) :
    recNansumLast (lift bt g) = bt.map fun f => nansum (f.map g) := by
  simp only [recNansumLast, lift, List.map_map]
  rfl

/-- `state.batchreduce(x.nansum(-1), 0)` of a lifted tensor -/
theorem reduce_nansum_lift (r : Red) (bt : List (List Syn)) (g : Syn → Option ℝ) :
    callReduce0 (reduce r) (recNansumLast (lift bt g)) = reduce r (bt.map fun f => nansum (f.map g)) := by
  rw [nansum_lift]; rfl

/-- the models' clamps (`if x < 0 then 0 else x`) are the prelude's (`max x 0` / `min x 0`, as in `Gen/Routes.lean`) -/
theorem clamps_eq (x : ℝ) : Split.clamp_min0 x = clampMin0 x ∧ Split.clamp_max0 x = clampMax0 x := by
  unfold clampMin0 clampMax0 Split.clamp_min0 Split.clamp_max0
  constructor
  · split_ifs with h
    · exact max_eq_right (le_of_lt h)
    · exact max_eq_left (not_lt.mp h)
  · split_ifs with h
    · exact min_eq_right (le_of_lt h)
    · exact min_eq_left (not_lt.mp h)

/-! ### the loop over the units -/
section Loop
variable {α : Type}

/-- a loop whose body maps every unit `u` to `g u` and leaves the loop-carried locals `c` alone -/
theorem forUnitsAux_ok (self : Trainer σ α ε ν) (c : γ)
    (body : Trainer σ α ε ν → γ → String → Cell α ε ν → σ → List (String × Monitor α ν) → Except Err (Cell α ε ν × γ))
    (g : TUnit σ α ε ν → Cell α ε ν) (us : List (TUnit σ α ε ν))
    (h : ∀ u ∈ us, body self c u.name u.cell u.state u.monitors = .ok (g u, c)) :
    forUnitsAux self body us c = .ok (us.map fun u => { u with cell := g u }, c) := by
  induction us with
  | nil => rfl
  | cons u us ih =>
    simp only [forUnitsAux, h u (by simp), ih (fun v hv => h v (by simp [hv])), List.map_cons]

/-- `for name, (cell, state, monitors) in zip(self.cells_, self)`: the loop maps every unit `u` to `g u` when its body does
(and passes the loop-carried locals on) -/
theorem forNamedUnits_ok (self : Trainer σ α ε ν) (c : γ)
    (body : Trainer σ α ε ν → γ → String → Cell α ε ν → σ → List (String × Monitor α ν) → Except Err (Cell α ε ν × γ))
    (g : TUnit σ α ε ν → Cell α ε ν)
    (h : ∀ u ∈ self.units, body self c u.name u.cell u.state u.monitors = .ok (g u, c)) :
    forNamedUnits self c body = .ok ({ self with units := self.units.map fun u => { u with cell := g u } }, c) := by
  unfold forNamedUnits
  rw [forUnitsAux_ok self c body g self.units h]

/-- `for cell, state, monitors in self`: the same for the loop without names -/
theorem forUnits_ok (self : Trainer σ α ε ν) (c : γ)
    (body : Trainer σ α ε ν → γ → Cell α ε ν → σ → List (String × Monitor α ν) → Except Err (Cell α ε ν × γ))
    (g : TUnit σ α ε ν → Cell α ε ν)
    (h : ∀ u ∈ self.units, body self c u.cell u.state u.monitors = .ok (g u, c)) :
    forUnits self c body = .ok ({ self with units := self.units.map fun u => { u with cell := g u } }, c) := by
  unfold forUnits
  exact forNamedUnits_ok self c _ g h

/-- the gate `not cell.training or not self.training or not cell.updater` is open: the unit is trained in this call -/
def active (self : Trainer σ α ε ν) (u : TUnit σ α ε ν) : Bool :=
  u.cell.training && self.training && u.cell.updater.isSome

/-- the gate `cells is not None and name not in cells` is open -/
def selected (cells : Option (List String)) (u : TUnit σ α ε ν) : Bool :=
  match cells with
  | some cs => cs.contains u.name
  | none => true

/-- the cell after `cell.updater.<p> = v` -/
def assign (cell : Cell α ε ν) (pv : String × Split.Parts α) : Cell α ε ν :=
  { cell with updater := cell.updater.map (· ++ [pv]) }

/-- the trainer after a `forward` that executes `cell.updater.<(f u).1> = (f u).2` once for every unit with `act u`
and touches nothing else -/
def stepped (self : Trainer σ α ε ν) (act : TUnit σ α ε ν → Bool) (f : TUnit σ α ε ν → String × Split.Parts α) :
    Trainer σ α ε ν :=
  { self with units := self.units.map fun u => { u with cell := if act u then assign u.cell (f u) else u.cell } }

/-- the generated gate expression is the negation of `active` -/
theorem gate_eq (self : Trainer σ α ε ν) (u : TUnit σ α ε ν) :
    ((!u.cell.training) || (!self.training) || (!u.cell.updater.isSome)) = !active self u := by
  unfold active
  cases u.cell.training <;> cases self.training <;> cases u.cell.updater.isSome <;> rfl

/-- the generated `cells is not None and name not in cells` is the negation of `selected` -/
theorem cells_gate_eq (cells : Option (List String)) (u : TUnit σ α ε ν) :
    (Option.elim cells false (fun cells => (!(strIn u.name cells)))) = !selected cells u := by
  unfold selected strIn
  cases cells <;> rfl

/-- on an active unit (the cell has an updater) `cell.updater.<p> = v` succeeds and appends to the log -/
theorem setattr_active (self : Trainer σ α ε ν) (u : TUnit σ α ε ν) (ha : active self u = true) (p : String)
    (v : Split.Parts α) : updater_setattr u.cell p v = .ok (assign u.cell (p, v)) := by
  unfold active at ha
  unfold updater_setattr assign
  cases hu : u.cell.updater with
  | none => simp [hu] at ha
  | some log => rfl

end Loop

/-! ### `DelayAdjustedSTDP.forward`, `DelayAdjustedSTDPD.forward` -/

/-- what the abstraction assumes of an active unit of a delay-adjusted trainer: the two spike-time monitors exist under
the names the trainer registers them with; their current values (`peek()`), pushed through the connection's
`postsyn_receptive` / `presyn_receptive` and read at the parameter position, are the `EventReducer` folds of the spike
trains of `bt`; the connection has a learned delay `d` at the position; the auxiliary state holds the hyperparameters of
`c` and the batch reduction `r` -/
structure DAAbs (u : TUnit (DAState ℝ) ℝ (Option ℝ) ν) (c : DCfg) (r : Red) (d : ℝ) (bt : List (List Syn)) (t : ℕ) :
    Prop where
  post : ∃ m, getitem u.monitors "spike_post" = .ok m ∧
    u.cell.connection.postsyn_receptive m.peek = lift bt (fun s => sinceLast c.dt s.post t)
  pre : ∃ m, getitem u.monitors "spike_pre" = .ok m ∧
    u.cell.connection.presyn_receptive m.peek = lift bt (fun s => sinceLast c.dt s.pre t)
  delay : u.cell.connection.delay = some d
  lr_pos : u.state.lr_pos = c.lrPos
  lr_neg : u.state.lr_neg = c.lrNeg
  tc_pos : u.state.tc_pos = c.tcPos
  tc_neg : u.state.tc_neg = c.tcNeg
  red : u.state.batchreduce = reduce r

/-- a unit of a delay-adjusted trainer -/
abbrev DAUnit (ν : Type) := TUnit (DAState ℝ) ℝ (Option ℝ) ν

/-- **`DelayAdjustedSTDP.forward`**: every active unit gets `cell.updater.weight = daStep …` (its own hyperparameters,
delay and spike trains; all four sign modes, `torch.sum` / `torch.mean`), nothing else changes -/
theorem gen_da_forward (self : Trainer (DAState ℝ) ℝ (Option ℝ) ν)
    (c : DAUnit ν → DCfg) (r : DAUnit ν → Red) (d : DAUnit ν → ℝ) (bt : DAUnit ν → List (List Syn)) (t : ℕ)
    (h : ∀ u ∈ self.units, active self u = true → DAAbs u (c u) (r u) (d u) (bt u) t) :
    DelayAdjustedSTDP_forward self
      = .ok (stepped self (active self) (fun u => ("weight", daStep (c u) (r u) (d u) (bt u) t)), ()) := by
  unfold DelayAdjustedSTDP_forward
  rw [forUnits_ok self () _ (fun u => if active self u then
      assign u.cell ("weight", daStep (c u) (r u) (d u) (bt u) t) else u.cell)]
  · rfl
  · intro u hu
    rw [gate_eq]
    cases ha : active self u with
    | false => rfl
    | true =>
      obtain ⟨⟨mpost, hm1, hp1⟩, ⟨mpre, hm2, hp2⟩, hd, h1, h2, h3, h4, h5⟩ := h u hu ha
      simp only [Bool.not_true, Bool.false_eq_true, if_false, if_true, hm1, hm2, hp1, hp2, hd, bind, Except.bind,
        recSub, recZip_lift, unsqueezeLast, tdelta_lift, term_ge_lift, term_lt_lift, h5, reduce_nansum_lift,
        h1, h2, h3, h4]
      unfold daStep partial_ daPosTerm daNegTerm
      cases decide ((c u).lrPos ≥ 0) <;> cases decide ((c u).lrNeg ≥ 0) <;>
        simp only [setattr_active self u ha, route, pure, Except.pure]

/-- **`DelayAdjustedSTDPD.forward`**: every active unit gets `cell.updater.delay = dadStep …` (the causal branch carries
`lr_neg`, `tc_neg`; subject `(lr_neg < 0, lr_pos < 0)`) -/
theorem gen_dad_forward (self : Trainer (DAState ℝ) ℝ (Option ℝ) ν)
    (c : DAUnit ν → DCfg) (r : DAUnit ν → Red) (d : DAUnit ν → ℝ) (bt : DAUnit ν → List (List Syn)) (t : ℕ)
    (h : ∀ u ∈ self.units, active self u = true → DAAbs u (c u) (r u) (d u) (bt u) t) :
    DelayAdjustedSTDPD_forward self
      = .ok (stepped self (active self) (fun u => ("delay", dadStep (c u) (r u) (d u) (bt u) t)), ()) := by
  unfold DelayAdjustedSTDPD_forward
  rw [forUnits_ok self () _ (fun u => if active self u then
      assign u.cell ("delay", dadStep (c u) (r u) (d u) (bt u) t) else u.cell)]
  · rfl
  · intro u hu
    rw [gate_eq]
    cases ha : active self u with
    | false => rfl
    | true =>
      obtain ⟨⟨mpost, hm1, hp1⟩, ⟨mpre, hm2, hp2⟩, hd, h1, h2, h3, h4, h5⟩ := h u hu ha
      simp only [Bool.not_true, Bool.false_eq_true, if_false, if_true, hm1, hm2, hp1, hp2, hd, bind, Except.bind,
        recSub, recZip_lift, unsqueezeLast, tdelta_lift, term_ge_lift, term_lt_lift, h5, reduce_nansum_lift,
        h1, h2, h3, h4]
      unfold dadStep partial_ dadPosTerm dadNegTerm
      cases decide ((c u).lrNeg < 0) <;> cases decide ((c u).lrPos < 0) <;>
        simp only [setattr_active self u ha, routeD, pure, Except.pure]

/-! ### the kernel trainers -/

/-- a unit of a kernel trainer -/
abbrev KUnit (ν κ : Type) := TUnit (KState ℝ κ) ℝ (Option ℝ) ν

/-- the keyword dictionary `kernel_post` is called with:
`state.kernel_post_kwargs | {k: v for k, v in state.kernel_post_tensor_kwargs.named_buffers()}` -/
def postKw (u : KUnit ν κ) : List (String × κ) :=
  dictUnion u.state.kernel_post_kwargs (dictOfPairs u.state.kernel_post_tensor_kwargs.named_buffers)

/-- the keyword dictionary `kernel_pre` is called with (the PRE dictionaries) -/
def preKw (u : KUnit ν κ) : List (String × κ) :=
  dictUnion u.state.kernel_pre_kwargs (dictOfPairs u.state.kernel_pre_tensor_kwargs.named_buffers)

/-- a half kernel `ℝ → ℝ` of the model as a function of receptive-format tensors: point-wise, `NaN` stays `NaN` -/
def pointwise (k : ℝ → ℝ) (X : Rec (Option ℝ)) : Rec (Option ℝ) := X.map (·.map (·.map k))

/-- a point-wise kernel on a lifted `t_delta` -/
theorem pointwise_lift (k : ℝ → ℝ) (bt : List (List Syn)) (td : Syn → Option ℝ) :
    pointwise k (lift bt td) = lift bt (fun s => (td s).map k) := by
  unfold pointwise; rw [map2_lift]

/-- `dpost.clamp_min(0.0)` on a lifted kernel output: the model's `clampMin0` under `Option.map` -/
theorem clampMin_lift (bt : List (List Syn)) (td : Syn → Option ℝ) (k : ℝ → ℝ) :
    recClampMin0 (lift bt fun s => (td s).map k) = lift bt fun s => (td s).map fun x => clampMin0 (k x) := by
  unfold recClampMin0; rw [map2_lift]; congr 1; funext s
  cases td s <;> simp [(clamps_eq _).1]

/-- `dpost.clamp_max(0.0)` on a lifted kernel output -/
theorem clampMax_lift (bt : List (List Syn)) (td : Syn → Option ℝ) (k : ℝ → ℝ) :
    recClampMax0 (lift bt fun s => (td s).map k) = lift bt fun s => (td s).map fun x => clampMax0 (k x) := by
  unfold recClampMax0; rw [map2_lift]; congr 1; funext s
  cases td s <;> simp [(clamps_eq _).2]

/-- the pair the three kernel trainers assign, on lifted kernel outputs, is the model's `kernelSplit` -/
theorem kernel_parts_lift (r : Red) (bt : List (List Syn)) (td : Syn → Option ℝ) (kpost kpre : ℝ → ℝ) :
    ((some ((callReduce0 (reduce r) (recNansumLast (recClampMin0 (lift bt fun s => (td s).map kpost))))
        + (callReduce0 (reduce r) (recNansumLast (recClampMin0 (lift bt fun s => (td s).map kpre))))),
      some (-((callReduce0 (reduce r) (recNansumLast (recClampMax0 (lift bt fun s => (td s).map kpost))))
        + (callReduce0 (reduce r) (recNansumLast (recClampMax0 (lift bt fun s => (td s).map kpre))))))) :
        Split.Parts ℝ)
      = kernelSplit r kpost kpre td bt := by
  simp only [clampMin_lift, clampMax_lift, reduce_nansum_lift]
  rfl

/-- what the abstraction assumes of an active unit of a delay-adjusted kernel trainer: monitors, reshapes and delay as
in `DAAbs`; each half kernel, CALLED WITH ITS OWN keyword dictionary (`postKw` / `preKw`), is the point-wise kernel
`kpost` / `kpre` of the model -/
structure KAbs (u : KUnit ν κ) (dt : ℝ) (r : Red) (kpost kpre : ℝ → ℝ) (d : ℝ) (bt : List (List Syn)) (t : ℕ) :
    Prop where
  post : ∃ m, getitem u.monitors "spike_post" = .ok m ∧
    u.cell.connection.postsyn_receptive m.peek = lift bt (fun s => sinceLast dt s.post t)
  pre : ∃ m, getitem u.monitors "spike_pre" = .ok m ∧
    u.cell.connection.presyn_receptive m.peek = lift bt (fun s => sinceLast dt s.pre t)
  delay : u.cell.connection.delay = some d
  kpost : ∀ X, u.state.kernel_post X (postKw u) = pointwise kpost X
  kpre : ∀ X, u.state.kernel_pre X (preKw u) = pointwise kpre X
  red : u.state.batchreduce = reduce r

/-- **`DelayAdjustedKernelSTDP.forward`**: every active unit gets `cell.updater.weight = dakStep …` (any half kernels) -/
theorem gen_dakernel_forward (self : Trainer (KState ℝ κ) ℝ (Option ℝ) ν)
    (dt : KUnit ν κ → ℝ) (r : KUnit ν κ → Red) (kpost kpre : KUnit ν κ → ℝ → ℝ) (d : KUnit ν κ → ℝ)
    (bt : KUnit ν κ → List (List Syn)) (t : ℕ)
    (h : ∀ u ∈ self.units, active self u = true → KAbs u (dt u) (r u) (kpost u) (kpre u) (d u) (bt u) t) :
    DelayAdjustedKernelSTDP_forward self
      = .ok (stepped self (active self)
          (fun u => ("weight", dakStep (dt u) (r u) (kpost u) (kpre u) (d u) (bt u) t)), ()) := by
  unfold DelayAdjustedKernelSTDP_forward
  rw [forUnits_ok self () _ (fun u => if active self u then
      assign u.cell ("weight", dakStep (dt u) (r u) (kpost u) (kpre u) (d u) (bt u) t) else u.cell)]
  · rfl
  · intro u hu
    rw [gate_eq]
    cases ha : active self u with
    | false => rfl
    | true =>
      obtain ⟨⟨mpost, hm1, hp1⟩, ⟨mpre, hm2, hp2⟩, hd, hk1, hk2, h5⟩ := h u hu ha
      have hk1' := hk1; have hk2' := hk2
      unfold postKw at hk1'; unfold preKw at hk2'
      simp only [Bool.not_true, Bool.false_eq_true, if_false, if_true, hm1, hm2, hp1, hp2, hd, bind, Except.bind,
        recSub, recZip_lift, unsqueezeLast, tdelta_lift, hk1', hk2', pointwise_lift, h5, kernel_parts_lift,
        setattr_active self u ha, pure, Except.pure]
      rfl

/-- **`DelayAdjustedKernelSTDPD.forward`**: the same pair, assigned to `cell.updater.delay` -/
theorem gen_dakerneld_forward (self : Trainer (KState ℝ κ) ℝ (Option ℝ) ν)
    (dt : KUnit ν κ → ℝ) (r : KUnit ν κ → Red) (kpost kpre : KUnit ν κ → ℝ → ℝ) (d : KUnit ν κ → ℝ)
    (bt : KUnit ν κ → List (List Syn)) (t : ℕ)
    (h : ∀ u ∈ self.units, active self u = true → KAbs u (dt u) (r u) (kpost u) (kpre u) (d u) (bt u) t) :
    DelayAdjustedKernelSTDPD_forward self
      = .ok (stepped self (active self)
          (fun u => ("delay", dakStep (dt u) (r u) (kpost u) (kpre u) (d u) (bt u) t)), ()) := by
  unfold DelayAdjustedKernelSTDPD_forward
  rw [forUnits_ok self () _ (fun u => if active self u then
      assign u.cell ("delay", dakStep (dt u) (r u) (kpost u) (kpre u) (d u) (bt u) t) else u.cell)]
  · rfl
  · intro u hu
    rw [gate_eq]
    cases ha : active self u with
    | false => rfl
    | true =>
      obtain ⟨⟨mpost, hm1, hp1⟩, ⟨mpre, hm2, hp2⟩, hd, hk1, hk2, h5⟩ := h u hu ha
      have hk1' := hk1; have hk2' := hk2
      unfold postKw at hk1'; unfold preKw at hk2'
      simp only [Bool.not_true, Bool.false_eq_true, if_false, if_true, hm1, hm2, hp1, hp2, hd, bind, Except.bind,
        recSub, recZip_lift, unsqueezeLast, tdelta_lift, hk1', hk2', pointwise_lift, h5, kernel_parts_lift,
        setattr_active self u ha, pure, Except.pure]
      rfl

/-- what the abstraction assumes of an active unit of `KernelSTDP`: as `KAbs` without a delay term; the presynaptic
times are whatever the body reads — `monitors["spike_pre"].view(cell.connection.selector, state.tolerance)` when
`state.delayed and cell.connection.delayedby`, `monitors["spike_pre"].peek()` otherwise -/
structure KUAbs (u : KUnit ν κ) (dt : ℝ) (r : Red) (kpost kpre : ℝ → ℝ) (bt : List (List Syn)) (t : ℕ) : Prop where
  post : ∃ m, getitem u.monitors "spike_post" = .ok m ∧
    u.cell.connection.postsyn_receptive m.peek = lift bt (fun s => sinceLast dt s.post t)
  pre : ∃ m, getitem u.monitors "spike_pre" = .ok m ∧
    u.cell.connection.presyn_receptive
        (if (u.state.delayed && truthyOptFloat u.cell.connection.delayedby) = true
          then m.view u.cell.connection.selector u.state.tolerance else m.peek)
      = lift bt (fun s => sinceLast dt s.pre t)
  kpost : ∀ X, u.state.kernel_post X (postKw u) = pointwise kpost X
  kpre : ∀ X, u.state.kernel_pre X (preKw u) = pointwise kpre X
  red : u.state.batchreduce = reduce r

/-- **`KernelSTDP.forward`**: every active unit gets `cell.updater.weight = kStep …` -/
theorem gen_kernel_forward (self : Trainer (KState ℝ κ) ℝ (Option ℝ) ν)
    (dt : KUnit ν κ → ℝ) (r : KUnit ν κ → Red) (kpost kpre : KUnit ν κ → ℝ → ℝ)
    (bt : KUnit ν κ → List (List Syn)) (t : ℕ)
    (h : ∀ u ∈ self.units, active self u = true → KUAbs u (dt u) (r u) (kpost u) (kpre u) (bt u) t) :
    KernelSTDP_forward self
      = .ok (stepped self (active self)
          (fun u => ("weight", kStep (dt u) (r u) (kpost u) (kpre u) (bt u) t)), ()) := by
  unfold KernelSTDP_forward
  rw [forUnits_ok self () _ (fun u => if active self u then
      assign u.cell ("weight", kStep (dt u) (r u) (kpost u) (kpre u) (bt u) t) else u.cell)]
  · rfl
  · intro u hu
    rw [gate_eq]
    cases ha : active self u with
    | false => rfl
    | true =>
      obtain ⟨⟨mpost, hm1, hp1⟩, ⟨mpre, hm2, hp2⟩, hk1, hk2, h5⟩ := h u hu ha
      have hk1' := hk1; have hk2' := hk2
      unfold postKw at hk1'; unfold preKw at hk2'
      cases hc : (u.state.delayed && truthyOptFloat u.cell.connection.delayedby) <;>
      · rw [hc] at hp2
        simp only [Bool.false_eq_true, if_false, if_true] at hp2
        simp only [Bool.not_true, Bool.false_eq_true, if_false, if_true, hc, hm1, hm2, hp1, hp2, bind, Except.bind,
          recSub, recZip_lift, tdeltaU_lift, hk1', hk2', pointwise_lift, h5, kernel_parts_lift,
          setattr_active self u ha, pure, Except.pure]
        rfl

/-! ### the three-factor rules: `DelayAdjustedMSTDP.forward`, `DelayAdjustedMSTDPD.forward` -/

/-- `x * col` as the model writes it (`zip`, then multiply the pair) -/
theorem zipWith_mul_eq (a b : List ℝ) : List.zipWith (· * ·) a b = (a.zip b).map fun x => x.1 * x.2 := by
  induction a generalizing b with
  | nil => simp
  | cons x a ih => cases b <;> simp_all

/-- `mapM` over a mapped list -/
theorem mapM_map_except {α β γ : Type} (f : β → Except Err γ) (g : α → β) (l : List α) :
    (l.map g).mapM f = l.mapM (fun a => f (g a)) := by
  induction l with
  | nil => rfl
  | cons a l ih => simp [List.mapM_cons, ih]

/-- the indices `< n + 1` satisfying `q`: index `0`, then the shifted indices of the tail -/
theorem filter_range_succ (q : ℕ → Bool) (n : ℕ) :
    (List.range (n + 1)).filter q
      = (if q 0 then [0] else []) ++ ((List.range n).filter (fun i => q (i + 1))).map (· + 1) := by
  rw [List.range_succ_eq_map, List.filter_cons, List.filter_map]
  cases q 0 <;> simp [Function.comp_def]

/-- `x[torch.argwhere(p(s)).view(-1)]` selects, in batch order, the samples whose signal satisfies `p` — the model's
`pick` -/
theorem bIndex_argwhere {α β : Type} (p : β → Bool) (s : List β) (x : List α) (hl : x.length = s.length) :
    bIndex x ((List.range s.length).filter fun i => match s[i]? with | some b => p b | none => false)
      = .ok ((x.zip s).filterMap fun xs => if p xs.2 then some xs.1 else none) := by
  induction s generalizing x with
  | nil =>
    cases x with
    | nil => rfl
    | cons a x => simp at hl
  | cons b s ih =>
    cases x with
    | nil => simp at hl
    | cons a x =>
      have hl' : x.length = s.length := by simpa using hl
      have ih' := ih x hl'
      unfold bIndex at ih' ⊢
      rw [List.length_cons, filter_range_succ]
      simp only [List.getElem?_cons_zero, List.getElem?_cons_succ, List.zip_cons_cons, List.filterMap_cons]
      rcases Bool.eq_false_or_eq_true (p b) with hp | hp
      · simp only [hp, if_true, List.cons_append, List.nil_append, List.mapM_cons, List.getElem?_cons_zero,
          mapM_map_except, List.getElem?_cons_succ, ih', bind, Except.bind, pure, Except.pure]
      · simp only [hp, Bool.false_eq_true, if_false, List.nil_append, mapM_map_except, List.getElem?_cons_succ, ih']

/-- `x[torch.argwhere(signal >= 0).view(-1)]` is `pick (· ≥ 0)` -/
theorem argwhereGe0_pick (sig x : List ℝ) (hl : x.length = sig.length) :
    bIndex x (argwhereGe0 sig) = .ok (pick (fun s => decide (s ≥ 0)) sig x) := by
  unfold argwhereGe0 pick
  exact bIndex_argwhere (fun s => decide (s ≥ 0)) sig x hl

/-- `x[torch.argwhere(signal < 0).view(-1)]` is `pick (· < 0)` -/
theorem argwhereLt0_pick (sig x : List ℝ) (hl : x.length = sig.length) :
    bIndex x (argwhereLt0 sig) = .ok (pick (fun s => decide (s < 0)) sig x) := by
  unfold argwhereLt0 pick
  exact bIndex_argwhere (fun s => decide (s < 0)) sig x hl

/-- `state.batchreduce(d, 0) if d.numel() else None` is the model's `redOpt` -/
theorem redOpt_eq (r : Red) (xs : List ℝ) :
    (if (decide ((bNumel xs) ≠ 0)) = true then (some (callReduce0 (reduce r) xs)) else none) = redOpt r xs := by
  unfold redOpt bNumel callReduce0
  cases xs <;> simp

/-- `dpost * scaledsignal` with `scaledsignal = (signal * scale).abs().view(-1, 1, …)`: the model's per-sample scaling -/
theorem scaled_eq (x y sig : List ℝ) (scale : ℝ) (hl : x.length = sig.length) :
    bMulCol x (viewAsColumnOf (bAbs (bMulScalar sig scale)) y)
      = .ok ((x.zip (sig.map fun s => absT (s * scale))).map fun y => y.1 * y.2) := by
  unfold bMulCol viewAsColumnOf bAbs bMulScalar
  simp only [List.length_map, hl, if_true, List.map_map, zipWith_mul_eq]
  rfl

/-- the scaled per-sample terms still have one entry per sample -/
theorem scaled_length (x sig : List ℝ) (scale : ℝ) (hl : x.length = sig.length) :
    ((x.zip (sig.map fun s => absT (s * scale))).map fun y => y.1 * y.2).length = sig.length := by
  simp [hl]

/-- the pair assigned by the tensor-signal branch of `DelayAdjustedMSTDP` is the model's `signalSplit` -/
theorem signal_split_eq (lrPos lrNeg : ℝ) (r : Red) (sig : List ℝ) (scale : ℝ) (dpost dpre : List ℝ)
    (h1 : dpost.length = sig.length) (h2 : dpre.length = sig.length) :
    signalSplit lrPos lrNeg r sig scale dpost dpre =
      (let ss := sig.map fun s => absT (s * scale)
       let dpost := (dpost.zip ss).map fun x => x.1 * x.2
       let dpre := (dpre.zip ss).map fun x => x.1 * x.2
       let d := routeT (decide (lrPos ≥ 0)) (decide (lrNeg ≥ 0))
         (pick (fun s => decide (s ≥ 0)) sig dpost) (pick (fun s => decide (s < 0)) sig dpost)
         (pick (fun s => decide (s ≥ 0)) sig dpre) (pick (fun s => decide (s < 0)) sig dpre)
       (redOpt r d.1, redOpt r d.2)) := rfl

/-- the pair `DelayAdjustedMSTDP.forward` assigns, by the form of the reward (a Python float or one value per batch
sample) -/
noncomputable def damParts (c : DCfg) (r : Red) (d : ℝ) (bt : List (List Syn)) (signal : Signal ℝ) (scale : ℝ) (t : ℕ) :
    Split.Parts ℝ :=
  match signal with
  | .float sg => damScalar c r d bt sg scale t
  | .tensor sig => damTensor c r d bt sig scale t

/-- the pair `DelayAdjustedMSTDPD.forward` assigns, by the form of the reward -/
noncomputable def damdParts (c : DCfg) (r : Red) (d : ℝ) (bt : List (List Syn)) (signal : Signal ℝ) (scale : ℝ) (t : ℕ) :
    Split.Parts ℝ :=
  match signal with
  | .float sg => damdScalar c r d bt sg scale t
  | .tensor sig => damdTensor c r d bt sig scale t

/-- a per-sample reward has one entry per batch sample of every trained unit -/
def SignalFits (signal : Signal ℝ) (n : ℕ) : Prop :=
  match signal with
  | .float _ => True
  | .tensor sig => sig.length = n

/-- **`DelayAdjustedMSTDP.forward`**: every selected active unit gets `cell.updater.weight = damScalar …` (float reward:
scaled AFTER the batch reduction, routed by the signs of `lr * signal`) or `damTensor …` (per-sample reward: scaled
per sample, samples partitioned by the sign of their reward, joined by the signs of the rates, reduced, `None` for an
empty part) -/
theorem gen_damstdp_forward (self : Trainer (DAState ℝ) ℝ (Option ℝ) ν) (signal : Signal ℝ) (scale : ℝ)
    (cells : Option (List String))
    (c : DAUnit ν → DCfg) (r : DAUnit ν → Red) (d : DAUnit ν → ℝ) (bt : DAUnit ν → List (List Syn)) (t : ℕ)
    (h : ∀ u ∈ self.units, (selected cells u && active self u) = true →
      DAAbs u (c u) (r u) (d u) (bt u) t ∧ SignalFits signal (bt u).length) :
    DelayAdjustedMSTDP_forward self signal scale cells
      = .ok (stepped self (fun u => selected cells u && active self u)
          (fun u => ("weight", damParts (c u) (r u) (d u) (bt u) signal scale t)), ()) := by
  unfold DelayAdjustedMSTDP_forward
  rw [forNamedUnits_ok self () _ (fun u => if (selected cells u && active self u) then
      assign u.cell ("weight", damParts (c u) (r u) (d u) (bt u) signal scale t) else u.cell)]
  · rfl
  · intro u hu
    rw [cells_gate_eq, gate_eq]
    cases hs : selected cells u with
    | false => rfl
    | true =>
    cases ha : active self u with
    | false => rfl
    | true =>
      obtain ⟨⟨⟨mpost, hm1, hp1⟩, ⟨mpre, hm2, hp2⟩, hd, h1, h2, h3, h4, h5⟩, hfit⟩ := h u hu (by simp [hs, ha])
      simp only [Bool.not_true, Bool.false_eq_true, if_false, if_true, Bool.and_self, hm1, hm2, hp1, hp2, hd, bind,
        Except.bind, recSub, recZip_lift, unsqueezeLast, tdelta_lift, term_ge_lift, term_lt_lift, h5, nansum_lift,
        h1, h2, h3, h4]
      cases signal with
      | float sg =>
        simp only [damParts, damScalar, partial_, daPosTerm, daNegTerm, callReduce0]
        cases decide ((c u).lrPos * sg ≥ 0) <;> cases decide ((c u).lrNeg * sg ≥ 0) <;>
          simp only [setattr_active self u ha, route, pure, Except.pure] <;> rfl
      | tensor sig =>
        have hl : ∀ g : Syn → Option ℝ, (List.map (fun f => nansum (List.map g f)) (bt u)).length = sig.length := by
          intro g; rw [List.length_map]; exact hfit.symm
        simp only [scaled_eq _ _ sig scale (hl _), argwhereGe0_pick _ _ (scaled_length _ sig scale (hl _)),
          argwhereLt0_pick _ _ (scaled_length _ sig scale (hl _)), redOpt_eq]
        simp only [damParts, damTensor, signal_split_eq _ _ _ _ _ _ _ (hl _) (hl _), partialB, daPosTerm, daNegTerm]
        cases decide ((c u).lrPos ≥ 0) <;> cases decide ((c u).lrNeg ≥ 0) <;>
          simp only [setattr_active self u ha, routeT, torchCat0, redOpt_eq, pure, Except.pure] <;> rfl

/-- **`DelayAdjustedMSTDPD.forward`**: every selected active unit gets `cell.updater.delay = damdScalar …` /
`damdTensor …` (the causal branch carries `lr_neg`, `tc_neg`; subjects `(lr_neg * signal < 0, lr_pos * signal < 0)` /
`(lr_neg < 0, lr_pos < 0)`) -/
theorem gen_damstdpd_forward (self : Trainer (DAState ℝ) ℝ (Option ℝ) ν) (signal : Signal ℝ) (scale : ℝ)
    (cells : Option (List String))
    (c : DAUnit ν → DCfg) (r : DAUnit ν → Red) (d : DAUnit ν → ℝ) (bt : DAUnit ν → List (List Syn)) (t : ℕ)
    (h : ∀ u ∈ self.units, (selected cells u && active self u) = true →
      DAAbs u (c u) (r u) (d u) (bt u) t ∧ SignalFits signal (bt u).length) :
    DelayAdjustedMSTDPD_forward self signal scale cells
      = .ok (stepped self (fun u => selected cells u && active self u)
          (fun u => ("delay", damdParts (c u) (r u) (d u) (bt u) signal scale t)), ()) := by
  unfold DelayAdjustedMSTDPD_forward
  rw [forNamedUnits_ok self () _ (fun u => if (selected cells u && active self u) then
      assign u.cell ("delay", damdParts (c u) (r u) (d u) (bt u) signal scale t) else u.cell)]
  · rfl
  · intro u hu
    rw [cells_gate_eq, gate_eq]
    cases hs : selected cells u with
    | false => rfl
    | true =>
    cases ha : active self u with
    | false => rfl
    | true =>
      obtain ⟨⟨⟨mpost, hm1, hp1⟩, ⟨mpre, hm2, hp2⟩, hd, h1, h2, h3, h4, h5⟩, hfit⟩ := h u hu (by simp [hs, ha])
      simp only [Bool.not_true, Bool.false_eq_true, if_false, if_true, Bool.and_self, hm1, hm2, hp1, hp2, hd, bind,
        Except.bind, recSub, recZip_lift, unsqueezeLast, tdelta_lift, term_ge_lift, term_lt_lift, h5, nansum_lift,
        h1, h2, h3, h4]
      cases signal with
      | float sg =>
        simp only [damdParts, damdScalar, partial_, dadPosTerm, dadNegTerm, callReduce0]
        cases decide ((c u).lrNeg * sg < 0) <;> cases decide ((c u).lrPos * sg < 0) <;>
          simp only [setattr_active self u ha, routeD, pure, Except.pure] <;> rfl
      | tensor sig =>
        have hl : ∀ g : Syn → Option ℝ, (List.map (fun f => nansum (List.map g f)) (bt u)).length = sig.length := by
          intro g; rw [List.length_map]; exact hfit.symm
        simp only [scaled_eq _ _ sig scale (hl _), argwhereGe0_pick _ _ (scaled_length _ sig scale (hl _)),
          argwhereLt0_pick _ _ (scaled_length _ sig scale (hl _)), redOpt_eq]
        simp only [damdParts, damdTensor, partialB, dadPosTerm, dadNegTerm]
        cases decide ((c u).lrNeg < 0) <;> cases decide ((c u).lrPos < 0) <;>
          simp only [setattr_active self u ha, routeTD, torchCat0, redOpt_eq, pure, Except.pure] <;> rfl

/-! ### `LinearHomeostasis.forward` (any scalar type, any batch reduction) -/
section Homeostasis
variable {α : Type} [Add α] [Sub α] [Mul α] [Div α] [Neg α] [Zero α] [One α] [Max α] [Min α] [LE α] [DecidableLE α]
  [LT α] [DecidableLT α] [DecidableEq α] [NatCast α] [TorchFn α]

/-- a unit of `LinearHomeostasis` -/
abbrev HUnit (α ν : Type) := TUnit (HState α ν) α α ν

/-- the per-sample factor `k = postsyn_receptive((target - rate) / target).mean(dim=-1)` at the parameter position -/
def homeoK (N : NTOps α ν) (u : HUnit α ν) (tg : Target α ν) (m : Monitor α ν) : List α :=
  recMeanLast (u.cell.connection.postsyn_receptive (N.div (N.rsub tg m.peek) tg))

/-- attribute and pair `LinearHomeostasis.forward` assigns for a unit, in terms of `Split.homeostasis_split` -/
def homeoParts (N : NTOps α ν) (u : HUnit α ν) (tg : Target α ν) (m : Monitor α ν) : String × Split.Parts α :=
  if u.state.param = "weight" then
    ("weight", Split.homeostasis_split u.state.batchreduce ((homeoK N u tg m).map (· * u.state.plasticity)))
  else if u.state.param = "bias" then
    ("bias",
      ((Split.homeostasis_split u.state.batchreduce ((homeoK N u tg m).map (· * u.state.plasticity))).1.map
          u.cell.connection.like_bias,
        (Split.homeostasis_split u.state.batchreduce ((homeoK N u tg m).map (· * u.state.plasticity))).2.map
          u.cell.connection.like_bias))
  else
    ("delay", Split.homeostasis_split u.state.batchreduce ((homeoK N u tg m).map (· * -u.state.plasticity)))

/-- what is assumed of a trained unit: the rate monitor exists under its registered name; `state.param` is one of the
three names `_build_cell_state` accepts (`argtest.oneof`) -/
structure HAbs (u : HUnit α ν) (m : Monitor α ν) : Prop where
  rate : getitem u.monitors "spike_rate" = .ok m
  param : u.state.param = "weight" ∨ u.state.param = "bias" ∨ u.state.param = "delay"

/-- the target a unit is regulated towards in a call `forward(target)`: the argument when given, otherwise the unit's
own default `state.target` (a PER-CELL local `celltarget` of the loop body since the fix: commit that repaired the
carry-over of the first unit's default to the later units) -/
def cellTarget (target : Option (Target α ν)) (u : HUnit α ν) : Option (Target α ν) :=
  match target with
  | none => u.state.target
  | some t => some t

/-- a COPY of the loop body of the generated `LinearHomeostasis_forward` (`homeo_unfold` proves, by `rfl`, that the
generated method is the loop over exactly this body, so a change of the body is detected there); `target` is the
argument of `forward`, read but no longer rebound by the body -/
def homeoBody (N : NTOps α ν) (target : Option (Target α ν)) (cells : Option (List String)) :
    Trainer (HState α ν) α α ν → Unit → String → Cell α α ν → HState α ν →
      List (String × Monitor α ν) → Except Err (Cell α α ν × Unit) :=
    (fun self _c name cell state monitors => (do
      if (Option.elim cells false (fun cells => (!(strIn name cells)))) then
        pure (cell, ())
      else
        if ((!cell.training) || (!self.training) || (!cell.updater.isSome)) then
          pure (cell, ())
        else
          let celltarget ← (do
            if target.isNone then
              if state.target.isNone then
                throw Err.RuntimeError
              else
                let celltarget := state.target
                pure celltarget
            else
              let celltarget := target
              pure celltarget
            : Except Err _)
          let t1_ ← getitem monitors "spike_rate"
          let t2_ ← ntRsub N celltarget t1_.peek
          let t3_ ← ntDiv N t2_ celltarget
          let k := (recMeanLast (cell.connection.postsyn_receptive t3_))
          if (decide (state.param = "weight")) then
            let k := (bMulScalar k state.plasticity)
            let cell ← updater_setattr cell "weight" (some (callReduce0 state.batchreduce (bClampMin0 k)), some (callReduce0 state.batchreduce (bClampMax0 k)))
            pure (cell, ())
          else
            if (decide (state.param = "bias")) then
              let k := (bMulScalar k state.plasticity)
              let cell ← updater_setattr cell "bias" (some (cell.connection.like_bias (callReduce0 state.batchreduce (bClampMin0 k))), some (cell.connection.like_bias (callReduce0 state.batchreduce (bClampMax0 k))))
              pure (cell, ())
            else
              if (decide (state.param = "delay")) then
                let k := (bMulScalar k (-state.plasticity))
                let cell ← updater_setattr cell "delay" (some (callReduce0 state.batchreduce (bClampMin0 k)), some (callReduce0 state.batchreduce (bClampMax0 k)))
                pure (cell, ())
              else
                throw Err.ValueError
      : Except Err _))

/-- the generated method is the loop over `homeoBody` (no loop-carried local) -/
theorem homeo_unfold (N : NTOps α ν) (self : Trainer (HState α ν) α α ν) (target : Option (Target α ν))
    (cells : Option (List String)) :
    LinearHomeostasis_forward N self target cells =
      (match forNamedUnits self () (homeoBody N target cells) with
       | .ok (self, _) => .ok (self, ())
       | .error e => .error e) := by
  unfold LinearHomeostasis_forward homeoBody
  cases forNamedUnits self () _ <;> rfl

/-- the loop body on a unit whose target resolves to `tg` (`cellTarget`): a trained unit gets `homeoParts` for `tg`,
an untrained one is skipped -/
theorem homeo_body_ok (N : NTOps α ν) (self : Trainer (HState α ν) α α ν) (target : Option (Target α ν))
    (tg : Target α ν) (cells : Option (List String)) (m : Monitor α ν) (u : HUnit α ν)
    (h : (selected cells u && active self u) = true → HAbs u m ∧ cellTarget target u = some tg) :
    homeoBody N target cells self () u.name u.cell u.state u.monitors
      = .ok (if (selected cells u && active self u) then assign u.cell (homeoParts N u tg m) else u.cell, ()) := by
  unfold homeoBody
  simp only []
  rw [cells_gate_eq, gate_eq]
  cases hs : selected cells u with
  | false => rfl
  | true =>
  cases ha : active self u with
  | false => rfl
  | true =>
    obtain ⟨⟨hm, hp⟩, ht⟩ := h (by simp [hs, ha])
    cases target with
    | none =>
      have ht' : u.state.target = some tg := ht
      simp only [Bool.not_true, Bool.false_eq_true, if_false, if_true, Bool.and_self, Option.isNone_none,
        Option.isNone_some, ht', hm, bind, Except.bind, pure, Except.pure, ntRsub, ntDiv]
      unfold homeoParts homeoK Split.homeostasis_split
      rcases hp with hp | hp | hp <;>
        simp [hp, setattr_active self u ha, bMulScalar, bClampMin0, bClampMax0, callReduce0]
    | some t =>
      have ht' : t = tg := by simpa [cellTarget] using ht
      subst ht'
      simp only [Bool.not_true, Bool.false_eq_true, if_false, if_true, Bool.and_self,
        Option.isNone_some, hm, bind, Except.bind, pure, Except.pure, ntRsub, ntDiv]
      unfold homeoParts homeoK Split.homeostasis_split
      rcases hp with hp | hp | hp <;>
        simp [hp, setattr_active self u ha, bMulScalar, bClampMin0, bClampMax0, callReduce0]

/-- a trained unit reached with `target = None` and no default of its own raises `RuntimeError` -/
theorem homeo_body_no_target (N : NTOps α ν) (self : Trainer (HState α ν) α α ν) (cells : Option (List String))
    (u : HUnit α ν) (h : (selected cells u && active self u) = true) (ht : u.state.target = none) :
    homeoBody N none cells self () u.name u.cell u.state u.monitors = .error .RuntimeError := by
  have hs : selected cells u = true := by
    cases hs : selected cells u <;> simp [hs] at h ⊢
  have ha : active self u = true := by simpa [hs] using h
  unfold homeoBody
  simp only []
  rw [cells_gate_eq, gate_eq]
  simp only [hs, ha, Bool.not_true, Bool.false_eq_true, if_false, if_true, Option.isNone_none, ht,
    bind, Except.bind, pure, Except.pure, throw, throwThe, MonadExceptOf.throw]

/-- **`LinearHomeostasis.forward(target)`, any `target` argument**: every selected active unit `u` gets
`cell.updater.<param> = …` with the pair of `Split.homeostasis_split` on `k * plasticity` (`-plasticity` for delays,
`like_bias` of both parts for biases; the second part is NOT negated — D9), where `k` is computed from the target
`tgOf u` that `cellTarget target u` resolves to — the argument when given, the unit's OWN default otherwise; nothing
else changes -/
theorem gen_homeostasis_forward_any (N : NTOps α ν) (self : Trainer (HState α ν) α α ν)
    (target : Option (Target α ν)) (cells : Option (List String)) (m : HUnit α ν → Monitor α ν)
    (tgOf : HUnit α ν → Target α ν)
    (h : ∀ u ∈ self.units, (selected cells u && active self u) = true →
      HAbs u (m u) ∧ cellTarget target u = some (tgOf u)) :
    LinearHomeostasis_forward N self target cells
      = .ok (stepped self (fun u => selected cells u && active self u)
          (fun u => homeoParts N u (tgOf u) (m u)), ()) := by
  rw [homeo_unfold, forNamedUnits_ok self () _ (fun u => if (selected cells u && active self u) then
      assign u.cell (homeoParts N u (tgOf u) (m u)) else u.cell)]
  · rfl
  · intro u hu
    exact homeo_body_ok N self target (tgOf u) cells (m u) u (h u hu)

/-- **`LinearHomeostasis.forward(target)` with an explicit target**: every selected active unit is regulated towards
`tg`, whatever its own default is -/
theorem gen_homeostasis_forward (N : NTOps α ν) (self : Trainer (HState α ν) α α ν) (tg : Target α ν)
    (cells : Option (List String)) (m : HUnit α ν → Monitor α ν)
    (h : ∀ u ∈ self.units, (selected cells u && active self u) = true → HAbs u (m u)) :
    LinearHomeostasis_forward N self (some tg) cells
      = .ok (stepped self (fun u => selected cells u && active self u) (fun u => homeoParts N u tg (m u)), ()) :=
  gen_homeostasis_forward_any N self (some tg) cells m (fun _ => tg) (fun u hu ha => ⟨h u hu ha, rfl⟩)

/-- **`LinearHomeostasis.forward(None)`: every selected active unit is regulated towards ITS OWN default target**
`state.target = some (tgOf u)` — the documented per-cell default.  (Before the fix: commit the body rebound the local
`target`, and the first trained unit's default was used for all later units; the theorem that described that defect,
`gen_homeostasis_target_carried`, is replaced by this one.) -/
theorem gen_homeostasis_default_targets (N : NTOps α ν) (self : Trainer (HState α ν) α α ν)
    (cells : Option (List String)) (m : HUnit α ν → Monitor α ν) (tgOf : HUnit α ν → Target α ν)
    (h : ∀ u ∈ self.units, (selected cells u && active self u) = true →
      HAbs u (m u) ∧ u.state.target = some (tgOf u)) :
    LinearHomeostasis_forward N self none cells
      = .ok (stepped self (fun u => selected cells u && active self u)
          (fun u => homeoParts N u (tgOf u) (m u)), ()) :=
  gen_homeostasis_forward_any N self none cells m tgOf (fun u hu ha => h u hu ha)

/-- a loop raises the exception of the first unit whose body raises, when the bodies of the units before it succeed -/
theorem forUnitsAux_error {σ ε : Type} (self : Trainer σ α ε ν)
    (body : Trainer σ α ε ν → Unit → String → Cell α ε ν → σ → List (String × Monitor α ν) → Except Err (Cell α ε ν × Unit))
    (g : TUnit σ α ε ν → Cell α ε ν) (pre : List (TUnit σ α ε ν)) (u : TUnit σ α ε ν) (us : List (TUnit σ α ε ν))
    (e : Err)
    (hpre : ∀ v ∈ pre, body self () v.name v.cell v.state v.monitors = .ok (g v, ()))
    (hu : body self () u.name u.cell u.state u.monitors = .error e) :
    forUnitsAux self body (pre ++ u :: us) () = .error e := by
  induction pre with
  | nil => simp only [List.nil_append, forUnitsAux, hu]
  | cons v pre ih =>
    simp only [List.cons_append, forUnitsAux, hpre v (by simp), ih (fun w hw => hpre w (by simp [hw]))]

/-- **`forward(None)` raises `RuntimeError`** at the first selected active unit that has no default target, when the
units before it are regulated without an exception -/
theorem gen_homeostasis_no_target (N : NTOps α ν) (self : Trainer (HState α ν) α α ν) (cells : Option (List String))
    (m : HUnit α ν → Monitor α ν) (tgOf : HUnit α ν → Target α ν)
    (pre : List (HUnit α ν)) (u : HUnit α ν) (us : List (HUnit α ν)) (hu : self.units = pre ++ u :: us)
    (hpre : ∀ v ∈ pre, (selected cells v && active self v) = true → HAbs v (m v) ∧ v.state.target = some (tgOf v))
    (h : (selected cells u && active self u) = true) (ht : u.state.target = none) :
    LinearHomeostasis_forward N self none cells = .error .RuntimeError := by
  rw [homeo_unfold]
  unfold forNamedUnits
  rw [hu, forUnitsAux_error self _ (fun v => if (selected cells v && active self v) then
      assign v.cell (homeoParts N v (tgOf v) (m v)) else v.cell) pre u us .RuntimeError
    (fun v hv => homeo_body_ok N self none (tgOf v) cells (m v) v (fun ha => hpre v hv ha))
    (homeo_body_no_target N self cells u h ht)]

end Homeostasis

/-! ### the kernel trainers' pair in terms of `Model/Split.lean` (any scalar type, any batch reduction, any kernels) -/
section KernelSplit
variable {α : Type} [Add α] [Neg α] [Zero α] [Max α] [Min α]

/-- the pair the three kernel trainers assign to `cell.updater.weight` / `.delay`, as a function of the SIGNED kernel
outputs `dpost`, `dpre` (receptive format, `none` = `NaN`), is `Split.kernel_split` — the function
`Props/C09.lean :: kernel_split_nets_sum` is about -/
theorem gen_kernel_parts_split (red : List α → α) (dpost dpre : Rec (Option α)) :
    ((some ((callReduce0 red (recNansumLast (recClampMin0 dpost))) + (callReduce0 red (recNansumLast (recClampMin0 dpre)))),
      some (-((callReduce0 red (recNansumLast (recClampMax0 dpost))) + (callReduce0 red (recNansumLast (recClampMax0 dpre)))))) :
        Split.Parts α)
      = Split.kernel_split red dpost dpre := by
  simp only [callReduce0, recNansumLast, recClampMin0, recClampMax0, Split.kernel_split, List.map_map]
  rfl

end KernelSplit

/-! ### non-vacuity: the abstraction hypotheses are satisfiable for every model datum -/

/-- for any hyperparameters, reduction, delay and spike trains there is an active unit satisfying `DAAbs`
(monitors holding the lifted folds, identity reshapes) -/
example (c : DCfg) (r : Red) (d : ℝ) (bt : List (List Syn)) (t : ℕ) :
    ∃ (self : Trainer (DAState ℝ) ℝ (Option ℝ) (Rec (Option ℝ))) (u : DAUnit (Rec (Option ℝ))),
      self.units = [u] ∧ active self u = true ∧ DAAbs u c r d bt t := by
  let u : DAUnit (Rec (Option ℝ)) :=
    { name := "cell"
      cell := { training := true
                connection := { postsyn_receptive := id, presyn_receptive := id, delay := some d, delayedby := some 1,
                                selector := none, like_bias := id }
                updater := some [] }
      state := ⟨c.lrPos, c.lrNeg, c.tcPos, c.tcNeg, reduce r⟩
      monitors := [("spike_post", ⟨lift bt (fun s => sinceLast c.dt s.post t), fun _ _ => []⟩),
                   ("spike_pre", ⟨lift bt (fun s => sinceLast c.dt s.pre t), fun _ _ => []⟩)] }
  exact ⟨⟨true, [u]⟩, u, rfl, rfl, ⟨⟨_, rfl, rfl⟩, ⟨_, rfl, rfl⟩,
    rfl, rfl, rfl, rfl, rfl, rfl⟩⟩

/-- … and one satisfying `KAbs` for any point-wise half kernels -/
example (dt : ℝ) (r : Red) (kpost kpre : ℝ → ℝ) (d : ℝ) (bt : List (List Syn)) (t : ℕ) :
    ∃ (self : Trainer (KState ℝ Unit) ℝ (Option ℝ) (Rec (Option ℝ))) (u : KUnit (Rec (Option ℝ)) Unit),
      self.units = [u] ∧ active self u = true ∧ KAbs u dt r kpost kpre d bt t := by
  let u : KUnit (Rec (Option ℝ)) Unit :=
    { name := "cell"
      cell := { training := true
                connection := { postsyn_receptive := id, presyn_receptive := id, delay := some d, delayedby := some 1,
                                selector := none, like_bias := id }
                updater := some [] }
      state := { kernel_post := fun X _ => pointwise kpost X, kernel_pre := fun X _ => pointwise kpre X,
                 kernel_post_kwargs := [], kernel_pre_kwargs := [], kernel_post_tensor_kwargs := ⟨[]⟩,
                 kernel_pre_tensor_kwargs := ⟨[]⟩, delayed := false, tolerance := 0, batchreduce := reduce r }
      monitors := [("spike_post", ⟨lift bt (fun s => sinceLast dt s.post t), fun _ _ => []⟩),
                   ("spike_pre", ⟨lift bt (fun s => sinceLast dt s.pre t), fun _ _ => []⟩)] }
  exact ⟨⟨true, [u]⟩, u, rfl, rfl, ⟨⟨_, rfl, rfl⟩, ⟨_, rfl, rfl⟩,
    rfl, fun _ => rfl, fun _ => rfl, rfl⟩⟩

end InfernoVerif.DSTDP.GlueProg
